package t1gen

import (
	"fmt"

	"verif/model/t1model"
)

// Charstring command codes (Adobe Type 1 Font Format, chapter 6).
var (
	opHstem           = []byte{1}
	opVstem           = []byte{3}
	opVmoveto         = []byte{4}
	opRlineto         = []byte{5}
	opHlineto         = []byte{6}
	opVlineto         = []byte{7}
	opRrcurveto       = []byte{8}
	opClosepath       = []byte{9}
	opCallsubr        = []byte{10}
	opReturn          = []byte{11}
	opHsbw            = []byte{13}
	opEndchar         = []byte{14}
	opRmoveto         = []byte{21}
	opHmoveto         = []byte{22}
	opVhcurveto       = []byte{30}
	opHvcurveto       = []byte{31}
	opDotsection      = []byte{12, 0}
	opVstem3          = []byte{12, 1}
	opHstem3          = []byte{12, 2}
	opSeac            = []byte{12, 6}
	opSbw             = []byte{12, 7}
	opDiv             = []byte{12, 12}
	opCallothersubr   = []byte{12, 16}
	opPop             = []byte{12, 17}
	opSetcurrentpoint = []byte{12, 33}
)

// Number forms.
const (
	NumShortest = iota // 1-, 2- or 5-byte form, whichever is shortest; fractions as reduced `p q div`
	NumFive            // every integer operand in the 5-byte form (255 + big-endian int32)
	NumDiv             // every operand as a quotient: integers n as `2n 2 div`, fractions p/q as `3p 3q div`
	numForms
)

type tok struct {
	isOp bool
	op   []byte
	n    t1model.Q
	form int
}

// appendInt writes one integer in the given byte form.
func appendInt(buf []byte, v int64, five bool) []byte {
	if v < -(1<<31) || v > (1<<31)-1 {
		panic(fmt.Sprintf("t1gen: charstring integer %d out of range", v))
	}
	switch {
	case five:
	case v >= -107 && v <= 107:
		return append(buf, byte(v+139))
	case v >= 108 && v <= 1131:
		w := v - 108
		return append(buf, byte(247+w>>8), byte(w&255))
	case v >= -1131 && v <= -108:
		w := -v - 108
		return append(buf, byte(251+w>>8), byte(w&255))
	}
	u := uint32(int32(v))
	return append(buf, 255, byte(u>>24), byte(u>>16), byte(u>>8), byte(u))
}

func appendNum(buf []byte, q t1model.Q, form int) []byte {
	if q.IsInt() {
		switch form {
		case NumFive:
			return appendInt(buf, q.P, true)
		case NumDiv:
			buf = appendInt(buf, 2*q.P, false)
			buf = appendInt(buf, 2, false)
			return append(buf, opDiv...)
		}
		return appendInt(buf, q.P, false)
	}
	p, d := q.P, q.D
	five := form == NumFive
	if form == NumDiv {
		p, d = 3*p, 3*d
	}
	buf = appendInt(buf, p, five)
	buf = appendInt(buf, d, five)
	return append(buf, opDiv...)
}

func encodeToks(toks []tok) []byte {
	var buf []byte
	for _, t := range toks {
		if t.isOp {
			buf = append(buf, t.op...)
		} else {
			buf = appendNum(buf, t.n, t.form)
		}
	}
	return buf
}

// Charstring encryption (Type 1 book, section 7.3): key 4330, c1 52845, c2 22719,
// n lead bytes in front of the plain text.
func encryptCharstring(plain []byte, lead []byte) []byte {
	out := make([]byte, 0, len(lead)+len(plain))
	r := uint16(4330)
	for _, p := range append(append([]byte(nil), lead...), plain...) {
		c := p ^ byte(r>>8)
		r = (uint16(c)+r)*52845 + 22719
		out = append(out, c)
	}
	return out
}

// leadBytes returns n deterministic lead bytes that differ from one string to the next.
func leadBytes(n int, salt int) []byte {
	b := make([]byte, n)
	x := uint32(salt*2654435761 + 12345)
	for i := range b {
		x = x*1664525 + 1013904223
		b[i] = byte(x >> 24)
	}
	return b
}

// Subroutine factoring modes.
const (
	SubrNone     = iota
	SubrContour  // the whole first contour lives in a Subr
	SubrTail     // everything after the first moveto up to (not including) endchar lives in a Subr
	SubrNested   // first contour in a Subr whose second half is in another Subr (two deep)
	SubrOperator // the first moveto's operator alone in a Subr; its operands stay in the caller
	SubrDeep     // first contour in a Subr reached through a chain of calls ten deep (the format's maximum nesting)
	subrModes
)

// GlyphOpts are the serialisation choices for one glyph.
type GlyphOpts struct {
	// GeneralForm[i]: write path command i (moves and segments counted in
	// order over all contours) with rmoveto/rlineto/rrcurveto even though a
	// shorter h/v form is legal.
	GeneralForm map[int]bool
	// NumForm[i]: number form of operand-carrying command i (0 = sbw/hsbw,
	// then the stem commands, then moves and segments in order).
	NumForm map[int]int
	Subr    int
	// Flex[i]: path command i is a curve marked FlexOK and is written,
	// together with the following curve, as a flex through Subrs 0-2.
	Flex       map[int]bool
	HintRepl   bool // hints are re-declared through Subr 4+ and othersubr 3 after the first moveto; counter control (othersubrs 12, 13) behind hsbw
	DotSection bool // the first contour is bracketed by dotsection
	ForceSbw   bool // hsbw-expressible metrics are written with sbw and zeros
	VStemFirst bool // vertical stems are declared before horizontal ones
	// NoClosepath: contours are not closed explicitly (C10 only: unusual but
	// accepted input; C06 requires the explicit closepath).
	NoClosepath bool
}

// GlyphLayout tells the driver which per-glyph choices are legal.
type GlyphLayout struct {
	NumCmds    int    // operand-carrying commands (indexes of NumForm)
	PathCmds   int    // moves and segments (indexes of GeneralForm and Flex)
	Compact    []int  // path command indexes for which an h/v form is legal
	FlexAt     []int  // path command indexes that may start a flex
	FlexAfter  []byte // for each FlexAt entry what precedes it: 'M', 'L' or 'C'
	FlexCont   []int  // for each FlexAt entry the index of its contour
	CanSubr    bool
	CanHint    bool
	CanDot     bool
	CanForceSb bool
}

type pathCmd struct {
	kind   byte // 'M', 'L', 'C'
	from   t1model.Pt
	seg    t1model.Seg
	to     t1model.Pt
	ci, si int
	prev   byte
}

func pathCmds(g *t1model.Glyph) []pathCmd {
	var out []pathCmd
	cur := t1model.Pt{X: g.Sbx, Y: g.Sby}
	for ci, c := range g.Contours {
		out = append(out, pathCmd{kind: 'M', from: cur, to: c.Start, ci: ci, si: -1})
		cur = c.Start
		prev := byte('M')
		for si, s := range c.Segs {
			k := byte('L')
			if s.Kind == t1model.Curve {
				k = 'C'
			}
			out = append(out, pathCmd{kind: k, from: cur, seg: s, to: s.End(), ci: ci, si: si, prev: prev})
			cur = s.End()
			prev = k
		}
		// Type 1 closepath does not move the current point.
	}
	return out
}

func (pc pathCmd) compactLegal() bool {
	switch pc.kind {
	case 'M', 'L':
		dx, dy := pc.to.X.Sub(pc.from.X), pc.to.Y.Sub(pc.from.Y)
		return dx.IsZero() || dy.IsZero()
	case 'C':
		d1x, d1y := pc.seg.P[0].X.Sub(pc.from.X), pc.seg.P[0].Y.Sub(pc.from.Y)
		d3x, d3y := pc.seg.P[2].X.Sub(pc.seg.P[1].X), pc.seg.P[2].Y.Sub(pc.seg.P[1].Y)
		return (d1y.IsZero() && d3x.IsZero()) || (d1x.IsZero() && d3y.IsZero())
	}
	return false
}

func ptInt(p t1model.Pt) bool { return p.X.IsInt() && p.Y.IsInt() }

// Layout reports the legal per-glyph choices.
func Layout(g *t1model.Glyph) GlyphLayout {
	var l GlyphLayout
	if g.Comp != nil {
		l.NumCmds = 1
		l.CanForceSb = !g.Sbw
		return l
	}
	l.NumCmds = 1 + stemCmdCount(g)
	pcs := pathCmds(g)
	l.PathCmds = len(pcs)
	l.NumCmds += len(pcs)
	for i, pc := range pcs {
		if pc.compactLegal() {
			l.Compact = append(l.Compact, i)
		}
		if pc.kind == 'C' && pc.seg.FlexOK && i+1 < len(pcs) && pcs[i+1].kind == 'C' && pcs[i+1].ci == pc.ci {
			// flex coordinates are written as integers
			if ptInt(pc.from) && ptInt(pc.seg.P[0]) && ptInt(pc.seg.P[1]) && ptInt(pc.seg.P[2]) &&
				ptInt(pcs[i+1].seg.P[0]) && ptInt(pcs[i+1].seg.P[1]) && ptInt(pcs[i+1].seg.P[2]) {
				l.FlexAt = append(l.FlexAt, i)
				l.FlexAfter = append(l.FlexAfter, pc.prev)
				l.FlexCont = append(l.FlexCont, pc.ci)
			}
		}
	}
	l.CanSubr = len(g.Contours) > 0 && len(g.Contours[0].Segs) >= 2
	l.CanHint = g.HasHints() && len(g.Contours) > 0
	l.CanDot = len(g.Contours) > 0
	l.CanForceSb = !g.Sbw
	return l
}

func stemCmdCount(g *t1model.Glyph) int {
	n := 0
	if g.HStem3 {
		n++
	} else {
		n += len(g.HStems)
	}
	if g.VStem3 {
		n++
	} else {
		n += len(g.VStems)
	}
	return n
}
