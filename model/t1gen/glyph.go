package t1gen

import (
	"fmt"

	"verif/model/t1model"
)

type q = t1model.Q

// subrTable collects the Subrs array of the font being produced.
type subrTable struct {
	needed bool
	holes  bool     // leave an unset array element before every subroutine (as subsetters do)
	extra  [][]byte // plain bodies of Subrs 4, 5, ...; nil = element left unset
}

func (t *subrTable) add(body []tok) int {
	t.needed = true
	if t.holes {
		t.extra = append(t.extra, nil)
	}
	t.extra = append(t.extra, encodeToks(body))
	return 4 + len(t.extra) - 1
}

// standardSubrs are Subrs 0-3 as the Type 1 book prescribes them (section 8.3, 8.1).
func standardSubrs() [][]byte {
	n := func(v int64) tok { return tok{n: t1model.I(v)} }
	o := func(b []byte) tok { return tok{isOp: true, op: b} }
	return [][]byte{
		encodeToks([]tok{n(3), n(0), o(opCallothersubr), o(opPop), o(opPop), o(opSetcurrentpoint), o(opReturn)}),
		encodeToks([]tok{n(0), n(1), o(opCallothersubr), o(opReturn)}),
		encodeToks([]tok{n(0), n(2), o(opCallothersubr), o(opReturn)}),
		encodeToks([]tok{o(opReturn)}),
	}
}

type csBuilder struct {
	toks    []tok
	cmdIdx  int
	numForm map[int]int
}

func (b *csBuilder) num(v q, form int) { b.toks = append(b.toks, tok{n: v, form: form}) }
func (b *csBuilder) inum(v int64)      { b.toks = append(b.toks, tok{n: t1model.I(v)}) }
func (b *csBuilder) op(o []byte)       { b.toks = append(b.toks, tok{isOp: true, op: o}) }

// cmd emits one operand-carrying command in the number form chosen for it.
func (b *csBuilder) cmd(o []byte, args ...q) {
	f := b.numForm[b.cmdIdx]
	for _, a := range args {
		b.num(a, f)
	}
	b.op(o)
	b.cmdIdx++
}

// emitStems declares the glyph's stems.  hstem: y is relative to the y
// coordinate of the left side bearing point, vstem: x relative to its x
// coordinate (Type 1 book, hstem/vstem).  indexed=false is used for the copy
// inside a hint replacement subroutine (always shortest number form).
func emitStems(b *csBuilder, g *t1model.Glyph, vfirst, indexed bool) error {
	dir := func(stems []t1model.Stem, three bool, sb q, op, op3 []byte) error {
		if len(stems) == 0 {
			return nil
		}
		if !sb.IsInt() {
			return fmt.Errorf("glyph %s: hints with fractional side bearing", g.Name)
		}
		var args []q
		for _, s := range stems {
			args = append(args, t1model.I(int64(s.Lo)-sb.P), t1model.I(int64(s.Hi-s.Lo)))
		}
		emit := func(o []byte, a ...q) {
			if indexed {
				b.cmd(o, a...)
				return
			}
			for _, x := range a {
				b.num(x, NumShortest)
			}
			b.op(o)
		}
		if three {
			if len(stems) != 3 {
				return fmt.Errorf("glyph %s: stem3 needs exactly three stems", g.Name)
			}
			emit(op3, args...)
			return nil
		}
		for i := 0; i < len(args); i += 2 {
			emit(op, args[i], args[i+1])
		}
		return nil
	}
	h := func() error { return dir(g.HStems, g.HStem3, g.Sby, opHstem, opHstem3) }
	v := func() error { return dir(g.VStems, g.VStem3, g.Sbx, opVstem, opVstem3) }
	first, second := h, v
	if vfirst {
		first, second = v, h
	}
	if err := first(); err != nil {
		return err
	}
	return second()
}

func sub(a, b t1model.Pt) (q, q) { return a.X.Sub(b.X), a.Y.Sub(b.Y) }

// buildGlyph produces the plain (unencrypted) charstring of g.
func buildGlyph(m *t1model.Font, g *t1model.Glyph, o *GlyphOpts, tbl *subrTable, reencodedSeac bool) ([]byte, error) {
	if o == nil {
		o = &GlyphOpts{}
	}
	b := &csBuilder{numForm: o.NumForm}
	if g.Sbw || o.ForceSbw {
		b.cmd(opSbw, g.Sbx, g.Sby, g.WidthX, g.WidthY)
	} else {
		if !g.Sby.IsZero() || !g.WidthY.IsZero() {
			return nil, fmt.Errorf("glyph %s: hsbw cannot express sby/wy", g.Name)
		}
		b.cmd(opHsbw, g.Sbx, g.WidthX)
	}

	if g.Comp != nil {
		base, acc := m.Glyph(g.Comp.Base), m.Glyph(g.Comp.Accent)
		if base == nil || acc == nil || base.Comp != nil || acc.Comp != nil {
			return nil, fmt.Errorf("glyph %s: seac components missing", g.Name)
		}
		bc, ac := t1model.StandardCode(base.Name), t1model.StandardCode(acc.Name)
		if bc < 0 || ac < 0 {
			return nil, fmt.Errorf("glyph %s: seac components must be in StandardEncoding", g.Name)
		}
		// Type 1 book: the characters must sit at their StandardEncoding
		// positions in the font's encoding vector as well.
		enc := m.EncodingNames()
		if !reencodedSeac && (enc[bc] != base.Name || enc[ac] != acc.Name) {
			return nil, fmt.Errorf("glyph %s: seac components not at their StandardEncoding codes in the font's encoding", g.Name)
		}
		// section 10 of DESIGN.md: asb equals the composite's side bearing;
		// the book: composite's hsbw equals the base character's.
		if !acc.Sbx.Eq(g.Sbx) || !base.Sbx.Eq(g.Sbx) || !base.WidthX.Eq(g.WidthX) || g.Sbw || base.Sbw || acc.Sbw {
			return nil, fmt.Errorf("glyph %s: seac side bearing / width restrictions violated", g.Name)
		}
		if acc.HasHints() {
			return nil, fmt.Errorf("glyph %s: accent with hints", g.Name)
		}
		b.num(acc.Sbx, NumShortest)
		b.num(g.Comp.Adx, NumShortest)
		b.num(g.Comp.Ady, NumShortest)
		b.inum(int64(bc))
		b.inum(int64(ac))
		b.op(opSeac)
		return encodeToks(b.toks), nil
	}

	if o.HintRepl {
		// Fonts with hint replacement usually carry counter control as well (Type 1
		// Font Format Supplement, OtherSubrs 12 and 13, directly behind hsbw): the
		// arguments go in groups of 22, which together with the count and the
		// number fills the charstring operand stack of 24 entries.  A reader that
		// does not know these numbers passes the call over.
		for i := 0; i < 22; i++ {
			b.inum(int64(i%7) * 10)
		}
		b.inum(22)
		b.inum(12)
		b.op(opCallothersubr)
		for _, v := range []int64{1, 20, 3, 3, 13} {
			b.inum(v)
		}
		b.op(opCallothersubr)
	}
	if err := emitStems(b, g, o.VStemFirst, true); err != nil {
		return nil, err
	}

	pcs := pathCmds(g)
	var (
		c0s, c0e   = -1, -1 // token range of the first contour
		afterMove0 = -1
		units0     []int // start of each unit inside the first contour
		move0Op    = -1
	)
	if o.DotSection && len(g.Contours) > 0 {
		b.op(opDotsection)
	}
	for i := 0; i < len(pcs); i++ {
		pc := pcs[i]
		first := pc.ci == 0
		if first {
			units0 = append(units0, len(b.toks))
		}
		general := o.GeneralForm[i]
		dx, dy := sub(pc.to, pc.from)
		switch pc.kind {
		case 'M':
			if pc.ci > 0 {
				if !o.NoClosepath {
					b.op(opClosepath)
				}
				if pc.ci == 1 {
					c0e = len(b.toks)
					if o.DotSection {
						b.op(opDotsection)
					}
				}
			}
			if first {
				c0s = len(b.toks)
				units0[len(units0)-1] = c0s
			}
			switch {
			case !general && dy.IsZero():
				b.cmd(opHmoveto, dx)
			case !general && dx.IsZero():
				b.cmd(opVmoveto, dy)
			default:
				b.cmd(opRmoveto, dx, dy)
			}
			if first {
				move0Op = len(b.toks) - 1
				afterMove0 = len(b.toks)
				if o.HintRepl {
					if !g.HasHints() {
						return nil, fmt.Errorf("glyph %s: hint replacement without hints", g.Name)
					}
					// Subr N re-declares the glyph's hints (same set, so that an
					// interpreter with and one without hint replacement agree).
					sb := &csBuilder{}
					if err := emitStems(sb, g, o.VStemFirst, false); err != nil {
						return nil, err
					}
					sb.op(opReturn)
					n := tbl.add(sb.toks)
					units0 = append(units0, len(b.toks))
					b.inum(int64(n))
					b.inum(1)
					b.inum(3)
					b.op(opCallothersubr)
					b.op(opPop)
					b.op(opCallsubr)
				}
			}
		case 'L':
			switch {
			case !general && dy.IsZero():
				b.cmd(opHlineto, dx)
			case !general && dx.IsZero():
				b.cmd(opVlineto, dy)
			default:
				b.cmd(opRlineto, dx, dy)
			}
		case 'C':
			if o.Flex[i] {
				if !pc.seg.FlexOK || i+1 >= len(pcs) || pcs[i+1].kind != 'C' || pcs[i+1].ci != pc.ci {
					return nil, fmt.Errorf("glyph %s: flex at path command %d is not legal", g.Name, i)
				}
				nx := pcs[i+1]
				pts := []t1model.Pt{pc.seg.P[0], pc.seg.P[1], pc.seg.P[2], nx.seg.P[0], nx.seg.P[1], nx.seg.P[2]}
				for _, p := range append([]t1model.Pt{pc.from}, pts...) {
					if !ptInt(p) {
						return nil, fmt.Errorf("glyph %s: flex with fractional coordinates", g.Name)
					}
				}
				joint := pc.seg.P[2]
				ref := t1model.Pt{X: joint.X, Y: pc.from.Y} // horizontal flex
				if pc.seg.FlexVertical {
					ref = t1model.Pt{X: pc.from.X, Y: joint.Y}
				}
				tbl.needed = true
				f1, f2 := b.numForm[b.cmdIdx], b.numForm[b.cmdIdx+1]
				b.cmdIdx += 2
				b.inum(1)
				b.op(opCallsubr)
				prev := pc.from
				for k, p := range append([]t1model.Pt{ref}, pts...) {
					f := f1
					if k >= 4 {
						f = f2
					}
					ddx, ddy := sub(p, prev)
					b.num(ddx, f)
					b.num(ddy, f)
					b.op(opRmoveto)
					b.inum(2)
					b.op(opCallsubr)
					prev = p
				}
				b.num(t1model.I(50), f2)
				b.num(nx.to.X, f2)
				b.num(nx.to.Y, f2)
				b.inum(0)
				b.op(opCallsubr)
				i++ // the second curve is part of the flex
				break
			}
			d1x, d1y := sub(pc.seg.P[0], pc.from)
			d2x, d2y := sub(pc.seg.P[1], pc.seg.P[0])
			d3x, d3y := sub(pc.seg.P[2], pc.seg.P[1])
			switch {
			case !general && d1y.IsZero() && d3x.IsZero():
				b.cmd(opHvcurveto, d1x, d2x, d2y, d3y)
			case !general && d1x.IsZero() && d3y.IsZero():
				b.cmd(opVhcurveto, d1y, d2x, d2y, d3x)
			default:
				b.cmd(opRrcurveto, d1x, d1y, d2x, d2y, d3x, d3y)
			}
		}
	}
	if len(g.Contours) > 0 {
		if len(g.Contours) == 1 {
			units0 = append(units0, len(b.toks))
		}
		if !o.NoClosepath {
			b.op(opClosepath)
		}
		if len(g.Contours) == 1 {
			c0e = len(b.toks)
			if o.DotSection {
				b.op(opDotsection)
			}
		}
	}
	endIdx := len(b.toks)
	b.op(opEndchar)

	toks := b.toks
	callTo := func(n int) []tok {
		return []tok{{n: t1model.I(int64(n))}, {isOp: true, op: opCallsubr}}
	}
	ret := tok{isOp: true, op: opReturn}
	clone := func(t []tok) []tok { return append([]tok(nil), t...) }
	splice := func(t []tok, s, e int, with []tok) []tok {
		out := clone(t[:s])
		out = append(out, with...)
		return append(out, t[e:]...)
	}
	if o.Subr != SubrNone && (c0s < 0 || c0e <= c0s) {
		return nil, fmt.Errorf("glyph %s: subroutine factoring needs a contour", g.Name)
	}
	switch o.Subr {
	case SubrNone:
	case SubrContour:
		n := tbl.add(append(clone(toks[c0s:c0e]), ret))
		toks = splice(toks, c0s, c0e, callTo(n))
	case SubrTail:
		if afterMove0 >= endIdx {
			return nil, fmt.Errorf("glyph %s: empty tail", g.Name)
		}
		n := tbl.add(append(clone(toks[afterMove0:endIdx]), ret))
		toks = splice(toks, afterMove0, endIdx, callTo(n))
	case SubrNested:
		// units0 holds the unit starts of contour 0 (those at or after c0s)
		var us []int
		for _, u := range units0 {
			if u > c0s && u < c0e {
				us = append(us, u)
			}
		}
		if len(us) == 0 {
			return nil, fmt.Errorf("glyph %s: contour too short for nested subroutines", g.Name)
		}
		mid := us[len(us)/2]
		nB := tbl.add(append(clone(toks[mid:c0e]), ret))
		bodyA := append(clone(toks[c0s:mid]), callTo(nB)...)
		nA := tbl.add(append(bodyA, ret))
		toks = splice(toks, c0s, c0e, callTo(nA))
	case SubrDeep:
		// the contour's own calls (flex, hint replacement) nest one level deeper
		maxDepth := 10
		for _, t := range toks[c0s:c0e] {
			if t.isOp && len(t.op) == 1 && t.op[0] == opCallsubr[0] {
				maxDepth = 9
			}
		}
		n := tbl.add(append(clone(toks[c0s:c0e]), ret))
		for depth := 2; depth <= maxDepth; depth++ {
			n = tbl.add(append(callTo(n), ret))
		}
		toks = splice(toks, c0s, c0e, callTo(n))
	case SubrOperator:
		n := tbl.add([]tok{toks[move0Op], ret})
		toks = splice(toks, move0Op, move0Op+1, callTo(n))
	default:
		return nil, fmt.Errorf("unknown subr mode %d", o.Subr)
	}
	return encodeToks(toks), nil
}
