// Package t1gen is an independent producer of Type 1 font programs, written
// from the Adobe Type 1 Font Format book, the PLRM and technical note 5040
// (PFB).  It never calls the library's writer, its charstring encoder or its
// ciphers.  Every serialisation decision is an explicit field of Options so
// that a check can enumerate the decisions.
package t1gen

import (
	"bytes"
	"fmt"
	"strconv"
	"strings"
	"time"

	"verif/model/t1model"
)

// Container formats.
const (
	PFA      = iota // hex eexec
	Binary          // binary eexec
	PFB             // PFB wrapper: text, binary, text segments and the end marker
	NoEexec         // no eexec: the private part follows in clear text
	PFBSplit        // PFB with the text and the binary data each split over two segments
	// BinaryHexStart: binary eexec whose first three cipher bytes are hex
	// digits and only the fourth is not (the book requires just one of the
	// first four not to be a hex digit).
	BinaryHexStart
	// BinaryCtrlStart: binary eexec whose first cipher byte is a control
	// character that is NOT one of the four bytes the book excludes (blank,
	// tab, CR, LF): form feed, then NUL, a hex digit and 0x1f.
	BinaryCtrlStart
	// BinaryHexAndCtrl: binary eexec whose first four cipher bytes are three
	// hex digits and one control byte that is white space to a PostScript
	// scanner but not to the eexec rule (NUL): '1' 00 'f' '7'.
	BinaryHexAndCtrl
	NumContainers
)

var containerNames = []string{"pfa", "binary", "pfb", "noeexec", "pfbsplit", "binary-hexstart", "binary-ctrlstart", "binary-hex-and-ctrl"}

// ContainerName names a container format.
func ContainerName(c int) string { return containerNames[c] }

// Encoding forms.
const (
	EncCompact      = iota // `StandardEncoding def` for a standard-encoded font, else an explicit array
	EncExplicit            // explicit 256 array, `dup i /name put` for the codes of present glyphs only
	EncNamingAbsent        // explicit array that also names glyphs the font does not contain
	EncNone                // no Encoding entry at all (not conforming; C10 robustness inputs only)
	EncShort               // a 3-element array (not conforming; C10 only)
)

// String forms.
const (
	StrEscaped = iota // printable ASCII raw; ( ) \ escaped; LF CR TAB as \n \r \t; the rest as \ddd
	StrRaw            // everything raw except \ and CR (and unbalanced parentheses)
	StrHex            // <hex>
	StrShortOctal     // as StrEscaped, but octal escapes in their shortest form (\1, \17) wherever the next character is not an octal digit
	StrMixedEOL       // as StrRaw, but every LF is spelled as a raw CR, LF or CR LF in turn (all read as LF), with a \<CR> line continuation after the first blank
	strForms
)

// Line ends.
const (
	EolLF = iota
	EolCR
	EolCRLF
	eolForms
)

// Options are the serialisation choices for one font.
type Options struct {
	Container int
	LenIV     int  // 4 is the default; any other value adds a /lenIV entry to Private
	AltNames  bool // -| |- | instead of RD ND NP
	EncForm   int
	// DateLayout selects one of the four layouts: 0 `2006-01-02 15:04:05 -0700 MST`,
	// 1 `Mon Jan 2 15:04:05 2006`, 2 `Mon, 2 Jan 2006 15:04:05`, 3 `Mon Jan 2 2006`.
	DateLayout int
	Eol        int
	StrForm    int
	HexUpper   bool // upper-case hex digits in the eexec section
	HexBreak   int  // hex digits per line of the eexec section: 0 = 64, 1 = 63, 2 = 7, 3 = 1 (white space may stand anywhere, also inside a byte)
	// Dense: Adobe's customary dense style (no spaces where none are needed,
	// readonly/noaccess decorations, FontBBox as a procedure, UniqueID, extra
	// DSC comments, OtherSubrs and StemSnap entries; the Subrs array has an
	// unset element before every subroutine beyond the four standard ones).
	Dense bool
	// AllowReencodedSeac lifts the check that seac components sit at their
	// StandardEncoding codes in the font's own encoding.  Such a file violates
	// the Type 1 book's rule for seac; no check uses it (probes only).
	AllowReencodedSeac bool
	// Glyph options by glyph name.
	Glyph map[string]*GlyphOpts
}

// LegalDateLayouts lists the layouts able to express the model's date.
func LegalDateLayouts(d *t1model.Date) []int {
	if d == nil {
		return []int{0}
	}
	if d.Zone != "" {
		return []int{0}
	}
	if d.H == 0 && d.Min == 0 && d.S == 0 {
		return []int{0, 1, 2, 3}
	}
	return []int{0, 1, 2}
}

func formatDate(d *t1model.Date, layout int) (string, error) {
	t := d.Time()
	switch layout {
	case 0:
		zone := d.Zone
		off := d.Offset
		if zone == "" {
			zone, off = "UTC", 0
		}
		sign := '+'
		if off < 0 {
			sign = '-'
			off = -off
		}
		return fmt.Sprintf("%04d-%02d-%02d %02d:%02d:%02d %c%02d%02d %s", d.Y, d.M, d.D, d.H, d.Min, d.S, sign, off/3600, off/60%60, zone), nil
	case 1, 2, 3:
		if d.Zone != "" {
			return "", fmt.Errorf("date layout %d cannot express a zone", layout)
		}
		wd := t.Weekday().String()[:3]
		mon := time.Month(d.M).String()[:3]
		switch layout {
		case 1:
			return fmt.Sprintf("%s %s %d %02d:%02d:%02d %d", wd, mon, d.D, d.H, d.Min, d.S, d.Y), nil
		case 2:
			return fmt.Sprintf("%s, %d %s %d %02d:%02d:%02d", wd, d.D, mon, d.Y, d.H, d.Min, d.S), nil
		}
		if d.H != 0 || d.Min != 0 || d.S != 0 {
			return "", fmt.Errorf("date layout 3 cannot express a time of day")
		}
		return fmt.Sprintf("%s %s %d %d", wd, mon, d.D, d.Y), nil
	}
	return "", fmt.Errorf("unknown date layout %d", layout)
}

// psString writes a PostScript string object.
func psString(s string, form int) string {
	var sb strings.Builder
	switch form {
	case StrHex:
		sb.WriteByte('<')
		for i := 0; i < len(s); i++ {
			fmt.Fprintf(&sb, "%02x", s[i])
		}
		sb.WriteByte('>')
		return sb.String()
	case StrRaw, StrMixedEOL:
		// are the parentheses balanced?
		level, balanced := 0, true
		for i := 0; i < len(s); i++ {
			if s[i] == '(' {
				level++
			} else if s[i] == ')' {
				level--
				if level < 0 {
					balanced = false
				}
			}
		}
		balanced = balanced && level == 0
		eols, contDone := 0, false
		sb.WriteByte('(')
		for i := 0; i < len(s); i++ {
			c := s[i]
			switch {
			case c == '\\':
				sb.WriteString(`\\`)
			case c == '\r':
				sb.WriteString(`\r`) // a raw CR inside a string reads as LF (PLRM 3.2.2)
			case c == '\n' && form == StrMixedEOL:
				sp := []string{"\r", "\n", "\r\n"}[eols%3]
				if sp == "\n" && sb.Len() > 0 && strings.HasSuffix(sb.String(), "\r") {
					sp = "\r\n" // a bare LF directly after a CR would be taken for its second half
				}
				sb.WriteString(sp)
				eols++
			case c == ' ' && form == StrMixedEOL && !contDone:
				sb.WriteString(" \\\r") // the blank, then a line continuation (backslash, CR): ignored by the scanner
				contDone = true
			case (c == '(' || c == ')') && !balanced:
				sb.WriteByte('\\')
				sb.WriteByte(c)
			default:
				sb.WriteByte(c)
			}
		}
		sb.WriteByte(')')
		return sb.String()
	}
	sb.WriteByte('(')
	for i := 0; i < len(s); i++ {
		c := s[i]
		switch {
		case c == '(' || c == ')' || c == '\\':
			sb.WriteByte('\\')
			sb.WriteByte(c)
		case c == '\n':
			sb.WriteString(`\n`)
		case c == '\r':
			sb.WriteString(`\r`)
		case c == '\t':
			sb.WriteString(`\t`)
		case c < 32 || c >= 127:
			if form == StrShortOctal && (i+1 == len(s) || s[i+1] < '0' || s[i+1] > '7') {
				fmt.Fprintf(&sb, `\%o`, c) // 8 and 9 are not octal digits: they end the escape
			} else {
				fmt.Fprintf(&sb, `\%03o`, c)
			}
		default:
			sb.WriteByte(c)
		}
	}
	sb.WriteByte(')')
	return sb.String()
}

// psReal writes a number so that it scans as a real with exactly this value.
func psReal(v float64) string {
	s := strconv.FormatFloat(v, 'f', -1, 64)
	if !strings.ContainsAny(s, ".") {
		s += ".0"
	}
	if denseReals {
		// the Type 1 book's own spelling: no digit before the point of a
		// fraction (.0526, -.5), no digit after the point of a whole number (7.)
		switch {
		case strings.HasPrefix(s, "0."):
			s = s[1:]
		case strings.HasPrefix(s, "-0."):
			s = "-" + s[2:]
		case strings.HasSuffix(s, ".0"):
			s = s[:len(s)-1]
		}
	}
	return s
}

// denseReals is set while a font is generated in the dense style (Generate is
// not re-entrant: the checks generate one font at a time per process).
var denseReals bool

// psNumber writes an integral value as an integer and anything else as a real.
func psNumber(v float64) string {
	if v > -1e15 && v < 1e15 && v == float64(int64(v)) {
		return strconv.FormatInt(int64(v), 10)
	}
	return psReal(v)
}

func intArray(a []int) string {
	parts := make([]string, len(a))
	for i, v := range a {
		parts[i] = strconv.Itoa(v)
	}
	return "[" + strings.Join(parts, " ") + "]"
}

// eexecEncrypt implements the eexec cipher of the Type 1 book (section 7.2):
// key 55665, c1 52845, c2 22719, four lead bytes.
func eexecEncrypt(plain []byte, lead [4]byte) []byte {
	out := make([]byte, 0, len(plain)+4)
	r := uint16(55665)
	enc := func(p byte) {
		c := p ^ byte(r>>8)
		r = (uint16(c)+r)*52845 + 22719
		out = append(out, c)
	}
	for _, p := range lead {
		enc(p)
	}
	for _, p := range plain {
		enc(p)
	}
	return out
}

func isHexDigit(b byte) bool {
	return b >= '0' && b <= '9' || b >= 'a' && b <= 'f' || b >= 'A' && b <= 'F'
}

func isWhite(b byte) bool { return b == ' ' || b == '\t' || b == '\r' || b == '\n' }

// binaryLead finds lead bytes such that the first cipher byte is not white
// space and at least one of the first four cipher bytes is not a hex digit
// (Type 1 book, section 7.2, the two requirements on binary eexec data).
func binaryLead() [4]byte {
	for a := 0; a < 256; a++ {
		lead := [4]byte{byte(a), 0x5a, 0xc3, 0x17}
		c := eexecEncrypt(nil, lead)
		if isWhite(c[0]) {
			continue
		}
		nonHex := false
		for _, b := range c[:4] {
			if !isHexDigit(b) {
				nonHex = true
			}
		}
		if nonHex {
			return lead
		}
	}
	panic("unreachable")
}

// hexStartLead finds lead bytes whose cipher bytes are 'a', '7', 'F' and a
// byte that is neither a hex digit nor white space.
func hexStartLead() [4]byte {
	return leadFor([4]byte{'a', '7', 'F', 0x9c})
}

// leadFor finds the four plaintext lead bytes that encrypt to want.
func leadFor(want [4]byte) [4]byte {
	var lead [4]byte
	r := uint16(55665)
	for i, c := range want {
		lead[i] = c ^ byte(r>>8)
		r = (uint16(c)+r)*52845 + 22719
	}
	return lead
}

type writer struct {
	buf bytes.Buffer
	eol string
}

func (w *writer) line(format string, args ...any) {
	fmt.Fprintf(&w.buf, format, args...)
	w.buf.WriteString(w.eol)
}

// Generate serialises the model font under the given options.
func Generate(m *t1model.Font, opt *Options) ([]byte, error) {
	if opt == nil {
		opt = &Options{LenIV: 4}
	}
	if opt.LenIV < 0 {
		return nil, fmt.Errorf("negative lenIV")
	}
	eol := []string{"\n", "\r", "\r\n"}[opt.Eol]
	rd, nd, np := "RD", "ND", "NP"
	if opt.AltNames {
		rd, nd, np = "-|", "|-", "|"
	}
	sp := " " // optional space
	if opt.Dense {
		sp = ""
	}

	// ---- charstrings and subroutines ----
	tbl := &subrTable{holes: opt.Dense}
	denseReals = opt.Dense
	defer func() { denseReals = false }()
	type csEntry struct {
		name string
		data []byte
	}
	var css []csEntry
	for i, g := range m.Glyphs {
		plain, err := buildGlyph(m, g, opt.Glyph[g.Name], tbl, opt.AllowReencodedSeac)
		if err != nil {
			return nil, err
		}
		css = append(css, csEntry{g.Name, encryptCharstring(plain, leadBytes(opt.LenIV, i+100))})
	}
	var subrs [][]byte
	if tbl.needed || opt.Dense {
		for i, s := range append(standardSubrs(), tbl.extra...) {
			if s == nil {
				subrs = append(subrs, nil)
				continue
			}
			subrs = append(subrs, encryptCharstring(s, leadBytes(opt.LenIV, i)))
		}
	}

	// ---- clear text part ----
	clear := &writer{eol: eol}
	headVersion := strings.Map(func(r rune) rune {
		if r < 32 || r > 126 {
			return '?'
		}
		return r
	}, m.Info.Version)
	if headVersion == "" {
		headVersion = "001.000"
	}
	clear.line("%%!PS-AdobeFont-1.0: %s %s", m.FontName, headVersion)
	if opt.Dense {
		clear.line("%%%%Title: %s", m.FontName)
	}
	if m.Date != nil {
		ds, err := formatDate(m.Date, opt.DateLayout)
		if err != nil {
			return nil, err
		}
		clear.line("%%%%CreationDate: %s", ds)
	}
	if opt.Dense {
		clear.line("%%%%VMusage: 30000 40000")
		clear.line("%% Generated by the verification harness (independent producer)")
	}
	ro := ""
	if opt.Dense {
		ro = "readonly "
	}
	clear.line("12 dict begin")
	clear.line("/FontInfo 12 dict dup begin")
	info := m.Info
	str := func(key, val string) {
		if val != "" || info.EmitEmpty {
			clear.line("/%s%s%s %sdef", key, sp, psString(val, opt.StrForm), ro)
		}
	}
	str("version", info.Version)
	str("Notice", info.Notice)
	str("Copyright", info.Copyright)
	str("FullName", info.FullName)
	str("FamilyName", info.FamilyName)
	str("Weight", info.Weight)
	clear.line("/ItalicAngle %s def", psNumber(info.ItalicAngle))
	clear.line("/isFixedPitch %v def", info.IsFixedPitch)
	clear.line("/UnderlinePosition %s def", psNumber(info.UnderlinePosition))
	clear.line("/UnderlineThickness %s def", psNumber(info.UnderlineThickness))
	clear.line("end %sdef", ro)
	clear.line("/FontName /%s def", m.FontName)
	if err := writeEncoding(clear, m, opt); err != nil {
		return nil, err
	}
	clear.line("/PaintType 0 def")
	clear.line("/FontType 1 def")
	clear.line("/FontMatrix [%s]%s%sdef", strings.Join(m.FontMatrixText[:], " "), sp2(sp), ro)
	if opt.Dense {
		clear.line("/UniqueID 4000001 def")
		clear.line("/FontBBox{-50 -250 1100 950}readonly def")
	} else {
		clear.line("/FontBBox [-50 -250 1100 950] def")
	}
	clear.line("currentdict end")
	if opt.Container != NoEexec {
		clear.line("currentfile eexec")
	}

	// ---- private part ----
	priv := &writer{eol: eol}
	priv.line("dup /Private 20 dict dup begin")
	priv.line("/%s%s{string currentfile exch readstring pop}%sexecuteonly def", rd, sp, sp)
	priv.line("/%s%s{noaccess def}%sexecuteonly def", nd, sp, sp)
	priv.line("/%s%s{noaccess put}%sexecuteonly def", np, sp, sp)
	if opt.LenIV != 4 {
		priv.line("/lenIV %d def", opt.LenIV)
	}
	p := m.Private
	if p.BlueValues != nil {
		priv.line("/BlueValues %s %s", intArray(p.BlueValues), nd)
	}
	if p.OtherBlues != nil {
		priv.line("/OtherBlues %s %s", intArray(p.OtherBlues), nd)
	}
	if p.BlueScale != nil {
		priv.line("/BlueScale %s def", psReal(*p.BlueScale))
	}
	if p.BlueShift != nil {
		priv.line("/BlueShift %d def", *p.BlueShift)
	}
	if p.BlueFuzz != nil {
		priv.line("/BlueFuzz %d def", *p.BlueFuzz)
	}
	if p.StdHW != 0 {
		priv.line("/StdHW [%s] %s", psNumber(p.StdHW), nd)
	}
	if p.StdVW != 0 {
		priv.line("/StdVW [%s] %s", psNumber(p.StdVW), nd)
	}
	if opt.Dense {
		priv.line("/StemSnapH [40 50] %s", nd)
		priv.line("/StemSnapV [80 90] %s", nd)
	}
	if p.ForceBold != nil {
		priv.line("/ForceBold %v def", *p.ForceBold)
	}
	priv.line("/password 5839 def")
	priv.line("/MinFeature%s{16 16}%s%s", sp, sp2(sp), nd)
	if opt.Dense {
		priv.line("/UniqueID 4000001 def")
	}
	if subrs != nil {
		if opt.Dense {
			priv.line("/OtherSubrs [{}{}{}{}] %s", nd)
		}
		priv.line("/Subrs %d array", len(subrs))
		for i, s := range subrs {
			if s == nil {
				continue // an element left unset (null)
			}
			fmt.Fprintf(&priv.buf, "dup %d %d %s ", i, len(s), rd)
			priv.buf.Write(s)
			priv.line(" %s", np)
		}
		priv.line("%s", nd)
	}
	priv.line("2 index /CharStrings %d dict dup begin", len(css)+1)
	for _, cs := range css {
		fmt.Fprintf(&priv.buf, "/%s %d %s ", cs.name, len(cs.data), rd)
		priv.buf.Write(cs.data)
		priv.line(" %s", nd)
	}
	priv.line("end")
	priv.line("end")
	priv.line("readonly put")
	priv.line("noaccess put")
	priv.line("dup%s/FontName get exch definefont pop", sp)
	if opt.Container != NoEexec {
		// exactly one line-end character after closefile inside the encrypted part
		priv.buf.WriteString("mark currentfile closefile")
		priv.buf.WriteString(eol[:1])
	}

	trailer := &writer{eol: eol}
	if opt.Container != NoEexec {
		for i := 0; i < 8; i++ {
			trailer.line("%s", strings.Repeat("0", 64))
		}
		trailer.line("cleartomark")
	}

	// ---- container ----
	var out bytes.Buffer
	switch opt.Container {
	case NoEexec:
		out.Write(clear.buf.Bytes())
		out.Write(priv.buf.Bytes())
	case PFA:
		out.Write(clear.buf.Bytes())
		cipher := eexecEncrypt(priv.buf.Bytes(), [4]byte{0x31, 0xf0, 0x0d, 0x77})
		digits := "0123456789abcdef"
		if opt.HexUpper {
			digits = "0123456789ABCDEF"
		}
		perLine := []int{64, 63, 7, 1}[opt.HexBreak]
		nd := 0
		for _, c := range cipher {
			for _, d := range []byte{digits[c>>4], digits[c&15]} {
				out.WriteByte(d)
				nd++
				// (the form is recognised by the first four cipher bytes being hex
				// digits: no white space inside the first eight digits)
				if nd%perLine == 0 && nd >= 8 {
					out.WriteString(eol)
				}
			}
		}
		if nd%perLine != 0 {
			out.WriteString(eol)
		}
		out.Write(trailer.buf.Bytes())
	case Binary, BinaryHexStart, BinaryCtrlStart, BinaryHexAndCtrl:
		out.Write(clear.buf.Bytes())
		lead := binaryLead()
		if opt.Container == BinaryHexStart {
			lead = hexStartLead()
		}
		if opt.Container == BinaryCtrlStart {
			lead = leadFor([4]byte{0x0c, 0x00, 'a', 0x1f})
		}
		if opt.Container == BinaryHexAndCtrl {
			lead = leadFor([4]byte{'1', 0x00, 'f', '7'})
		}
		cipher := eexecEncrypt(priv.buf.Bytes(), lead)
		if opt.Container == BinaryHexStart && string(cipher[:3]) != "a7F" {
			return nil, fmt.Errorf("internal: lead bytes do not give the wanted cipher bytes")
		}
		out.Write(cipher)
		out.WriteString(eol)
		out.Write(trailer.buf.Bytes())
	case PFB, PFBSplit:
		seg := func(typ byte, data []byte) {
			n := len(data)
			out.Write([]byte{0x80, typ, byte(n), byte(n >> 8), byte(n >> 16), byte(n >> 24)})
			out.Write(data)
		}
		cipher := eexecEncrypt(priv.buf.Bytes(), binaryLead())
		if opt.Container == PFB {
			seg(1, clear.buf.Bytes())
			seg(2, cipher)
			seg(1, trailer.buf.Bytes())
		} else {
			c := clear.buf.Bytes()
			seg(1, c[:len(c)/2])
			seg(1, c[len(c)/2:])
			k := len(cipher)/2 | 1 // odd length: the hex expansion ends in the middle of a pair of digits
			seg(2, cipher[:k])
			seg(2, cipher[k:])
			seg(1, trailer.buf.Bytes())
		}
		out.Write([]byte{0x80, 3})
	default:
		return nil, fmt.Errorf("unknown container %d", opt.Container)
	}
	return out.Bytes(), nil
}

func sp2(sp string) string { return sp }

func writeEncoding(w *writer, m *t1model.Font, opt *Options) error {
	names := m.EncodingNames()
	present := map[string]bool{}
	for _, g := range m.Glyphs {
		present[g.Name] = true
	}
	switch opt.EncForm {
	case EncNone:
		return nil
	case EncShort:
		w.line("/Encoding [/.notdef /.notdef /.notdef] def")
		return nil
	case EncCompact:
		if m.StdEnc {
			w.line("/Encoding StandardEncoding def")
			return nil
		}
	case EncExplicit, EncNamingAbsent:
	default:
		return fmt.Errorf("unknown encoding form %d", opt.EncForm)
	}
	w.line("/Encoding 256 array")
	w.line("0 1 255 {1 index exch /.notdef put} for")
	usedAbsent := 0
	for i, n := range names {
		switch {
		case n != "" && present[n]:
			w.line("dup %d /%s put", i, n)
		case n != "" && opt.EncForm == EncNamingAbsent:
			// a name from the encoding the font has no glyph for
			w.line("dup %d /%s put", i, n)
			usedAbsent++
		case n == "" && opt.EncForm == EncNamingAbsent && !m.StdEnc && usedAbsent < 3 && i >= 128:
			// custom encodings: a few unused codes name glyphs the font lacks
			w.line("dup %d /%s put", i, []string{"Zcaron", "nosuchglyph", "uni20AC"}[usedAbsent])
			usedAbsent++
		}
	}
	w.line("readonly def")
	return nil
}
