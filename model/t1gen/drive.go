package t1gen

import (
	"fmt"
	"sort"
	"strings"

	"verif/model/t1model"
)

// Chooser is the part of mc.Ctx the driver needs.
type Chooser interface {
	Deviate(n int) int
}

// Scope selects which families of decisions the driver exposes.
type Scope struct {
	// Global: container, lenIV, procedure names, encoding form, date layout,
	// line ends, string form, hex case, dense style.
	Global bool
	// Glyph: per-glyph decisions (subroutine factoring, hint replacement,
	// dotsection, sbw form, stem order).
	Glyph bool
	// Per-command decisions: Flex = flex at every legal position; Forms = h/v
	// vs r form of every path command that has a choice; Numbers = number
	// form of every operand-carrying command.
	Flex, Forms, Numbers bool
	// Unusual: additional accepted-but-odd choices used by C10 only (no
	// explicit closepath, no or short Encoding).
	Unusual bool
}

// LenIVs are the lenIV values explored (the first is the default).
var LenIVs = []int{4, 0, 1, 7}

// Drive turns a sequence of Deviate answers into Options.  With all answers
// 0 the result is the plain style: PFA, lenIV 4, RD/ND/NP, compact encoding,
// shortest h/v command forms, shortest numbers, no subroutines, no flex.
func Drive(c Chooser, m *t1model.Font, sc Scope) *Options {
	o := &Options{LenIV: 4, Glyph: map[string]*GlyphOpts{}}
	if sc.Global {
		o.Container = c.Deviate(NumContainers)
		o.LenIV = LenIVs[c.Deviate(len(LenIVs))]
		o.AltNames = c.Deviate(2) == 1
		nEnc := 3
		if sc.Unusual {
			nEnc = 5
		}
		o.EncForm = c.Deviate(nEnc)
		lay := LegalDateLayouts(m.Date)
		o.DateLayout = lay[c.Deviate(len(lay))]
		o.Eol = c.Deviate(eolForms)
		o.StrForm = c.Deviate(strForms)
		o.HexUpper = c.Deviate(2) == 1
		o.HexBreak = c.Deviate(4)
		o.Dense = c.Deviate(2) == 1
	}
	for _, g := range m.Glyphs {
		l := Layout(g)
		gopt := &GlyphOpts{}
		o.Glyph[g.Name] = gopt
		if sc.Glyph {
			if l.CanSubr {
				gopt.Subr = c.Deviate(subrModes)
			}
			if l.CanHint {
				gopt.HintRepl = c.Deviate(2) == 1
			}
			if l.CanDot {
				gopt.DotSection = c.Deviate(2) == 1
			}
			if l.CanForceSb {
				gopt.ForceSbw = c.Deviate(2) == 1
			}
			if len(g.HStems) > 0 && len(g.VStems) > 0 {
				gopt.VStemFirst = c.Deviate(2) == 1
			}
			if sc.Unusual && len(g.Contours) > 0 {
				gopt.NoClosepath = c.Deviate(2) == 1
			}
		}
		if sc.Flex {
			for _, i := range l.FlexAt {
				if c.Deviate(2) == 1 {
					if gopt.Flex == nil {
						gopt.Flex = map[int]bool{}
					}
					gopt.Flex[i] = true
				}
			}
		}
		if sc.Forms {
			for _, i := range l.Compact {
				if c.Deviate(2) == 1 {
					if gopt.GeneralForm == nil {
						gopt.GeneralForm = map[int]bool{}
					}
					gopt.GeneralForm[i] = true
				}
			}
		}
		if sc.Numbers {
			for i := 0; i < l.NumCmds; i++ {
				if f := c.Deviate(numForms); f != 0 {
					if gopt.NumForm == nil {
						gopt.NumForm = map[int]int{}
					}
					gopt.NumForm[i] = f
				}
			}
		}
	}
	return o
}

// Features lists the non-default feature classes in use (for outcome
// histograms and reports).
func (o *Options) Features() []string {
	set := map[string]bool{}
	for _, g := range o.Glyph {
		if g.Subr != 0 {
			set["subr"] = true
		}
		if len(g.Flex) > 0 {
			set["flex"] = true
		}
		if g.HintRepl {
			set["hintrepl"] = true
		}
		if g.DotSection {
			set["dotsection"] = true
		}
		if g.ForceSbw {
			set["sbwform"] = true
		}
		if len(g.GeneralForm) > 0 {
			set["rform"] = true
		}
		if len(g.NumForm) > 0 {
			set["numform"] = true
		}
		if g.NoClosepath {
			set["noclosepath"] = true
		}
		if g.VStemFirst {
			set["vfirst"] = true
		}
	}
	var out []string
	for k := range set {
		out = append(out, k)
	}
	sort.Strings(out)
	return out
}

// String renders the options for reports.
func (o *Options) String() string {
	var sb strings.Builder
	fmt.Fprintf(&sb, "container=%s lenIV=%d", containerNames[o.Container], o.LenIV)
	if o.AltNames {
		sb.WriteString(" names=-|")
	}
	fmt.Fprintf(&sb, " enc=%d date=%d eol=%d str=%d", o.EncForm, o.DateLayout, o.Eol, o.StrForm)
	if o.HexBreak != 0 {
		fmt.Fprintf(&sb, " hexbreak=%d", o.HexBreak)
	}
	if o.HexUpper {
		sb.WriteString(" HEX")
	}
	if o.Dense {
		sb.WriteString(" dense")
	}
	var names []string
	for n := range o.Glyph {
		names = append(names, n)
	}
	sort.Strings(names)
	for _, n := range names {
		g := o.Glyph[n]
		var parts []string
		if g.Subr != 0 {
			parts = append(parts, fmt.Sprintf("subr=%d", g.Subr))
		}
		if g.HintRepl {
			parts = append(parts, "hintrepl")
		}
		if g.DotSection {
			parts = append(parts, "dotsection")
		}
		if g.ForceSbw {
			parts = append(parts, "sbw")
		}
		if g.VStemFirst {
			parts = append(parts, "vfirst")
		}
		if g.NoClosepath {
			parts = append(parts, "noclosepath")
		}
		keys := func(m map[int]bool) []int {
			var ks []int
			for k := range m {
				ks = append(ks, k)
			}
			sort.Ints(ks)
			return ks
		}
		if len(g.Flex) > 0 {
			parts = append(parts, fmt.Sprintf("flex@%v", keys(g.Flex)))
		}
		if len(g.GeneralForm) > 0 {
			parts = append(parts, fmt.Sprintf("rform@%v", keys(g.GeneralForm)))
		}
		if len(g.NumForm) > 0 {
			var ks []int
			for k := range g.NumForm {
				ks = append(ks, k)
			}
			sort.Ints(ks)
			var ps []string
			for _, k := range ks {
				ps = append(ps, fmt.Sprintf("%d:%d", k, g.NumForm[k]))
			}
			parts = append(parts, "num{"+strings.Join(ps, ",")+"}")
		}
		if len(parts) > 0 {
			fmt.Fprintf(&sb, " %s[%s]", n, strings.Join(parts, " "))
		}
	}
	return sb.String()
}
