// Package geomref recomputes, naively and from the definitions in property
// C19, what the query methods of type1.Font and afm.Metrics must return.  It
// shares no code with the library and does not use the geom module's Rect
// helpers (IsZero, Extend) or Matrix methods (Mul, Apply).
package geomref

import (
	"fmt"
	"math"
	"sort"
)

// Box is an axis-aligned rectangle; Empty boxes contain no point.
type Box struct {
	LLx, LLy, URx, URy float64
	Empty              bool
}

// Point is an end point of a path command.
type Point struct{ X, Y float64 }

// Op kinds, deliberately not the library's constants.
const (
	Move = iota
	Line
	Curve
	Close
	// Other: anything else a command list can hold (a command value the format
	// does not define, carried verbatim in Raw; numbers in Pts): not a move,
	// line or curve, so it has no end point.
	Other
)

// Cmd is one path command; Curve has three points (two control points and
// the end point), Move and Line one, Close none.
type Cmd struct {
	Kind int
	Pts  []Point
	Raw  int // Kind == Other: the command value
}

// EndPoints returns the end points of the move, line and curve commands.
func EndPoints(cmds []Cmd) []Point {
	var out []Point
	for _, c := range cmds {
		switch c.Kind {
		case Move, Line:
			out = append(out, c.Pts[0])
		case Curve:
			out = append(out, c.Pts[2])
		}
	}
	return out
}

// Hull returns the smallest rectangle containing the points (Empty for none).
func Hull(pts []Point) Box {
	if len(pts) == 0 {
		return Box{Empty: true}
	}
	b := Box{LLx: math.Inf(1), LLy: math.Inf(1), URx: math.Inf(-1), URy: math.Inf(-1)}
	for _, p := range pts {
		b.LLx = math.Min(b.LLx, p.X)
		b.LLy = math.Min(b.LLy, p.Y)
		b.URx = math.Max(b.URx, p.X)
		b.URy = math.Max(b.URy, p.Y)
	}
	return b
}

// Union returns the smallest rectangle containing all non-empty boxes.
func Union(boxes []Box) Box {
	out := Box{Empty: true}
	for _, b := range boxes {
		if b.Empty {
			continue
		}
		if out.Empty {
			out = b
			continue
		}
		out.LLx = math.Min(out.LLx, b.LLx)
		out.LLy = math.Min(out.LLy, b.LLy)
		out.URx = math.Max(out.URx, b.URx)
		out.URy = math.Max(out.URy, b.URy)
	}
	return out
}

// Flat returns the four numbers by which a box is reported: an empty box is
// reported as the zero rectangle.
func (b Box) Flat() [4]float64 {
	if b.Empty {
		return [4]float64{}
	}
	return [4]float64{b.LLx, b.LLy, b.URx, b.URy}
}

// IsAllZero reports whether the box is reported as four zeros.
func (b Box) IsAllZero() bool { return b.Flat() == [4]float64{} }

func (b Box) String() string {
	if b.Empty {
		return "(empty)"
	}
	return fmt.Sprintf("[%g %g %g %g]", b.LLx, b.LLy, b.URx, b.URy)
}

// MapPDF maps a glyph-space point through the font matrix [a b c d e f] and
// scales by 1000.  scale returns the magnitude of the largest term, for the
// comparison tolerance.
func MapPDF(fm [6]float64, p Point) (q Point, scale float64) {
	x := (fm[0]*p.X + fm[2]*p.Y + fm[4]) * 1000
	y := (fm[1]*p.X + fm[3]*p.Y + fm[5]) * 1000
	for _, t := range []float64{fm[0] * p.X, fm[2] * p.Y, fm[4], fm[1] * p.X, fm[3] * p.Y, fm[5]} {
		scale = math.Max(scale, math.Abs(t)*1000)
	}
	return Point{x, y}, scale
}

// Tol is the relative tolerance for values whose products and sums the
// library may form in a different order.
const Tol = 1e-9

// Close reports |a-b| <= Tol * max(1, scale).
func CloseTo(a, b, scale float64) bool {
	return math.Abs(a-b) <= Tol*math.Max(1, scale)
}

// WidthPDF is advance width x horizontal font-matrix scale x 1000.
func WidthPDF(fm [6]float64, width float64) float64 {
	return width * fm[0] * 1000
}

// CheckGlyphList verifies the ordering rules of the property for a reported
// glyph list.  glyphs is the set of glyph names of the font (with or without
// .notdef), enc the encoding vector (nil allowed), count the reported number
// of glyphs.  It returns "" or a description of the first broken rule
// together with a short class for the finding key.
//
// A glyph named by several codes may stand at the position of any of its
// codes: the property only says "in code order".
func CheckGlyphList(list []string, glyphs map[string]bool, enc []string, count int) (class, msg string) {
	// the set the list must enumerate
	want := map[string]bool{".notdef": true}
	for g := range glyphs {
		want[g] = true
	}
	if len(list) != count {
		class, msg = "length-differs-from-count", fmt.Sprintf("list has %d entries, the reported glyph count is %d", len(list), count)
	}
	seen := map[string]bool{}
	for _, g := range list {
		if seen[g] {
			return "duplicate", fmt.Sprintf("glyph %q is listed twice", g)
		}
		seen[g] = true
		if !want[g] {
			return "foreign-name", fmt.Sprintf("%q is listed but is not a glyph of the font", g)
		}
	}
	missing := []string{}
	for g := range want {
		if !seen[g] {
			missing = append(missing, g)
		}
	}
	sort.Strings(missing)
	if len(missing) > 0 {
		if len(missing) == 1 && missing[0] == ".notdef" && !glyphs[".notdef"] {
			// everything else may still be in order; classify precisely
			if c, m := checkOrder(append([]string{".notdef"}, list...), glyphs, enc); c != "" {
				return c, m
			}
			return "notdef-missing", fmt.Sprintf("the list lacks .notdef (the glyph map has none): it does not start with .notdef and has %d entries while the glyph count is %d", len(list), count)
		}
		return "glyph-missing", fmt.Sprintf("glyphs %q are not listed", missing)
	}
	if class != "" {
		return class, msg
	}
	if len(want) != count {
		return "count", fmt.Sprintf("reported glyph count %d, but the font has %d glyphs including .notdef", count, len(want))
	}
	return checkOrder(list, glyphs, enc)
}

func checkOrder(list []string, glyphs map[string]bool, enc []string) (class, msg string) {
	if len(list) == 0 || list[0] != ".notdef" {
		return "notdef-not-first", "the list does not start with .notdef"
	}
	codes := map[string][]int{}
	for c, name := range enc {
		if name != ".notdef" && glyphs[name] {
			codes[name] = append(codes[name], c)
		}
	}
	rest := list[1:]
	nEnc := len(codes)
	if len(rest) < nEnc {
		return "order", "list too short for the encoded glyphs"
	}
	// encoded glyphs first, in code order
	prev := -1
	for i, g := range rest[:nEnc] {
		cs, ok := codes[g]
		if !ok {
			return "order", fmt.Sprintf("position %d holds the unencoded glyph %q before all encoded glyphs are listed", i+1, g)
		}
		next := -1
		for _, c := range cs {
			if c > prev {
				next = c
				break
			}
		}
		if next < 0 {
			return "order", fmt.Sprintf("encoded glyph %q (codes %v) stands after a glyph with code %d", g, cs, prev)
		}
		prev = next
	}
	// then the others alphabetically
	tail := rest[nEnc:]
	for i, g := range tail {
		if _, ok := codes[g]; ok {
			return "order", fmt.Sprintf("encoded glyph %q stands among the unencoded glyphs", g)
		}
		if i > 0 && tail[i-1] >= g {
			return "order", fmt.Sprintf("unencoded glyphs %q and %q are not in alphabetical order", tail[i-1], g)
		}
	}
	return "", ""
}
