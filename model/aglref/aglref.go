// Package aglref is an independent reference for property C16: glyph names
// and Unicode text as laid down in the Adobe Glyph List Specification
// (https://github.com/adobe-type-tools/agl-specification).
//
// It contains
//
//   - its own parser for glyphlist.txt, zapfdingbats.txt and aglfn.txt (read
//     from the repository at run time; entries that list several code points,
//     such as "dalethatafpatah;05D3 05B2", are kept as several runes),
//   - the specification's name -> text algorithm (section 2), written as a
//     single left-to-right scan over the bytes of the name,
//   - the validity grammar for glyph names (section 6 of the specification
//     with the 31 character limit stated in the property),
//   - a reader for the documented compatibility expansions (the table literal
//     in type1/names/compat.go, read as text).
//
// Nothing in here calls the library.
package aglref

import (
	"fmt"
	"os"
	"path/filepath"
	"strings"
)

// Entry is one line of glyphlist.txt or zapfdingbats.txt.
type Entry struct {
	Name string
	Text []rune
	Line int
}

// FnEntry is one line of aglfn.txt.
type FnEntry struct {
	Code rune
	Name string
	Desc string
	Line int
}

// Tables holds the three lists.
type Tables struct {
	Glyph    []Entry
	Dingbats []Entry
	AGLFN    []FnEntry

	glyph    map[string][]rune
	dingbats map[string][]rune
	fnByCode map[rune]string
}

// hexval returns the value of an upper-case hexadecimal digit, or -1.
func hexval(b byte) int {
	const digits = "0123456789ABCDEF"
	return strings.IndexByte(digits, b)
}

// parseCode reads a field that must consist of 4 to 6 upper-case
// hexadecimal digits.
func parseCode(s string) (rune, error) {
	if len(s) < 4 || len(s) > 6 {
		return 0, fmt.Errorf("code %q: want 4-6 hexadecimal digits", s)
	}
	var v rune
	for i := 0; i < len(s); i++ {
		d := hexval(s[i])
		if d < 0 {
			return 0, fmt.Errorf("code %q: bad digit", s)
		}
		v = v<<4 | rune(d)
	}
	if v >= 0xD800 && v <= 0xDFFF || v > 0x10FFFF {
		return 0, fmt.Errorf("code %q: not a scalar value", s)
	}
	return v, nil
}

// dataLines returns the non-comment, non-blank lines with their numbers.
func dataLines(path string) ([]string, []int, error) {
	raw, err := os.ReadFile(path)
	if err != nil {
		return nil, nil, err
	}
	var lines []string
	var nums []int
	n := 0
	for len(raw) > 0 {
		n++
		var line string
		if i := strings.IndexByte(string(raw), '\n'); i >= 0 {
			line, raw = string(raw[:i]), raw[i+1:]
		} else {
			line, raw = string(raw), nil
		}
		line = strings.TrimSuffix(line, "\r")
		if line == "" || line[0] == '#' {
			continue
		}
		lines = append(lines, line)
		nums = append(nums, n)
	}
	return lines, nums, nil
}

// parseNameList parses "name;XXXX[ XXXX...]" lines.
func parseNameList(path string) ([]Entry, map[string][]rune, error) {
	lines, nums, err := dataLines(path)
	if err != nil {
		return nil, nil, err
	}
	m := make(map[string][]rune, len(lines))
	var out []Entry
	for i, line := range lines {
		semi := strings.IndexByte(line, ';')
		if semi <= 0 || strings.IndexByte(line[semi+1:], ';') >= 0 {
			return nil, nil, fmt.Errorf("%s:%d: want two fields: %q", path, nums[i], line)
		}
		name, codes := line[:semi], line[semi+1:]
		var text []rune
		for _, f := range strings.Split(codes, " ") {
			r, err := parseCode(f)
			if err != nil {
				return nil, nil, fmt.Errorf("%s:%d: %v", path, nums[i], err)
			}
			text = append(text, r)
		}
		if _, dup := m[name]; dup {
			return nil, nil, fmt.Errorf("%s:%d: duplicate name %q", path, nums[i], name)
		}
		m[name] = text
		out = append(out, Entry{Name: name, Text: text, Line: nums[i]})
	}
	return out, m, nil
}

// Load reads the three lists from dir (…/type1/names/agl-aglfn).
func Load(dir string) (*Tables, error) {
	t := &Tables{}
	var err error
	if t.Glyph, t.glyph, err = parseNameList(filepath.Join(dir, "glyphlist.txt")); err != nil {
		return nil, err
	}
	if t.Dingbats, t.dingbats, err = parseNameList(filepath.Join(dir, "zapfdingbats.txt")); err != nil {
		return nil, err
	}
	path := filepath.Join(dir, "aglfn.txt")
	lines, nums, err := dataLines(path)
	if err != nil {
		return nil, err
	}
	t.fnByCode = make(map[rune]string, len(lines))
	for i, line := range lines {
		f := strings.SplitN(line, ";", 3)
		if len(f) != 3 || f[1] == "" {
			return nil, fmt.Errorf("%s:%d: want three fields: %q", path, nums[i], line)
		}
		code, err := parseCode(f[0])
		if err != nil {
			return nil, fmt.Errorf("%s:%d: %v", path, nums[i], err)
		}
		t.AGLFN = append(t.AGLFN, FnEntry{Code: code, Name: f[1], Desc: f[2], Line: nums[i]})
		if _, dup := t.fnByCode[code]; !dup {
			// "entries ... are sorted in decreasing priority order"
			t.fnByCode[code] = f[1]
		}
	}
	return t, nil
}

// GlyphText returns the text listed for name in the Adobe Glyph List.
func (t *Tables) GlyphText(name string) ([]rune, bool) {
	r, ok := t.glyph[name]
	return r, ok
}

// DingbatsText returns the text listed for name in the Zapf Dingbats list.
func (t *Tables) DingbatsText(name string) ([]rune, bool) {
	r, ok := t.dingbats[name]
	return r, ok
}

// FnName returns the AGLFN name of r.
func (t *Tables) FnName(r rune) (string, bool) {
	s, ok := t.fnByCode[r]
	return s, ok
}

// ToText maps a glyph name to text as section 2 of the specification
// prescribes:
//
//  1. drop everything from the first period on,
//  2. split the rest at underscores,
//  3. map each component and concatenate.
//
// A component maps to its Zapf Dingbats entry (font is ZapfDingbats and the
// component is listed there), else to its AGL entry, else according to the
// "uni" form, else according to the "u" form, else to the empty string.
func (t *Tables) ToText(name string, dingbats bool) []rune {
	var out []rune
	start := 0
	for i := 0; ; i++ {
		if i == len(name) || name[i] == '.' || name[i] == '_' {
			out = append(out, t.Component(name[start:i], dingbats)...)
			if i == len(name) || name[i] == '.' {
				return out
			}
			start = i + 1
		}
	}
}

// Component maps a single component (no period, no underscore).
func (t *Tables) Component(comp string, dingbats bool) []rune {
	if dingbats {
		if text, ok := t.dingbats[comp]; ok {
			return text
		}
	}
	if text, ok := t.glyph[comp]; ok {
		return text
	}
	if text, ok := uniForm(comp); ok {
		return text
	}
	if r, ok := uForm(comp); ok {
		return []rune{r}
	}
	return nil
}

// uniForm: "uni" followed by upper-case hexadecimal digits, their number a
// multiple of four, every group of four in 0000-D7FF or E000-FFFF.
func uniForm(comp string) ([]rune, bool) {
	if len(comp) < 3 || comp[:3] != "uni" {
		return nil, false
	}
	digits := comp[3:]
	if len(digits)%4 != 0 {
		return nil, false
	}
	var text []rune
	for g := 0; g < len(digits); g += 4 {
		v := 0
		for k := 0; k < 4; k++ {
			d := hexval(digits[g+k])
			if d < 0 {
				return nil, false
			}
			v = v*16 + d
		}
		if v >= 0xD800 && v <= 0xDFFF {
			return nil, false
		}
		text = append(text, rune(v))
	}
	return text, true
}

// uForm: "u" followed by four to six upper-case hexadecimal digits whose value
// lies in 0000-D7FF or E000-10FFFF.
func uForm(comp string) (rune, bool) {
	if len(comp) < 1+4 || len(comp) > 1+6 || comp[0] != 'u' {
		return 0, false
	}
	v := 0
	for k := 1; k < len(comp); k++ {
		d := hexval(comp[k])
		if d < 0 {
			return 0, false
		}
		v = v*16 + d
	}
	if v >= 0xD800 && v <= 0xDFFF || v > 0x10FFFF {
		return 0, false
	}
	return rune(v), true
}

// MaxNameLen is the length limit named in the property.
const MaxNameLen = 31

// WhyInvalid returns "" for names the specification allows and a reason
// otherwise: a name consists of 1 to 31 characters from A-Z, a-z, 0-9,
// period and underscore and starts with neither a digit nor a period; the one
// exception is ".notdef".
func WhyInvalid(s string) string {
	if s == ".notdef" {
		return ""
	}
	switch {
	case len(s) == 0:
		return "empty"
	case len(s) > MaxNameLen:
		return "too-long"
	}
	for i := 0; i < len(s); i++ {
		b := s[i]
		letter := 'A' <= b && b <= 'Z' || 'a' <= b && b <= 'z'
		digit := '0' <= b && b <= '9'
		switch {
		case letter:
		case digit || b == '.':
			if i == 0 {
				return "first-char"
			}
		case b == '_':
		default:
			return "bad-char"
		}
	}
	return ""
}

// IsValid reports whether s is an allowed glyph name.
func IsValid(s string) bool { return WhyInvalid(s) == "" }

// LoadCompat reads the documented compatibility expansions: the entries
// "0xXXXX: {0xYYYY, ...}," of the table literal `var compat = map[rune][]rune{`
// in type1/names/compat.go.  The file is read as text; no library code runs.
func LoadCompat(path string) (map[rune][]rune, error) {
	lines, _, err := dataLines(path)
	if err != nil {
		return nil, err
	}
	out := make(map[rune][]rune)
	inTable := false
	closed := false
	for _, line := range lines {
		s := strings.TrimSpace(line)
		if !inTable {
			if strings.HasPrefix(s, "var compat") && strings.HasSuffix(s, "{") {
				inTable = true
			}
			continue
		}
		if s == "}" {
			closed = true
			break
		}
		if s == "" || strings.HasPrefix(s, "//") {
			continue
		}
		colon := strings.IndexByte(s, ':')
		open := strings.IndexByte(s, '{')
		end := strings.IndexByte(s, '}')
		if colon < 0 || open < colon || end < open {
			return nil, fmt.Errorf("%s: cannot read table line %q", path, s)
		}
		key, err := goHex(s[:colon])
		if err != nil {
			return nil, fmt.Errorf("%s: %v in %q", path, err, s)
		}
		var exp []rune
		for _, f := range strings.Split(s[open+1:end], ",") {
			if strings.TrimSpace(f) == "" {
				continue
			}
			v, err := goHex(f)
			if err != nil {
				return nil, fmt.Errorf("%s: %v in %q", path, err, s)
			}
			exp = append(exp, v)
		}
		if _, dup := out[key]; dup {
			return nil, fmt.Errorf("%s: duplicate key %04X", path, key)
		}
		out[key] = exp
	}
	if !inTable || !closed || len(out) == 0 {
		return nil, fmt.Errorf("%s: table literal `var compat = map[rune][]rune{ ... }` not found", path)
	}
	return out, nil
}

func goHex(s string) (rune, error) {
	s = strings.TrimSpace(s)
	if len(s) < 3 || s[0] != '0' || s[1] != 'x' && s[1] != 'X' || len(s) > 8 {
		return 0, fmt.Errorf("not a hexadecimal literal: %q", s)
	}
	var v rune
	for i := 2; i < len(s); i++ {
		b := s[i]
		if 'a' <= b && b <= 'f' {
			b -= 'a' - 'A'
		}
		d := hexval(b)
		if d < 0 {
			return 0, fmt.Errorf("not a hexadecimal literal: %q", s)
		}
		v = v<<4 | rune(d)
	}
	return v, nil
}
