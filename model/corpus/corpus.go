// Package corpus builds the fixed inputs used by the environment/fault
// explorations (C12, C13, C17): PostScript programs, CMap files, Type 1 fonts
// in every container, AFM files and PFB streams.  Everything is deterministic.
package corpus

import (
	"bytes"
	"fmt"
	"strings"
	"time"

	"seehuhn.de/go/postscript/afm"
	"seehuhn.de/go/postscript/funit"
	"seehuhn.de/go/postscript/type1"

	"verif/model/t1gen"
	"verif/model/t1model"
)

// Input is one corpus entry.
type Input struct {
	Name string
	Kind string // ps | cmap | font | afm | pfb
	Data []byte
	// Tokens is set for ps programs that do not read their own text: the
	// program is strings.Join(Tokens, "") and every element boundary is a
	// token boundary (separators are elements of their own).
	Tokens []string
}

// --- eexec -----------------------------------------------------------------

// Eexec encrypts plain with the Adobe eexec cipher (4 lead bytes chosen so
// that the binary form is recognisable as binary).
func Eexec(plain []byte) []byte {
	var r uint16 = 55665
	in := append([]byte{'X' ^ byte(55665>>8), 0, 0, 0}, plain...)
	out := make([]byte, len(in))
	for i, p := range in {
		c := p ^ byte(r>>8)
		r = (uint16(c)+r)*52845 + 22719
		out[i] = c
	}
	return out
}

// Hex armours data as lower-case hex with a newline every 64 digits.
func Hex(data []byte) []byte {
	const digits = "0123456789abcdef"
	var b bytes.Buffer
	for i, c := range data {
		b.WriteByte(digits[c>>4])
		b.WriteByte(digits[c&15])
		if i%32 == 31 {
			b.WriteByte('\n')
		}
	}
	b.WriteByte('\n')
	return b.Bytes()
}

const zeros = "0000000000000000000000000000000000000000000000000000000000000000\n"

// --- programs ----------------------------------------------------------------

func tokenised(name string, toks ...string) Input {
	// separate tokens by a space or newline element
	var parts []string
	for i, t := range toks {
		parts = append(parts, t)
		if i%5 == 4 {
			parts = append(parts, "\n")
		} else {
			parts = append(parts, " ")
		}
	}
	return Input{Name: name, Kind: "ps", Data: []byte(strings.Join(parts, "")), Tokens: parts}
}

// Programs returns the PostScript corpus.
func Programs() []Input {
	var out []Input
	out = append(out, tokenised("arith-and-procs",
		"/sq", "{", "dup", "mul", "}", "def", "3", "sq", "4", "sq", "add", "(a\\(b\\)c)", "<48 65>", "/lit", "[", "1", "2.5", "16#ff", "]", "{", "1", "{", "2", "}", "}", "exec", "exec"))
	out = append(out, tokenised("dicts-and-loops",
		"5", "dict", "begin", "/a", "1", "def", "/b", "(xy)", "def", "0", "1", "3", "{", "a", "add", "}", "for", "[", "1", "2", "3", "]", "{", "dup", "2", "eq", "{", "exit", "}", "if", "}", "forall", "currentdict", "end", "<<", "/k", "/v", ">>", "b", "length"))
	// DSC comments: each on a line of its own, never directly behind a token on the same line
	dsc := "%!PS-Adobe-3.0\n%%Title: Test program\n%%Creator: verif\n%%+ continued here\n% plain comment\n/x 1 def\n%%Pages: 3\nx x add\n%%EOF\n"
	out = append(out, Input{Name: "dsc-comments", Kind: "ps", Data: []byte(dsc)})
	// readstring on clear text
	rs := "/buf 10 string def currentfile buf readstring 0123456789 pop length (tail) \n"
	out = append(out, Input{Name: "readstring-clear", Kind: "ps", Data: []byte(rs)})
	// in-line data that contains line ends, followed by DSC comment lines: where a
	// line starts after the data must not depend on how the data arrived
	for _, v := range []struct{ name, data string }{
		{"readstring-then-dsc", "abc\ndef\nghi\n"},
		{"readstring-then-dsc-crlf", "abc\r\ndef\r\ngh\r\n"},
		{"readstring-then-dsc-no-final-newline", "abc\ndef\nghij"},
		{"readstring-then-dsc-long", strings.Repeat("0123456789abcde\n", 70)},
	} {
		prog := fmt.Sprintf("%%!PS\n%%%%BeginData: %d Binary Bytes\n/buf %d string def currentfile buf readstring\n%s%%%%EndData\npop /got exch def\n%%%%Trailer: after data\n%%%%+ continued\n/x 1 def\n%%%%EOF\n", len(v.data), len(v.data), v.data)
		out = append(out, Input{Name: v.name, Kind: "ps", Data: []byte(prog)})
	}
	dataPlain := []byte("/S 12 string def currentfile S readstring\nabc\ndef\nghi\n%%InsideEexec: yes\npop /T exch def mark currentfile closefile\n")
	out = append(out, Input{Name: "eexec-binary-readstring-then-dsc", Kind: "ps", Data: append(append(append([]byte("%!PS\ncurrentfile eexec\n"), Eexec(dataPlain)...), '\n'), (strings.Repeat(zeros, 8) + "cleartomark\n%%AfterEexec: clear\n/after 2 def\n")...)})
	out = append(out, Input{Name: "eexec-hex-readstring-then-dsc", Kind: "ps", Data: append(append([]byte("%!PS\ncurrentfile eexec\n"), Hex(Eexec(dataPlain))...), (strings.Repeat(zeros, 8) + "cleartomark\n%%AfterEexec: clear\n/after 2 def\n")...)})
	plain := []byte("/secret 42 def /S 5 string def currentfile S readstring ab\x00\xffc pop /T exch def /proc {secret 1 add} def mark currentfile closefile\n")
	trailer := strings.Repeat(zeros, 8) + "cleartomark\n/after (clear) def\n"
	hexProg := append([]byte("%!PS\n/before 1 def\ncurrentfile eexec\n"), Hex(Eexec(plain))...)
	hexProg = append(hexProg, trailer...)
	out = append(out, Input{Name: "eexec-hex", Kind: "ps", Data: hexProg})
	binProg := append([]byte("%!PS\n/before 1 def\ncurrentfile eexec\n"), Eexec(plain)...)
	binProg = append(binProg, '\n')
	binProg = append(binProg, trailer...)
	out = append(out, Input{Name: "eexec-binary", Kind: "ps", Data: binProg})
	// tiny eexec programs: the whole stream fits into the scanner's first buffer fill
	tinyPlain := []byte("/t 3 def /u (xy) def mark currentfile closefile\n")
	out = append(out, Input{Name: "eexec-hex-tiny", Kind: "ps", Data: append(append([]byte("%!PS\ncurrentfile eexec\n"), Hex(Eexec(tinyPlain))...), "cleartomark /after 1 def\n"...)})
	tb := append([]byte("%!PS\ncurrentfile eexec\n"), Eexec(tinyPlain)...)
	out = append(out, Input{Name: "eexec-binary-tiny", Kind: "ps", Data: append(tb, "\ncleartomark /after 1 def\n"...)})
	// binary-looking sections whose first four cipher bytes are hexadecimal digits (not a legal
	// binary prefix: the section is in the hex form by definition, whatever follows and however
	// much of it has arrived when the decision is made)
	for i, pre := range []string{"1aF0", "0000", "ABCD", "9f9f"} {
		var r uint16 = 55665
		var sec []byte
		for _, c := range []byte(pre) {
			r = (uint16(c)+r)*52845 + 22719
			sec = append(sec, c)
		}
		for _, p := range tinyPlain {
			c := p ^ byte(r>>8)
			r = (uint16(c)+r)*52845 + 22719
			sec = append(sec, c)
		}
		out = append(out, Input{Name: fmt.Sprintf("eexec-binary-after-four-hex-digits-%d", i), Kind: "ps", Data: append(append([]byte("%!PS\ncurrentfile eexec\n"), sec...), "\ncleartomark /after 1 def\n"...)})
	}
	// a program that starts with %! and is fed in pieces (CheckStart applies to the first piece only)
	cs := tokenised("percent-bang-header", "%!PS-Adobe-3.0\n", "/a", "1", "def", "{", "a", "2", "add", "}", "exec", "[", "a", "a", "]", "length")
	out = append(out, cs)
	// DSC comments with continuation lines under CR LF and mixed line ends, and
	// comments in the middle of a line ended by a bare CR
	out = append(out, Input{Name: "dsc-comments-crlf", Kind: "ps", Data: []byte("%!PS-Adobe-3.0\r\n%%Title: first part\r\n%%+ second part\r\n%%+ third part\r\n/x 1 def\r\n%%Pages: 3\r\n%%+ 4\r\nx x add\r\n%%EOF\r\n")})
	out = append(out, Input{Name: "comments-mixed-line-ends", Kind: "ps", Data: []byte("/a 1 def % comment ended by CR\r/b 2 def\n a b add % another\r\n/c 4 def %last\r c add\n%%K: v\r%%+ w\n% plain\r\n%%L: x\n")})
	// a CMap fed token by token: a piece boundary may fall inside any block
	out = append(out, tokenised("cmap-token-by-token",
		"/CIDInit", "/ProcSet", "findresource", "begin", "12", "dict", "begin", "begincmap", "/CMapName", "/T", "def", "/CMapType", "1", "def",
		"1", "begincodespacerange", "<00>", "<ff>", "endcodespacerange",
		"2", "beginbfchar", "<41>", "<0041>", "<42>", "<0042>", "endbfchar",
		"1", "begincidrange", "<00>", "<40>", "0", "endcidrange",
		"2", "begincidchar", "<50>", "7", "<51>", "8", "endcidchar",
		"1", "beginbfrange", "<60>", "<6f>", "<0060>", "endbfrange",
		"1", "beginnotdefrange", "<f0>", "<ff>", "1", "endnotdefrange",
		"1", "beginnotdefchar", "<e0>", "2", "endnotdefchar",
		"endcmap", "CMapName", "currentdict", "/CMap", "defineresource", "pop", "end", "end"))
	// programs that end in the middle of something: whatever they give (an
	// error, as a rule), they give it however the bytes arrive
	for i, bad := range []string{"1 2 add >", "%!PS\n/before 1 def\ncurrentfile eexec ab", "%!PS\ncurrentfile eexec\n", "/a (unterminated string", "/b <48 6", "{ 1 2 add", "/x 1 def <<", "1 2 add ~>", "3 <~87cUR", "4 <", "5 /", "6 %"} {
		out = append(out, Input{Name: fmt.Sprintf("ends-abruptly-%d", i), Kind: "ps", Data: []byte(bad)})
	}
	// a stray delimiter in the middle: the error (or not) is the same whether or
	// not the reader has already reported the end of the input when it is met
	for i, bad := range []string{"1 > 2", "1 >2 3", "1 ) 2", "1 } 2", "1 ] 2", "1 ~> 2", "1 <~ 2", "1 < 2", "(a) > (b) /c", "1 >\n2", "1 >>  2", "1 > > 2", "/a > /b", "1 <z> 2", "1 <~z~> 2"} {
		out = append(out, Input{Name: fmt.Sprintf("stray-delimiter-%d", i), Kind: "ps", Data: []byte(bad)})
	}
	// a long program that crosses several 512-byte refills
	var long []string
	for i := 0; i < 260; i++ {
		long = append(long, fmt.Sprint(i), "pop")
	}
	long = append(long, "(done)")
	out = append(out, tokenised("long-program", long...))
	return out
}

// CMaps returns the CMap corpus.
func CMaps() []Input {
	head := func(name string) string {
		return "%!PS-Adobe-3.0 Resource-CMap\n%%DocumentNeededResources: ProcSet (CIDInit)\n%%IncludeResource: ProcSet (CIDInit)\n%%BeginResource: CMap (" + name + ")\n%%Title: (" + name + " Adobe Japan1 0)\n%%Version: 1\n%%EndComments\n" +
			"/CIDInit /ProcSet findresource begin\n12 dict begin\nbegincmap\n/CIDSystemInfo 3 dict dup begin\n/Registry (Adobe) def\n/Ordering (Japan1) def\n/Supplement 0 def\nend def\n/CMapName /" + name + " def\n/CMapVersion 1 def\n/CMapType 1 def\n/WMode 0 def\n"
	}
	tail := "endcmap\nCMapName currentdict /CMap defineresource pop\nend\nend\n%%EndResource\n%%EOF\n"
	cid := head("Test-H") + "2 begincodespacerange\n<00> <80>\n<8140> <9ffc>\nendcodespacerange\n1 beginnotdefrange\n<00> <1f> 1\nendnotdefrange\n3 begincidrange\n<20> <7e> 231\n<8140> <817e> 633\n<8180> <81ac> 696\nendcidrange\n2 begincidchar\n<80> 97\n<8940> 1125\nendcidchar\n" + tail
	bf := head("Test-UCS") + "/Other /Test-H usecmap\n1 begincodespacerange\n<0000> <ffff>\nendcodespacerange\n2 beginbfchar\n<0003> <0020>\n<0004> /exclam\nendbfchar\n2 beginbfrange\n<0010> <0012> <0041>\n<0020> <0021> [/a /b]\nendbfrange\n1 beginnotdefchar\n<0001> 7\nendnotdefchar\n" + tail
	var big strings.Builder
	big.WriteString(head("Test-Big"))
	big.WriteString("1 begincodespacerange\n<0000> <ffff>\nendcodespacerange\n")
	for blk := 0; blk < 3; blk++ {
		big.WriteString("100 begincidchar\n")
		for i := 0; i < 100; i++ {
			fmt.Fprintf(&big, "<%04x> %d\n", 0x1000+blk*0x100+i, blk*100+i)
		}
		big.WriteString("endcidchar\n")
	}
	big.WriteString(tail)
	two := head("Zeta") + "1 begincodespacerange <00> <ff> endcodespacerange\n" + "endcmap\nCMapName currentdict /CMap defineresource pop\nend\nend\n" +
		head("Alpha") + "1 begincodespacerange <00> <7f> endcodespacerange\n" + tail
	return []Input{
		{Name: "cid-ranges", Kind: "cmap", Data: []byte(cid)},
		{Name: "bf-usecmap", Kind: "cmap", Data: []byte(bf)},
		{Name: "three-full-blocks", Kind: "cmap", Data: []byte(big.String())},
		{Name: "two-cmaps", Kind: "cmap", Data: []byte(two)},
	}
}

// SampleFont returns a small but complete font.
func SampleFont() *type1.Font {
	f := &type1.Font{
		FontInfo: &type1.FontInfo{
			FontName: "Verif-Sample", Version: "001.002", Notice: "a (balanced) notice", Copyright: "(c) \\ nobody",
			FullName: "Verif Sample", FamilyName: "Verif", Weight: "Regular", ItalicAngle: -9.5, IsFixedPitch: false,
			UnderlinePosition: -100, UnderlineThickness: 50, FontMatrix: [6]float64{0.001, 0, 0, 0.001, 0, 0},
		},
		Private: &type1.PrivateDict{
			BlueValues: []funit.Int16{-10, 0, 700, 710}, OtherBlues: []funit.Int16{-200, -190}, BlueScale: 0.039625, BlueShift: 7, BlueFuzz: 1, StdHW: 50, StdVW: 80.5, ForceBold: true,
		},
		Glyphs:       map[string]*type1.Glyph{},
		CreationDate: time.Date(2024, 2, 29, 13, 14, 15, 0, time.UTC),
	}
	g := f.NewGlyph(".notdef", 500)
	g = f.NewGlyph("space", 250)
	g = f.NewGlyph("A", 722)
	g.HStem = []funit.Int16{0, 20, 680, 700}
	g.VStem = []funit.Int16{100, 180}
	g.MoveTo(100, 0)
	g.LineTo(300, 700)
	g.LineTo(500, 0)
	g.LineTo(400, 0)
	g.CurveTo(380, 100, 220, 100, 200, 0)
	g.ClosePath()
	g.MoveTo(250, 300)
	g.LineTo(350, 300)
	g.LineTo(300, 450.5)
	g.ClosePath()
	g = f.NewGlyph("B", 650)
	g.MoveTo(80, 0)
	g.LineTo(80, 700)
	g.CurveTo(400, 700, 400, 400, 80, 350)
	g.CurveTo(450, 350, 450, 0, 80, 0)
	g.ClosePath()
	g = f.NewGlyph("odd.name_1", 333)
	g.MoveTo(0, 0)
	g.LineTo(1.0/3, 2.0/3)
	g.LineTo(10, 0)
	g.ClosePath()
	enc := make([]string, 256)
	for i := range enc {
		enc[i] = ".notdef"
	}
	enc[32] = "space"
	enc[65] = "A"
	enc[66] = "B"
	enc[200] = "odd.name_1"
	f.Encoding = enc
	return f
}

var formatNames = map[type1.FileFormat]string{type1.FormatPFA: "pfa", type1.FormatPFB: "pfb", type1.FormatBinary: "binary", type1.FormatNoEExec: "noeexec"}

// Formats lists the four file formats.
var Formats = []type1.FileFormat{type1.FormatPFA, type1.FormatPFB, type1.FormatBinary, type1.FormatNoEExec}

// FormatName names a format.
func FormatName(f type1.FileFormat) string { return formatNames[f] }

// Fonts returns the sample font written by the library in each of the four formats.
func Fonts() []Input {
	var out []Input
	f := SampleFont()
	for _, format := range Formats {
		var b bytes.Buffer
		if err := f.Write(&b, &type1.WriterOptions{Format: format}); err != nil {
			panic(err)
		}
		out = append(out, Input{Name: "sample-" + formatNames[format], Kind: "font", Data: b.Bytes()})
	}
	return out
}

// FontsT1gen returns fonts written by the independent producer t1gen in styles
// the library's own writer never uses: seac composites, subroutines, flex, hint
// replacement, lenIV 0/7, the -| |- | names, dense Adobe style, CR line ends,
// split PFB segments.
func FontsT1gen() []Input {
	var out []Input
	items := t1model.C06Fonts()
	pick := func(g t1model.Group, n int) *t1model.Font {
		k := 0
		for _, it := range items {
			if it.Group == g {
				if k == n {
					return it.Font
				}
				k++
			}
		}
		panic("corpus: model font not found")
	}
	add := func(name string, m *t1model.Font, opt *t1gen.Options, per func(g *t1model.Glyph, l t1gen.GlyphLayout, o *t1gen.GlyphOpts)) {
		opt.Glyph = map[string]*t1gen.GlyphOpts{}
		for _, g := range m.Glyphs {
			o := &t1gen.GlyphOpts{}
			if per != nil {
				per(g, t1gen.Layout(g), o)
			}
			opt.Glyph[g.Name] = o
		}
		data, err := t1gen.Generate(m, opt)
		if err != nil {
			panic("corpus: t1gen: " + err.Error())
		}
		out = append(out, Input{Name: "t1gen-" + name, Kind: "font", Data: data})
	}
	add("composite-pfbsplit-dense", pick(t1model.GroupComposite, 0), &t1gen.Options{Container: t1gen.PFBSplit, LenIV: 4, Dense: true}, nil)
	add("multi-binary-leniv0-altnames-subrs", pick(t1model.GroupMulti, 9), &t1gen.Options{Container: t1gen.Binary, LenIV: 0, AltNames: true, EncForm: t1gen.EncExplicit},
		func(g *t1model.Glyph, l t1gen.GlyphLayout, o *t1gen.GlyphOpts) {
			if l.CanSubr {
				o.Subr = t1gen.SubrNested
			}
			o.HintRepl = l.CanHint
			o.DotSection = l.CanDot
		})
	// a glyph with flex positions: find the first outline font that has one
	for _, it := range items {
		if it.Group != t1model.GroupOutline {
			continue
		}
		has := false
		for _, g := range it.Font.Glyphs {
			if len(t1gen.Layout(g).FlexAt) > 0 {
				has = true
			}
		}
		if has {
			add("flex-pfa-cr-hexupper-div", it.Font, &t1gen.Options{Container: t1gen.PFA, LenIV: 4, Eol: t1gen.EolCR, HexUpper: true},
				func(g *t1model.Glyph, l t1gen.GlyphLayout, o *t1gen.GlyphOpts) {
					if len(l.FlexAt) > 0 {
						o.Flex = map[int]bool{l.FlexAt[0]: true}
					}
					o.NumForm = map[int]int{0: 2}
				})
			break
		}
	}
	add("noeexec-leniv7-crlf", pick(t1model.GroupOutline, 20), &t1gen.Options{Container: t1gen.NoEexec, LenIV: 7, Eol: t1gen.EolCRLF, EncForm: t1gen.EncNamingAbsent}, nil)
	return out
}

// SampleMetrics returns a small metrics value.
func SampleMetrics() *afm.Metrics {
	m := &afm.Metrics{
		Glyphs:   map[string]*afm.GlyphInfo{},
		Encoding: make([]string, 256),
		FontName: "Verif-Sample", FullName: "Verif Sample Bold", Version: "001.002", Notice: "some notice text",
		CapHeight: 700, XHeight: 480, Ascent: 720, Descent: -210, UnderlinePosition: -100, UnderlineThickness: 50, ItalicAngle: -9.5, IsFixedPitch: true,
	}
	for i := range m.Encoding {
		m.Encoding[i] = ".notdef"
	}
	add := func(name string, code int, w float64, lig map[string]string) {
		g := &afm.GlyphInfo{WidthX: w, Ligatures: lig}
		g.BBox.LLx, g.BBox.LLy, g.BBox.URx, g.BBox.URy = 10, -20, w-10, 700
		m.Glyphs[name] = g
		if code >= 0 {
			m.Encoding[code] = name
		}
	}
	add(".notdef", -1, 500, nil)
	add("space", 32, 250, nil)
	add("f", 102, 300, map[string]string{"i": "fi", "l": "fl", "f": "ff"})
	add("i", 105, 280, nil)
	add("fi", -1, 560, nil)
	m.Kern = []*afm.KernPair{{Left: "f", Right: "i", Adjust: -20}, {Left: "i", Right: "f", Adjust: 15}}
	return m
}

// AFMs returns the AFM corpus.
func AFMs() []Input {
	var b bytes.Buffer
	m := SampleMetrics()
	// one ligature only, so that the writer's output is deterministic
	m.Glyphs["f"].Ligatures = map[string]string{"i": "fi"}
	if err := m.Write(&b); err != nil {
		panic(err)
	}
	hand := "StartFontMetrics 4.1\r\nComment hand written\r\nFontName Hand-Written\r\nFullName Hand Written Italic\r\nVersion 1.0 beta\r\nNotice Copyright (c) nobody\r\nItalicAngle -12.5\r\nIsFixedPitch false\r\nUnderlinePosition -75\r\nUnderlineThickness 40\r\nCapHeight 690\r\nXHeight 470\r\nAscender 730\r\nDescender -220\r\nStartCharMetrics 3\r\n" +
		"C 32 ; WX 250 ; N space ; B 0 0 0 0 ;\r\nC 65 ; WX 700 ; N A ; B 10 0 690 700 ; L B AB ;\r\nC -1 ; WX 600 ; N AB ; B 5 -10 590 710 ;\r\nEndCharMetrics\r\nStartKernData\r\nStartKernPairs 1\r\nKPX A space -30\r\nEndKernPairs\r\nEndKernData\r\nEndFontMetrics\r\n"
	var long strings.Builder
	long.WriteString("StartFontMetrics 4.1\nFontName Many\nFullName Many Glyphs\nStartCharMetrics 120\n")
	for i := 0; i < 120; i++ {
		fmt.Fprintf(&long, "C %d ; WX %d ; N g%03d ; B 0 0 %d 700 ;\n", 32+i, 400+i, i, 390+i)
	}
	long.WriteString("EndCharMetrics\nEndFontMetrics\n")
	return []Input{
		{Name: "library-written", Kind: "afm", Data: b.Bytes()},
		{Name: "hand-written-crlf", Kind: "afm", Data: []byte(hand)},
		{Name: "many-glyphs", Kind: "afm", Data: []byte(long.String())},
		// line ends of every kind in one file (a lone CR between two keys and between
		// two glyph records, CR LF, LF, LF CR): whatever a lone CR is taken for, it
		// is the same however the bytes arrive
		{Name: "mixed-line-ends", Kind: "afm", Data: []byte("StartFontMetrics 4.1\nFontName Mixed\rFullName Mixed Line Ends\nVersion 1\r\nNotice n\n\rStartCharMetrics 4\n" +
			"C 65 ; WX 700 ; N A ; B 10 0 690 700 ;\rC 66 ; WX 600 ; N B ; B 0 0 590 700 ;\nC 67 ; WX 500 ; N C ; B 0 0 490 700 ;\r\nC 68 ; WX 400 ; N D ; B 0 0 390 700 ;\n" +
			"EndCharMetrics\rEndFontMetrics\n")},
	}
}

func pfbSeg(typ byte, data []byte) []byte {
	n := len(data)
	return append([]byte{0x80, typ, byte(n), byte(n >> 8), byte(n >> 16), byte(n >> 24)}, data...)
}

// PFBs returns PFB streams (decoded with pfb.Decode only).
func PFBs() []Input {
	bin := make([]byte, 700)
	for i := range bin {
		bin[i] = byte(i*7 + 3)
	}
	cat := func(parts ...[]byte) []byte {
		var b []byte
		for _, p := range parts {
			b = append(b, p...)
		}
		return b
	}
	text := []byte("%!PS-AdobeFont-1.0: X\ncurrentfile eexec\n")
	return []Input{
		{Name: "text-bin-text-end", Kind: "pfb", Data: cat(pfbSeg(1, text), pfbSeg(2, bin), pfbSeg(1, []byte("cleartomark\n")), []byte{0x80, 3})},
		{Name: "no-end-marker", Kind: "pfb", Data: cat(pfbSeg(1, text), pfbSeg(2, bin[:5]))},
		{Name: "no-end-marker-text-last", Kind: "pfb", Data: cat(pfbSeg(2, bin[:9]), pfbSeg(1, []byte("cleartomark and some more text\n")))},
		{Name: "no-end-marker-one-text-segment", Kind: "pfb", Data: pfbSeg(1, text)},
		{Name: "empty-segments", Kind: "pfb", Data: cat(pfbSeg(1, nil), pfbSeg(2, nil), pfbSeg(1, []byte("x")), pfbSeg(2, bin[:1]), []byte{0x80, 3})},
		{Name: "garbage-after-end", Kind: "pfb", Data: cat(pfbSeg(2, bin[:33]), []byte{0x80, 3}, []byte("garbage"))},
		{Name: "bad-second-header", Kind: "pfb", Data: cat(pfbSeg(1, text), []byte{0x81, 1, 1, 0, 0, 0, 'x'})},
		{Name: "only-binary-large", Kind: "pfb", Data: cat(pfbSeg(2, bin), pfbSeg(2, bin), []byte{0x80, 3})},
	}
}
