// Package numref is a reference reading of the number and command encodings of
// Type 1 charstrings (Adobe Type 1 Font Format, chapter 6.2), written from the
// specification and independent of the library's encoder and decoder.
//
//	v in 32..246            one byte      value v-139                    (-107 .. 107)
//	v in 247..250, w        two bytes     (v-247)*256 + w + 108          (108 .. 1131)
//	v in 251..254, w        two bytes     -(v-251)*256 - w - 108         (-1131 .. -108)
//	255, b1 b2 b3 b4        five bytes    big-endian two's complement 32-bit integer
//	0..31                   commands; 12 is the escape to the two-byte commands
//
// All arithmetic on decoded values is exact (int64 / math/big.Rat).
package numref

import (
	"fmt"
	"math/big"
)

// Format of an encoded integer.
type Format int

const (
	FormatNone Format = iota
	Format1           // one byte, -107..107
	Format2Pos        // two bytes, 108..1131
	Format2Neg        // two bytes, -1131..-108
	Format5           // five bytes, everything else in the 32-bit range
)

func (f Format) String() string {
	switch f {
	case Format1:
		return "1-byte"
	case Format2Pos:
		return "2-byte-positive"
	case Format2Neg:
		return "2-byte-negative"
	case Format5:
		return "5-byte"
	}
	return "none"
}

// ProperFormat is the format the specification's ranges assign to v: the
// one-byte form for -107..107, the two two-byte forms for 108..1131 and
// -1131..-108, the five-byte form for every other 32-bit integer.
func ProperFormat(v int64) Format {
	switch {
	case v >= -107 && v <= 107:
		return Format1
	case v >= 108 && v <= 1131:
		return Format2Pos
	case v >= -1131 && v <= -108:
		return Format2Neg
	default:
		return Format5
	}
}

// DecodeNumber decodes one number at the start of code.  n is the number of
// bytes it occupies; n == 0 means code does not start with a complete number.
func DecodeNumber(code []byte) (val int64, n int, f Format) {
	if len(code) == 0 {
		return 0, 0, FormatNone
	}
	v := int64(code[0])
	switch {
	case v >= 32 && v <= 246:
		return v - 139, 1, Format1
	case v >= 247 && v <= 250:
		if len(code) < 2 {
			return 0, 0, FormatNone
		}
		return (v-247)*256 + int64(code[1]) + 108, 2, Format2Pos
	case v >= 251 && v <= 254:
		if len(code) < 2 {
			return 0, 0, FormatNone
		}
		return -(v-251)*256 - int64(code[1]) - 108, 2, Format2Neg
	case v == 255:
		if len(code) < 5 {
			return 0, 0, FormatNone
		}
		u := uint32(code[1])<<24 | uint32(code[2])<<16 | uint32(code[3])<<8 | uint32(code[4])
		return int64(int32(u)), 5, Format5
	}
	return 0, 0, FormatNone
}

// Command codes.  Two-byte commands (12 x) are represented as 0x0c00 | x.
const (
	OpHStem           = 1
	OpVStem           = 3
	OpVMoveTo         = 4
	OpRLineTo         = 5
	OpHLineTo         = 6
	OpVLineTo         = 7
	OpRRCurveTo       = 8
	OpClosePath       = 9
	OpCallSubr        = 10
	OpReturn          = 11
	OpEscape          = 12
	OpHSBW            = 13
	OpEndChar         = 14
	OpRMoveTo         = 21
	OpHMoveTo         = 22
	OpVHCurveTo       = 30
	OpHVCurveTo       = 31
	OpDotSection      = 0x0c00
	OpVStem3          = 0x0c01
	OpHStem3          = 0x0c02
	OpSeac            = 0x0c06
	OpSBW             = 0x0c07
	OpDiv             = 0x0c0c
	OpCallOtherSubr   = 0x0c10
	OpPop             = 0x0c11
	OpSetCurrentPoint = 0x0c21
)

// Token is one element of a charstring: a number or a command.
type Token struct {
	IsNum  bool
	Num    int64
	Format Format // for numbers
	Op     int    // for commands
}

func (t Token) String() string {
	if t.IsNum {
		return fmt.Sprint(t.Num)
	}
	return OpName(t.Op)
}

// OpName gives the specification's name of a command code.
func OpName(op int) string {
	switch op {
	case OpHStem:
		return "hstem"
	case OpVStem:
		return "vstem"
	case OpVMoveTo:
		return "vmoveto"
	case OpRLineTo:
		return "rlineto"
	case OpHLineTo:
		return "hlineto"
	case OpVLineTo:
		return "vlineto"
	case OpRRCurveTo:
		return "rrcurveto"
	case OpClosePath:
		return "closepath"
	case OpCallSubr:
		return "callsubr"
	case OpReturn:
		return "return"
	case OpHSBW:
		return "hsbw"
	case OpEndChar:
		return "endchar"
	case OpRMoveTo:
		return "rmoveto"
	case OpHMoveTo:
		return "hmoveto"
	case OpVHCurveTo:
		return "vhcurveto"
	case OpHVCurveTo:
		return "hvcurveto"
	case OpDotSection:
		return "dotsection"
	case OpVStem3:
		return "vstem3"
	case OpHStem3:
		return "hstem3"
	case OpSeac:
		return "seac"
	case OpSBW:
		return "sbw"
	case OpDiv:
		return "div"
	case OpCallOtherSubr:
		return "callothersubr"
	case OpPop:
		return "pop"
	case OpSetCurrentPoint:
		return "setcurrentpoint"
	}
	if op >= 0x0c00 {
		return fmt.Sprintf("op(12 %d)", op&0xff)
	}
	return fmt.Sprintf("op(%d)", op)
}

// Tokenize splits a plain (decrypted, lead bytes removed) charstring.
func Tokenize(code []byte) ([]Token, error) {
	var out []Token
	for len(code) > 0 {
		b := code[0]
		if b >= 32 {
			v, n, f := DecodeNumber(code)
			if n == 0 {
				return out, fmt.Errorf("truncated number at end of charstring (first byte %d)", b)
			}
			out = append(out, Token{IsNum: true, Num: v, Format: f})
			code = code[n:]
			continue
		}
		if b == OpEscape {
			if len(code) < 2 {
				return out, fmt.Errorf("truncated escape command")
			}
			out = append(out, Token{Op: 0x0c00 | int(code[1])})
			code = code[2:]
			continue
		}
		out = append(out, Token{Op: int(b)})
		code = code[1:]
	}
	return out, nil
}

// ---------------------------------------------------------------------------
// exact rational helpers

// R makes the rational a/b.
func R(a, b int64) *big.Rat { return big.NewRat(a, b) }

// FromFloat gives the exact rational value of a finite float64.
func FromFloat(x float64) *big.Rat {
	r := new(big.Rat)
	if r.SetFloat64(x) == nil {
		panic(fmt.Sprintf("numref: not finite: %v", x))
	}
	return r
}

// Bound is 1/214: half the spacing of the fractions p/107.
var Bound = big.NewRat(1, 214)

// AbsDiff returns |a-b|.
func AbsDiff(a, b *big.Rat) *big.Rat {
	d := new(big.Rat).Sub(a, b)
	return d.Abs(d)
}

// Within reports |a-b| <= tol.
func Within(a, b, tol *big.Rat) bool {
	return AbsDiff(a, b).Cmp(tol) <= 0
}

// ReadValue decodes a charstring fragment that consists of a single value as
// the encoder may write it: either one integer, or "p q div".  It returns the
// exact value, the tokens, and whether the fragment had exactly that shape.
func ReadValue(code []byte) (*big.Rat, []Token, bool) {
	toks, err := Tokenize(code)
	if err != nil {
		return nil, toks, false
	}
	switch {
	case len(toks) == 1 && toks[0].IsNum:
		return big.NewRat(toks[0].Num, 1), toks, true
	case len(toks) == 3 && toks[0].IsNum && toks[1].IsNum && !toks[2].IsNum && toks[2].Op == OpDiv:
		if toks[1].Num == 0 {
			return nil, toks, false
		}
		return big.NewRat(toks[0].Num, 1).Quo(big.NewRat(toks[0].Num, 1), big.NewRat(toks[1].Num, 1)), toks, true
	}
	return nil, toks, false
}
