// Package cmapmodel is the reference model of a CMap resource file: a CMap is
// a header (name, system info, type, writing mode, optional usecmap) and a
// list of blocks of seven kinds; the model says which tables a reader must
// deliver for it (Expected) and which files must be rejected (Status).
//
// It is written from the specification (PLRM 3rd ed. section 5.11.4 "CMap
// Dictionaries", Adobe Technical Note 5014 "CMap and CIDFont Files", Adobe
// Technical Note 5411 "ToUnicode Mapping File Tutorial") and from the text of
// property C07; it does not import the library under test.
package cmapmodel

import (
	"bytes"
	"fmt"
	"sort"
	"strings"
)

// Kind is one of the seven block kinds of a CMap body.
type Kind int

const (
	CodeSpaceRange Kind = iota
	CidChar
	CidRange
	BfChar
	BfRange
	NotdefChar
	NotdefRange
	NumKinds
)

var kindNames = [...]string{"codespacerange", "cidchar", "cidrange", "bfchar", "bfrange", "notdefchar", "notdefrange"}

func (k Kind) String() string { return kindNames[k] }

// HasBounds reports whether an entry of this kind has a low and a high code.
func (k Kind) HasBounds() bool {
	return k == CodeSpaceRange || k == CidRange || k == BfRange || k == NotdefRange
}

// HasDst reports whether an entry of this kind has a destination.
func (k Kind) HasDst() bool { return k != CodeSpaceRange }

// IsRangeMapping reports whether this is one of the three kinds mapping a
// range of codes to a destination.
func (k Kind) IsRangeMapping() bool { return k == CidRange || k == BfRange || k == NotdefRange }

// Width is the number of operands one entry of this kind has in the file.
func (k Kind) Width() int {
	if k.IsRangeMapping() {
		return 3
	}
	return 2
}

// VType is the PostScript type of a value.
type VType int

const (
	TNone VType = iota
	TInt
	TReal
	TBool
	TString
	TName
	TArray
	TProc
	TOther // only produced when observing an implementation
)

var typeNames = [...]string{"none", "integer", "real", "boolean", "string", "name", "array", "procedure", "other"}

func (t VType) String() string { return typeNames[t] }

// Value is a PostScript value as far as CMap files need them.
type Value struct {
	T VType
	I int
	R float64
	B bool
	S []byte
	N string
	A []Value
}

func Int(i int) Value        { return Value{T: TInt, I: i} }
func Real(r float64) Value   { return Value{T: TReal, R: r} }
func Bool(b bool) Value      { return Value{T: TBool, B: b} }
func Str(b ...byte) Value    { return Value{T: TString, S: append([]byte{}, b...)} }
func Name(n string) Value    { return Value{T: TName, N: n} }
func Array(a ...Value) Value { return Value{T: TArray, A: append([]Value{}, a...)} }
func Proc(a ...Value) Value  { return Value{T: TProc, A: append([]Value{}, a...)} }

// Key is a canonical rendering used for comparison and messages.
func (v Value) Key() string {
	switch v.T {
	case TNone:
		return "-"
	case TInt:
		return fmt.Sprintf("%d", v.I)
	case TReal:
		return fmt.Sprintf("real(%g)", v.R)
	case TBool:
		return fmt.Sprintf("%v", v.B)
	case TString:
		return fmt.Sprintf("<%x>", v.S)
	case TName:
		return "/" + v.N
	case TArray, TProc:
		var parts []string
		for _, e := range v.A {
			parts = append(parts, e.Key())
		}
		if v.T == TProc {
			return "{" + strings.Join(parts, " ") + "}"
		}
		return "[" + strings.Join(parts, " ") + "]"
	}
	return "other(" + v.N + ")"
}

// Entry is one entry of a block as written in the file.  For the single-code
// kinds only Lo (the source code) and Dst are used; code-space ranges have no
// Dst.  Lo and Hi are Values so that a fault variant can put a non-string
// there.
type Entry struct {
	Lo, Hi, Dst Value
}

func (e Entry) Key() string { return e.Lo.Key() + " " + e.Hi.Key() + " " + e.Dst.Key() }

// Block is one begin…/end… block.
type Block struct {
	Kind    Kind
	Entries []Entry
	// Declared is the count written before the begin operator; -1 means
	// len(Entries).
	Declared int
	// DropOperands operands are left out at the end of the block's operand
	// list (so the last entry is incomplete).
	DropOperands int
}

// DeclaredCount resolves Declared.
func (b Block) DeclaredCount() int {
	if b.Declared < 0 {
		return len(b.Entries)
	}
	return b.Declared
}

// CMap is one CMap resource as written in a file.
type CMap struct {
	Name       string
	Registry   string
	Ordering   string
	Supplement int
	Type       int
	WMode      int
	NoWMode    bool   // the file does not define /WMode
	UseCMap    string // "" = no usecmap
	Blocks     []Block

	// departures from the standard form
	NoBeginCMap      bool // begincmap left out
	NoDefineResource bool // "CMapName currentdict /CMap defineresource pop" left out
	ExtraEndCMap     bool // a second endcmap directly after the first
	BlockAfterEnd    *Block
}

// File is a CMap resource file: normally one CMap, for the multi-CMap
// exploration two or three.
type File struct {
	CMaps []CMap
	// SharedProcSet: all CMaps inside one "/CIDInit /ProcSet findresource
	// begin … end" instead of one per CMap.
	SharedProcSet bool
}

// Tables is what the code map of a CMap must hold.
type Tables struct {
	UseCMap string
	T       [NumKinds][]Entry
}

// Verdict classes of Status.
const (
	Valid       = "valid"       // must be read, tables as Expected
	Reject      = "reject"      // must give an error and no dictionary
	Unspecified = "unspecified" // the property does not say
)

// Status classifies a file according to property C07 and names the reason.
// The operand stack is empty at every block of a file in the standard form,
// so "more entries declared than supplied" is decided by counting operands.
func (f File) Status() (class, reason string) {
	if len(f.CMaps) == 0 {
		return Reject, "no-cmap"
	}
	unspec := ""
	defined := 0
	for _, m := range f.CMaps {
		if m.NoBeginCMap {
			return Reject, "missing-begincmap"
		}
		for _, b := range m.Blocks {
			c, r := b.status()
			if c == Reject {
				return Reject, r
			}
			if c == Unspecified && unspec == "" {
				unspec = r
			}
		}
		if m.ExtraEndCMap && unspec == "" {
			unspec = "endcmap-twice"
		}
		if m.BlockAfterEnd != nil && unspec == "" {
			unspec = "block-after-endcmap"
		}
		if !m.NoDefineResource {
			defined++
		}
	}
	if unspec != "" {
		return Unspecified, unspec
	}
	if defined == 0 {
		return Reject, "no-defineresource"
	}
	return Valid, ""
}

func (b Block) status() (class, reason string) {
	n := b.DeclaredCount()
	if n > 100 {
		return Reject, "count-over-100"
	}
	w := b.Kind.Width()
	supplied := w*len(b.Entries) - b.DropOperands
	if n*w > supplied {
		return Reject, "declared-more-than-supplied"
	}
	if n*w < supplied {
		return Unspecified, "declared-fewer-than-supplied"
	}
	unspec := ""
	for _, e := range b.Entries {
		if e.Lo.T != TString {
			return Reject, "source-not-a-string"
		}
		if b.Kind.HasBounds() {
			if e.Hi.T != TString {
				return Reject, "source-not-a-string"
			}
			if len(e.Lo.S) != len(e.Hi.S) {
				return Reject, "bounds-of-unequal-length"
			}
			if bytes.Compare(e.Lo.S, e.Hi.S) > 0 {
				// "a reversed range ... is rejected": the three kinds of range
				// mappings and code space ranges alike
				return Reject, "low-above-high"
			}
		}
		if b.Kind.HasDst() && !DstAllowed(b.Kind, e.Dst.T) {
			return Reject, "wrong-destination-type"
		}
		if e.Dst.T == TArray {
			for _, x := range e.Dst.A {
				if x.T != TString && x.T != TName {
					unspec = "array-element-type"
				}
			}
		}
	}
	if unspec != "" {
		return Unspecified, unspec
	}
	return Valid, ""
}

// DstAllowed says which destination types a kind takes: CIDs and notdef CIDs
// are integers; a bfchar maps to a string or a glyph name; a bfrange maps to a
// string or an array (of strings / glyph names).
func DstAllowed(k Kind, t VType) bool {
	switch k {
	case CidChar, CidRange, NotdefChar, NotdefRange:
		return t == TInt
	case BfChar:
		return t == TString || t == TName
	case BfRange:
		return t == TString || t == TArray
	}
	return false
}

// Returned gives the index of the CMap a reader of the whole file returns:
// the defined CMap with the smallest name (byte-wise).
func (f File) Returned() int {
	best := -1
	for i, m := range f.CMaps {
		if m.NoDefineResource {
			continue
		}
		if best < 0 || m.Name < f.CMaps[best].Name {
			best = i
		}
	}
	return best
}

// Expected returns the tables of a valid CMap: every entry of every block in
// its kind's table, each table sorted by source code (byte-wise comparison of
// the code strings; code-space ranges by length first).  Entries with the
// same sort key are put in a canonical order; Compare treats them as a
// multiset.
func (m CMap) Expected() Tables {
	var t Tables
	t.UseCMap = m.UseCMap
	for _, b := range m.Blocks {
		for _, e := range b.Entries {
			if !b.Kind.HasBounds() {
				e.Hi = Value{}
			}
			if !b.Kind.HasDst() {
				e.Dst = Value{}
			}
			t.T[b.Kind] = append(t.T[b.Kind], e)
		}
	}
	for k := Kind(0); k < NumKinds; k++ {
		canon(k, t.T[k])
	}
	return t
}

// Less is the specified order of table k on source codes.
func Less(k Kind, a, b Entry) bool {
	if k == CodeSpaceRange && len(a.Lo.S) != len(b.Lo.S) {
		return len(a.Lo.S) < len(b.Lo.S)
	}
	return bytes.Compare(a.Lo.S, b.Lo.S) < 0
}

func canon(k Kind, es []Entry) {
	sort.SliceStable(es, func(i, j int) bool {
		if Less(k, es[i], es[j]) {
			return true
		}
		if Less(k, es[j], es[i]) {
			return false
		}
		return es[i].Key() < es[j].Key()
	})
}

// Mismatch describes the first difference found by Compare.
type Mismatch struct {
	Table  string // table name, "usecmap" or "entry-count"
	What   string // order | source | high-bound | destination; for entry-count the tables with too many (+) / too few (-) entries
	Detail string
}

// Compare checks observed tables against the expected ones: same number of
// entries, observed table in the specified order, and the same entries
// (entries with equal sort key in any order).
func Compare(want, got Tables) *Mismatch {
	if want.UseCMap != got.UseCMap {
		return &Mismatch{"usecmap", "content", fmt.Sprintf("expected usecmap %q, got %q", want.UseCMap, got.UseCMap)}
	}
	// entry counts of all tables first, so that an entry put into the wrong
	// table is named as such
	var signs, details []string
	for k := Kind(0); k < NumKinds; k++ {
		w, g := want.T[k], got.T[k]
		if len(g) == len(w) {
			continue
		}
		sign := "-"
		if len(g) > len(w) {
			sign = "+"
		}
		signs = append(signs, k.String()+sign)
		details = append(details, fmt.Sprintf("table %s: expected %d entries %s, got %d entries %s", k, len(w), Dump(w), len(g), Dump(g)))
	}
	if len(signs) > 0 {
		return &Mismatch{"entry-count", strings.Join(signs, ","), strings.Join(details, "; ")}
	}
	for k := Kind(0); k < NumKinds; k++ {
		w, g := want.T[k], got.T[k]
		for i := 1; i < len(g); i++ {
			if Less(k, g[i], g[i-1]) {
				return &Mismatch{k.String(), "order", fmt.Sprintf("table %s not sorted by source code at index %d: %s", k, i, Dump(g))}
			}
		}
		gc := append([]Entry(nil), g...)
		canon(k, gc)
		for i := range w {
			if w[i].Key() != gc[i].Key() {
				// name the first component in which the tables differ as multisets
				what := "destination"
				if !sameMultiset(w, gc, func(e Entry) string { return e.Lo.Key() }) {
					what = "source"
				} else if !sameMultiset(w, gc, func(e Entry) string { return e.Lo.Key() + " " + e.Hi.Key() }) {
					what = "high-bound"
				}
				return &Mismatch{k.String(), what, fmt.Sprintf("table %s: expected %s, got %s", k, Dump(w), Dump(g))}
			}
		}
	}
	return nil
}

func sameMultiset(a, b []Entry, key func(Entry) string) bool {
	count := map[string]int{}
	for _, e := range a {
		count[key(e)]++
	}
	for _, e := range b {
		count[key(e)]--
	}
	for _, n := range count {
		if n != 0 {
			return false
		}
	}
	return true
}

// Dump renders a table.
func Dump(es []Entry) string {
	var parts []string
	for i, e := range es {
		if i == 12 && len(es) > 14 {
			parts = append(parts, fmt.Sprintf("… %d more", len(es)-i))
			break
		}
		parts = append(parts, e.Key())
	}
	return "{" + strings.Join(parts, "; ") + "}"
}

// Count returns the total number of entries in all tables.
func (t Tables) Count() int {
	n := 0
	for k := range t.T {
		n += len(t.T[k])
	}
	return n
}
