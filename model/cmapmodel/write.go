package cmapmodel

import (
	"bytes"
	"fmt"
	"strconv"
	"strings"
)

// Layout holds the layout decisions of the writer.  The zero value is the
// usual form of CMap files as distributed by Adobe: DSC header and trailer,
// one statement per line, one entry per line, LF line ends, upper-case hex.
type Layout struct {
	Sep       int  // see SepNames
	Comments  int  // see CommentNames
	DSC       int  // see DSCNames
	LowerHex  bool // hex digits a-f
	HexSpaces bool // white space between the bytes of hex strings
	BlockLine bool // all entries of a block on one line
	UseFirst  bool // "/X usecmap" right after begincmap (default: after the header definitions)
	HeaderEnd bool // header definitions (and, unless UseFirst, usecmap) after the blocks instead of before them
}

const (
	SepLF = iota
	SepCR
	SepCRLF
	SepSpaces  // single spaces, no line breaks except where a comment needs one
	SepJunk    // tabs, form feeds, NULs, blank lines, indentation
	SepMinimal // no white space at all where the tokens delimit themselves
	NumSep
)

var SepNames = [...]string{"lf", "cr", "crlf", "spaces", "junk", "minimal"}

const (
	CommentsNone     = iota
	CommentsTrailing // a comment at the end of every line
	CommentsLines    // a comment line before every entry and operator
	CommentsTricky   // comment lines containing delimiters and operator names
	NumComments
)

var CommentNames = [...]string{"none", "trailing", "lines", "tricky"}

const (
	DSCStandard = iota
	DSCNoHeader // only the %! line
	DSCNothing  // no comment lines at all
	DSCInside   // additional %%Key: value lines (with a %%+ continuation) inside the blocks
	DSCOdd      // additional odd lines inside the blocks: "%%", "%% x", "%%:y", "%%+ z"
	NumDSC
)

var DSCNames = [...]string{"standard", "no-header", "nothing", "inside-blocks", "odd-inside-blocks"}

func (l Layout) String() string {
	s := fmt.Sprintf("sep=%s comments=%s dsc=%s", SepNames[l.Sep], CommentNames[l.Comments], DSCNames[l.DSC])
	for _, f := range []struct {
		on   bool
		name string
	}{{l.LowerHex, "lowerhex"}, {l.HexSpaces, "hexspaces"}, {l.BlockLine, "blockline"}, {l.UseFirst, "usecmap-first"}, {l.HeaderEnd, "header-after-blocks"}} {
		if f.on {
			s += " " + f.name
		}
	}
	return s
}

// Token kinds.
const (
	TokNormal  = iota
	TokComment // "% …": must be followed by a line end
	TokDSC     // "%%…": must start in column 0 and be followed by a line end
	TokRaw     // white space written as is
)

// Tok is one token of the file with its standard-form line structure.
type Tok struct {
	S     string
	Kind  int
	EOL   bool // the standard form breaks the line after this token
	Entry bool // first token of a block entry, or a begin…/end… operator line
}

type tokWriter struct {
	l    Layout
	toks []Tok
	n    int
}

func (w *tokWriter) line(entry bool, ss ...string) {
	for i, s := range ss {
		w.toks = append(w.toks, Tok{S: s, EOL: i == len(ss)-1, Entry: entry && i == 0})
	}
}

func (w *tokWriter) dsc(s string) { w.toks = append(w.toks, Tok{S: s, Kind: TokDSC, EOL: true}) }

func (w *tokWriter) hex(b []byte) string {
	const up, lo = "0123456789ABCDEF", "0123456789abcdef"
	d := up
	if w.l.LowerHex {
		d = lo
	}
	var sb strings.Builder
	sb.WriteByte('<')
	for i, c := range b {
		if w.l.HexSpaces && i > 0 {
			sb.WriteString([]string{" ", "\n", "\t "}[i%3])
		}
		sb.WriteByte(d[c>>4])
		sb.WriteByte(d[c&15])
	}
	if w.l.HexSpaces {
		sb.WriteByte(' ')
	}
	sb.WriteByte('>')
	return sb.String()
}

// value appends the tokens of a value.
func (w *tokWriter) value(out []string, v Value) []string {
	switch v.T {
	case TInt:
		return append(out, strconv.Itoa(v.I))
	case TReal:
		s := strconv.FormatFloat(v.R, 'f', -1, 64)
		if !strings.Contains(s, ".") {
			s += ".0"
		}
		return append(out, s)
	case TBool:
		return append(out, strconv.FormatBool(v.B))
	case TString:
		return append(out, w.hex(v.S))
	case TName:
		return append(out, "/"+v.N)
	case TArray, TProc:
		open, cl := "[", "]"
		if v.T == TProc {
			open, cl = "{", "}"
		}
		out = append(out, open)
		for _, e := range v.A {
			out = w.value(out, e)
		}
		return append(out, cl)
	}
	panic("cmapmodel: cannot write value of type " + v.T.String())
}

func (w *tokWriter) extra() {
	w.n++
	switch w.l.DSC {
	case DSCInside:
		w.dsc(fmt.Sprintf("%%%%Note%d: entry (%d) <41> endcmap", w.n, w.n))
		if w.n%2 == 0 {
			w.dsc("%%+ continued > ] def")
		}
	case DSCOdd:
		// (also the structured comments that mean "the document ends here" to a spooler: to the interpreter they are comments)
		w.dsc([]string{"%%", "%%EOF", "%% x", "%%Trailer", "%%:y", "%%EndResource", "%%+ z", "%%EOF:", "%%%", "%%EndProlog", "%%%%BoundingBox: 0 0 1 1"}[w.n%11])
	}
	switch w.l.Comments {
	case CommentsLines:
		w.toks = append(w.toks, Tok{S: fmt.Sprintf("%% entry %d", w.n), Kind: TokComment, EOL: true})
	case CommentsTricky:
		w.toks = append(w.toks, Tok{S: []string{"%) > endcmap", "% <41> 7 ] /x", "%", "%{ (", "% %%EOF"}[w.n%5], Kind: TokComment, EOL: true})
	}
}

func (w *tokWriter) block(b Block) {
	w.extra()
	w.line(true, strconv.Itoa(b.DeclaredCount()), "begin"+b.Kind.String())
	var ops [][]string
	for _, e := range b.Entries {
		var o []string
		o = w.value(o, e.Lo)
		if b.Kind.HasBounds() {
			o = w.value(o, e.Hi)
		}
		if b.Kind.HasDst() {
			// a destination is one operand, whatever it is
			d := w.value(nil, e.Dst)
			o = append(o, strings.Join(d, "\x00"))
		}
		ops = append(ops, o)
	}
	// drop operands from the end
	for d := b.DropOperands; d > 0 && len(ops) > 0; d-- {
		last := ops[len(ops)-1]
		last = last[:len(last)-1]
		if len(last) == 0 {
			ops = ops[:len(ops)-1]
		} else {
			ops[len(ops)-1] = last
		}
	}
	var all []string
	for _, o := range ops {
		var flat []string
		for _, s := range o {
			flat = append(flat, strings.Split(s, "\x00")...)
		}
		if w.l.BlockLine {
			all = append(all, flat...)
			continue
		}
		w.extra()
		w.line(true, flat...)
	}
	if w.l.BlockLine && len(all) > 0 {
		w.line(true, all...)
	}
	w.extra()
	w.line(true, "end"+b.Kind.String())
}

func psString(s string) string {
	// literal string; the generator only uses characters that need no escape
	return "(" + s + ")"
}

func (w *tokWriter) header(m CMap) {
	w.line(false, "/CIDSystemInfo", "3", "dict", "dup", "begin")
	w.line(false, "/Registry", psString(m.Registry), "def")
	w.line(false, "/Ordering", psString(m.Ordering), "def")
	w.line(false, "/Supplement", strconv.Itoa(m.Supplement), "def")
	w.line(false, "end", "def")
	w.line(false, "/CMapName", "/"+m.Name, "def")
	w.line(false, "/CMapVersion", "1.000", "def")
	w.line(false, "/CMapType", strconv.Itoa(m.Type), "def")
	w.line(false, "/UIDOffset", "0", "def")
	w.line(false, "/XUID", "[", "1", "10", "25343", "]", "def")
	if !m.NoWMode {
		w.line(false, "/WMode", strconv.Itoa(m.WMode), "def")
	}
}

func (w *tokWriter) cmap(m CMap) {
	w.line(false, "12", "dict", "begin")
	if !m.NoBeginCMap {
		w.line(false, "begincmap")
	}
	use := func() {
		if m.UseCMap != "" {
			w.line(false, "/"+m.UseCMap, "usecmap")
		}
	}
	if w.l.UseFirst {
		use()
	}
	if !w.l.HeaderEnd {
		w.header(m)
	}
	if !w.l.UseFirst && !w.l.HeaderEnd {
		use()
	}
	for _, b := range m.Blocks {
		w.block(b)
	}
	if w.l.HeaderEnd {
		w.header(m)
		if !w.l.UseFirst {
			use() // behind the header definitions also when they follow the blocks: usecmap after every block
		}
	}
	w.line(false, "endcmap")
	if m.ExtraEndCMap {
		w.line(false, "endcmap")
	}
	if m.BlockAfterEnd != nil {
		w.block(*m.BlockAfterEnd)
	}
	if !m.NoDefineResource {
		w.line(false, "CMapName", "currentdict", "/CMap", "defineresource", "pop")
	}
	w.line(false, "end")
}

// Tokens returns the token list of the file under the layout.
func Tokens(f File, l Layout) []Tok {
	w := &tokWriter{l: l}
	first := CMap{Name: "None"}
	if len(f.CMaps) > 0 {
		first = f.CMaps[0]
	}
	if l.DSC != DSCNothing {
		w.toks = append(w.toks, Tok{S: "%!PS-Adobe-3.0 Resource-CMap", Kind: TokComment, EOL: true})
	}
	hdr := l.DSC != DSCNothing && l.DSC != DSCNoHeader
	if hdr {
		w.dsc("%%DocumentNeededResources: ProcSet (CIDInit)")
		w.dsc("%%IncludeResource: ProcSet (CIDInit)")
		w.dsc(fmt.Sprintf("%%%%BeginResource: CMap (%s)", first.Name))
		w.dsc(fmt.Sprintf("%%%%Title: (%s %s %s %d)", first.Name, first.Registry, first.Ordering, first.Supplement))
		w.dsc("%%Version: 1.000")
		w.dsc("%%EndComments")
	}
	if f.SharedProcSet {
		w.line(false, "/CIDInit", "/ProcSet", "findresource", "begin")
	}
	for _, m := range f.CMaps {
		if !f.SharedProcSet {
			w.line(false, "/CIDInit", "/ProcSet", "findresource", "begin")
		}
		w.cmap(m)
		if !f.SharedProcSet {
			w.line(false, "end")
		}
	}
	if f.SharedProcSet {
		w.line(false, "end")
	}
	if hdr {
		w.dsc("%%EndResource")
		w.dsc("%%EOF")
	}
	if l.Comments == CommentsTrailing {
		var out []Tok
		n := 0
		for _, t := range w.toks {
			out = append(out, t)
			if t.Kind == TokNormal && t.EOL {
				n++
				out = append(out, Tok{S: fmt.Sprintf("%% line %d", n), Kind: TokComment, EOL: true})
			}
		}
		w.toks = out
	}
	return w.toks
}

// Insertion kinds for Insert.
const (
	InsComment = iota
	InsDSC
	InsSpace
	NumIns
)

var InsNames = [...]string{"comment", "dsc-line", "white-space"}

// Insert returns toks with one extra item in front of token index gap
// (gap == len(toks): at the end).
func Insert(toks []Tok, gap, kind int) []Tok {
	var t Tok
	switch kind {
	case InsComment:
		t = Tok{S: "% inserted ) > ] endcmap", Kind: TokComment, EOL: true}
	case InsDSC:
		t = Tok{S: "%%Inserted: (x) <41> endcmap", Kind: TokDSC, EOL: true}
	default:
		t = Tok{S: "\t\f \x00\r\n\n ", Kind: TokRaw}
	}
	out := make([]Tok, 0, len(toks)+1)
	out = append(out, toks[:gap]...)
	out = append(out, t)
	out = append(out, toks[gap:]...)
	return out
}

func delimStart(s string) bool { return strings.IndexByte("<[/({%])}", s[0]) >= 0 }
func delimEnd(s string) bool   { return strings.IndexByte(">])}[{", s[len(s)-1]) >= 0 }

// Render writes the tokens.
func Render(toks []Tok, l Layout) []byte {
	var b bytes.Buffer
	eol := "\n"
	switch l.Sep {
	case SepCR:
		eol = "\r"
	case SepCRLF:
		eol = "\r\n"
	}
	col0 := true     // at the start of a line
	needSep := false // a separator is required before the next normal token
	var prev string
	n := 0
	for _, t := range toks {
		switch t.Kind {
		case TokRaw:
			b.WriteString(t.S)
			col0 = strings.HasSuffix(t.S, "\n") || strings.HasSuffix(t.S, "\r")
			needSep = false
			prev = ""
			continue
		case TokDSC:
			if !col0 {
				b.WriteString(eol)
			}
			b.WriteString(t.S)
			b.WriteString(eol)
			col0, needSep, prev = true, false, ""
			continue
		case TokComment:
			if needSep && l.Sep != SepMinimal {
				b.WriteByte(' ')
			}
			b.WriteString(t.S)
			b.WriteString(eol)
			col0, needSep, prev = true, false, ""
			continue
		}
		n++
		if needSep {
			switch l.Sep {
			case SepMinimal:
				if !(delimEnd(prev) || delimStart(t.S)) {
					b.WriteByte(' ')
				}
			case SepJunk:
				b.WriteString([]string{"\t", "  ", " \x00 ", "\f", " \t "}[n%5])
			default:
				b.WriteByte(' ')
			}
		}
		b.WriteString(t.S)
		col0, needSep, prev = false, true, t.S
		if t.EOL {
			switch l.Sep {
			case SepLF, SepCR, SepCRLF:
				b.WriteString(eol)
				col0, needSep = true, false
			case SepJunk:
				b.WriteString([]string{"\n", "\n\n   ", "\r\n\t", " \n"}[n%4])
				col0 = n%4 == 0 || n%4 == 3
				needSep = false
			}
		}
	}
	return b.Bytes()
}

// Write renders the file under the layout.
func Write(f File, l Layout) []byte { return Render(Tokens(f, l), l) }
