package afmcodec

import (
	"fmt"
	"math"
	"sort"
	"strings"

	"seehuhn.de/go/postscript/afm"
)

// Diff is one difference found by a comparer.  Field and Class together name
// the kind of difference (they go into the finding key); Detail is free text.
type Diff struct {
	Field  string
	Class  string
	Detail string
}

func (d Diff) Key() string { return d.Field + ":" + d.Class }

func textClass(want, got string) string {
	if got == "" {
		return "lost"
	}
	return "changed"
}

// NormEncoding brings an encoding vector to the canonical 256-entry form in
// which unassigned codes hold ".notdef" (an absent or short vector assigns
// nothing to the missing codes).
func NormEncoding(enc []string) [256]string {
	var out [256]string
	for i := range out {
		out[i] = ".notdef"
		if i < len(enc) && enc[i] != "" {
			out[i] = enc[i]
		}
	}
	return out
}

func sortedKeys[V any](m map[string]V) []string {
	keys := make([]string, 0, len(m))
	for k := range m {
		keys = append(keys, k)
	}
	sort.Strings(keys)
	return keys
}

func ligString(m map[string]string) string {
	var parts []string
	for _, k := range sortedKeys(m) {
		parts = append(parts, k+"->"+m[k])
	}
	return "{" + strings.Join(parts, " ") + "}"
}

func sameLigs(a, b map[string]string) bool {
	if len(a) != len(b) {
		return false
	}
	for k, v := range a {
		if w, ok := b[k]; !ok || w != v {
			return false
		}
	}
	return true
}

// Compare checks that got holds exactly the data of the model.  Numbers
// marked Exotic are skipped.  All iteration is in sorted order, so the result
// does not depend on Go's map order.
func Compare(m *Model, got *afm.Metrics) []Diff {
	var out []Diff
	add := func(field, class, format string, a ...any) {
		out = append(out, Diff{field, class, fmt.Sprintf(format, a...)})
	}
	text := func(field, want, have string) {
		if want != have {
			add(field, textClass(want, have), "%s: expected %q, got %q", field, want, have)
		}
	}
	num := func(field string, want Num, have float64) {
		if want.Exotic {
			return
		}
		if want.V != have {
			add(field, "changed", "%s: expected %v, got %v", field, want.V, have)
		}
	}
	text("FontName", m.FontName, got.FontName)
	text("FullName", m.FullName, got.FullName)
	text("Version", m.Version, got.Version)
	text("Notice", m.Notice, got.Notice)
	num("ItalicAngle", m.ItalicAngle, got.ItalicAngle)
	num("UnderlinePosition", m.UnderlinePosition, got.UnderlinePosition)
	num("UnderlineThickness", m.UnderlineThickness, got.UnderlineThickness)
	num("CapHeight", m.CapHeight, got.CapHeight)
	num("XHeight", m.XHeight, got.XHeight)
	num("Ascender", m.Ascender, got.Ascent)
	num("Descender", m.Descender, got.Descent)
	if m.IsFixedPitch != got.IsFixedPitch {
		add("IsFixedPitch", "changed", "IsFixedPitch: expected %v, got %v", m.IsFixedPitch, got.IsFixedPitch)
	}

	// glyphs
	want := map[string]*Glyph{}
	var wantEnc [256]string
	for i := range wantEnc {
		wantEnc[i] = ".notdef"
	}
	for i := range m.Glyphs {
		g := &m.Glyphs[i]
		want[g.Name] = g
		if g.Code >= 0 && g.Code < 256 {
			wantEnc[g.Code] = g.Name
		}
	}
	for _, name := range sortedKeys(want) {
		g := want[name]
		h, ok := got.Glyphs[name]
		if !ok || h == nil {
			add("glyph-set", "missing", "glyph %q missing from the result", name)
			continue
		}
		num("glyph-width", g.WX, h.WidthX)
		b := [4]float64{h.BBox.LLx, h.BBox.LLy, h.BBox.URx, h.BBox.URy}
		for k := 0; k < 4; k++ {
			if !g.B[k].Exotic && g.B[k].V != b[k] {
				add("glyph-bbox", "changed", "glyph %q: bounding box expected [%s %s %s %s], got %v", name, g.B[0].S, g.B[1].S, g.B[2].S, g.B[3].S, b)
				break
			}
		}
		wl := map[string]string{}
		for _, l := range g.Ligs {
			wl[l.Succ] = l.Lig
		}
		if !sameLigs(wl, h.Ligatures) {
			add("glyph-ligatures", "changed", "glyph %q: ligatures expected %s, got %s", name, ligString(wl), ligString(h.Ligatures))
		}
	}
	for _, name := range sortedKeys(got.Glyphs) {
		if _, ok := want[name]; !ok {
			add("glyph-set", "extra", "unexpected glyph %q in the result", name)
		}
	}
	gotEnc := NormEncoding(got.Encoding)
	for c := 0; c < 256; c++ {
		if wantEnc[c] != gotEnc[c] {
			add("encoding", "changed", "code %d: expected %q, got %q", c, wantEnc[c], gotEnc[c])
			break
		}
	}

	// kerning pairs, in order
	if len(m.Kern) != len(got.Kern) {
		add("kern", "count", "expected %d kerning pairs, got %d", len(m.Kern), len(got.Kern))
	} else {
		for i, k := range m.Kern {
			h := got.Kern[i]
			if h == nil || k.Left != h.Left || k.Right != h.Right || (!k.Adj.Exotic && k.Adj.V != float64(h.Adjust)) {
				add("kern", "pair", "kerning pair %d: expected %s %s %s, got %+v", i, k.Left, k.Right, k.Adj.S, h)
				break
			}
		}
	}
	return out
}

func sameFloat(a, b float64) bool {
	return a == b || (math.IsNaN(a) && math.IsNaN(b))
}

// roundingOnly reports whether b can be the result of rounding a to an
// integer (to either neighbour), or is a unchanged.
func roundingOnly(a, b float64) bool {
	if sameFloat(a, b) {
		return true
	}
	if math.IsNaN(a) || math.IsInf(a, 0) || math.IsNaN(b) || math.IsInf(b, 0) {
		return false
	}
	if a == math.Trunc(a) {
		return false // an integer must stay what it is
	}
	return b == math.Trunc(b) && math.Abs(b-a) < 1
}

const hugeLimit = 9.2e18 // beyond the range of a 64-bit integer

// CompareCycle checks the closure part of the property for one write/read
// cycle a -> b: names and text fields preserved, numbers changed only by
// rounding to integers.  exact=true demands complete equality (second cycle).
func CompareCycle(a, b *afm.Metrics, exact bool) []Diff {
	var out []Diff
	add := func(field, class, format string, x ...any) {
		out = append(out, Diff{field, class, fmt.Sprintf(format, x...)})
	}
	text := func(field, want, have string) {
		if want != have {
			add(field, textClass(want, have), "%s: %q became %q", field, want, have)
		}
	}
	num := func(field string, want, have float64) {
		if exact {
			if !sameFloat(want, have) {
				add(field, "changed", "%s: %v became %v", field, want, have)
			}
			return
		}
		if !roundingOnly(want, have) {
			class := "not-rounding"
			if math.Abs(want) >= hugeLimit && !math.IsInf(want, 0) {
				class = "huge-value-corrupted"
			}
			add(field, class, "%s: %v became %v, which is not the result of rounding to an integer", field, want, have)
		}
	}
	text("FontName", a.FontName, b.FontName)
	text("FullName", a.FullName, b.FullName)
	text("Version", a.Version, b.Version)
	text("Notice", a.Notice, b.Notice)
	num("ItalicAngle", a.ItalicAngle, b.ItalicAngle)
	num("UnderlinePosition", a.UnderlinePosition, b.UnderlinePosition)
	num("UnderlineThickness", a.UnderlineThickness, b.UnderlineThickness)
	num("CapHeight", a.CapHeight, b.CapHeight)
	num("XHeight", a.XHeight, b.XHeight)
	num("Ascender", a.Ascent, b.Ascent)
	num("Descender", a.Descent, b.Descent)
	if a.IsFixedPitch != b.IsFixedPitch {
		add("IsFixedPitch", "changed", "IsFixedPitch: %v became %v", a.IsFixedPitch, b.IsFixedPitch)
	}
	for _, name := range sortedKeys(a.Glyphs) {
		g := a.Glyphs[name]
		h, ok := b.Glyphs[name]
		if !ok || h == nil || g == nil {
			add("glyph-set", "missing", "glyph %q disappeared", name)
			continue
		}
		num("glyph-width", g.WidthX, h.WidthX)
		num("glyph-bbox", g.BBox.LLx, h.BBox.LLx)
		num("glyph-bbox", g.BBox.LLy, h.BBox.LLy)
		num("glyph-bbox", g.BBox.URx, h.BBox.URx)
		num("glyph-bbox", g.BBox.URy, h.BBox.URy)
		if !sameLigs(g.Ligatures, h.Ligatures) {
			add("glyph-ligatures", "changed", "glyph %q: ligatures %s became %s", name, ligString(g.Ligatures), ligString(h.Ligatures))
		}
	}
	for _, name := range sortedKeys(b.Glyphs) {
		if _, ok := a.Glyphs[name]; !ok {
			add("glyph-set", "extra", "glyph %q appeared", name)
		}
	}
	ea, eb := NormEncoding(a.Encoding), NormEncoding(b.Encoding)
	for c := 0; c < 256; c++ {
		if ea[c] != eb[c] {
			add("encoding", "changed", "code %d: %q became %q", c, ea[c], eb[c])
			break
		}
	}
	if len(a.Kern) != len(b.Kern) {
		add("kern", "count", "%d kerning pairs became %d", len(a.Kern), len(b.Kern))
	} else {
		for i, k := range a.Kern {
			h := b.Kern[i]
			if k == nil || h == nil || *k != *h {
				add("kern", "pair", "kerning pair %d: %+v became %+v", i, k, h)
				break
			}
		}
	}
	return out
}
