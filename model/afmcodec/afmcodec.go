// Package afmcodec is an independent producer of Adobe Font Metrics files
// (written from the AFM specification, Adobe technical note 5004, not from the
// library's writer) with explicit layout choices, plus field-by-field comparers
// for afm.Metrics values.  It is the reference side of property C15.
//
// The writer never calls fmt with a format shared with the library; it builds
// every line from tokens so that the separator, the order of the fields and
// the line terminator are free parameters.
package afmcodec

import (
	"strconv"
	"strings"
)

// Num is a number together with the spelling used for it in the file.
type Num struct {
	S string  // spelling
	V float64 // value
	// Exotic marks spellings/values outside "integral and in range"; the
	// identity part of the property says nothing about them, only the closure
	// part does.
	Exotic bool
}

// Int returns the canonical decimal spelling of an integer.
func Int(v int) Num { return Num{S: strconv.Itoa(v), V: float64(v)} }

// Raw returns a number with an arbitrary spelling (closure tests).
func Raw(s string, v float64) Num { return Num{S: s, V: v, Exotic: true} }

// Lig is one ligature entry "L successor ligature".
type Lig struct{ Succ, Lig string }

// Glyph is one line of the character metrics section.
type Glyph struct {
	Name string
	Code int // -1 = not encoded
	WX   Num
	B    [4]Num
	Ligs []Lig
}

// Kern is one KPX line.
type Kern struct {
	Left, Right string
	Adj         Num
}

// Model is the content of an AFM file, independent of the library's types.
type Model struct {
	FontName string // single token
	FullName string // words separated by single spaces
	Version  string
	Notice   string

	ItalicAngle        Num
	UnderlinePosition  Num
	UnderlineThickness Num
	CapHeight          Num
	XHeight            Num
	Ascender           Num
	Descender          Num
	IsFixedPitch       bool

	Glyphs []Glyph // in file order
	Kern   []Kern
}

// Layout dimensions.  Index 0 of every dimension is the plain layout (single
// spaces, LF, canonical order, nothing optional).
const (
	LCRLF        = iota // 0 LF, 1 CRLF
	LSep                // token separator: " ", "\t", "  ", " \t "
	LSemi               // field separator in C lines: " ; ", ";", " ;", "; "
	LTrail              // trailing white space: none, " ", "\t", "  \t"
	LFieldPerm          // permutation of C, WX, N, B within a line (24)
	LLigPos             // ligature fields: at the end, at the start, after the first field
	LComments           // none, header (misleading text), in char metrics, in kern pairs, all three
	LUnknownHdr         // unknown global keys: none, typical bundle, one after every line
	LUnknownFld         // unknown fields in C lines: none, "W0X n ;" etc. at end, in front
	LSections           // optional sections, see sectionNames
	LHeaderOrder        // canonical, reversed, text fields last
	LOmitZero           // omit optional global keys whose value is zero/false/empty
	LGlyphOrder         // glyph lines: model order, reversed
	LFinalNL            // last line terminated, not terminated
	LOdd                // closure-only irregularities, see oddNames
	NumLayoutDims
)

// LayoutDim describes one dimension.
type LayoutDim struct {
	Name string
	N    int
}

// Dims lists the arity of every layout dimension.
var Dims = [NumLayoutDims]LayoutDim{
	LCRLF:        {"line-end", 2},
	LSep:         {"separator", 4},
	LSemi:        {"semicolon", 4},
	LTrail:       {"trailing-space", 4},
	LFieldPerm:   {"field-order", 24},
	LLigPos:      {"ligature-position", 3},
	LComments:    {"comments", 5},
	LUnknownHdr:  {"unknown-global-keys", 3},
	LUnknownFld:  {"unknown-line-fields", 3},
	LSections:    {"optional-sections", 6},
	LHeaderOrder: {"header-order", 3},
	LOmitZero:    {"omit-zero-keys", 2},
	LGlyphOrder:  {"glyph-order", 2},
	LFinalNL:     {"final-newline", 2},
	LOdd:         {"irregularity", len(oddNames)},
}

var sectionNames = []string{"minimal", "empty-kern-data", "track-kern", "composites", "direction-wrapper", "kern-data-with-track-kern-after-pairs"}

// Irregular inputs which the reader accepts but for which the identity part
// of the property promises nothing (closure part only).
const (
	OddNone = iota
	OddDupGlyphLine
	OddSameCodeTwice
	OddCode256
	OddCode1000
	OddCodeMinus5
	OddOmitWX
	OddOmitB
	OddDupFontName
	OddNoticeDoubleSpace
	OddLineWithoutName
	OddFixedPitchCapital
	OddDupLigSucc
	OddShortB
	OddDupHeaders
)

var oddNames = []string{"none", "duplicate-glyph-line", "same-code-twice", "code-256", "code-1000", "code-minus-5",
	"omit-WX", "omit-B", "duplicate-FontName", "notice-double-space", "line-without-N", "IsFixedPitch-True",
	"duplicate-L-successor", "B-with-3-numbers", "every-header-key-twice"}

// Layout is one value per dimension.
type Layout [NumLayoutDims]int

// Identity reports whether the reader's result is fully determined by the
// model for this layout (no irregularity chosen).
func (l Layout) Identity() bool { return l[LOdd] == OddNone }

// DataDetermined reports whether the data a reader should find is that of the
// model although the text is irregular: a repeated line for a glyph that has
// been listed already and a line without a name carry no data (the first
// entry of a glyph counts, a line that names no glyph describes none) and must
// not change what is read for the glyphs around them.
func (l Layout) DataDetermined() bool {
	return l[LOdd] == OddNone || l[LOdd] == OddDupGlyphLine || l[LOdd] == OddLineWithoutName
}

func (l Layout) String() string {
	var parts []string
	for d, v := range l {
		if v == 0 {
			continue
		}
		s := Dims[d].Name + "=" + strconv.Itoa(v)
		switch d {
		case LOdd:
			s = Dims[d].Name + "=" + oddNames[v]
		case LSections:
			s = Dims[d].Name + "=" + sectionNames[v]
		}
		parts = append(parts, s)
	}
	if len(parts) == 0 {
		return "plain"
	}
	return strings.Join(parts, ",")
}

var seps = []string{" ", "\t", "  ", " \t "}
var semis = []string{" ; ", ";", " ;", "; "}
var trails = []string{"", " ", "\t", "  \t"}

// perms4 lists the 24 permutations of 0..3 in lexicographic order.
var perms4 = func() [][4]int {
	var out [][4]int
	for a := 0; a < 4; a++ {
		for b := 0; b < 4; b++ {
			for c := 0; c < 4; c++ {
				for d := 0; d < 4; d++ {
					if a != b && a != c && a != d && b != c && b != d && c != d {
						out = append(out, [4]int{a, b, c, d})
					}
				}
			}
		}
	}
	return out
}()

type writer struct {
	sb  strings.Builder
	lay Layout
	nl  string
	sep string
}

// (Indentation is not a layout dimension: the AFM specification has every line
// begin with its key word, and the library itself is not uniform about indented
// lines — header and character-metric lines are split into fields, kerning
// lines are matched by prefix.)

// line writes tokens separated by the chosen separator.
func (w *writer) line(tokens ...string) {
	w.sb.WriteString(strings.Join(tokens, w.sep))
	w.sb.WriteString(trails[w.lay[LTrail]])
	w.sb.WriteString(w.nl)
}

// text writes a key followed by free text (the inner spacing of the text is
// content, not layout).
func (w *writer) text(key, value string) {
	w.sb.WriteString(key)
	w.sb.WriteString(w.sep)
	w.sb.WriteString(value)
	w.sb.WriteString(trails[w.lay[LTrail]])
	w.sb.WriteString(w.nl)
}

// Write lays the model out as an AFM file.
func Write(m *Model, lay Layout) string {
	w := &writer{lay: lay, nl: "\n", sep: seps[lay[LSep]]}
	if lay[LCRLF] == 1 {
		w.nl = "\r\n"
	}
	odd := lay[LOdd]
	comments := lay[LComments]

	w.line("StartFontMetrics", "4.1")
	if comments == 1 || comments == 4 {
		w.text("Comment", "FontName Bogus-Name")
		w.text("Comment", "StartCharMetrics 7")
		w.text("Comment", "Generated by afmcodec, Version 9.9 Notice none CapHeight 1")
	}

	// global keys
	type hdr struct {
		key  string
		emit func()
		zero bool
		text bool
	}
	num := func(key string, n Num) hdr {
		return hdr{key: key, emit: func() { w.line(key, n.S) }, zero: n.V == 0 && !n.Exotic}
	}
	fontName := m.FontName
	hdrs := []hdr{
		{key: "FontName", emit: func() { w.line("FontName", fontName) }, text: true},
		{key: "FullName", emit: func() { w.text("FullName", m.FullName) }, zero: m.FullName == "", text: true},
		num("ItalicAngle", m.ItalicAngle),
		{key: "IsFixedPitch", emit: func() {
			v := "false"
			if m.IsFixedPitch {
				v = "true"
				if odd == OddFixedPitchCapital {
					v = "True"
				}
			}
			w.line("IsFixedPitch", v)
		}, zero: !m.IsFixedPitch},
		num("UnderlinePosition", m.UnderlinePosition),
		num("UnderlineThickness", m.UnderlineThickness),
		{key: "Version", emit: func() { w.text("Version", m.Version) }, zero: m.Version == "", text: true},
		{key: "Notice", emit: func() {
			v := m.Notice
			if odd == OddNoticeDoubleSpace {
				v = strings.ReplaceAll(v, " ", "  ")
			}
			w.text("Notice", v)
		}, zero: m.Notice == "", text: true},
		num("CapHeight", m.CapHeight),
		num("XHeight", m.XHeight),
		num("Ascender", m.Ascender),
		num("Descender", m.Descender),
	}
	if odd == OddDupFontName {
		// an earlier FontName line; the last one wins in a key/value reader
		fontNameFirst := "Earlier-Name"
		w.line("FontName", fontNameFirst)
	}
	if odd == OddDupHeaders {
		// an earlier line for every header key (texts and numbers)
		w.line("FontName", "Earlier-Name")
		w.line("FullName", "Earlier", "Full", "Name")
		w.line("Version", "000.001")
		w.line("Notice", "an", "earlier", "notice", "line")
		w.line("CapHeight", "1")
		w.line("UnderlinePosition", "-1")
		w.line("ItalicAngle", "-1")
		w.line("Descender", "-1")
	}
	switch lay[LHeaderOrder] {
	case 1:
		for i, j := 0, len(hdrs)-1; i < j; i, j = i+1, j-1 {
			hdrs[i], hdrs[j] = hdrs[j], hdrs[i]
		}
	case 2:
		var a, b []hdr
		for _, h := range hdrs {
			if h.text {
				b = append(b, h)
			} else {
				a = append(a, h)
			}
		}
		hdrs = append(a, b...)
	}
	unknown := []func(){
		func() {
			// the scheme a file declares says nothing about which glyphs it has: the codes are on the C lines
			if lay[LUnknownHdr] == 2 {
				w.line("EncodingScheme", "AdobeStandardEncoding")
			} else {
				w.line("EncodingScheme", "FontSpecific")
			}
		},
		func() { w.line("FamilyName", "Bogus") },
		func() { w.line("Weight", "Roman") },
		func() { w.line("FontBBox", "-168", "-218", "1000", "898") },
		func() { w.line("CharacterSet", "Special") },
		func() { w.line("Characters", "999") },
		func() { w.line("IsBaseFont", "true") },
		func() { w.line("StdHW", "28") },
		func() { w.line("StdVW", "84") },
		func() { w.line("MetricsSets", "0") },
		func() { w.line("EscChar", "255") },
		func() { w.line("MappingScheme", "2") },
		func() { w.line("CharWidth", "600", "0") },
	}
	uk := 0
	if lay[LUnknownHdr] == 1 {
		for _, u := range unknown[:5] {
			u()
		}
	}
	// The direction-specific keys (contiguous in all three orders) may be
	// enclosed in one StartDirection 0 ... EndDirection block.
	wrap := lay[LSections] == 4
	inDir := false
	for _, h := range hdrs {
		// a text key without a value cannot be written as "Key" alone
		if h.text && h.zero && h.key != "FontName" {
			continue
		}
		if lay[LOmitZero] == 1 && h.zero {
			continue
		}
		isDir := h.key == "UnderlinePosition" || h.key == "UnderlineThickness" || h.key == "ItalicAngle" || h.key == "IsFixedPitch"
		if wrap && isDir && !inDir {
			w.line("StartDirection", "0")
			inDir = true
		}
		if wrap && !isDir && inDir {
			w.line("EndDirection")
			inDir = false
		}
		h.emit()
		if lay[LUnknownHdr] == 2 {
			unknown[uk%len(unknown)]()
			uk++
		}
	}
	if inDir {
		w.line("EndDirection")
	}
	if lay[LUnknownHdr] == 1 {
		for _, u := range unknown[5:] {
			u()
		}
	}

	// character metrics
	glyphs := append([]Glyph(nil), m.Glyphs...)
	if lay[LGlyphOrder] == 1 {
		for i, j := 0, len(glyphs)-1; i < j; i, j = i+1, j-1 {
			glyphs[i], glyphs[j] = glyphs[j], glyphs[i]
		}
	}
	nLines := len(glyphs)
	if odd == OddDupGlyphLine || odd == OddLineWithoutName {
		nLines++
	}
	w.line("StartCharMetrics", strconv.Itoa(nLines))
	if comments == 2 || comments == 4 {
		w.text("Comment", "the glyphs follow")
	}
	semi := semis[lay[LSemi]]
	glyphLine := func(i int, g Glyph, dup bool) {
		code := g.Code
		wx := g.WX.S
		if i == 0 && !dup {
			switch odd {
			case OddCode256:
				code = 256
			case OddCode1000:
				code = 1000
			case OddCodeMinus5:
				code = -5
			}
		}
		if i == 1 && odd == OddSameCodeTwice {
			code = glyphs[0].Code
			if code < 0 {
				code = 33
			}
		}
		if dup {
			wx = "999"
		}
		fields := [4][]string{
			{"C", strconv.Itoa(code)},
			{"WX", wx},
			{"N", g.Name},
			{"B", g.B[0].S, g.B[1].S, g.B[2].S, g.B[3].S},
		}
		var ligs [][]string
		for _, l := range g.Ligs {
			ligs = append(ligs, []string{"L", l.Succ, l.Lig})
		}
		if i == 0 && odd == OddDupLigSucc && len(g.Ligs) > 0 {
			ligs = append(ligs, []string{"L", g.Ligs[0].Succ, "other"})
		}
		var all [][]string
		if lay[LUnknownFld] == 2 {
			all = append(all, []string{"W0X", wx}, []string{"VV", "0", "0"})
		}
		if lay[LLigPos] == 1 {
			all = append(all, ligs...)
		}
		for k, p := range perms4[lay[LFieldPerm]] {
			if i == 0 && !dup {
				if (p == 1 && odd == OddOmitWX) || (p == 3 && odd == OddOmitB) {
					continue
				}
			}
			if dup && odd == OddLineWithoutName && p == 2 {
				continue
			}
			f := fields[p]
			if p == 3 && i == 0 && !dup && odd == OddShortB {
				f = f[:4]
			}
			all = append(all, f)
			if k == 0 && lay[LLigPos] == 2 {
				all = append(all, ligs...)
			}
		}
		if lay[LLigPos] == 0 {
			all = append(all, ligs...)
		}
		if lay[LUnknownFld] == 1 {
			all = append(all, []string{"W0X", wx}, []string{"W1Y", "0"})
		}
		var sb strings.Builder
		for _, f := range all {
			sb.WriteString(strings.Join(f, w.sep))
			sb.WriteString(semi)
		}
		s := sb.String()
		if semi == " ; " || semi == "; " {
			s = strings.TrimRight(s, " ")
		}
		w.sb.WriteString(s)
		w.sb.WriteString(trails[lay[LTrail]])
		w.sb.WriteString(w.nl)
	}
	for i, g := range glyphs {
		glyphLine(i, g, false)
		if comments == 4 && i == 0 {
			w.text("Comment", "between two glyphs")
		}
		// the irregular extra line follows the first glyph (other glyphs come after it)
		if i == 0 && (odd == OddDupGlyphLine || odd == OddLineWithoutName) {
			glyphLine(0, glyphs[0], true)
		}
	}
	w.line("EndCharMetrics")

	// kerning data
	sect := lay[LSections]
	if len(m.Kern) > 0 || sect == 1 || sect == 2 || sect == 5 {
		w.line("StartKernData")
		if sect == 2 {
			w.line("StartTrackKern", "1")
			w.line("TrackKern", "0", "8", "0", "72", "0")
			w.line("EndTrackKern")
		}
		w.line("StartKernPairs", strconv.Itoa(len(m.Kern)))
		if comments == 3 || comments == 4 {
			w.text("Comment", "KPX x y 1")
		}
		for _, k := range m.Kern {
			w.line("KPX", k.Left, k.Right, k.Adj.S)
		}
		w.line("EndKernPairs")
		if sect == 5 {
			w.line("StartTrackKern", "1")
			w.line("TrackKern", "-1", "6", "-0.1", "72", "-2.5")
			w.line("EndTrackKern")
		}
		w.line("EndKernData")
	}
	if sect == 3 {
		w.line("StartComposites", "1")
		w.sb.WriteString("CC Aacute 2 ; PCC A 0 0 ; PCC acute 160 170 ;" + w.nl)
		w.line("EndComposites")
	}
	if lay[LFinalNL] == 1 {
		w.sb.WriteString("EndFontMetrics")
	} else {
		w.line("EndFontMetrics")
	}
	return w.sb.String()
}
