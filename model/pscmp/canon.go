package pscmp

import (
	"fmt"
	"reflect"
	"sort"
	"strconv"
	"strings"
	"unsafe"

	"seehuhn.de/go/postscript"
)

// Canon renders the observable state of an interpreter as a canonical string:
// operand stack, dictionary stack and every reachable composite object, with
// object identities (slice storage, map pointers) renumbered in first-visit
// order, so that two interpreters are in the same state iff the strings are
// equal.  Sub-intervals are rendered relative to the first window seen on
// the same storage.
type canon struct {
	sb    strings.Builder
	ops   OpTable
	dicts map[uintptr]int
	// storage identity = address of the end of the slice's capacity: every
	// window on one allocation shares it (the library never uses 3-index slices)
	stores map[uintptr]int
	seen   map[window]bool
}

type window struct {
	store, cap, len int
}

// storeID returns the identity of the storage behind a window.
func (c *canon) storeID(end uintptr) int {
	id, ok := c.stores[end]
	if !ok {
		id = len(c.stores)
		c.stores[end] = id
	}
	return id
}

func (c *canon) value(o postscript.Object, depth int) {
	sb := &c.sb
	switch o := o.(type) {
	case nil:
		sb.WriteString("null ")
	case postscript.Integer:
		sb.WriteString(strconv.FormatInt(int64(o), 10))
		sb.WriteByte(' ')
	case postscript.Real:
		sb.WriteString(strconv.FormatFloat(float64(o), 'g', -1, 64))
		sb.WriteString("r ")
	case postscript.Boolean:
		if o {
			sb.WriteString("true ")
		} else {
			sb.WriteString("false ")
		}
	case postscript.Name:
		sb.WriteByte('/')
		sb.WriteString(string(o))
		sb.WriteByte(' ')
	case postscript.Operator:
		sb.WriteByte('x')
		sb.WriteString(string(o))
		sb.WriteByte(' ')
	case postscript.String:
		if len(o) == 0 {
			sb.WriteString("() ")
			return
		}
		lo := uintptr(unsafe.Pointer(unsafe.SliceData([]byte(o))))
		id := c.storeID(lo + uintptr(cap(o)))
		sb.WriteString("s")
		sb.WriteString(strconv.Itoa(id))
		sb.WriteByte('-')
		sb.WriteString(strconv.Itoa(cap(o)))
		sb.WriteByte('(')
		sb.WriteString(strconv.Quote(string(o)))
		sb.WriteString(") ")
	case postscript.Array:
		c.slice("a", []postscript.Object(o), depth)
	case postscript.Procedure:
		c.slice("p", []postscript.Object(o), depth)
	case postscript.Dict:
		c.dict(o, depth)
	case *postscript.CMapInfo:
		// the code map a CMap dictionary carries under /CodeMap
		if o == nil {
			sb.WriteString("cmapinfo:nil ")
			return
		}
		fmt.Fprintf(sb, "cmapinfo{use=%q cs=[", string(o.UseCMap))
		for _, r := range o.CodeSpaceRanges {
			fmt.Fprintf(sb, "%x-%x ", r.Low, r.High)
		}
		chars := func(tag string, ms []postscript.CharMap) {
			sb.WriteString("] " + tag + "=[")
			for _, m := range ms {
				fmt.Fprintf(sb, "%x>", m.Src)
				c.value(m.Dst, depth+1)
			}
		}
		ranges := func(tag string, ms []postscript.RangeMap) {
			sb.WriteString("] " + tag + "=[")
			for _, m := range ms {
				fmt.Fprintf(sb, "%x-%x>", m.Low, m.High)
				c.value(m.Dst, depth+1)
			}
		}
		chars("cidchars", o.CidChars)
		ranges("cidranges", o.CidRanges)
		chars("bfchars", o.BfChars)
		ranges("bfranges", o.BfRanges)
		chars("notdefchars", o.NotdefChars)
		ranges("notdefranges", o.NotdefRanges)
		sb.WriteString("]} ")
	default:
		rv := reflect.ValueOf(o)
		if rv.Kind() == reflect.Func {
			names := c.ops[rv.Pointer()]
			if len(names) > 0 {
				sb.WriteString("--" + names[0] + "-- ")
			} else {
				sb.WriteString("--op?-- ")
			}
			return
		}
		sb.WriteString("<" + reflect.TypeOf(o).String() + "> ")
	}
}

func (c *canon) slice(tag string, data []postscript.Object, depth int) {
	sb := &c.sb
	if len(data) == 0 {
		sb.WriteString(tag + "[] ")
		return
	}
	lo := uintptr(unsafe.Pointer(unsafe.SliceData(data)))
	id := c.storeID(lo + uintptr(cap(data))*objSize)
	sb.WriteString(tag)
	sb.WriteString(strconv.Itoa(id))
	sb.WriteByte('-')
	sb.WriteString(strconv.Itoa(cap(data)))
	sb.WriteByte(':')
	sb.WriteString(strconv.Itoa(len(data)))
	w := window{id, cap(data), len(data)}
	if c.seen[w] {
		sb.WriteByte(' ')
		return
	}
	c.seen[w] = true
	sb.WriteByte('[')
	for _, e := range data {
		c.value(e, depth+1)
	}
	sb.WriteString("] ")
}

func (c *canon) dict(d postscript.Dict, depth int) {
	sb := &c.sb
	ptr := reflect.ValueOf(d).Pointer()
	if id, ok := c.dicts[ptr]; ok {
		sb.WriteString("d" + strconv.Itoa(id) + " ")
		return
	}
	id := len(c.dicts)
	c.dicts[ptr] = id
	sb.WriteString("d" + strconv.Itoa(id) + "<")
	keys := make([]string, 0, len(d))
	for k := range d {
		keys = append(keys, string(k))
	}
	sort.Strings(keys)
	for _, k := range keys {
		sb.WriteString(k)
		sb.WriteByte('=')
		c.value(d[postscript.Name(k)], depth+1)
	}
	sb.WriteString("> ")
}

// Canon returns the canonical state string.
func Canon(ops OpTable, intp *postscript.Interpreter) string {
	c := &canon{ops: ops, dicts: map[uintptr]int{}, stores: map[uintptr]int{}, seen: map[window]bool{}}
	c.sb.WriteString("STACK ")
	for _, o := range intp.Stack {
		c.value(o, 0)
	}
	c.sb.WriteString("| DICTSTACK ")
	for _, d := range intp.DictStack {
		c.dict(d, 0)
	}
	c.sb.WriteString("| SYSTEM ")
	c.dict(intp.SystemDict, 0)
	c.sb.WriteString("| USER ")
	c.dict(intp.UserDict, 0)
	c.sb.WriteString("| ERROR ")
	c.dict(intp.ErrorDict, 0)
	c.sb.WriteString("| FONTS ")
	c.dict(intp.FontDirectory, 0)
	c.sb.WriteString("| INTERNAL ")
	c.dict(intp.InternalDict, 0)
	c.sb.WriteString("| RESOURCES ")
	c.dict(intp.Resources, 0)
	c.sb.WriteString("| CMAPS ")
	c.dict(intp.CMapDirectory, 0)
	c.sb.WriteString("| DSC ")
	for _, d := range intp.DSC {
		c.sb.WriteString(strconv.Quote(d.Key) + "=" + strconv.Quote(d.Value) + " ")
	}
	return c.sb.String()
}
