// Package pscmp compares the state of a real Interpreter with the state of the
// reference machine by a simultaneous graph walk: scalar equality plus a
// bijection between the implementation's backing stores (slice base address,
// map pointer) and the model's identities, so that sharing and sub-interval
// aliasing are compared and not only contents.
package pscmp

import (
	"fmt"
	"math"
	"reflect"
	"sort"
	"strings"
	"unsafe"

	"seehuhn.de/go/postscript"

	"verif/model/psmodel"
)

// OpTable maps the code pointer of a builtin to the names it is bound to in a
// fresh interpreter (systemdict, errordict, the CIDInit procedure set).
type OpTable map[uintptr][]string

// NewOpTable inspects a fresh interpreter.
func NewOpTable() OpTable {
	t := OpTable{}
	intp := postscript.NewInterpreter()
	add := func(d postscript.Dict, prefix string) {
		keys := make([]string, 0, len(d))
		for k := range d {
			keys = append(keys, string(k))
		}
		sort.Strings(keys)
		for _, k := range keys {
			v := reflect.ValueOf(d[postscript.Name(k)])
			if v.IsValid() && v.Kind() == reflect.Func {
				t[v.Pointer()] = append(t[v.Pointer()], prefix+k)
			}
		}
	}
	add(intp.SystemDict, "")
	add(intp.ErrorDict, "errorhandler:")
	if ps, ok := intp.Resources["ProcSet"].(postscript.Dict); ok {
		if ci, ok := ps["CIDInit"].(postscript.Dict); ok {
			add(ci, "cidinit:")
		}
	}
	return t
}

type arrKey struct {
	s        *psmodel.ArrStore
	off, len int
	x        bool
}

// Cmp is one comparison run.
type Cmp struct {
	ops      OpTable
	arrBase  map[*psmodel.ArrStore]uintptr
	arrRev   map[uintptr]*psmodel.ArrStore
	strBase  map[*psmodel.StrStore]uintptr
	strRev   map[uintptr]*psmodel.StrStore
	dictPtr  map[*psmodel.Dict]uintptr
	dictRev  map[uintptr]*psmodel.Dict
	doneArr  map[arrKey]bool
	doneDict map[*psmodel.Dict]bool
	Diff     string
	path     []pathElem
	lenient  *psmodel.Dict // the reference's systemdict (extra operators tolerated)
}

type pathElem struct {
	key string
	idx int
}

func (c *Cmp) pathString() string {
	var sb strings.Builder
	for _, e := range c.path {
		if e.key != "" {
			if sb.Len() > 0 {
				sb.WriteByte('/')
			}
			sb.WriteString(e.key)
		} else {
			fmt.Fprintf(&sb, "[%d]", e.idx)
		}
	}
	return sb.String()
}

func New(ops OpTable) *Cmp {
	return &Cmp{
		ops:      ops,
		arrBase:  map[*psmodel.ArrStore]uintptr{},
		arrRev:   map[uintptr]*psmodel.ArrStore{},
		strBase:  map[*psmodel.StrStore]uintptr{},
		strRev:   map[uintptr]*psmodel.StrStore{},
		dictPtr:  map[*psmodel.Dict]uintptr{},
		dictRev:  map[uintptr]*psmodel.Dict{},
		doneArr:  map[arrKey]bool{},
		doneDict: map[*psmodel.Dict]bool{},
	}
}

func (c *Cmp) fail(path string, format string, a ...any) bool {
	if c.Diff == "" {
		c.Diff = path + c.pathString() + ": " + fmt.Sprintf(format, a...)
	}
	return false
}

const objSize = unsafe.Sizeof(postscript.Object(nil))

func (c *Cmp) slice(path string, data []postscript.Object, a psmodel.Arr) bool {
	if len(data) != a.Len {
		return c.fail(path, "length %d, expected %d", len(data), a.Len)
	}
	if a.Len > 0 {
		base := uintptr(unsafe.Pointer(unsafe.SliceData(data))) - uintptr(a.Off)*objSize
		if old, ok := c.arrBase[a.S]; ok {
			if old != base {
				return c.fail(path, "array does not share storage with the other references to %s (sub-interval/alias expected)", psmodel.Format(a))
			}
		} else {
			if other, ok := c.arrRev[base]; ok && other != a.S {
				return c.fail(path, "array shares storage with a distinct object (copy expected)")
			}
			c.arrBase[a.S] = base
			c.arrRev[base] = a.S
		}
	}
	k := arrKey{a.S, a.Off, a.Len, a.X}
	if c.doneArr[k] {
		return true
	}
	c.doneArr[k] = true
	for i := 0; i < a.Len; i++ {
		c.path = append(c.path, pathElem{idx: i})
		ok := c.Value(path, data[i], a.Get(i))
		c.path = c.path[:len(c.path)-1]
		if !ok {
			return false
		}
	}
	return true
}

// Dict compares a dictionary (identity and, once, contents).
func (c *Cmp) Dict(path string, d postscript.Dict, md *psmodel.Dict) bool {
	if d == nil {
		return c.fail(path, "nil dictionary")
	}
	ptr := reflect.ValueOf(d).Pointer()
	if old, ok := c.dictPtr[md]; ok {
		if old != ptr {
			return c.fail(path, "dictionary is not the same object as the other references to dict#%d", md.ID)
		}
	} else {
		if other, ok := c.dictRev[ptr]; ok && other != md {
			return c.fail(path, "dictionary is the same object as dict#%d, a distinct one expected", other.ID)
		}
		c.dictPtr[md] = ptr
		c.dictRev[ptr] = md
	}
	if c.doneDict[md] {
		return true
	}
	c.doneDict[md] = true
	if md == c.lenient && len(d) > len(md.M) {
		// systemdict may offer operators beyond the ones the property lists (a
		// library that adds, say, `div` does not violate it): extra entries are
		// tolerated when they are operators; everything the reference has must
		// still be there with the right value
		extraOps := 0
		for k, v := range d {
			if _, ok := md.M[string(k)]; !ok {
				if rv := reflect.ValueOf(v); rv.IsValid() && rv.Kind() == reflect.Func {
					extraOps++
				}
			}
		}
		if len(d)-extraOps == len(md.M) {
			goto contents
		}
	}
	if len(d) != len(md.M) {
		var extra, missing []string
		for k := range d {
			if _, ok := md.M[string(k)]; !ok {
				extra = append(extra, string(k))
			}
		}
		for k := range md.M {
			if _, ok := d[postscript.Name(k)]; !ok {
				missing = append(missing, k)
			}
		}
		sort.Strings(extra)
		sort.Strings(missing)
		return c.fail(path, "dictionary has %d entries, expected %d (unexpected keys %v, missing keys %v)", len(d), len(md.M), extra, missing)
	}
contents:
	for _, k := range md.SortedKeys() {
		v, ok := d[postscript.Name(k)]
		if !ok {
			return c.fail(path, "key /%s missing", k)
		}
		c.path = append(c.path, pathElem{key: k})
		ok = c.Value(path, v, md.M[k])
		c.path = c.path[:len(c.path)-1]
		if !ok {
			return false
		}
	}
	return true
}

// Value compares one object.
func (c *Cmp) Value(path string, o postscript.Object, v psmodel.Val) bool {
	switch v := v.(type) {
	case psmodel.Int:
		x, ok := o.(postscript.Integer)
		if !ok || int64(x) != int64(v) {
			return c.fail(path, "got %s, expected integer %d", show(o), v)
		}
	case psmodel.IntAtLeast:
		x, ok := o.(postscript.Integer)
		if !ok || int(x) < v.N {
			return c.fail(path, "got %s, expected an integer >= %d", show(o), v.N)
		}
	case psmodel.Real:
		x, ok := o.(postscript.Real)
		if !ok || !(float64(x) == float64(v) || math.IsNaN(float64(x)) && math.IsNaN(float64(v))) {
			return c.fail(path, "got %s, expected real %s", show(o), psmodel.Format(v))
		}
	case psmodel.Bool:
		x, ok := o.(postscript.Boolean)
		if !ok || bool(x) != bool(v) {
			return c.fail(path, "got %s, expected boolean %v", show(o), v)
		}
	case psmodel.Name:
		if v.X {
			x, ok := o.(postscript.Operator)
			if !ok || string(x) != v.S {
				return c.fail(path, "got %s, expected executable name %s", show(o), v.S)
			}
		} else {
			x, ok := o.(postscript.Name)
			if !ok || string(x) != v.S {
				return c.fail(path, "got %s, expected literal name /%s", show(o), v.S)
			}
		}
	case psmodel.Mark:
		if o == nil || reflect.TypeOf(o).String() != "postscript.mark" {
			return c.fail(path, "got %s, expected mark", show(o))
		}
	case psmodel.Null, psmodel.File:
		if o != nil {
			return c.fail(path, "got %s, expected %s", show(o), psmodel.Format(v))
		}
	case psmodel.Op:
		rv := reflect.ValueOf(o)
		if !rv.IsValid() || rv.Kind() != reflect.Func {
			return c.fail(path, "got %s, expected operator %s", show(o), v.Name)
		}
		ok := false
		for _, n := range c.ops[rv.Pointer()] {
			if n == v.Name {
				ok = true
			}
		}
		if !ok {
			return c.fail(path, "got operator %v, expected operator %s", c.ops[rv.Pointer()], v.Name)
		}
	case psmodel.Str:
		x, ok := o.(postscript.String)
		if !ok {
			return c.fail(path, "got %s, expected string %q", show(o), v.Bytes())
		}
		if string(x) != string(v.Bytes()) {
			return c.fail(path, "got string %q, expected %q", []byte(x), v.Bytes())
		}
		if v.Len > 0 {
			base := uintptr(unsafe.Pointer(unsafe.SliceData([]byte(x)))) - uintptr(v.Off)
			if old, ok := c.strBase[v.S]; ok {
				if old != base {
					return c.fail(path, "string %q does not share storage with the other references to it (sub-interval/alias expected)", v.Bytes())
				}
			} else {
				if other, ok := c.strRev[base]; ok && other != v.S {
					return c.fail(path, "string %q shares storage with a distinct object (copy expected)", v.Bytes())
				}
				c.strBase[v.S] = base
				c.strRev[base] = v.S
			}
		}
	case psmodel.Arr:
		if v.X {
			x, ok := o.(postscript.Procedure)
			if !ok {
				return c.fail(path, "got %s, expected procedure %s", show(o), psmodel.Format(v))
			}
			return c.slice(path, []postscript.Object(x), v)
		}
		x, ok := o.(postscript.Array)
		if !ok {
			return c.fail(path, "got %s, expected array %s", show(o), psmodel.Format(v))
		}
		return c.slice(path, []postscript.Object(x), v)
	case *psmodel.Dict:
		x, ok := o.(postscript.Dict)
		if !ok {
			return c.fail(path, "got %s, expected a dictionary", show(o))
		}
		return c.Dict(path, x, v)
	case psmodel.Opaque:
		if o == nil {
			return c.fail(path, "got nil, expected %s", v.What)
		}
	default:
		return c.fail(path, "model value of unknown type %T", v)
	}
	return true
}

// State compares the whole observable interpreter state; it returns "" when
// equal and a description of the first difference otherwise.
func State(ops OpTable, intp *postscript.Interpreter, m *psmodel.M) string {
	c := New(ops)
	c.lenient = m.System
	if len(intp.Stack) != len(m.Stack) {
		return fmt.Sprintf("operand stack depth %d, expected %d: got [%s] expected [%s]", len(intp.Stack), len(m.Stack), ShowStack(intp.Stack), showModelStack(m.Stack))
	}
	for i := range m.Stack {
		c.path = append(c.path[:0], pathElem{key: "stack"}, pathElem{idx: i})
		ok := c.Value("", intp.Stack[i], m.Stack[i])
		c.path = c.path[:0]
		if !ok {
			return c.Diff + fmt.Sprintf(" | stack got [%s] expected [%s]", ShowStack(intp.Stack), showModelStack(m.Stack))
		}
	}
	if len(intp.DictStack) != len(m.DStack) {
		return fmt.Sprintf("dictionary stack depth %d, expected %d", len(intp.DictStack), len(m.DStack))
	}
	for i := range m.DStack {
		c.path = append(c.path[:0], pathElem{key: "dictstack"}, pathElem{idx: i})
		ok := c.Dict("", intp.DictStack[i], m.DStack[i])
		c.path = c.path[:0]
		if !ok {
			return c.Diff
		}
	}
	roots := []struct {
		name string
		d    postscript.Dict
		m    *psmodel.Dict
	}{
		{"systemdict", intp.SystemDict, m.System},
		{"userdict", intp.UserDict, m.User},
		{"errordict", intp.ErrorDict, m.Error},
		{"FontDirectory", intp.FontDirectory, m.FontDir},
		{"internaldict", intp.InternalDict, m.Internal},
		{"CMapDirectory", intp.CMapDirectory, m.Resources["CMap"]},
	}
	for _, r := range roots {
		if !c.Dict(r.name, r.d, r.m) {
			return c.Diff
		}
	}
	if len(intp.Resources) != len(m.Resources) {
		return fmt.Sprintf("Resources has %d categories, expected %d", len(intp.Resources), len(m.Resources))
	}
	cats := make([]string, 0, len(m.Resources))
	for k := range m.Resources {
		cats = append(cats, k)
	}
	sort.Strings(cats)
	for _, k := range cats {
		d, ok := intp.Resources[postscript.Name(k)].(postscript.Dict)
		if !ok {
			return "resource category " + k + " missing"
		}
		if !c.Dict("Resources/"+k, d, m.Resources[k]) {
			return c.Diff
		}
	}
	return ""
}

// ErrName extracts the PostScript error name from an error of the library.
func ErrName(err error) string {
	if err == nil {
		return ""
	}
	s := err.Error()
	if i := strings.Index(s, ":"); i > 0 {
		return s[:i]
	}
	return s
}

func show(o postscript.Object) string {
	switch o := o.(type) {
	case nil:
		return "null/file"
	case postscript.Integer:
		return fmt.Sprintf("integer %d", o)
	case postscript.Real:
		return fmt.Sprintf("real %v", float64(o))
	case postscript.Boolean:
		return fmt.Sprintf("boolean %v", bool(o))
	case postscript.Name:
		return "literal name /" + string(o)
	case postscript.Operator:
		return "executable name " + string(o)
	case postscript.String:
		return fmt.Sprintf("string %q", []byte(o))
	case postscript.Array:
		return fmt.Sprintf("array of %d", len(o))
	case postscript.Procedure:
		return fmt.Sprintf("procedure of %d", len(o))
	case postscript.Dict:
		return fmt.Sprintf("dict of %d", len(o))
	}
	return fmt.Sprintf("%T", o)
}

// ShowStack renders an operand stack for reports.
func ShowStack(st []postscript.Object) string {
	var parts []string
	for _, o := range st {
		parts = append(parts, showShort(o, 0))
	}
	return strings.Join(parts, " ")
}

func showShort(o postscript.Object, depth int) string {
	if depth > 3 {
		return "…"
	}
	switch o := o.(type) {
	case nil:
		return "-null/file-"
	case postscript.Integer:
		return fmt.Sprint(int64(o))
	case postscript.Real:
		return fmt.Sprintf("%v(real)", float64(o))
	case postscript.Boolean:
		return fmt.Sprint(bool(o))
	case postscript.Name:
		return "/" + string(o)
	case postscript.Operator:
		return string(o)
	case postscript.String:
		return fmt.Sprintf("(%s)", string(o))
	case postscript.Array:
		var p []string
		for i, e := range o {
			if i > 10 {
				p = append(p, "…")
				break
			}
			p = append(p, showShort(e, depth+1))
		}
		return "[" + strings.Join(p, " ") + "]"
	case postscript.Procedure:
		var p []string
		for i, e := range o {
			if i > 10 {
				p = append(p, "…")
				break
			}
			p = append(p, showShort(e, depth+1))
		}
		return "{" + strings.Join(p, " ") + "}"
	case postscript.Dict:
		return fmt.Sprintf("<<dict n=%d>>", len(o))
	}
	rv := reflect.ValueOf(o)
	if rv.Kind() == reflect.Func {
		return "--op--"
	}
	if reflect.TypeOf(o).String() == "postscript.mark" {
		return "-mark-"
	}
	return fmt.Sprintf("<%T>", o)
}

func showModelStack(st []psmodel.Val) string {
	var parts []string
	for _, v := range st {
		parts = append(parts, psmodel.Format(v))
	}
	return strings.Join(parts, " ")
}
