// Package t1raw builds small Type 1 font programs (unencrypted container)
// directly from charstring bytes; used where a check needs a font the
// library's writer cannot produce (hostile values, seac, nested seac).
package t1raw

import (
	"bytes"
	"fmt"
)

// Num encodes a charstring integer.
func Num(v int32) []byte {
	switch {
	case v >= -107 && v <= 107:
		return []byte{byte(v + 139)}
	case v >= 108 && v <= 1131:
		v -= 108
		return []byte{byte(v/256 + 247), byte(v % 256)}
	case v >= -1131 && v <= -108:
		v = -v - 108
		return []byte{byte(v/256 + 251), byte(v % 256)}
	}
	return []byte{255, byte(v >> 24), byte(v >> 16), byte(v >> 8), byte(v)}
}

// Encrypt applies the charstring cipher with lenIV zero lead bytes.
func Encrypt(plain []byte, lenIV int) []byte {
	var r uint16 = 4330
	out := make([]byte, 0, len(plain)+lenIV)
	in := append(make([]byte, lenIV), plain...)
	for _, p := range in {
		c := p ^ byte(r>>8)
		r = (uint16(c)+r)*52845 + 22719
		out = append(out, c)
	}
	return out
}

// FontSpec describes the font program to build.
type FontSpec struct {
	LenIV      string // text of the lenIV value ("" = entry absent)
	EncLenIV   int    // lead bytes actually used
	Subrs      [][]byte
	Glyphs     map[string][]byte
	Order      []string
	RawGlyph   map[string][]byte // already-"encrypted" bytes, used verbatim
	FontInfo   string
	Private    string // extra entries
	CharString string // replacement for the CharStrings value ("" = normal)
	Top        string // extra top-level entries
	Omit       map[string]bool
}

// Build renders the font program.
func Build(fs FontSpec) []byte {
	var b bytes.Buffer
	b.WriteString("%!PS-AdobeFont-1.0: Test 001.000\n11 dict begin\n")
	if !fs.Omit["FontInfo"] {
		if fs.FontInfo != "" {
			b.WriteString("/FontInfo " + fs.FontInfo + " def\n")
		} else {
			b.WriteString("/FontInfo 5 dict dup begin /version (1) def /FullName (Test) def end def\n")
		}
	}
	b.WriteString("/FontName /Test def\n/Encoding StandardEncoding def\n/PaintType 0 def\n")
	if !fs.Omit["FontType"] {
		b.WriteString("/FontType 1 def\n")
	}
	b.WriteString("/FontMatrix [0.001 0 0 0.001 0 0] def\n/FontBBox [0 0 0 0] def\n")
	b.WriteString(fs.Top)
	b.WriteString("currentdict end\n")
	if !fs.Omit["Private"] {
		b.WriteString("dup /Private 12 dict dup begin\n/RD {string currentfile exch readstring pop} def /ND {def} def /NP {put} def\n")
		if fs.LenIV != "" {
			b.WriteString("/lenIV " + fs.LenIV + " def\n")
		}
		b.WriteString(fs.Private)
		if fs.Subrs != nil {
			fmt.Fprintf(&b, "/Subrs %d array\n", len(fs.Subrs))
			for i, s := range fs.Subrs {
				if s == nil {
					continue
				}
				e := Encrypt(s, fs.EncLenIV)
				fmt.Fprintf(&b, "dup %d %d RD ", i, len(e))
				b.Write(e)
				b.WriteString(" NP\n")
			}
			b.WriteString("ND\n")
		}
		if !fs.Omit["CharStrings"] {
			if fs.CharString != "" {
				b.WriteString("2 index /CharStrings " + fs.CharString + " dup begin\n")
			} else {
				fmt.Fprintf(&b, "2 index /CharStrings %d dict dup begin\n", len(fs.Order)+1)
			}
			for _, name := range fs.Order {
				var e []byte
				if raw, ok := fs.RawGlyph[name]; ok {
					e = raw
				} else {
					e = Encrypt(fs.Glyphs[name], fs.EncLenIV)
				}
				fmt.Fprintf(&b, "/%s %d RD ", name, len(e))
				b.Write(e)
				b.WriteString(" ND\n")
			}
			b.WriteString("end\n")
			b.WriteString("end\nreadonly put\nput\n")
		} else {
			b.WriteString("end\nput\n")
		}
	}
	b.WriteString("dup /FontName get exch definefont pop\n")
	return b.Bytes()
}
