package t1dec

import (
	"math/big"

	"verif/model/numref"
)

// Cmd is one path element in absolute character-space coordinates.
type Cmd struct {
	Op   byte       // 'm' moveto, 'l' lineto, 'c' curveto, 'z' closepath
	Args []*big.Rat // 2, 2, 6, 0 values
}

// Stem is a hint zone in absolute coordinates (side bearing added).
type Stem struct{ From, To *big.Rat }

// Glyph is the result of interpreting one charstring.
type Glyph struct {
	Code       []byte
	Tokens     []numref.Token
	Cmds       []Cmd
	SBX, SBY   *big.Rat
	WX, WY     *big.Rat
	HStem      []Stem
	VStem      []Stem
	UsedSBW    bool
	NumFormats [5]int // how many numbers of each numref.Format occurred
}

func rat(v int64) *big.Rat { return big.NewRat(v, 1) }

func add(a, b *big.Rat) *big.Rat { return new(big.Rat).Add(a, b) }

// Interpret executes a plain charstring following chapter 6 of the Type 1
// book.  Every command must find exactly its operands on the Type 1 BuildChar
// operand stack (the stack is cleared by each command, 6.3).  Flex, hint
// replacement and seac are not supported: the writer under test never emits
// them, and a charstring that uses them is reported as unsupported.
func Interpret(code []byte, subrs [][]byte) (*Glyph, *Error) {
	g := &Glyph{Code: code}
	toks, terr := numref.Tokenize(code)
	g.Tokens = toks
	if terr != nil {
		return nil, errf("charstring:truncated", "%v", terr)
	}
	var stack []*big.Rat
	x, y := new(big.Rat), new(big.Rat)
	started := false
	ended := false
	depth := 0

	var run func(toks []numref.Token) *Error
	run = func(toks []numref.Token) *Error {
		for _, t := range toks {
			if ended {
				return nil
			}
			if t.IsNum {
				g.NumFormats[t.Format]++
				if len(stack) >= 24 {
					return errf("charstring:stack-overflow", "more than 24 operands")
				}
				stack = append(stack, rat(t.Num))
				continue
			}
			need := func(n int) *Error {
				if len(stack) != n {
					return errf("charstring:operand-count", "%s with %d operand(s) on the stack, needs exactly %d", numref.OpName(t.Op), len(stack), n)
				}
				return nil
			}
			if !started && t.Op != numref.OpHSBW && t.Op != numref.OpSBW && t.Op != numref.OpDiv && t.Op != numref.OpCallSubr {
				return errf("charstring:no-hsbw", "%s before hsbw/sbw", numref.OpName(t.Op))
			}
			switch t.Op {
			case numref.OpHSBW:
				if err := need(2); err != nil {
					return err
				}
				if started {
					return errf("charstring:hsbw-twice", "second hsbw/sbw")
				}
				started = true
				g.SBX, g.SBY = stack[0], new(big.Rat)
				g.WX, g.WY = stack[1], new(big.Rat)
				x, y = g.SBX, g.SBY
			case numref.OpSBW:
				if err := need(4); err != nil {
					return err
				}
				if started {
					return errf("charstring:hsbw-twice", "second hsbw/sbw")
				}
				started = true
				g.UsedSBW = true
				g.SBX, g.SBY = stack[0], stack[1]
				g.WX, g.WY = stack[2], stack[3]
				x, y = g.SBX, g.SBY
			case numref.OpHStem:
				if err := need(2); err != nil {
					return err
				}
				from := add(g.SBY, stack[0])
				g.HStem = append(g.HStem, Stem{from, add(from, stack[1])})
			case numref.OpVStem:
				if err := need(2); err != nil {
					return err
				}
				from := add(g.SBX, stack[0])
				g.VStem = append(g.VStem, Stem{from, add(from, stack[1])})
			case numref.OpHStem3, numref.OpVStem3:
				if err := need(6); err != nil {
					return err
				}
				for i := 0; i < 6; i += 2 {
					if t.Op == numref.OpHStem3 {
						from := add(g.SBY, stack[i])
						g.HStem = append(g.HStem, Stem{from, add(from, stack[i+1])})
					} else {
						from := add(g.SBX, stack[i])
						g.VStem = append(g.VStem, Stem{from, add(from, stack[i+1])})
					}
				}
			case numref.OpDotSection:
				if err := need(0); err != nil {
					return err
				}
			case numref.OpRMoveTo, numref.OpRLineTo:
				if err := need(2); err != nil {
					return err
				}
				x, y = add(x, stack[0]), add(y, stack[1])
				op := byte('m')
				if t.Op == numref.OpRLineTo {
					op = 'l'
				}
				g.Cmds = append(g.Cmds, Cmd{op, []*big.Rat{x, y}})
			case numref.OpHMoveTo, numref.OpHLineTo:
				if err := need(1); err != nil {
					return err
				}
				x = add(x, stack[0])
				op := byte('m')
				if t.Op == numref.OpHLineTo {
					op = 'l'
				}
				g.Cmds = append(g.Cmds, Cmd{op, []*big.Rat{x, y}})
			case numref.OpVMoveTo, numref.OpVLineTo:
				if err := need(1); err != nil {
					return err
				}
				y = add(y, stack[0])
				op := byte('m')
				if t.Op == numref.OpVLineTo {
					op = 'l'
				}
				g.Cmds = append(g.Cmds, Cmd{op, []*big.Rat{x, y}})
			case numref.OpRRCurveTo, numref.OpHVCurveTo, numref.OpVHCurveTo:
				var d [6]*big.Rat
				zero := new(big.Rat)
				switch t.Op {
				case numref.OpRRCurveTo:
					if err := need(6); err != nil {
						return err
					}
					copy(d[:], stack)
				case numref.OpHVCurveTo: // dx1 dx2 dy2 dy3  ==  dx1 0 dx2 dy2 0 dy3 rrcurveto
					if err := need(4); err != nil {
						return err
					}
					d = [6]*big.Rat{stack[0], zero, stack[1], stack[2], zero, stack[3]}
				case numref.OpVHCurveTo: // dy1 dx2 dy2 dx3  ==  0 dy1 dx2 dy2 dx3 0 rrcurveto
					if err := need(4); err != nil {
						return err
					}
					d = [6]*big.Rat{zero, stack[0], stack[1], stack[2], stack[3], zero}
				}
				x1, y1 := add(x, d[0]), add(y, d[1])
				x2, y2 := add(x1, d[2]), add(y1, d[3])
				x3, y3 := add(x2, d[4]), add(y2, d[5])
				x, y = x3, y3
				g.Cmds = append(g.Cmds, Cmd{'c', []*big.Rat{x1, y1, x2, y2, x3, y3}})
			case numref.OpClosePath:
				if err := need(0); err != nil {
					return err
				}
				g.Cmds = append(g.Cmds, Cmd{Op: 'z'})
			case numref.OpDiv:
				if len(stack) < 2 {
					return errf("charstring:operand-count", "div with %d operand(s)", len(stack))
				}
				a, b := stack[len(stack)-2], stack[len(stack)-1]
				if b.Sign() == 0 {
					return errf("charstring:div-by-zero", "%s 0 div", a.RatString())
				}
				stack = append(stack[:len(stack)-2], new(big.Rat).Quo(a, b))
				continue // div does not clear the stack
			case numref.OpCallSubr:
				if len(stack) < 1 {
					return errf("charstring:operand-count", "callsubr without operand")
				}
				top := stack[len(stack)-1]
				stack = stack[:len(stack)-1]
				if !top.IsInt() || !top.Num().IsInt64() {
					return errf("charstring:subr-index", "callsubr %s", top.RatString())
				}
				idx := top.Num().Int64()
				if idx < 0 || int(idx) >= len(subrs) {
					return errf("charstring:subr-index", "callsubr %d with %d Subrs", idx, len(subrs))
				}
				depth++
				if depth > 10 {
					return errf("charstring:subr-depth", "subroutine calls nested deeper than 10")
				}
				st, terr := numref.Tokenize(subrs[idx])
				if terr != nil {
					return errf("charstring:truncated", "Subrs[%d]: %v", idx, terr)
				}
				if err := run(st); err != nil {
					return err
				}
				depth--
				continue
			case numref.OpReturn:
				return nil
			case numref.OpEndChar:
				if err := need(0); err != nil {
					return err
				}
				ended = true
				return nil
			case numref.OpSeac, numref.OpCallOtherSubr, numref.OpPop, numref.OpSetCurrentPoint:
				return errf("unsupported:charstring-command", "%s", numref.OpName(t.Op))
			default:
				return errf("charstring:unknown-command", "%s", numref.OpName(t.Op))
			}
			stack = stack[:0]
		}
		return nil
	}
	if err := run(toks); err != nil {
		return nil, err
	}
	if !ended {
		return nil, errf("charstring:no-endchar", "charstring ends without endchar")
	}
	return g, nil
}
