// Package t1dec is an independent Type 1 font consumer written from the Adobe
// Type 1 Font Format specification ("the black book"), PLRM section 3 (syntax)
// and Technical Note 5040 (PFB).  It shares no code with the library under
// test: it has its own PFB de-framer, eexec and charstring decryption, its own
// tokenizer, a small dictionary-building evaluator for the fixed vocabulary a
// Type 1 font program is written in, and its own charstring interpreter that
// works in exact rational arithmetic.
//
// It is deliberately not a PostScript interpreter: procedures are never
// executed.  The three helper procedures every Type 1 font defines (RD / -|,
// ND / |-, NP / |) are recognised by the shape of their bodies, the
// ".notdef fill loop" of a custom encoding is recognised as an idiom, and any
// other executable name outside the vocabulary is reported as unsupported.
package t1dec

import "fmt"

// Error is a decoding failure with a stable class for finding keys.
type Error struct {
	Class string
	Msg   string
}

func (e *Error) Error() string { return e.Class + ": " + e.Msg }

func errf(class, format string, args ...any) *Error {
	return &Error{Class: class, Msg: fmt.Sprintf(format, args...)}
}

// Segment is one PFB segment.
type Segment struct {
	Type   int // 1 = ASCII, 2 = binary
	Start  int // offset of the payload in the de-framed stream
	Len    int
	RawOff int // offset of the 6-byte header in the file
}

// Deframe is a strict reader of the PFB container: every segment starts with
// 0x80, a type byte 1 or 2 and a 32-bit little-endian length which must be
// fully present; the file ends with the two bytes 0x80 0x03 and nothing
// follows them.
func Deframe(file []byte) (stream []byte, segs []Segment, err *Error) {
	pos := 0
	for {
		if pos >= len(file) {
			return nil, segs, errf("pfb:no-end-marker", "file ends at offset %d without the end marker 80 03", pos)
		}
		if file[pos] != 0x80 {
			return nil, segs, errf("pfb:bad-marker", "offset %d: segment starts with %#02x instead of 0x80", pos, file[pos])
		}
		if pos+1 >= len(file) {
			return nil, segs, errf("pfb:truncated-header", "offset %d: header cut after the marker byte", pos)
		}
		typ := int(file[pos+1])
		if typ == 3 {
			if pos+2 != len(file) {
				return nil, segs, errf("pfb:trailing-bytes", "%d byte(s) after the end marker at offset %d", len(file)-pos-2, pos)
			}
			return stream, segs, nil
		}
		if typ != 1 && typ != 2 {
			return nil, segs, errf("pfb:bad-type", "offset %d: segment type %d", pos, typ)
		}
		if pos+6 > len(file) {
			return nil, segs, errf("pfb:truncated-header", "offset %d: header needs 6 bytes, %d left", pos, len(file)-pos)
		}
		n := int(file[pos+2]) | int(file[pos+3])<<8 | int(file[pos+4])<<16 | int(file[pos+5])<<24
		if pos+6+n > len(file) {
			return nil, segs, errf("pfb:length", "offset %d: segment of type %d declares %d bytes (length field %02x %02x %02x %02x, little-endian) but only %d remain",
				pos, typ, n, file[pos+2], file[pos+3], file[pos+4], file[pos+5], len(file)-pos-6)
		}
		segs = append(segs, Segment{Type: typ, Start: len(stream), Len: n, RawOff: pos})
		stream = append(stream, file[pos+6:pos+6+n]...)
		pos += 6 + n
	}
}

// eexec / charstring cipher (Type 1 book, chapter 7)
const (
	cipherC1    = 52845
	cipherC2    = 22719
	eexecKey    = 55665
	charstrKey  = 4330
	eexecLeadIn = 4
)

func decrypt(cipher []byte, key uint16) []byte {
	r := key
	plain := make([]byte, len(cipher))
	for i, c := range cipher {
		plain[i] = c ^ byte(r>>8)
		r = (uint16(c)+r)*cipherC1 + cipherC2
	}
	return plain
}

func isWhite(b byte) bool {
	return b == 0 || b == '\t' || b == '\n' || b == '\f' || b == '\r' || b == ' '
}

// The eexec operator's notion of white space (Type 1 book 7.2): blank, tab,
// carriage return, line feed.
func isEexecWhite(b byte) bool {
	return b == ' ' || b == '\t' || b == '\r' || b == '\n'
}

func hexVal(b byte) int {
	switch {
	case b >= '0' && b <= '9':
		return int(b - '0')
	case b >= 'a' && b <= 'f':
		return int(b-'a') + 10
	case b >= 'A' && b <= 'F':
		return int(b-'A') + 10
	}
	return -1
}
