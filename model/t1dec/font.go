package t1dec

import (
	"bytes"
	"sort"
)

// Layout describes the container-level facts of a decoded file.
type Layout struct {
	PFB      bool
	Segments []Segment // PFB only
	// Stream is the de-framed byte stream (the file itself unless PFB).
	Stream []byte
	// EExec is "none", "hex" or "binary".
	EExec string
	// EexecTokenEnd is the stream offset just after the white-space byte that
	// terminates the eexec token: the place where the ciphertext must start.
	EexecTokenEnd int
	// CipherStart is the stream offset of the first ciphertext byte as the
	// eexec operator sees it (white space after the token skipped).
	CipherStart int
	// First four raw bytes of the ciphertext (fewer at end of data).
	CipherHead []byte
	// CipherEnd is the stream offset just after the last ciphertext byte the
	// font program consumed (through the white space ending "closefile").
	CipherEnd int
	// PlainAfterClose is the decrypted data between closefile and the end of
	// the encrypted portion's container (PFB binary segment / end of data for
	// the PDF form); only meaningful for the binary form.
	TrailerZeros       int
	TrailerCleartomark bool
	TrailerOther       string // anything in the trailer that is neither a zero, white space nor cleartomark
	Comments           []string
}

// Font is the decoded font program.
type Font struct {
	Layout Layout

	FontName   string
	HasName    bool
	Top        *Dict // the font dictionary
	Info       *Dict // FontInfo
	Private    *Dict
	LenIV      int
	Encoding   []string // nil when the font dictionary has no Encoding entry
	IsStdEnc   bool     // Encoding is the built-in StandardEncoding array
	GlyphNames []string // in file order
	Glyphs     map[string]*Glyph
	Subrs      [][]byte // decrypted
}

// Decode reads a complete font file: PFB (first byte 0x80) or a plain stream
// with the encrypted portion in hex or binary form or not encrypted at all.
// pdf tells the decoder that the data is the PDF embedding form, which ends
// with the encrypted portion (no trailer).  On an error inside or after the
// encrypted portion the returned Font is non-nil and has its Layout filled as
// far as it was determined.
func Decode(file []byte, pdf bool) (*Font, *Error) {
	f := &Font{}
	lay := &f.Layout
	stream := file
	if len(file) > 0 && file[0] == 0x80 {
		s, segs, err := Deframe(file)
		if err != nil {
			return nil, err
		}
		stream = s
		lay.PFB = true
		lay.Segments = segs
	}
	lay.Stream = stream
	if !bytes.HasPrefix(stream, []byte("%!")) {
		return nil, errf("header:no-percent-bang", "font program does not start with %%!")
	}

	user := newDict(1 << 16)
	m := &machine{lex: &lexer{data: stream}, user: user}
	if err := m.run(); err != nil {
		return nil, err
	}
	lay.Comments = append(lay.Comments, m.lex.comments...)
	lay.EExec = "none"
	if m.wantEexec {
		// the white-space byte after the token has been consumed by the lexer
		lay.EexecTokenEnd = m.lex.pos
		p := m.lex.pos
		for p < len(stream) && isEexecWhite(stream[p]) {
			p++
		}
		lay.CipherStart = p
		head := stream[p:min(p+4, len(stream))]
		lay.CipherHead = append([]byte(nil), head...)
		if len(head) < 4 {
			return nil, errf("eexec:too-short", "only %d byte(s) follow eexec", len(head))
		}
		allHex := true
		for _, b := range head {
			if hexVal(b) < 0 {
				allHex = false
			}
		}
		var cipher []byte
		var rawEnd []int // stream offset after cipher byte i
		if allHex {
			lay.EExec = "hex"
			nib := -1
			for q := p; q < len(stream); q++ {
				b := stream[q]
				if isEexecWhite(b) {
					continue
				}
				v := hexVal(b)
				if v < 0 {
					break
				}
				if nib < 0 {
					nib = v
				} else {
					cipher = append(cipher, byte(nib<<4|v))
					rawEnd = append(rawEnd, q+1)
					nib = -1
				}
			}
		} else {
			lay.EExec = "binary"
			cipher = stream[p:]
		}
		plain := decrypt(cipher, eexecKey)
		if len(plain) < eexecLeadIn {
			return nil, errf("eexec:too-short", "encrypted portion has %d bytes", len(plain))
		}
		inner := &lexer{data: plain, pos: eexecLeadIn}
		m.lex = inner
		m.inEexec = true
		m.wantEexec = false
		// from here on the partially filled Font is returned together with an
		// error, so that the caller can look at the container-level facts
		if err := m.run(); err != nil {
			return f, &Error{Class: "encrypted-portion:" + err.Class, Msg: err.Msg}
		}
		if !m.closedEexec {
			return f, errf("encrypted-portion:no-closefile", "the encrypted portion ends without `currentfile closefile`")
		}
		consumed := inner.pos // plaintext bytes consumed, including the 4 lead bytes
		if lay.EExec == "hex" {
			lay.CipherEnd = rawEnd[consumed-1]
		} else {
			lay.CipherEnd = p + consumed
		}
		// trailer: clear text after the encrypted portion
		if !pdf {
			rest := stream[lay.CipherEnd:]
			if lay.PFB {
				// the trailer starts with the next segment; bytes of the binary
				// segment after closefile are looked at by the caller
				for _, sg := range lay.Segments {
					if sg.Start >= lay.CipherEnd {
						rest = stream[sg.Start:]
						break
					}
					rest = nil
				}
			}
			var other []byte
			i := 0
			for i < len(rest) {
				b := rest[i]
				switch {
				case b == '0':
					lay.TrailerZeros++
					i++
				case isWhite(b):
					i++
				case bytes.HasPrefix(rest[i:], []byte("cleartomark")) && !lay.TrailerCleartomark:
					lay.TrailerCleartomark = true
					i += len("cleartomark")
				default:
					other = append(other, b)
					i++
				}
			}
			lay.TrailerOther = string(other)
		}
	} else {
		// no eexec: everything was evaluated in clear text
	}

	if len(m.fonts) != 1 {
		return nil, errf("structure:definefont", "%d fonts defined, expected exactly one", len(m.fonts))
	}
	if err := f.extract(m.fonts[0]); err != nil {
		return nil, err
	}
	return f, nil
}

func (f *Font) extract(fd fontDef) *Error {
	top := fd.dict
	f.Top = top
	if v, ok := top.M["FontName"]; ok {
		if v.K != KName {
			return errf("structure:FontName", "FontName is %s", v)
		}
		f.FontName = v.S
		f.HasName = true
		if fd.key.K != KName || fd.key.S != v.S {
			return errf("structure:definefont", "definefont key %s differs from /FontName %s", fd.key, v)
		}
	} else {
		return errf("structure:FontName", "font dictionary has no FontName")
	}
	if v, ok := top.M["FontInfo"]; ok {
		if v.K != KDict {
			return errf("structure:FontInfo", "FontInfo is %s", v)
		}
		f.Info = v.D
	} else {
		return errf("structure:FontInfo", "font dictionary has no FontInfo")
	}
	for _, req := range []string{"PaintType", "FontType", "FontMatrix", "FontBBox", "Private", "CharStrings"} {
		if _, ok := top.M[req]; !ok {
			return errf("structure:missing-entry", "font dictionary has no /%s", req)
		}
	}
	if v, ok := top.M["Encoding"]; ok {
		switch v.K {
		case KStdEnc:
			f.IsStdEnc = true
			f.Encoding = append([]string(nil), StandardEncoding[:]...)
		case KArray:
			if len(v.A.E) != 256 {
				return errf("structure:Encoding", "Encoding array has %d elements", len(v.A.E))
			}
			f.Encoding = make([]string, 256)
			for i, e := range v.A.E {
				if e.K != KName {
					return errf("structure:Encoding", "Encoding[%d] is %s, not a name", i, e)
				}
				f.Encoding[i] = e.S
			}
		default:
			return errf("structure:Encoding", "Encoding is %s", v)
		}
	}
	pv := top.M["Private"]
	if pv.K != KDict {
		return errf("structure:Private", "Private is %s", pv)
	}
	f.Private = pv.D
	f.LenIV = 4
	if v, ok := f.Private.M["lenIV"]; ok {
		if v.K != KInt || v.I < 0 {
			return errf("structure:lenIV", "lenIV is %s", v)
		}
		f.LenIV = int(v.I)
	}
	if v, ok := f.Private.M["Subrs"]; ok {
		if v.K != KArray {
			return errf("structure:Subrs", "Subrs is %s", v)
		}
		for i, e := range v.A.E {
			if e.K != KString {
				return errf("structure:Subrs", "Subrs[%d] is %s", i, e)
			}
			if len(e.S) < f.LenIV {
				return errf("charstring:too-short", "Subrs[%d] has %d bytes, fewer than lenIV", i, len(e.S))
			}
			f.Subrs = append(f.Subrs, decrypt([]byte(e.S), charstrKey)[f.LenIV:])
		}
	}
	cv := top.M["CharStrings"]
	if cv.K != KDict {
		return errf("structure:CharStrings", "CharStrings is %s", cv)
	}
	if len(cv.D.Keys) != cv.D.Cap && false {
		// a larger dictionary than needed is legal
	}
	f.Glyphs = map[string]*Glyph{}
	for _, name := range cv.D.Keys {
		v := cv.D.M[name]
		if v.K != KString {
			return errf("structure:CharStrings", "CharStrings /%s is %s", name, v)
		}
		if len(v.S) < f.LenIV {
			return errf("charstring:too-short", "charstring /%s has %d bytes, fewer than lenIV", name, len(v.S))
		}
		plain := decrypt([]byte(v.S), charstrKey)[f.LenIV:]
		g, err := Interpret(plain, f.Subrs)
		if err != nil {
			return &Error{Class: err.Class, Msg: "glyph /" + name + ": " + err.Msg}
		}
		f.GlyphNames = append(f.GlyphNames, name)
		f.Glyphs[name] = g
	}
	return nil
}

// SortedGlyphNames returns the glyph names in byte order.
func (f *Font) SortedGlyphNames() []string {
	out := append([]string(nil), f.GlyphNames...)
	sort.Strings(out)
	return out
}
