package t1dec

import (
	"strconv"
)

type tokKind int

const (
	tkEOF tokKind = iota
	tkInt
	tkReal
	tkLitName  // /name
	tkExecName // name
	tkString   // (...) or <...>
	tkArrOpen  // [
	tkArrClose // ]
	tkProcOpen // {
	tkProcClose
)

type token struct {
	kind tokKind
	i    int64
	f    float64
	s    string // name, string contents, or number text
	pos  int
}

// lexer follows PLRM 3.2 (syntax).
type lexer struct {
	data     []byte
	pos      int
	comments []string
}

func isDelim(b byte) bool {
	switch b {
	case '(', ')', '<', '>', '[', ']', '{', '}', '/', '%':
		return true
	}
	return false
}

func isRegularChar(b byte) bool { return !isWhite(b) && !isDelim(b) }

// skipSpace skips white space and comments.  A comment runs from % to the next
// line feed, carriage return or form feed (PLRM 3.2.2 "Comments").
func (l *lexer) skipSpace() {
	for l.pos < len(l.data) {
		b := l.data[l.pos]
		if isWhite(b) {
			l.pos++
			continue
		}
		if b == '%' {
			start := l.pos
			for l.pos < len(l.data) && l.data[l.pos] != '\n' && l.data[l.pos] != '\r' && l.data[l.pos] != '\f' {
				l.pos++
			}
			l.comments = append(l.comments, string(l.data[start:l.pos]))
			continue
		}
		return
	}
}

// consumeOneWhite implements "the white-space character terminating a name or
// number token is consumed together with the token" (PLRM 3.2.2; it is what
// makes `n RD <n bytes>` work).  CR LF counts as one.
func (l *lexer) consumeOneWhite() {
	if l.pos < len(l.data) && isWhite(l.data[l.pos]) {
		if l.data[l.pos] == '\r' && l.pos+1 < len(l.data) && l.data[l.pos+1] == '\n' {
			l.pos++
		}
		l.pos++
	}
}

func (l *lexer) readRaw(n int) ([]byte, *Error) {
	if n < 0 || l.pos+n > len(l.data) {
		return nil, errf("syntax:binary-data-truncated", "%d bytes of binary data requested at offset %d, %d available", n, l.pos, len(l.data)-l.pos)
	}
	b := l.data[l.pos : l.pos+n]
	l.pos += n
	return b, nil
}

func (l *lexer) next() (token, *Error) {
	l.skipSpace()
	if l.pos >= len(l.data) {
		return token{kind: tkEOF, pos: l.pos}, nil
	}
	start := l.pos
	b := l.data[l.pos]
	switch b {
	case '[':
		l.pos++
		return token{kind: tkArrOpen, pos: start}, nil
	case ']':
		l.pos++
		return token{kind: tkArrClose, pos: start}, nil
	case '{':
		l.pos++
		return token{kind: tkProcOpen, pos: start}, nil
	case '}':
		l.pos++
		return token{kind: tkProcClose, pos: start}, nil
	case '(':
		return l.stringLiteral()
	case '<':
		if l.pos+1 < len(l.data) && l.data[l.pos+1] == '<' {
			return token{}, errf("unsupported:dict-syntax", "<< at offset %d", start)
		}
		return l.hexString()
	case '>', ')':
		return token{}, errf("syntax:unexpected-delimiter", "%q at offset %d", b, start)
	case '/':
		l.pos++
		if l.pos < len(l.data) && l.data[l.pos] == '/' {
			return token{}, errf("unsupported:immediate-name", "// at offset %d", start)
		}
		s := l.pos
		for l.pos < len(l.data) && isRegularChar(l.data[l.pos]) {
			l.pos++
		}
		name := string(l.data[s:l.pos])
		l.consumeOneWhite()
		return token{kind: tkLitName, s: name, pos: start}, nil
	}
	s := l.pos
	for l.pos < len(l.data) && isRegularChar(l.data[l.pos]) {
		l.pos++
	}
	text := string(l.data[s:l.pos])
	l.consumeOneWhite()
	if k, i, f, ok := parseNumber(text); ok {
		return token{kind: k, i: i, f: f, s: text, pos: start}, nil
	}
	return token{kind: tkExecName, s: text, pos: start}, nil
}

// parseNumber: signed decimal integers, reals with optional fraction and
// exponent, radix numbers base#digits (PLRM 3.2.2 "Numbers").  An integer that
// does not fit 32 bits is converted to a real.
func parseNumber(text string) (tokKind, int64, float64, bool) {
	if text == "" {
		return 0, 0, 0, false
	}
	i := 0
	if text[0] == '+' || text[0] == '-' {
		i++
	}
	digits := 0
	j := i
	for j < len(text) && text[j] >= '0' && text[j] <= '9' {
		j++
		digits++
	}
	if j == len(text) && digits > 0 {
		v, err := strconv.ParseInt(text, 10, 64)
		if err == nil && v >= -(1<<31) && v <= (1<<31)-1 {
			return tkInt, v, float64(v), true
		}
		f, err := strconv.ParseFloat(text, 64)
		if err != nil {
			return 0, 0, 0, false
		}
		return tkReal, 0, f, true
	}
	// radix
	if j < len(text) && text[j] == '#' && i == 0 && digits > 0 {
		base, err := strconv.Atoi(text[:j])
		if err == nil && base >= 2 && base <= 36 && j+1 < len(text) {
			v, err := strconv.ParseUint(text[j+1:], base, 32)
			if err == nil {
				return tkInt, int64(int32(uint32(v))), float64(int32(uint32(v))), true
			}
		}
		return 0, 0, 0, false
	}
	// real: digits [. digits] [e|E [sign] digits], at least one digit in the mantissa
	k := j
	if k < len(text) && text[k] == '.' {
		k++
		for k < len(text) && text[k] >= '0' && text[k] <= '9' {
			k++
			digits++
		}
	}
	if digits == 0 {
		return 0, 0, 0, false
	}
	if k < len(text) && (text[k] == 'e' || text[k] == 'E') {
		k++
		if k < len(text) && (text[k] == '+' || text[k] == '-') {
			k++
		}
		ed := 0
		for k < len(text) && text[k] >= '0' && text[k] <= '9' {
			k++
			ed++
		}
		if ed == 0 {
			return 0, 0, 0, false
		}
	}
	if k != len(text) {
		return 0, 0, 0, false
	}
	f, err := strconv.ParseFloat(text, 64)
	if err != nil {
		return 0, 0, 0, false
	}
	return tkReal, 0, f, true
}

// stringLiteral reads (...) with balanced unescaped parentheses and the escape
// sequences of PLRM 3.2.2 "Strings": \n \r \t \b \f \\ \( \) \ddd, backslash
// newline is a line continuation, any other escaped character stands for
// itself.  An unescaped CR, LF or CR LF is read as a single LF.
func (l *lexer) stringLiteral() (token, *Error) {
	start := l.pos
	l.pos++ // (
	depth := 1
	var out []byte
	for {
		if l.pos >= len(l.data) {
			return token{}, errf("syntax:unterminated-string", "string starting at offset %d", start)
		}
		b := l.data[l.pos]
		l.pos++
		switch b {
		case '(':
			depth++
			out = append(out, b)
		case ')':
			depth--
			if depth == 0 {
				return token{kind: tkString, s: string(out), pos: start}, nil
			}
			out = append(out, b)
		case '\r':
			if l.pos < len(l.data) && l.data[l.pos] == '\n' {
				l.pos++
			}
			out = append(out, '\n')
		case '\\':
			if l.pos >= len(l.data) {
				return token{}, errf("syntax:unterminated-string", "string starting at offset %d", start)
			}
			e := l.data[l.pos]
			l.pos++
			switch e {
			case 'n':
				out = append(out, '\n')
			case 'r':
				out = append(out, '\r')
			case 't':
				out = append(out, '\t')
			case 'b':
				out = append(out, '\b')
			case 'f':
				out = append(out, '\f')
			case '\r':
				if l.pos < len(l.data) && l.data[l.pos] == '\n' {
					l.pos++
				}
			case '\n':
			case '0', '1', '2', '3', '4', '5', '6', '7':
				v := int(e - '0')
				for k := 0; k < 2 && l.pos < len(l.data) && l.data[l.pos] >= '0' && l.data[l.pos] <= '7'; k++ {
					v = v*8 + int(l.data[l.pos]-'0')
					l.pos++
				}
				out = append(out, byte(v))
			default:
				out = append(out, e)
			}
		default:
			out = append(out, b)
		}
	}
}

func (l *lexer) hexString() (token, *Error) {
	start := l.pos
	l.pos++ // <
	var out []byte
	nib := -1
	for {
		if l.pos >= len(l.data) {
			return token{}, errf("syntax:unterminated-string", "hex string starting at offset %d", start)
		}
		b := l.data[l.pos]
		l.pos++
		if b == '>' {
			if nib >= 0 {
				out = append(out, byte(nib<<4))
			}
			return token{kind: tkString, s: string(out), pos: start}, nil
		}
		if isWhite(b) {
			continue
		}
		v := hexVal(b)
		if v < 0 {
			return token{}, errf("syntax:bad-hex-string", "%q in hex string at offset %d", b, l.pos-1)
		}
		if nib < 0 {
			nib = v
		} else {
			out = append(out, byte(nib<<4|v))
			nib = -1
		}
	}
}
