package t1dec

import (
	"fmt"
	"strings"
)

// Kind of a value.
type Kind int

const (
	KNull Kind = iota
	KInt
	KReal
	KBool
	KName // literal name
	KString
	KArray
	KDict
	KProc
	KMark
	KFile
	KStdEnc // the StandardEncoding array of systemdict
	KExec   // executable name inside a procedure body
)

// Value is a PostScript object as far as a font program needs them.
type Value struct {
	K Kind
	I int64
	F float64 // value of a real; also set for integers
	T string  // source text of a number
	S string  // string contents / name
	B bool
	A *Array
	D *Dict
	P []Value // procedure body
}

type Array struct{ E []Value }

type Dict struct {
	Cap  int
	Keys []string
	M    map[string]Value
}

func newDict(cap int) *Dict { return &Dict{Cap: cap, M: map[string]Value{}} }

func (d *Dict) put(k string, v Value) *Error {
	if _, ok := d.M[k]; !ok {
		if len(d.Keys) >= d.Cap {
			return errf("dictfull", "dictionary created with room for %d entries receives entry number %d (/%s); a Level 1 interpreter raises dictfull", d.Cap, len(d.Keys)+1, k)
		}
		d.Keys = append(d.Keys, k)
	}
	d.M[k] = v
	return nil
}

func (v Value) String() string {
	switch v.K {
	case KNull:
		return "null"
	case KInt:
		return fmt.Sprint(v.I)
	case KReal:
		return v.T
	case KBool:
		return fmt.Sprint(v.B)
	case KName:
		return "/" + v.S
	case KString:
		return fmt.Sprintf("(%q)", v.S)
	case KArray:
		var sb strings.Builder
		sb.WriteString("[")
		for i, e := range v.A.E {
			if i > 0 {
				sb.WriteString(" ")
			}
			if i > 8 {
				sb.WriteString("…")
				break
			}
			sb.WriteString(e.String())
		}
		sb.WriteString("]")
		return sb.String()
	case KDict:
		return fmt.Sprintf("<dict %d/%d>", len(v.D.Keys), v.D.Cap)
	case KProc:
		return "{" + procText(v.P) + "}"
	case KMark:
		return "mark"
	case KFile:
		return "-file-"
	case KStdEnc:
		return "StandardEncoding"
	case KExec:
		return v.S
	}
	return "?"
}

func procText(p []Value) string {
	var parts []string
	for _, e := range p {
		parts = append(parts, e.String())
	}
	return strings.Join(parts, " ")
}

// machine is the dictionary-building evaluator.
type machine struct {
	lex   *lexer
	stack []Value
	dicts []*Dict // dictionary stack above userdict
	user  *Dict

	fonts []fontDef

	// eexec bookkeeping
	inEexec     bool
	closedEexec bool
	wantEexec   bool
	steps       int
}

type fontDef struct {
	key  Value
	dict *Dict
}

func (m *machine) push(v Value) { m.stack = append(m.stack, v) }

func (m *machine) pop(what string) (Value, *Error) {
	if len(m.stack) == 0 {
		return Value{}, errf("stackunderflow", "%s", what)
	}
	v := m.stack[len(m.stack)-1]
	m.stack = m.stack[:len(m.stack)-1]
	return v, nil
}

func (m *machine) popKind(k Kind, what string) (Value, *Error) {
	v, err := m.pop(what)
	if err != nil {
		return v, err
	}
	if v.K != k {
		return v, errf("typecheck", "%s: operand %s", what, v)
	}
	return v, nil
}

func (m *machine) currentDict() *Dict {
	if len(m.dicts) == 0 {
		return m.user
	}
	return m.dicts[len(m.dicts)-1]
}

func (m *machine) lookup(name string) (Value, bool) {
	for i := len(m.dicts) - 1; i >= 0; i-- {
		if v, ok := m.dicts[i].M[name]; ok {
			return v, true
		}
	}
	v, ok := m.user.M[name]
	return v, ok
}

// readProc reads the body of { ... } after the opening brace.
func (m *machine) readProc() ([]Value, *Error) {
	var body []Value
	for {
		t, err := m.lex.next()
		if err != nil {
			return nil, err
		}
		switch t.kind {
		case tkEOF:
			return nil, errf("syntax:unterminated-procedure", "end of data inside { }")
		case tkProcClose:
			return body, nil
		case tkProcOpen:
			inner, err := m.readProc()
			if err != nil {
				return nil, err
			}
			body = append(body, Value{K: KProc, P: inner})
		case tkArrOpen:
			body = append(body, Value{K: KExec, S: "["})
		case tkArrClose:
			body = append(body, Value{K: KExec, S: "]"})
		case tkExecName:
			body = append(body, Value{K: KExec, S: t.s})
		default:
			body = append(body, literal(t))
		}
	}
}

func literal(t token) Value {
	switch t.kind {
	case tkInt:
		return Value{K: KInt, I: t.i, F: t.f, T: t.s}
	case tkReal:
		return Value{K: KReal, F: t.f, T: t.s}
	case tkLitName:
		return Value{K: KName, S: t.s}
	case tkString:
		return Value{K: KString, S: t.s}
	}
	panic("not a literal token")
}

// role classifies the helper procedures of a Type 1 font by their bodies.
func role(p []Value) string {
	switch procText(p) {
	case "string currentfile exch readstring pop":
		return "RD"
	case "def", "noaccess def", "readonly def":
		return "ND"
	case "put", "noaccess put", "readonly put":
		return "NP"
	}
	return ""
}

// run evaluates tokens until the end of the data or, inside the encrypted
// portion, until closefile.
func (m *machine) run() *Error {
	for {
		t, err := m.lex.next()
		if err != nil {
			return err
		}
		m.steps++
		switch t.kind {
		case tkEOF:
			return nil
		case tkInt, tkReal, tkLitName, tkString:
			m.push(literal(t))
		case tkArrOpen:
			m.push(Value{K: KMark, S: "["})
		case tkArrClose:
			i := len(m.stack) - 1
			for i >= 0 && !(m.stack[i].K == KMark && m.stack[i].S == "[") {
				i--
			}
			if i < 0 {
				return errf("unmatchedmark", "] without [ at offset %d", t.pos)
			}
			arr := &Array{E: append([]Value(nil), m.stack[i+1:]...)}
			m.stack = m.stack[:i]
			m.push(Value{K: KArray, A: arr})
		case tkProcOpen:
			body, err := m.readProc()
			if err != nil {
				return err
			}
			m.push(Value{K: KProc, P: body})
		case tkProcClose:
			return errf("syntax:unexpected-delimiter", "} at offset %d", t.pos)
		case tkExecName:
			stop, err := m.exec(t.s, t.pos)
			if err != nil {
				return err
			}
			if stop {
				return nil
			}
		}
	}
}

func (m *machine) exec(name string, pos int) (stop bool, err *Error) {
	// names defined by the font program itself (RD, ND, NP, -|, |-, |)
	if v, ok := m.lookup(name); ok {
		if v.K == KProc {
			if role(v.P) != "" {
				// the helper procedures are not bound: the operators in their
				// bodies are looked up when they run
				for _, e := range v.P {
					if e.K == KExec {
						if sv, shadowed := m.lookup(e.S); shadowed {
							return false, errf("shadowed-operator", "%s runs {%s}, but %s is defined as %s on the dictionary stack", name, procText(v.P), e.S, sv)
						}
					}
				}
			}
			switch role(v.P) {
			case "RD":
				return false, m.opRD(name)
			case "ND":
				return false, m.opDef(name)
			case "NP":
				return false, m.opPut(name)
			}
			return false, errf("unsupported:procedure", "call of /%s = {%s} at offset %d", name, procText(v.P), pos)
		}
		m.push(v)
		return false, nil
	}
	switch name {
	case "true", "false":
		m.push(Value{K: KBool, B: name == "true"})
	case "null":
		m.push(Value{})
	case "mark":
		m.push(Value{K: KMark, S: "mark"})
	case "StandardEncoding":
		m.push(Value{K: KStdEnc})
	case "currentfile":
		m.push(Value{K: KFile})
	case "dict":
		n, err := m.popKind(KInt, "dict")
		if err != nil {
			return false, err
		}
		if n.I < 0 || n.I > 65535 {
			return false, errf("rangecheck", "%d dict", n.I)
		}
		m.push(Value{K: KDict, D: newDict(int(n.I))})
	case "array":
		n, err := m.popKind(KInt, "array")
		if err != nil {
			return false, err
		}
		if n.I < 0 || n.I > 65535 {
			return false, errf("rangecheck", "%d array", n.I)
		}
		m.push(Value{K: KArray, A: &Array{E: make([]Value, n.I)}})
	case "begin":
		d, err := m.popKind(KDict, "begin")
		if err != nil {
			return false, err
		}
		m.dicts = append(m.dicts, d.D)
	case "end":
		if len(m.dicts) == 0 {
			return false, errf("dictstackunderflow", "end at offset %d", pos)
		}
		m.dicts = m.dicts[:len(m.dicts)-1]
	case "currentdict":
		m.push(Value{K: KDict, D: m.currentDict()})
	case "def":
		return false, m.opDef("def")
	case "put":
		return false, m.opPut("put")
	case "get":
		k, err := m.pop("get")
		if err != nil {
			return false, err
		}
		c, err := m.pop("get")
		if err != nil {
			return false, err
		}
		switch {
		case c.K == KDict && k.K == KName:
			v, ok := c.D.M[k.S]
			if !ok {
				return false, errf("undefined", "/%s get at offset %d", k.S, pos)
			}
			m.push(v)
		case c.K == KArray && k.K == KInt:
			if k.I < 0 || int(k.I) >= len(c.A.E) {
				return false, errf("rangecheck", "array get %d", k.I)
			}
			m.push(c.A.E[k.I])
		default:
			return false, errf("typecheck", "get on %s %s", c, k)
		}
	case "dup":
		if len(m.stack) == 0 {
			return false, errf("stackunderflow", "dup")
		}
		m.push(m.stack[len(m.stack)-1])
	case "exch":
		if len(m.stack) < 2 {
			return false, errf("stackunderflow", "exch")
		}
		n := len(m.stack)
		m.stack[n-1], m.stack[n-2] = m.stack[n-2], m.stack[n-1]
	case "pop":
		_, err := m.pop("pop")
		return false, err
	case "index":
		n, err := m.popKind(KInt, "index")
		if err != nil {
			return false, err
		}
		if n.I < 0 || int(n.I) >= len(m.stack) {
			return false, errf("stackunderflow", "%d index with %d operands", n.I, len(m.stack))
		}
		m.push(m.stack[len(m.stack)-1-int(n.I)])
	case "readonly", "executeonly", "noaccess":
		if len(m.stack) == 0 {
			return false, errf("stackunderflow", "%s", name)
		}
	case "for":
		return false, m.opFor(pos)
	case "definefont":
		d, err := m.popKind(KDict, "definefont")
		if err != nil {
			return false, err
		}
		k, err := m.pop("definefont")
		if err != nil {
			return false, err
		}
		// definefont inserts /FID (Level 1: needs room in the dictionary)
		if err := d.D.put("FID", Value{K: KNull}); err != nil {
			return false, errf("dictfull", "definefont cannot add FID: %s", err.Msg)
		}
		m.fonts = append(m.fonts, fontDef{key: k, dict: d.D})
		m.push(d)
	case "eexec":
		if _, err := m.popKind(KFile, "eexec"); err != nil {
			return false, err
		}
		if m.inEexec {
			return false, errf("unsupported:nested-eexec", "eexec inside the encrypted portion")
		}
		m.wantEexec = true
		return true, nil
	case "closefile":
		if _, err := m.popKind(KFile, "closefile"); err != nil {
			return false, err
		}
		if !m.inEexec {
			return false, errf("unsupported:closefile", "currentfile closefile in clear text at offset %d", pos)
		}
		m.closedEexec = true
		return true, nil
	case "cleartomark":
		i := len(m.stack) - 1
		for i >= 0 && m.stack[i].K != KMark {
			i--
		}
		if i < 0 {
			return false, errf("unmatchedmark", "cleartomark at offset %d", pos)
		}
		m.stack = m.stack[:i]
	default:
		return false, errf("unsupported:operator", "executable name %q at offset %d is outside the Type 1 font vocabulary", name, pos)
	}
	return false, nil
}

func (m *machine) opDef(what string) *Error {
	v, err := m.pop(what)
	if err != nil {
		return err
	}
	k, err := m.pop(what)
	if err != nil {
		return err
	}
	if k.K != KName {
		return errf("typecheck", "%s with key %s (value %s)", what, k, v)
	}
	return m.currentDict().put(k.S, v)
}

func (m *machine) opPut(what string) *Error {
	v, err := m.pop(what)
	if err != nil {
		return err
	}
	k, err := m.pop(what)
	if err != nil {
		return err
	}
	c, err := m.pop(what)
	if err != nil {
		return err
	}
	switch {
	case c.K == KDict && k.K == KName:
		return c.D.put(k.S, v)
	case c.K == KArray && k.K == KInt:
		if k.I < 0 || int(k.I) >= len(c.A.E) {
			return errf("rangecheck", "%s: index %d in array of %d", what, k.I, len(c.A.E))
		}
		c.A.E[k.I] = v
		return nil
	case c.K == KStdEnc:
		return errf("invalidaccess", "%s into StandardEncoding", what)
	}
	return errf("typecheck", "%s: %s %s %s", what, c, k, v)
}

func (m *machine) opRD(what string) *Error {
	n, err := m.popKind(KInt, what)
	if err != nil {
		return err
	}
	if n.I < 0 || n.I > 65535 {
		return errf("rangecheck", "%d %s", n.I, what)
	}
	b, err := m.lex.readRaw(int(n.I))
	if err != nil {
		return err
	}
	m.push(Value{K: KString, S: string(b)})
	return nil
}

// opFor recognises the one loop a Type 1 font program contains:
//
//	array  first 1 last {1 index exch /name put} for
func (m *machine) opFor(pos int) *Error {
	p, err := m.popKind(KProc, "for")
	if err != nil {
		return err
	}
	lim, err := m.popKind(KInt, "for")
	if err != nil {
		return err
	}
	inc, err := m.popKind(KInt, "for")
	if err != nil {
		return err
	}
	ini, err := m.popKind(KInt, "for")
	if err != nil {
		return err
	}
	body := p.P
	ok := len(body) == 5 &&
		body[0].K == KInt && body[0].I == 1 &&
		body[1].K == KExec && body[1].S == "index" &&
		body[2].K == KExec && body[2].S == "exch" &&
		body[3].K == KName &&
		body[4].K == KExec && body[4].S == "put"
	if !ok || inc.I != 1 {
		return errf("unsupported:loop", "for loop {%s} with increment %d at offset %d is not the encoding fill idiom", procText(body), inc.I, pos)
	}
	if len(m.stack) == 0 || m.stack[len(m.stack)-1].K != KArray {
		return errf("typecheck", "encoding fill loop without an array below it")
	}
	arr := m.stack[len(m.stack)-1].A
	for i := ini.I; i <= lim.I; i++ {
		if i < 0 || int(i) >= len(arr.E) {
			return errf("rangecheck", "encoding fill loop writes index %d of an array of %d", i, len(arr.E))
		}
		arr.E[i] = Value{K: KName, S: body[3].S}
	}
	return nil
}
