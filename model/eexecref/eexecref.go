// Package eexecref is the reference model of the eexec stream cipher, written
// from "Adobe Type 1 Font Format" (1990), section 7.1 "Encryption" and 7.2
// "eexec Encryption":
//
//	unsigned short r = 55665, c1 = 52845, c2 = 22719;
//	Encrypt(plain):  cipher = plain ^ (r >> 8);  r = (cipher + r) * c1 + c2;
//	Decrypt(cipher): plain = cipher ^ (r >> 8);  r = (cipher + r) * c1 + c2;
//
// and hexadecimal armouring (each cipher byte as two hex digits, white space
// allowed between digits).  It shares no code with the library.
package eexecref

// Constants of the eexec flavour of the cipher.
const (
	Key uint16 = 55665
	C1  uint16 = 52845
	C2  uint16 = 22719
)

// Cipher is the 16-bit state of the stream cipher.
type Cipher struct{ R uint16 }

// New returns a cipher in the initial eexec state.
func New() *Cipher { return &Cipher{R: Key} }

// Step returns the state that follows state r after cipher byte c.
func Step(r uint16, c byte) uint16 { return (uint16(c)+r)*C1 + C2 }

// EncryptByte encrypts one plaintext byte and advances the state.
func (c *Cipher) EncryptByte(p byte) byte {
	x := p ^ byte(c.R>>8)
	c.R = Step(c.R, x)
	return x
}

// DecryptByte decrypts one ciphertext byte and advances the state.
func (c *Cipher) DecryptByte(x byte) byte {
	p := x ^ byte(c.R>>8)
	c.R = Step(c.R, x)
	return p
}

// Encrypt appends the ciphertext of plain to dst.
func (c *Cipher) Encrypt(dst, plain []byte) []byte {
	for _, p := range plain {
		dst = append(dst, c.EncryptByte(p))
	}
	return dst
}

// Decrypt appends the plaintext of cipher to dst.
func (c *Cipher) Decrypt(dst, cipher []byte) []byte {
	for _, x := range cipher {
		dst = append(dst, c.DecryptByte(x))
	}
	return dst
}

// Skip advances the state over ciphertext bytes whose plaintext is discarded
// (the four "random" bytes at the start of an eexec section).
func (c *Cipher) Skip(cipher []byte) {
	for _, x := range cipher {
		c.R = Step(c.R, x)
	}
}

// Hex digit sets.
const (
	Lower = "0123456789abcdef"
	Upper = "0123456789ABCDEF"
)

// HexCase selects the digit case used for the i-th hex digit written.
type HexCase int

const (
	HexLower HexCase = iota
	HexUpper
	HexMixed // alternates: digit i is upper case when i%3 == 1 (so both nibbles of a byte differ over time)
)

// Digit returns the hex digit for nibble v as the i-th digit written.
func (h HexCase) Digit(v byte, i int) byte {
	switch h {
	case HexUpper:
		return Upper[v&15]
	case HexMixed:
		if i%3 == 1 {
			return Upper[v&15]
		}
		return Lower[v&15]
	}
	return Lower[v&15]
}

// Armour returns the hexadecimal form of cipher, two digits per byte, most
// significant nibble first.
func Armour(cipher []byte, h HexCase) []byte {
	out := make([]byte, 0, 2*len(cipher))
	for _, x := range cipher {
		out = append(out, h.Digit(x>>4, len(out)))
		out = append(out, h.Digit(x&15, len(out)))
	}
	return out
}

// IsHexDigit reports whether b is an ASCII hexadecimal character code.
func IsHexDigit(b byte) bool {
	return b >= '0' && b <= '9' || b >= 'a' && b <= 'f' || b >= 'A' && b <= 'F'
}

// IsEexecSpace reports whether b is one of the four white-space codes the
// Type 1 book names for eexec (blank, tab, carriage return, line feed).
func IsEexecSpace(b byte) bool {
	return b == ' ' || b == '\t' || b == '\r' || b == '\n'
}

// LegalBinaryPrefix reports whether four ciphertext bytes may start a binary
// eexec section (Type 1 book 7.2: the first byte is not white space and at
// least one of the four is not a hexadecimal digit).
func LegalBinaryPrefix(c [4]byte) bool {
	if IsEexecSpace(c[0]) {
		return false
	}
	for _, b := range c {
		if !IsHexDigit(b) {
			return true
		}
	}
	return false
}
