// Package observe runs one library reader on an io.Reader and renders
// everything observable about the result as a canonical string.
package observe

import (
	"fmt"
	"io"
	"reflect"
	"sort"
	"strings"
	"time"

	"seehuhn.de/go/postscript"
	"seehuhn.de/go/postscript/afm"
	"seehuhn.de/go/postscript/pfb"
	"seehuhn.de/go/postscript/type1"

	"verif/model/pscmp"
)

var opTable = pscmp.NewOpTable()

// Result is an observation.
type Result struct {
	Err error
	Obs string // canonical rendering of result and error
}

func errStr(err error) string {
	if err == nil {
		return "<nil>"
	}
	return err.Error()
}

// Run applies the reader for kind to r.
func Run(kind string, r io.Reader) Result {
	switch kind {
	case "ps":
		intp := postscript.NewInterpreter()
		intp.MaxOps = 200000
		err := intp.Execute(r)
		return Result{err, pscmp.Canon(opTable, intp) + " ERR " + errStr(err)}
	case "ps-checkstart":
		intp := postscript.NewInterpreter()
		intp.MaxOps = 200000
		intp.CheckStart = true
		err := intp.Execute(r)
		return Result{err, pscmp.Canon(opTable, intp) + " ERR " + errStr(err)}
	case "cmap":
		d, err := postscript.ReadCMap(r)
		return Result{err, Dump(d) + " ERR " + errStr(err)}
	case "font":
		f, err := type1.Read(r)
		return Result{err, Dump(f) + " ERR " + errStr(err)}
	case "afm":
		m, err := afm.Read(r)
		return Result{err, Dump(m) + " ERR " + errStr(err)}
	case "pfb":
		b, err := io.ReadAll(pfb.Decode(r))
		return Result{err, fmt.Sprintf("%q ERR %s", b, errStr(err))}
	}
	panic("unknown kind " + kind)
}

// Dump renders a value deterministically (maps sorted, pointers followed).
func Dump(v any) string {
	var sb strings.Builder
	dump(&sb, reflect.ValueOf(v), 0)
	return sb.String()
}

var timeType = reflect.TypeOf(time.Time{})

func dump(sb *strings.Builder, v reflect.Value, depth int) {
	if depth > 40 {
		sb.WriteString("…")
		return
	}
	if !v.IsValid() {
		sb.WriteString("nil")
		return
	}
	if v.Type() == timeType {
		t := v.Interface().(time.Time)
		_, off := t.Zone()
		fmt.Fprintf(sb, "time(%s off=%d)", t.UTC().Format(time.RFC3339Nano), off)
		return
	}
	switch v.Kind() {
	case reflect.Ptr, reflect.Interface:
		if v.IsNil() {
			sb.WriteString("nil")
			return
		}
		if v.Kind() == reflect.Ptr {
			sb.WriteByte('&')
		}
		dump(sb, v.Elem(), depth+1)
	case reflect.Struct:
		sb.WriteString(v.Type().Name())
		sb.WriteByte('{')
		for i := 0; i < v.NumField(); i++ {
			if !v.Type().Field(i).IsExported() {
				continue
			}
			sb.WriteString(v.Type().Field(i).Name)
			sb.WriteByte(':')
			dump(sb, v.Field(i), depth+1)
			sb.WriteByte(' ')
		}
		sb.WriteByte('}')
	case reflect.Map:
		if v.IsNil() {
			sb.WriteString("nilmap")
			return
		}
		keys := v.MapKeys()
		sort.Slice(keys, func(i, j int) bool { return fmt.Sprint(keys[i].Interface()) < fmt.Sprint(keys[j].Interface()) })
		sb.WriteString("map[")
		for _, k := range keys {
			fmt.Fprintf(sb, "%v=", k.Interface())
			dump(sb, v.MapIndex(k), depth+1)
			sb.WriteByte(' ')
		}
		sb.WriteByte(']')
	case reflect.Slice:
		if v.IsNil() {
			sb.WriteString("nilslice")
			return
		}
		if v.Type().Elem().Kind() == reflect.Uint8 {
			fmt.Fprintf(sb, "%q", v.Bytes())
			return
		}
		fallthrough
	case reflect.Array:
		sb.WriteByte('[')
		for i := 0; i < v.Len(); i++ {
			dump(sb, v.Index(i), depth+1)
			sb.WriteByte(' ')
		}
		sb.WriteByte(']')
	case reflect.String:
		fmt.Fprintf(sb, "%q", v.String())
	case reflect.Func:
		sb.WriteString("func")
	default:
		fmt.Fprintf(sb, "%v", v.Interface())
	}
}
