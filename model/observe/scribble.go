package observe

import "reflect"

// Scribble overwrites everything that can be reached and written through the
// given values: bytes of strings held in byte slices, slice elements (also the
// spare capacity), map values, exported struct fields, what pointers and
// interfaces lead to.  It is what a caller may legally do to a value the
// library handed over; a later call of the library must not notice.
func Scribble(vals ...any) {
	seen := map[uintptr]bool{}
	for _, x := range vals {
		scribble(reflect.ValueOf(x), seen, 0)
	}
}

func scribble(v reflect.Value, seen map[uintptr]bool, depth int) {
	if !v.IsValid() || depth > 14 {
		return
	}
	switch v.Kind() {
	case reflect.Ptr:
		if v.IsNil() || seen[v.Pointer()] {
			return
		}
		seen[v.Pointer()] = true
		scribble(v.Elem(), seen, depth+1)
	case reflect.Interface:
		if !v.IsNil() {
			scribble(v.Elem(), seen, depth+1)
		}
	case reflect.Struct:
		for i := 0; i < v.NumField(); i++ {
			if v.Type().Field(i).IsExported() {
				scribble(v.Field(i), seen, depth+1)
			}
		}
	case reflect.Slice:
		if v.IsNil() || v.Cap() == 0 {
			return
		}
		full := v.Slice(0, v.Cap())
		if seen[full.Pointer()] {
			return
		}
		seen[full.Pointer()] = true
		for i := 0; i < full.Len(); i++ {
			scribble(full.Index(i), seen, depth+1)
		}
	case reflect.Array:
		for i := 0; i < v.Len(); i++ {
			scribble(v.Index(i), seen, depth+1)
		}
	case reflect.Map:
		if v.IsNil() || seen[v.Pointer()] {
			return
		}
		seen[v.Pointer()] = true
		it := v.MapRange()
		var keys []reflect.Value
		for it.Next() {
			keys = append(keys, it.Key())
			scribble(it.Value(), seen, depth+1)
		}
		zero := reflect.Zero(v.Type().Elem())
		for _, k := range keys {
			func() {
				defer func() { recover() }()
				v.SetMapIndex(k, zero)
			}()
		}
	default:
		if !v.CanSet() {
			return
		}
		switch v.Kind() {
		case reflect.String:
			v.SetString("scribbled")
		case reflect.Bool:
			v.SetBool(!v.Bool())
		case reflect.Int, reflect.Int8, reflect.Int16, reflect.Int32, reflect.Int64:
			v.SetInt(v.Int() ^ 0x55)
		case reflect.Uint, reflect.Uint8, reflect.Uint16, reflect.Uint32, reflect.Uint64:
			v.SetUint(v.Uint() ^ 0x55)
		case reflect.Float32, reflect.Float64:
			v.SetFloat(-99.5)
		}
	}
}
