// Package psmodel is an independent reference interpreter for the PostScript
// subset supported by seehuhn.de/go/postscript, written from the PostScript
// Language Reference Manual (3rd ed.).  It is the oracle for C02 and C03.
//
// Values carry explicit identity so that sharing and sub-interval aliasing can
// be compared with the implementation, not only contents.
//
// Places where the library documents that it does not implement the PLRM
// behaviour (and the property leaves them outside "the documented domain") are
// marked RESTRICTION in ops.go and listed in RESTRICTIONS.md; places where the
// PLRM admits more than one error name are marked AMBIGUITY.
package psmodel

import (
	"fmt"
	"math"
	"sort"
	"strconv"
	"strings"
)

type Val interface{}

type Int int64
type Real float64
type Bool bool

// Name is a name object; X reports the executable attribute.
type Name struct {
	S string
	X bool
}
type Mark struct{}
type Null struct{} // uninitialised array element
type File struct{} // currentfile
// Op is an operator object.
type Op struct{ Name string }

type ArrStore struct {
	ID int
	E  []Val
}

// Arr is an array or (X) procedure object: a window on a store.
type Arr struct {
	S        *ArrStore
	Off, Len int
	X        bool
}

func (a Arr) Get(i int) Val    { return a.S.E[a.Off+i] }
func (a Arr) Set(i int, v Val) { a.S.E[a.Off+i] = v }

type StrStore struct {
	ID int
	B  []byte
}

type Str struct {
	S        *StrStore
	Off, Len int
}

func (s Str) Bytes() []byte { return s.S.B[s.Off : s.Off+s.Len] }

type Dict struct {
	ID int
	M  map[string]Val
}

func (d *Dict) SortedKeys() []string {
	keys := make([]string, 0, len(d.M))
	for k := range d.M {
		keys = append(keys, k)
	}
	sort.Strings(keys)
	return keys
}

// Opaque stands for a library object the model does not look into.
type Opaque struct{ What string }

// PSError is a PostScript error raised by the model.
type PSError struct {
	Name string
	// Any: more than one precondition was violated (or the PLRM is ambiguous):
	// any error is acceptable.  Alt lists additional acceptable names.
	Any bool
	Alt []string
	Msg string
}

func (e *PSError) Error() string { return e.Name + ": " + e.Msg }

// Accepts reports whether the implementation's error name is acceptable.
func (e *PSError) Accepts(name string) bool {
	if e.Any || e.Name == name {
		return true
	}
	for _, a := range e.Alt {
		if a == name {
			return true
		}
	}
	return false
}

type control int

const (
	ctlExit control = iota + 1
	ctlStop
)

func (c control) Error() string {
	if c == ctlExit {
		return "exit"
	}
	return "stop"
}

// ErrUnsupported: the program left the subset the model covers (the case is
// skipped and counted, never judged).
type ErrUnsupported struct{ What string }

func (e *ErrUnsupported) Error() string { return "model: unsupported: " + e.What }

// ErrBudget: the model's own step budget was exhausted.
type ErrBudget struct{}

func (ErrBudget) Error() string { return "model: step budget exhausted" }

// Format renders a value for reports.
func Format(v Val) string {
	return format(v, 0)
}

func format(v Val, depth int) string {
	if depth > 4 {
		return "…"
	}
	switch v := v.(type) {
	case Int:
		return strconv.FormatInt(int64(v), 10)
	case Real:
		f := float64(v)
		if math.IsInf(f, 0) || math.IsNaN(f) {
			return fmt.Sprint(f)
		}
		s := strconv.FormatFloat(f, 'g', -1, 64)
		if !strings.ContainsAny(s, ".e") {
			s += ".0"
		}
		return s
	case Bool:
		return fmt.Sprint(bool(v))
	case Name:
		if v.X {
			return v.S
		}
		return "/" + v.S
	case Mark:
		return "-mark-"
	case Null:
		return "-null-"
	case File:
		return "-file-"
	case Op:
		return "--" + v.Name + "--"
	case Str:
		return fmt.Sprintf("(%s)#%d+%d", string(v.Bytes()), v.S.ID, v.Off)
	case Arr:
		var parts []string
		for i := 0; i < v.Len && i < 12; i++ {
			parts = append(parts, format(v.Get(i), depth+1))
		}
		o, c := "[", "]"
		if v.X {
			o, c = "{", "}"
		}
		return fmt.Sprintf("%s%s%s#%d+%d", o, strings.Join(parts, " "), c, v.S.ID, v.Off)
	case *Dict:
		return fmt.Sprintf("<<dict#%d n=%d>>", v.ID, len(v.M))
	case Opaque:
		return "<" + v.What + ">"
	case nil:
		return "nil"
	}
	return fmt.Sprintf("?%T", v)
}
