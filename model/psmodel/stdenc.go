package psmodel

// StandardEncoding as tabulated in PLRM appendix E.5 (149 entries; every other
// code is .notdef).  Written out independently of psenc.StandardEncoding.
var StandardEncoding = func() [256]string {
	var e [256]string
	for i := range e {
		e[i] = ".notdef"
	}
	ascii := []string{"space", "exclam", "quotedbl", "numbersign", "dollar", "percent", "ampersand", "quoteright",
		"parenleft", "parenright", "asterisk", "plus", "comma", "hyphen", "period", "slash",
		"zero", "one", "two", "three", "four", "five", "six", "seven", "eight", "nine",
		"colon", "semicolon", "less", "equal", "greater", "question", "at"}
	for i, n := range ascii {
		e[32+i] = n
	}
	for c := 'A'; c <= 'Z'; c++ {
		e[c] = string(c)
	}
	for i, n := range []string{"bracketleft", "backslash", "bracketright", "asciicircum", "underscore", "quoteleft"} {
		e[91+i] = n
	}
	for c := 'a'; c <= 'z'; c++ {
		e[c] = string(c)
	}
	for i, n := range []string{"braceleft", "bar", "braceright", "asciitilde"} {
		e[123+i] = n
	}
	hi := map[int]string{
		161: "exclamdown", 162: "cent", 163: "sterling", 164: "fraction", 165: "yen", 166: "florin", 167: "section",
		168: "currency", 169: "quotesingle", 170: "quotedblleft", 171: "guillemotleft", 172: "guilsinglleft",
		173: "guilsinglright", 174: "fi", 175: "fl", 177: "endash", 178: "dagger", 179: "daggerdbl",
		180: "periodcentered", 182: "paragraph", 183: "bullet", 184: "quotesinglbase", 185: "quotedblbase",
		186: "quotedblright", 187: "guillemotright", 188: "ellipsis", 189: "perthousand", 191: "questiondown",
		193: "grave", 194: "acute", 195: "circumflex", 196: "tilde", 197: "macron", 198: "breve", 199: "dotaccent",
		200: "dieresis", 202: "ring", 203: "cedilla", 205: "hungarumlaut", 206: "ogonek", 207: "caron", 208: "emdash",
		225: "AE", 227: "ordfeminine", 232: "Lslash", 233: "Oslash", 234: "OE", 235: "ordmasculine",
		241: "ae", 245: "dotlessi", 248: "lslash", 249: "oslash", 250: "oe", 251: "germandbls",
	}
	for c, n := range hi {
		e[c] = n
	}
	return e
}()
