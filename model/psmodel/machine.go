package psmodel

import (
	"fmt"
	"math"
	"strconv"
)

// Limits of the implementation (PLRM appendix B calls these implementation
// limits; the values are the library's documented ones).
const (
	MaxArray     = 65536
	MaxString    = 65536
	MaxDict      = 65536
	MaxDictStack = 20
	MaxOpStack   = 500
)

// M is the model machine.
type M struct {
	Stack  []Val
	DStack []*Dict

	System, User, Error, FontDir, Internal *Dict
	Resources                              map[string]*Dict

	nextID    int
	Steps     int
	MaxSteps  int
	depth     int
	loopDepth int
}

// OperatorNames lists systemdict's operators (PLRM names the library supports).
var OperatorNames = []string{
	"[", "]", "<<", ">>", "abs", "add", "and", "array", "begin", "bind", "cleartomark", "closefile",
	"copy", "count", "currentdict", "currentfile", "cvx", "def", "definefont", "defineresource", "dict",
	"dup", "exec", "eexec", "end", "eq", "exch", "executeonly", "exit", "findfont", "findresource",
	"for", "forall", "get", "getinterval", "if", "ifelse", "index", "internaldict", "known", "length",
	"load", "loop", "mark", "matrix", "maxlength", "mul", "ne", "noaccess", "not", "or", "pop", "put",
	"putinterval", "readonly", "readstring", "repeat", "roll", "stop", "string", "sub", "type", "where",
}

// ErrorNames are the entries of errordict.
var ErrorNames = []string{
	"configurationerror", "dictfull", "dictstackoverflow", "dictstackunderflow", "execstackoverflow",
	"handleerror", "interrupt", "invalidaccess", "invalidexit", "invalidfileaccess", "invalidfont",
	"invalidrestore", "ioerror", "limitcheck", "nocurrentpoint", "rangecheck", "stackoverflow",
	"stackunderflow", "syntaxerror", "timeout", "typecheck", "undefined", "undefinedfilename",
	"undefinedresource", "undefinedresult", "unmatchedmark", "unregistered", "VMerror",
}

// CIDInitNames are the entries of the CIDInit procedure set.
var CIDInitNames = []string{
	"begincmap", "endcmap", "usecmap",
	"begincodespacerange", "endcodespacerange", "begincidchar", "endcidchar", "begincidrange", "endcidrange",
	"beginbfchar", "endbfchar", "beginbfrange", "endbfrange", "beginnotdefchar", "endnotdefchar",
	"beginnotdefrange", "endnotdefrange",
}

func (m *M) NewDict() *Dict {
	m.nextID++
	return &Dict{ID: m.nextID, M: map[string]Val{}}
}

func (m *M) NewArr(n int, x bool) Arr {
	m.nextID++
	s := &ArrStore{ID: m.nextID, E: make([]Val, n)}
	for i := range s.E {
		s.E[i] = Null{}
	}
	return Arr{S: s, Off: 0, Len: n, X: x}
}

func (m *M) NewStr(b []byte) Str {
	m.nextID++
	s := &StrStore{ID: m.nextID, B: append([]byte(nil), b...)}
	return Str{S: s, Off: 0, Len: len(b)}
}

// New returns a machine in the state of a fresh interpreter.
func New() *M {
	m := &M{MaxSteps: 20000}
	m.System = m.NewDict()
	m.User = m.NewDict()
	m.Error = m.NewDict()
	m.FontDir = m.NewDict()
	m.Internal = m.NewDict()
	for _, n := range OperatorNames {
		m.System.M[n] = Op{n}
	}
	m.System.M["true"] = Bool(true)
	m.System.M["false"] = Bool(false)
	m.System.M["systemdict"] = m.System
	m.System.M["userdict"] = m.User
	m.System.M["errordict"] = m.Error
	m.System.M["FontDirectory"] = m.FontDir
	enc := m.NewArr(256, false)
	for i := 0; i < 256; i++ {
		enc.Set(i, Name{S: StandardEncoding[i]})
	}
	m.System.M["StandardEncoding"] = enc
	for _, n := range ErrorNames {
		m.Error.M[n] = Op{"errorhandler:" + n}
	}
	cidinit := m.NewDict()
	for _, n := range CIDInitNames {
		cidinit.M[n] = Op{"cidinit:" + n}
	}
	procset := m.NewDict()
	procset.M["CIDInit"] = cidinit
	m.Resources = map[string]*Dict{
		"Font":    m.FontDir,
		"CIDFont": m.NewDict(),
		"CMap":    m.NewDict(),
		"ProcSet": procset,
	}
	m.DStack = []*Dict{m.System, m.User}
	return m
}

func perr(name, format string, a ...any) *PSError {
	return &PSError{Name: name, Msg: fmt.Sprintf(format, a...)}
}

// ---------------------------------------------------------------------------
// A scanner for the syntax the generators emit (integers, reals, names,
// literal strings without escapes other than \( \) \\, procedures, and the
// self-delimiting tokens [ ] << >>).

type parser struct {
	m   *M
	src string
	pos int
}

func isDelim(c byte) bool {
	switch c {
	case '(', ')', '<', '>', '[', ']', '{', '}', '/', '%':
		return true
	}
	return c <= 32
}

// Parse turns program text into a token list (procedures nested).
func (m *M) Parse(src string) ([]Val, error) {
	p := &parser{m: m, src: src}
	toks, err := p.seq(false)
	if err != nil {
		return nil, err
	}
	return toks, nil
}

func (p *parser) seq(inProc bool) ([]Val, error) {
	var out []Val
	for {
		for p.pos < len(p.src) && p.src[p.pos] <= 32 {
			p.pos++
		}
		if p.pos >= len(p.src) {
			if inProc {
				return nil, &ErrUnsupported{"unterminated procedure"}
			}
			return out, nil
		}
		c := p.src[p.pos]
		switch {
		case c == '%':
			for p.pos < len(p.src) && p.src[p.pos] != '\n' && p.src[p.pos] != '\r' {
				p.pos++
			}
		case c == '{':
			p.pos++
			body, err := p.seq(true)
			if err != nil {
				return nil, err
			}
			a := p.m.NewArr(len(body), true)
			copy(a.S.E, body)
			out = append(out, a)
		case c == '}':
			p.pos++
			if !inProc {
				return nil, &ErrUnsupported{"unmatched }"}
			}
			return out, nil
		case c == '[' || c == ']':
			p.pos++
			out = append(out, Name{S: string(c), X: true})
		case c == '<' && p.pos+1 < len(p.src) && p.src[p.pos+1] == '<':
			p.pos += 2
			out = append(out, Name{S: "<<", X: true})
		case c == '>' && p.pos+1 < len(p.src) && p.src[p.pos+1] == '>':
			p.pos += 2
			out = append(out, Name{S: ">>", X: true})
		case c == '(':
			p.pos++
			level := 1
			var b []byte
		strLoop:
			for {
				if p.pos >= len(p.src) {
					return nil, &ErrUnsupported{"unterminated string"}
				}
				ch := p.src[p.pos]
				p.pos++
				switch ch {
				case '(':
					level++
					b = append(b, ch)
				case ')':
					level--
					if level == 0 {
						break strLoop
					}
					b = append(b, ch)
				case '\\':
					if p.pos >= len(p.src) {
						return nil, &ErrUnsupported{"bad escape"}
					}
					b = append(b, p.src[p.pos])
					p.pos++
				default:
					b = append(b, ch)
				}
			}
			out = append(out, p.m.NewStr(b))
		case c == '/':
			p.pos++
			start := p.pos
			for p.pos < len(p.src) && !isDelim(p.src[p.pos]) {
				p.pos++
			}
			out = append(out, Name{S: p.src[start:p.pos]})
		case c == '<' || c == '>' || c == ')':
			return nil, &ErrUnsupported{"syntax not generated: " + string(c)}
		default:
			start := p.pos
			for p.pos < len(p.src) && !isDelim(p.src[p.pos]) {
				p.pos++
			}
			word := p.src[start:p.pos]
			out = append(out, parseWord(word))
		}
	}
}

func parseWord(w string) Val {
	if i, err := strconv.ParseInt(w, 10, 64); err == nil {
		return Int(i)
	}
	// only plain decimal reals are generated
	digits := false
	ok := true
	for i, c := range w {
		switch {
		case c >= '0' && c <= '9':
			digits = true
		case c == '.' || c == 'e' || c == 'E':
		case (c == '-' || c == '+') && (i == 0 || w[i-1] == 'e' || w[i-1] == 'E'):
		default:
			ok = false
		}
	}
	if ok && digits {
		if f, err := strconv.ParseFloat(w, 64); err == nil && !math.IsInf(f, 0) {
			return Real(f)
		}
	}
	return Name{S: w, X: true}
}

// ---------------------------------------------------------------------------

// Run executes program text the way Interpreter.Execute does: token by token.
// It returns nil, a *PSError, *ErrUnsupported or ErrBudget.
func (m *M) Run(src string) error {
	toks, err := m.Parse(src)
	if err != nil {
		return err
	}
	for _, t := range toks {
		err := m.execTop(t)
		if err != nil {
			if c, ok := err.(control); ok {
				if c == ctlStop {
					return nil // stop ends the program without error
				}
				return perr("invalidexit", "exit outside loop")
			}
			return err
		}
	}
	return nil
}

// execTop executes one object met directly in the program text or in a
// procedure body: procedures are pushed, everything else is executed.
func (m *M) execTop(v Val) error {
	if a, ok := v.(Arr); ok && a.X {
		if err := m.tick(); err != nil {
			return err
		}
		return m.push(v)
	}
	return m.exec(v)
}

func (m *M) tick() error {
	m.Steps++
	if m.Steps > m.MaxSteps {
		return ErrBudget{}
	}
	return nil
}

func (m *M) push(v Val) error {
	if len(m.Stack) >= MaxOpStack-5 {
		return &ErrUnsupported{"operand stack near the implementation limit"}
	}
	m.Stack = append(m.Stack, v)
	return nil
}

// exec executes an object (PLRM 3.5.5): executable names are looked up and
// their value executed, operators run, procedures are invoked, everything else
// is pushed.
func (m *M) exec(v Val) error {
	if err := m.tick(); err != nil {
		return err
	}
	switch v := v.(type) {
	case Name:
		if !v.X {
			return m.push(v)
		}
		val, ok := m.lookup(v.S)
		if !ok {
			return perr("undefined", "%s", v.S)
		}
		return m.exec(val)
	case Op:
		return m.runOp(v.Name)
	case Arr:
		if !v.X {
			return m.push(v)
		}
		return m.invoke(v)
	default:
		return m.push(v)
	}
}

// invoke runs a procedure body.
func (m *M) invoke(p Arr) error {
	if m.depth > 80 {
		return &ErrUnsupported{"execution nesting near the implementation limit"}
	}
	m.depth++
	defer func() { m.depth-- }()
	for i := 0; i < p.Len; i++ {
		if err := m.execTop(p.Get(i)); err != nil {
			return err
		}
	}
	return nil
}

// call executes an operand that an operator was given as "proc".
func (m *M) call(p Val) error {
	if a, ok := p.(Arr); ok && a.X {
		if err := m.tick(); err != nil {
			return err
		}
		return m.invoke(a)
	}
	return m.exec(p)
}

func (m *M) lookup(name string) (Val, bool) {
	for i := len(m.DStack) - 1; i >= 0; i-- {
		if v, ok := m.DStack[i].M[name]; ok {
			return v, true
		}
	}
	return nil, false
}
