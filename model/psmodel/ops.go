package psmodel

import (
	"math"
	"math/big"
)

// IntAtLeast is what maxlength returns: the PLRM only prescribes a capacity
// that is not smaller than the current length.
type IntAtLeast struct{ N int }

func isNum(v Val) bool {
	switch v.(type) {
	case Int, Real:
		return true
	}
	return false
}

func isProc(v Val) bool {
	a, ok := v.(Arr)
	return ok && a.X
}

func isPlainArr(v Val) bool {
	a, ok := v.(Arr)
	return ok && !a.X
}

func classOK(c byte, v Val) bool {
	switch c {
	case '*':
		return true
	case 'n':
		return isNum(v)
	case 'i':
		_, ok := v.(Int)
		return ok
	case 'b':
		_, ok := v.(Bool)
		return ok
	case 'N':
		_, ok := v.(Name)
		return ok
	case 'd':
		_, ok := v.(*Dict)
		return ok
	case 'a':
		return isPlainArr(v)
	case 'p':
		return isProc(v)
	case 's':
		_, ok := v.(Str)
		return ok
	case 'f':
		_, ok := v.(File)
		return ok
	}
	panic("bad class")
}

// need checks the operand count and types for a signature written bottom to
// top (last byte = top of stack).  It implements the rule "exactly one violated
// precondition determines the error name": a short stack whose present operands
// are well typed gives stackunderflow, a wrongly typed operand gives typecheck,
// a short stack with a wrongly typed present operand may give either.
func (m *M) need(sig string) *PSError {
	n := len(sig)
	bad := 0
	negInt := false
	for i := 0; i < n && i < len(m.Stack); i++ {
		v := m.Stack[len(m.Stack)-1-i]
		if !classOK(sig[n-1-i], v) {
			bad++
		} else if x, ok := v.(Int); ok && sig[n-1-i] == 'i' && x < 0 {
			negInt = true
		}
	}
	var e *PSError
	if len(m.Stack) < n {
		e = perr("stackunderflow", "need %d operands", n)
		if bad > 0 {
			e.Alt = append(e.Alt, "typecheck")
		}
	} else if bad > 0 {
		e = perr("typecheck", "operand types")
	}
	if e != nil && negInt && (bad > 0) {
		// a second precondition (a negative count/size) is violated as well
		e.Alt = append(e.Alt, "rangecheck")
	}
	return e
}

// several returns an error for a set of violated preconditions: the name is
// prescribed only when exactly one name is involved.
func several(names ...string) *PSError {
	var uniq []string
	for _, n := range names {
		dup := false
		for _, u := range uniq {
			if u == n {
				dup = true
			}
		}
		if !dup && n != "" {
			uniq = append(uniq, n)
		}
	}
	if len(uniq) == 0 {
		return nil
	}
	return &PSError{Name: uniq[0], Alt: uniq[1:], Msg: "violated preconditions"}
}

func negInt(v Val) bool {
	i, ok := v.(Int)
	return ok && i < 0
}

func (m *M) top(i int) Val { return m.Stack[len(m.Stack)-1-i] }
func (m *M) drop(n int)    { m.Stack = m.Stack[:len(m.Stack)-n] }

func toF(v Val) float64 {
	switch v := v.(type) {
	case Int:
		return float64(v)
	case Real:
		return float64(v)
	}
	panic("not a number")
}

func (m *M) pushReal(f float64) error {
	if math.IsInf(f, 0) || math.IsNaN(f) {
		return &ErrUnsupported{"real result overflows (PLRM: undefinedresult)"}
	}
	return m.push(Real(f))
}

func (m *M) arith(op string) error {
	if e := m.need("nn"); e != nil {
		return e
	}
	a, b := m.top(1), m.top(0)
	m.drop(2)
	ai, aInt := a.(Int)
	bi, bInt := b.(Int)
	if aInt && bInt {
		x, y := big.NewInt(int64(ai)), big.NewInt(int64(bi))
		r := new(big.Int)
		switch op {
		case "add":
			r.Add(x, y)
		case "sub":
			r.Sub(x, y)
		case "mul":
			r.Mul(x, y)
		}
		if r.IsInt64() {
			return m.push(Int(r.Int64()))
		}
		// integer overflow: the result is converted to a real
		fa, fb := float64(ai), float64(bi)
		switch op {
		case "add":
			return m.pushReal(fa + fb)
		case "sub":
			return m.pushReal(fa - fb)
		default:
			return m.pushReal(fa * fb)
		}
	}
	fa, fb := toF(a), toF(b)
	switch op {
	case "add":
		return m.pushReal(fa + fb)
	case "sub":
		return m.pushReal(fa - fb)
	default:
		return m.pushReal(fa * fb)
	}
}

// eqVals implements eq for the operand types the library supports.
func eqVals(a, b Val) (bool, *PSError) {
	da, aDict := a.(*Dict)
	db, bDict := b.(*Dict)
	if aDict && bDict {
		return da == db, nil
	}
	// RESTRICTION: eq/ne are implemented for numbers, strings, names and
	// pairs of dictionaries only; everything else is a typecheck.
	simple := func(v Val) bool {
		switch v := v.(type) {
		case Int, Real, Str:
			return true
		case Name:
			return !v.X // RESTRICTION: literal names only
		}
		return false
	}
	if !simple(a) || !simple(b) {
		return false, perr("typecheck", "RESTRICTION: eq on this type")
	}
	if isNum(a) && isNum(b) {
		ai, aInt := a.(Int)
		bi, bInt := b.(Int)
		if aInt && bInt {
			return ai == bi, nil
		}
		return toF(a) == toF(b), nil
	}
	text := func(v Val) (string, bool) {
		switch v := v.(type) {
		case Str:
			return string(v.Bytes()), true
		case Name:
			return v.S, true
		}
		return "", false
	}
	sa, oka := text(a)
	sb, okb := text(b)
	if oka && okb {
		return sa == sb, nil
	}
	return false, nil
}

func keyOf(v Val) (string, bool) {
	// RESTRICTION: dictionary keys must be literal names (an executable name
	// object taken out of a procedure is a different type in the library).
	n, ok := v.(Name)
	return n.S, ok && !n.X
}

func (m *M) bind(p Arr, seen map[*ArrStore]bool) {
	if seen[p.S] {
		return
	}
	seen[p.S] = true
	for i := 0; i < p.Len; i++ {
		switch e := p.Get(i).(type) {
		case Name:
			if e.X {
				if v, ok := m.lookup(e.S); ok {
					if op, ok := v.(Op); ok {
						p.Set(i, op)
					}
				}
			}
		case Arr:
			if e.X {
				m.bind(e, seen)
			}
		}
	}
}

func (m *M) findMark() int {
	for i := len(m.Stack) - 1; i >= 0; i-- {
		if _, ok := m.Stack[i].(Mark); ok {
			return i
		}
	}
	return -1
}

// loopBody runs proc once inside a loop; done=true when the loop must end.
func (m *M) loopBody(proc Val) (done bool, err error) {
	err = m.call(proc)
	if c, ok := err.(control); ok && c == ctlExit {
		return true, nil
	}
	return false, err
}

func (m *M) runOp(name string) error {
	switch name {
	case "[", "mark", "<<":
		return m.push(Mark{})
	case "]":
		i := m.findMark()
		if i < 0 {
			return perr("unmatchedmark", "]")
		}
		n := len(m.Stack) - i - 1
		a := m.NewArr(n, false)
		copy(a.S.E, m.Stack[i+1:])
		m.Stack = m.Stack[:i]
		return m.push(a)
	case ">>":
		i := m.findMark()
		if i < 0 {
			return perr("unmatchedmark", ">>")
		}
		n := len(m.Stack) - i - 1
		if n%2 != 0 {
			return perr("rangecheck", "odd number of operands for >>")
		}
		d := m.NewDict()
		for j := i + 1; j < len(m.Stack); j += 2 {
			k, ok := keyOf(m.Stack[j])
			if !ok {
				return perr("typecheck", "RESTRICTION: dictionary keys must be names")
			}
			d.M[k] = m.Stack[j+1]
		}
		m.Stack = m.Stack[:i]
		return m.push(d)
	case "abs":
		if e := m.need("n"); e != nil {
			return e
		}
		v := m.top(0)
		m.drop(1)
		switch v := v.(type) {
		case Int:
			if v == math.MinInt64 {
				return m.pushReal(-float64(v))
			}
			if v < 0 {
				v = -v
			}
			return m.push(v)
		case Real:
			return m.pushReal(math.Abs(float64(v)))
		}
	case "add", "sub", "mul":
		return m.arith(name)
	case "and", "or":
		if len(m.Stack) < 2 {
			if len(m.Stack) == 1 {
				switch m.top(0).(type) {
				case Int, Bool:
				default:
					return &PSError{Name: "stackunderflow", Alt: []string{"typecheck"}}
				}
			}
			return perr("stackunderflow", name)
		}
		a, b := m.top(1), m.top(0)
		switch x := a.(type) {
		case Bool:
			y, ok := b.(Bool)
			if !ok {
				return perr("typecheck", name)
			}
			m.drop(2)
			if name == "and" {
				return m.push(Bool(bool(x) && bool(y)))
			}
			return m.push(Bool(bool(x) || bool(y)))
		case Int:
			y, ok := b.(Int)
			if !ok {
				return perr("typecheck", name)
			}
			m.drop(2)
			if name == "and" {
				return m.push(x & y)
			}
			return m.push(x | y)
		}
		return perr("typecheck", name)
	case "not":
		if len(m.Stack) < 1 {
			return perr("stackunderflow", name)
		}
		switch x := m.top(0).(type) {
		case Bool:
			m.drop(1)
			return m.push(!x)
		case Int:
			m.drop(1)
			return m.push(^x)
		}
		return perr("typecheck", name)
	case "array", "string", "dict":
		if e := m.need("i"); e != nil {
			return e
		}
		n := int64(m.top(0).(Int))
		if n < 0 {
			return perr("rangecheck", "%s: negative size", name)
		}
		if n > 65536 {
			return perr("limitcheck", "%s: size above the implementation limit", name)
		}
		m.drop(1)
		switch name {
		case "array":
			return m.push(m.NewArr(int(n), false))
		case "string":
			return m.push(m.NewStr(make([]byte, n)))
		default:
			return m.push(m.NewDict())
		}
	case "begin":
		if e := m.need("d"); e != nil {
			if len(m.DStack) >= MaxDictStack {
				e.Any = true
			}
			return e
		}
		if len(m.DStack) >= MaxDictStack {
			return perr("dictstackoverflow", "begin")
		}
		d := m.top(0).(*Dict)
		m.drop(1)
		m.DStack = append(m.DStack, d)
		return nil
	case "end":
		if len(m.DStack) <= 2 {
			return perr("dictstackunderflow", "end")
		}
		m.DStack = m.DStack[:len(m.DStack)-1]
		return nil
	case "bind":
		if e := m.need("p"); e != nil {
			return e
		}
		m.bind(m.top(0).(Arr), map[*ArrStore]bool{})
		return nil
	case "cleartomark":
		i := m.findMark()
		if i < 0 {
			return perr("unmatchedmark", "cleartomark")
		}
		m.Stack = m.Stack[:i]
		return nil
	case "copy":
		return m.opCopy()
	case "count":
		return m.push(Int(len(m.Stack)))
	case "currentdict":
		return m.push(m.DStack[len(m.DStack)-1])
	case "currentfile":
		return m.push(File{})
	case "cvx":
		if e := m.need("*"); e != nil {
			return e
		}
		if a, ok := m.top(0).(Arr); ok && !a.X {
			// RESTRICTION ("nearly not implemented"): cvx on an array yields a
			// procedure holding a copy of the elements; other types unchanged.
			b := m.NewArr(a.Len, true)
			for i := 0; i < a.Len; i++ {
				b.Set(i, a.Get(i))
			}
			m.Stack[len(m.Stack)-1] = b
		}
		return nil
	case "def":
		if len(m.Stack) < 2 {
			return perr("stackunderflow", "def")
		}
		k, ok := keyOf(m.top(1))
		if !ok {
			return perr("typecheck", "RESTRICTION: def needs a name key")
		}
		m.DStack[len(m.DStack)-1].M[k] = m.top(0)
		m.drop(2)
		return nil
	case "definefont":
		// RESTRICTION: any dictionary is accepted as a font, the key must be a name.
		if e := m.need("Nd"); e != nil {
			return e
		}
		if m.top(1).(Name).X {
			return perr("typecheck", "RESTRICTION: literal name required")
		}
		k := m.top(1).(Name).S
		f := m.top(0).(*Dict)
		m.FontDir.M[k] = f
		m.drop(2)
		return m.push(f)
	case "findfont":
		if e := m.need("N"); e != nil {
			return e
		}
		if m.top(0).(Name).X {
			return perr("typecheck", "RESTRICTION: literal name required")
		}
		k := m.top(0).(Name).S
		f, ok := m.FontDir.M[k]
		if !ok {
			return perr("invalidfont", "font %s not found", k)
		}
		m.drop(1)
		return m.push(f)
	case "defineresource":
		if len(m.Stack) < 3 {
			return perr("stackunderflow", name)
		}
		key, ok1 := m.top(2).(Name)
		inst := m.top(1)
		cat, ok2 := m.top(0).(Name)
		ok1 = ok1 && !key.X // RESTRICTION: literal names only
		ok2 = ok2 && !cat.X
		if !ok1 || !ok2 {
			if ok2 {
				if _, known := m.Resources[cat.S]; !known {
					return several("typecheck", "undefined")
				}
			}
			return perr("typecheck", "RESTRICTION: defineresource needs name key and category")
		}
		cd, ok := m.Resources[cat.S]
		if !ok {
			return perr("undefined", "resource category %s", cat.S)
		}
		if cat.S == "CMap" {
			d, ok := inst.(*Dict)
			if !ok {
				return perr("typecheck", "CMap instance must be a dictionary")
			}
			if _, ok := d.M["CodeMap"].(Opaque); !ok {
				return perr("typecheck", "not a CMap")
			}
		}
		cd.M[key.S] = inst
		m.drop(3)
		return m.push(inst)
	case "findresource":
		if len(m.Stack) < 2 {
			return perr("stackunderflow", name)
		}
		cat, ok := m.top(0).(Name)
		if !ok || cat.X {
			return perr("typecheck", "findresource category")
		}
		cd, ok := m.Resources[cat.S]
		if !ok {
			switch kv := m.top(1).(type) {
			case Str:
			case Name:
				if kv.X {
					return several("undefined", "typecheck", "undefinedresource")
				}
			default:
				return several("undefined", "typecheck", "undefinedresource")
			}
			return perr("undefined", "resource category %s", cat.S)
		}
		var k string
		switch kv := m.top(1).(type) {
		case Name:
			if kv.X {
				return &PSError{Name: "typecheck", Alt: []string{"undefinedresource"}}
			}
			k = kv.S
		case Str:
			k = string(kv.Bytes())
		default:
			// AMBIGUITY: PLRM typecheck; the library reports undefinedresource
			return &PSError{Name: "typecheck", Alt: []string{"undefinedresource"}}
		}
		v, ok := cd.M[k]
		if !ok {
			return perr("undefinedresource", "%s", k)
		}
		m.drop(2)
		return m.push(v)
	case "dup":
		if e := m.need("*"); e != nil {
			return e
		}
		return m.push(m.top(0))
	case "exch":
		if e := m.need("**"); e != nil {
			return e
		}
		n := len(m.Stack)
		m.Stack[n-1], m.Stack[n-2] = m.Stack[n-2], m.Stack[n-1]
		return nil
	case "pop":
		if e := m.need("*"); e != nil {
			return e
		}
		m.drop(1)
		return nil
	case "exec":
		if e := m.need("*"); e != nil {
			return e
		}
		v := m.top(0)
		switch v := v.(type) {
		case Op:
			m.drop(1)
			return m.runOp(v.Name)
		case Arr:
			if v.X {
				m.drop(1)
				return m.call(v)
			}
		}
		return perr("typecheck", "RESTRICTION: exec is implemented for operators and procedures only")
	case "eq", "ne":
		if e := m.need("**"); e != nil {
			return e
		}
		r, e := eqVals(m.top(1), m.top(0))
		if e != nil {
			return e
		}
		m.drop(2)
		if name == "ne" {
			r = !r
		}
		return m.push(Bool(r))
	case "executeonly", "noaccess", "readonly":
		// RESTRICTION: access attributes are not implemented (no-ops).
		return nil
	case "exit":
		return ctlExit
	case "stop":
		return ctlStop
	case "for":
		// RESTRICTION: integer control values only.
		if e := m.need("iiip"); e != nil {
			return e
		}
		init, inc, lim := int64(m.top(3).(Int)), int64(m.top(2).(Int)), int64(m.top(1).(Int))
		proc := m.top(0)
		m.drop(4)
		for v := init; ; {
			if inc > 0 && v > lim || inc < 0 && v < lim {
				return nil
			}
			if err := m.push(Int(v)); err != nil {
				return err
			}
			done, err := m.loopBody(proc)
			if err != nil || done {
				return err
			}
			nv := v + inc
			if (inc > 0 && nv < v) || (inc < 0 && nv > v) {
				// the next value lies beyond the integer range, hence beyond the limit
				return nil
			}
			v = nv
		}
	case "forall":
		if len(m.Stack) < 2 {
			return perr("stackunderflow", name)
		}
		proc := m.top(0)
		if !isProc(proc) {
			return perr("typecheck", "forall proc")
		}
		switch obj := m.top(1).(type) {
		case Arr:
			if obj.X {
				return perr("typecheck", "RESTRICTION: forall over a procedure")
			}
			m.drop(2)
			for i := 0; i < obj.Len; i++ {
				if err := m.push(obj.Get(i)); err != nil {
					return err
				}
				done, err := m.loopBody(proc)
				if err != nil || done {
					return err
				}
			}
			return nil
		case Str:
			m.drop(2)
			for i := 0; i < obj.Len; i++ {
				if err := m.push(Int(obj.S.B[obj.Off+i])); err != nil {
					return err
				}
				done, err := m.loopBody(proc)
				if err != nil || done {
					return err
				}
			}
			return nil
		case *Dict:
			m.drop(2)
			if len(obj.M) > 1 {
				return &ErrUnsupported{"forall over a dictionary with more than one entry (order unspecified)"}
			}
			for _, k := range obj.SortedKeys() {
				if err := m.push(Name{S: k}); err != nil {
					return err
				}
				if err := m.push(obj.M[k]); err != nil {
					return err
				}
				done, err := m.loopBody(proc)
				if err != nil || done {
					return err
				}
			}
			return nil
		}
		return perr("typecheck", "forall")
	case "get":
		return m.opGet()
	case "put":
		return m.opPut()
	case "getinterval":
		return m.opGetinterval()
	case "putinterval":
		return m.opPutinterval()
	case "if":
		if e := m.need("bp"); e != nil {
			return e
		}
		c, p := m.top(1).(Bool), m.top(0)
		m.drop(2)
		if c {
			return m.call(p)
		}
		return nil
	case "ifelse":
		if e := m.need("bpp"); e != nil {
			return e
		}
		c, p1, p2 := m.top(2).(Bool), m.top(1), m.top(0)
		m.drop(3)
		if c {
			return m.call(p1)
		}
		return m.call(p2)
	case "index":
		if len(m.Stack) < 1 {
			return perr("stackunderflow", name)
		}
		n, ok := m.top(0).(Int)
		if !ok {
			return perr("typecheck", name)
		}
		if n < 0 {
			return perr("rangecheck", name)
		}
		if int64(n) >= int64(len(m.Stack)-1) {
			// AMBIGUITY: too few operands below the index
			return &PSError{Name: "rangecheck", Alt: []string{"stackunderflow"}}
		}
		m.drop(1)
		return m.push(m.top(int(n)))
	case "internaldict":
		if e := m.need("i"); e != nil {
			return e
		}
		if m.top(0).(Int) != 1183615869 {
			return perr("invalidaccess", name)
		}
		m.drop(1)
		return m.push(m.Internal)
	case "known":
		if len(m.Stack) < 2 {
			return perr("stackunderflow", name)
		}
		d, ok := m.top(1).(*Dict)
		if !ok {
			return perr("typecheck", name)
		}
		k, ok := keyOf(m.top(0))
		if !ok {
			return perr("typecheck", "RESTRICTION: key must be a name")
		}
		m.drop(2)
		_, found := d.M[k]
		return m.push(Bool(found))
	case "length":
		if e := m.need("*"); e != nil {
			return e
		}
		var n int
		switch v := m.top(0).(type) {
		case Arr:
			n = v.Len
		case Str:
			n = v.Len
		case *Dict:
			n = len(v.M)
		case Name:
			n = len(v.S)
		default:
			return perr("typecheck", name)
		}
		m.drop(1)
		return m.push(Int(n))
	case "load":
		if len(m.Stack) < 1 {
			return perr("stackunderflow", name)
		}
		k, ok := keyOf(m.top(0))
		if !ok {
			return perr("typecheck", "RESTRICTION: key must be a name")
		}
		v, found := m.lookup(k)
		if !found {
			return perr("undefined", "%s", k)
		}
		m.drop(1)
		return m.push(v)
	case "where":
		if len(m.Stack) < 1 {
			return perr("stackunderflow", name)
		}
		k, ok := keyOf(m.top(0))
		if !ok {
			return perr("typecheck", "RESTRICTION: key must be a name")
		}
		m.drop(1)
		for i := len(m.DStack) - 1; i >= 0; i-- {
			if _, ok := m.DStack[i].M[k]; ok {
				if err := m.push(m.DStack[i]); err != nil {
					return err
				}
				return m.push(Bool(true))
			}
		}
		return m.push(Bool(false))
	case "loop":
		if e := m.need("p"); e != nil {
			return e
		}
		proc := m.top(0)
		m.drop(1)
		for {
			done, err := m.loopBody(proc)
			if err != nil || done {
				return err
			}
		}
	case "repeat":
		if e := m.need("ip"); e != nil {
			return e
		}
		n := m.top(1).(Int)
		if n < 0 {
			return perr("rangecheck", name)
		}
		proc := m.top(0)
		m.drop(2)
		for i := Int(0); i < n; i++ {
			done, err := m.loopBody(proc)
			if err != nil || done {
				return err
			}
		}
		return nil
	case "matrix":
		a := m.NewArr(6, false)
		for i, v := range []float64{1, 0, 0, 1, 0, 0} {
			a.Set(i, Real(v))
		}
		return m.push(a)
	case "maxlength":
		if e := m.need("d"); e != nil {
			return e
		}
		d := m.top(0).(*Dict)
		m.drop(1)
		return m.push(IntAtLeast{len(d.M)})
	case "roll":
		if len(m.Stack) < 2 {
			return perr("stackunderflow", name)
		}
		n, ok1 := m.top(1).(Int)
		j, ok2 := m.top(0).(Int)
		if !ok1 || !ok2 {
			if negInt(m.top(1)) || (ok1 && int64(n) > int64(len(m.Stack)-2)) {
				return several("typecheck", "rangecheck", "stackunderflow")
			}
			return perr("typecheck", name)
		}
		if n < 0 {
			return perr("rangecheck", name)
		}
		if int64(n) > int64(len(m.Stack)-2) {
			// AMBIGUITY
			return &PSError{Name: "stackunderflow", Alt: []string{"rangecheck"}}
		}
		m.drop(2)
		if n == 0 {
			return nil
		}
		k := int(((int64(j) % int64(n)) + int64(n)) % int64(n))
		seg := m.Stack[len(m.Stack)-int(n):]
		out := make([]Val, len(seg))
		for i := range seg {
			out[(i+k)%len(seg)] = seg[i]
		}
		copy(seg, out)
		return nil
	case "type":
		if e := m.need("*"); e != nil {
			return e
		}
		var t string
		switch v := m.top(0).(type) {
		case Arr:
			t = "arraytype"
		case Bool:
			t = "booleantype"
		case *Dict:
			t = "dicttype"
		case File:
			t = "filetype"
		case Int:
			t = "integertype"
		case Mark:
			t = "marktype"
		case Name:
			t = "nametype"
		case Op:
			t = "operatortype"
		case Real:
			t = "realtype"
		case Str:
			t = "stringtype"
		default:
			_ = v
			return &ErrUnsupported{"type of null"}
		}
		// The attribute of the returned name is not compared (PLRM: executable).
		m.drop(1) // PLRM: any type -> name
		return m.push(Name{S: t})
	case "closefile", "readstring", "eexec":
		return &ErrUnsupported{name + " (file operators are checked by C05)"}
	}
	return &ErrUnsupported{"operator " + name}
}

func (m *M) opCopy() error {
	if len(m.Stack) < 1 {
		return perr("stackunderflow", "copy")
	}
	if n, ok := m.top(0).(Int); ok {
		if n < 0 {
			return perr("rangecheck", "copy")
		}
		if int64(n) > int64(len(m.Stack)-1) {
			// AMBIGUITY
			return &PSError{Name: "stackunderflow", Alt: []string{"rangecheck"}}
		}
		m.drop(1)
		if len(m.Stack)+int(n) > MaxOpStack-5 {
			return &ErrUnsupported{"operand stack near the implementation limit"}
		}
		m.Stack = append(m.Stack, m.Stack[len(m.Stack)-int(n):]...)
		return nil
	}
	if len(m.Stack) < 2 {
		switch v := m.top(0).(type) {
		case Arr:
			if v.X {
				return &PSError{Name: "stackunderflow", Alt: []string{"typecheck"}}
			}
		case Str, *Dict:
		default:
			return &PSError{Name: "stackunderflow", Alt: []string{"typecheck"}}
		}
		return perr("stackunderflow", "copy")
	}
	a, b := m.top(1), m.top(0)
	switch a := a.(type) {
	case Arr:
		if a.X {
			return perr("typecheck", "RESTRICTION: copy of a procedure")
		}
		b, ok := b.(Arr)
		if !ok || b.X {
			return perr("typecheck", "copy")
		}
		if b.Len < a.Len {
			return perr("rangecheck", "copy")
		}
		tmp := make([]Val, a.Len)
		for i := range tmp {
			tmp[i] = a.Get(i)
		}
		for i, v := range tmp {
			b.Set(i, v)
		}
		m.drop(2)
		return m.push(Arr{S: b.S, Off: b.Off, Len: a.Len})
	case Str:
		b, ok := b.(Str)
		if !ok {
			return perr("typecheck", "copy")
		}
		if b.Len < a.Len {
			return perr("rangecheck", "copy")
		}
		tmp := append([]byte(nil), a.Bytes()...)
		copy(b.S.B[b.Off:], tmp)
		m.drop(2)
		return m.push(Str{S: b.S, Off: b.Off, Len: a.Len})
	case *Dict:
		b, ok := b.(*Dict)
		if !ok {
			return perr("typecheck", "copy")
		}
		for k, v := range a.M {
			b.M[k] = v
		}
		m.drop(2)
		return m.push(b)
	}
	return perr("typecheck", "copy")
}

func (m *M) opGet() error {
	if len(m.Stack) < 2 {
		return perr("stackunderflow", "get")
	}
	obj, sel := m.top(1), m.top(0)
	switch obj := obj.(type) {
	case Arr:
		i, ok := sel.(Int)
		if !ok {
			return perr("typecheck", "get")
		}
		if i < 0 || int64(i) >= int64(obj.Len) {
			return perr("rangecheck", "get")
		}
		m.drop(2)
		return m.push(obj.Get(int(i)))
	case Str:
		i, ok := sel.(Int)
		if !ok {
			return perr("typecheck", "get")
		}
		if i < 0 || int64(i) >= int64(obj.Len) {
			return perr("rangecheck", "get")
		}
		m.drop(2)
		return m.push(Int(obj.S.B[obj.Off+int(i)]))
	case *Dict:
		k, ok := keyOf(sel)
		if !ok {
			return perr("typecheck", "RESTRICTION: key must be a name")
		}
		v, found := obj.M[k]
		if !found {
			return perr("undefined", "%s", k)
		}
		m.drop(2)
		return m.push(v)
	}
	if negInt(sel) {
		return several("typecheck", "rangecheck")
	}
	return perr("typecheck", "get")
}

func (m *M) opPut() error {
	if len(m.Stack) < 3 {
		return perr("stackunderflow", "put")
	}
	obj, sel, val := m.top(2), m.top(1), m.top(0)
	switch obj := obj.(type) {
	case Arr:
		i, ok := sel.(Int)
		if !ok {
			return perr("typecheck", "put")
		}
		if i < 0 || int64(i) >= int64(obj.Len) {
			return perr("rangecheck", "put")
		}
		obj.Set(int(i), val)
		m.drop(3)
		return nil
	case Str:
		i, ok1 := sel.(Int)
		c, ok2 := val.(Int)
		badIndex := ok1 && (i < 0 || int64(i) >= int64(obj.Len))
		badValue := ok2 && (c < 0 || c > 255)
		if !ok1 || !ok2 {
			if badIndex || badValue {
				return several("typecheck", "rangecheck")
			}
			return perr("typecheck", "put")
		}
		if badIndex || badValue {
			return perr("rangecheck", "put")
		}
		obj.S.B[obj.Off+int(i)] = byte(c)
		m.drop(3)
		return nil
	case *Dict:
		k, ok := keyOf(sel)
		if !ok {
			return perr("typecheck", "RESTRICTION: key must be a name")
		}
		obj.M[k] = val
		m.drop(3)
		return nil
	}
	if negInt(sel) {
		return several("typecheck", "rangecheck")
	}
	return perr("typecheck", "put")
}

func (m *M) opGetinterval() error {
	if len(m.Stack) < 3 {
		return perr("stackunderflow", "getinterval")
	}
	obj := m.top(2)
	idx, ok1 := m.top(1).(Int)
	cnt, ok2 := m.top(0).(Int)
	var n int
	objOK := true
	switch o := obj.(type) {
	case Arr:
		if o.X {
			objOK = false // RESTRICTION: getinterval of a procedure
		}
		n = o.Len
	case Str:
		n = o.Len
	default:
		objOK = false
	}
	if !objOK || !ok1 || !ok2 {
		rangeToo := negInt(m.top(1)) || negInt(m.top(0))
		if objOK && ok1 && int64(idx) > int64(n) {
			rangeToo = true
		}
		if objOK && ok2 && int64(cnt) > int64(n) {
			rangeToo = true
		}
		if rangeToo {
			return several("typecheck", "rangecheck")
		}
		return perr("typecheck", "getinterval")
	}
	if idx < 0 || int64(idx) > int64(n) || cnt < 0 || int64(cnt) > int64(n)-int64(idx) {
		return perr("rangecheck", "getinterval")
	}
	m.drop(3)
	switch o := obj.(type) {
	case Arr:
		return m.push(Arr{S: o.S, Off: o.Off + int(idx), Len: int(cnt)})
	case Str:
		return m.push(Str{S: o.S, Off: o.Off + int(idx), Len: int(cnt)})
	}
	return nil
}

func (m *M) opPutinterval() error {
	if len(m.Stack) < 3 {
		return perr("stackunderflow", "putinterval")
	}
	dst, src := m.top(2), m.top(0)
	idx, idxOK := m.top(1).(Int)
	typeBad := !idxOK
	var dlen, slen int
	switch d := dst.(type) {
	case Arr:
		s, ok := src.(Arr)
		if d.X || !ok || s.X {
			typeBad = true // RESTRICTION: procedures are not accepted
		}
		dlen, slen = d.Len, s.Len
	case Str:
		s, ok := src.(Str)
		if !ok {
			typeBad = true
		}
		dlen, slen = d.Len, s.Len
	default:
		typeBad = true
	}
	if typeBad {
		if negInt(m.top(1)) {
			return several("typecheck", "rangecheck")
		}
		return perr("typecheck", "putinterval")
	}
	if idx < 0 || int64(idx) > int64(dlen)-int64(slen) {
		return perr("rangecheck", "putinterval")
	}
	switch d := dst.(type) {
	case Arr:
		s := src.(Arr)
		tmp := make([]Val, s.Len)
		for i := range tmp {
			tmp[i] = s.Get(i)
		}
		for i, v := range tmp {
			d.Set(int(idx)+i, v)
		}
	case Str:
		s := src.(Str)
		tmp := append([]byte(nil), s.Bytes()...)
		copy(d.S.B[d.Off+int(idx):], tmp)
	}
	m.drop(3)
	return nil
}
