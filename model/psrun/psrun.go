// Package psrun runs a program on the real interpreter and on the reference
// machine and judges the outcome (shared by C02 and C03).
package psrun

import (
	"fmt"
	"strings"

	"seehuhn.de/go/postscript"

	"verif/model/pscmp"
	"verif/model/psmodel"
)

// Pair is an interpreter and a model machine stepped in lock-step.
type Pair struct {
	I   *postscript.Interpreter
	M   *psmodel.M
	Ops pscmp.OpTable
}

// ImplMaxOps bounds the implementation; ModelMaxSteps bounds the model.  The
// model counts at least one step per implementation operation, so a program the
// model finishes cannot legitimately exhaust the implementation's budget.
const (
	ImplMaxOps    = 6000
	ModelMaxSteps = 2500
)

func NewPair(ops pscmp.OpTable) *Pair {
	return NewPairBudget(ops, ImplMaxOps, ModelMaxSteps)
}

// NewPairBudget sets explicit budgets; implOps must be well above modelSteps
// (the model counts at least one step per implementation operation).
func NewPairBudget(ops pscmp.OpTable, implOps, modelSteps int) *Pair {
	p := &Pair{I: postscript.NewInterpreter(), M: psmodel.New(), Ops: ops}
	p.I.MaxOps = implOps
	p.M.MaxSteps = modelSteps
	return p
}

// Result of one lock-step run.
type Result struct {
	OK      bool
	Skipped bool   // the model does not define the case
	Outcome string // coarse class
	Class   string // failure class (for keys)
	Detail  string
	Ended   bool // an error ended the run: later steps are meaningless
}

// Step executes src on both sides and compares.
func (p *Pair) Step(src string) Result {
	p.M.Steps = 0
	p.I.NumOps = 0
	errI := p.I.ExecuteString(src)
	errM := p.M.Run(src)
	switch e := errM.(type) {
	case nil:
		if errI != nil {
			return Result{Class: "unexpected-error:" + pscmp.ErrName(errI), Ended: true,
				Detail: fmt.Sprintf("implementation failed with %q, the reference prescribes success; expected stack [%s]", errI, modelStack(p.M))}
		}
		if d := pscmp.State(p.Ops, p.I, p.M); d != "" {
			return Result{Class: "state:" + diffClass(d), Detail: d, Ended: true}
		}
		return Result{OK: true, Outcome: "ok"}
	case *psmodel.PSError:
		name := pscmp.ErrName(errI)
		if errI == nil {
			return Result{Class: "missing-error:" + e.Name, Ended: true,
				Detail: fmt.Sprintf("implementation succeeded (stack [%s]), the reference prescribes error %s (%s)", pscmp.ShowStack(p.I.Stack), e.Name, e.Msg)}
		}
		if !e.Accepts(name) {
			return Result{Class: "wrong-error:" + e.Name + "-got-" + name, Ended: true,
				Detail: fmt.Sprintf("implementation failed with %q, the reference prescribes %s %v (%s)", errI, e.Name, e.Alt, e.Msg)}
		}
		return Result{OK: true, Outcome: "error:" + e.Name, Ended: true}
	case psmodel.ErrBudget:
		return Result{OK: true, Skipped: true, Outcome: "skip:model-budget", Ended: true}
	case *psmodel.ErrUnsupported:
		return Result{OK: true, Skipped: true, Outcome: "skip:" + firstWords(e.What, 4), Ended: true}
	default:
		return Result{Class: "harness", Detail: fmt.Sprint("model returned ", errM), Ended: true}
	}
}

func modelStack(m *psmodel.M) string {
	var parts []string
	for _, v := range m.Stack {
		parts = append(parts, psmodel.Format(v))
	}
	return strings.Join(parts, " ")
}

func firstWords(s string, n int) string {
	f := strings.Fields(s)
	if len(f) > n {
		f = f[:n]
	}
	return strings.Join(f, "-")
}

// diffClass reduces a difference description to a stable class.
func diffClass(d string) string {
	switch {
	case strings.Contains(d, "operand stack depth"):
		return "stack-depth"
	case strings.Contains(d, "dictionary stack depth"):
		return "dictstack-depth"
	case strings.Contains(d, "share storage") || strings.Contains(d, "same object"):
		return "sharing"
	case strings.Contains(d, "entries, expected") || strings.Contains(d, "missing"):
		return "dict-keys"
	case strings.Contains(d, "expected real"):
		return "value-real"
	case strings.Contains(d, "expected integer"):
		return "value-integer"
	case strings.Contains(d, "expected string") || strings.Contains(d, "got string"):
		return "value-string"
	case strings.Contains(d, "length"):
		return "length"
	}
	return "value"
}
