// Package t1fonts enumerates small *type1.Font values in the writable domain
// and compares fonts with the tolerances the properties C08 / C09 state.
//
// Every family is a finite, explicitly indexed set: Family.Build(i) for
// 0 <= i < Family.N yields each member exactly once (mixed-radix decoding of
// i), so a check that visits all indices is exhaustive over the family.
package t1fonts

import (
	"fmt"
	"sort"
	"strings"
	"time"

	"seehuhn.de/go/postscript/funit"
	"seehuhn.de/go/postscript/psenc"
	"seehuhn.de/go/postscript/type1"
)

// Domain selects which fonts are generated.
type Domain int

const (
	// DomainC09: integer advance widths, well-formed contours (every contour
	// is moveto, segments, closepath).
	DomainC09 Domain = iota
	// DomainC08: additionally fractional advance widths (the writer rounds
	// them, documented) and open contours (the writer copies the commands).
	DomainC08
)

// Family is one indexed set of fonts.
type Family struct {
	Name  string
	N     int
	Build func(i int) *type1.Font
	Rule  string
}

// ---------------------------------------------------------------------------
// base font

var stdMatrix = [6]float64{0.001, 0, 0, 0.001, 0, 0}

// Base returns a fresh small font: .notdef and A, custom encoding 65 -> A.
func Base() *type1.Font {
	f := &type1.Font{
		FontInfo: &type1.FontInfo{
			FontName:           "Test",
			Version:            "1.0",
			FullName:           "Test Font",
			FamilyName:         "Test",
			Weight:             "Regular",
			UnderlinePosition:  -100,
			UnderlineThickness: 50,
			FontMatrix:         stdMatrix,
		},
		Glyphs:  map[string]*type1.Glyph{},
		Private: DefaultPrivate(),
	}
	f.Glyphs[".notdef"] = &type1.Glyph{WidthX: 500}
	f.Glyphs["A"] = &type1.Glyph{WidthX: 600, Cmds: Outline(2)}
	f.Encoding = CustomEncoding(map[int]string{65: "A"})
	return f
}

// DefaultPrivate returns the private dictionary with the Type 1 defaults.
func DefaultPrivate() *type1.PrivateDict {
	return &type1.PrivateDict{BlueScale: 0.039625, BlueShift: 7, BlueFuzz: 1}
}

// CustomEncoding returns a 256-entry encoding, .notdef except for m.
func CustomEncoding(m map[int]string) []string {
	enc := make([]string, 256)
	for i := range enc {
		enc[i] = ".notdef"
	}
	for c, n := range m {
		enc[c] = n
	}
	return enc
}

// ---------------------------------------------------------------------------
// outlines

func mv(x, y float64) type1.GlyphOp {
	return type1.GlyphOp{Op: type1.OpMoveTo, Args: []float64{x, y}}
}
func ln(x, y float64) type1.GlyphOp {
	return type1.GlyphOp{Op: type1.OpLineTo, Args: []float64{x, y}}
}
func cv(a, b, c, d, e, f float64) type1.GlyphOp {
	return type1.GlyphOp{Op: type1.OpCurveTo, Args: []float64{a, b, c, d, e, f}}
}
func cl() type1.GlyphOp { return type1.GlyphOp{Op: type1.OpClosePath} }

// NumOutlines is the size of the closed-contour outline family; the two
// outlines after it are open contours (C08 only).
const NumOutlines = 14
const NumOutlinesOpen = 16

var outlineNames = []string{
	"empty", "hline", "triangle", "rectangle", "rrcurve", "hvcurve", "vhcurve", "two-contours",
	"fractional-lines", "fractional-curve", "number-format-boundaries", "moveto-closepath",
	"mixed-40", "fine-steps-17", "open-lines", "open-curve",
}

// Outline returns a fresh command list for outline k.
func Outline(k int) []type1.GlyphOp {
	switch k {
	case 0:
		return nil
	case 1: // one horizontal line (hmoveto? no: rmoveto, hlineto)
		return []type1.GlyphOp{mv(10, 20), ln(110, 20), cl()}
	case 2: // hmoveto-free triangle: rmoveto is avoided since it starts on the axis
		return []type1.GlyphOp{mv(0, 0), ln(100, 0), ln(50, 80), cl()}
	case 3: // vlineto hlineto vlineto
		return []type1.GlyphOp{mv(10, 10), ln(10, 110), ln(60, 110), ln(60, 10), cl()}
	case 4: // rrcurveto
		return []type1.GlyphOp{mv(0, 50), cv(10, 70, 30, 90, 50, 95), ln(0, 95), cl()}
	case 5: // hvcurveto
		return []type1.GlyphOp{mv(20, 0), cv(50, 0, 70, 20, 70, 60), ln(20, 60), cl()}
	case 6: // vhcurveto
		return []type1.GlyphOp{mv(20, 0), cv(20, 30, 40, 50, 80, 50), ln(80, 0), cl()}
	case 7: // two contours
		return []type1.GlyphOp{mv(0, 0), ln(100, 0), ln(50, 80), cl(), mv(200, 10), ln(200, 110), ln(260, 110), ln(260, 10), cl()}
	case 8: // fractional coordinates on lines, including nearly vertical and nearly horizontal ones
		return []type1.GlyphOp{mv(0.5, 0.25), ln(100.1, 0.25), ln(100.4, 50.75), ln(150.9, 51.05), ln(33.333, 66.667), cl(),
			mv(33.583, 120.25), ln(90.5, 120.5), ln(33.583, 130), cl()}
	case 9: // fractional coordinates on curves.  First contour (coordinates that p/q
		// fractions represent exactly, so the encoder's position carries no residue):
		// curves that just miss the hv / vh forms; second contour: arbitrary fractions
		return []type1.GlyphOp{
			mv(100.75, 45.5),
			cv(100.75, 60, 120, 80, 140, 80.4),       // vertical start, end tangent almost horizontal
			cv(160, 80.7, 180, 100, 180, 120.5),      // almost horizontal start, vertical end
			cv(180.3, 140, 200, 160.25, 220, 160.25), // almost vertical start, horizontal end
			cv(240, 160.25, 260, 180, 260.4, 200),    // horizontal start, end tangent almost vertical
			ln(100.75, 200), cl(),
			mv(1.0/3, 1.0/7), cv(10.05, 20.005, 30.7, 40.123, 50.5, 45.25), ln(1.0/3, 45.25), cl()}
	case 10: // deltas at the boundaries of the four number formats
		return []type1.GlyphOp{mv(-1131, 108), ln(0, 0), ln(107, -107), ln(215, 1), ln(1346, -1130), ln(-70000, 70000), ln(-70000+1132, 70000-1132), cl()}
	case 11: // a contour without segments
		return []type1.GlyphOp{mv(5, 5), cl()}
	case 12:
		return PathOfLength(40, 2)
	case 13:
		return PathOfLength(17, 3)
	case 14: // open contour of lines (C08 only)
		return []type1.GlyphOp{mv(0, 0), ln(100, 0), ln(50, 80)}
	case 15: // open contour ending in a curve (C08 only)
		return []type1.GlyphOp{mv(20, 0), cv(50, 0, 70, 20, 70, 60)}
	}
	panic("no such outline")
}

// PathOfLength returns one closed contour with n segments after the moveto
// (n = 0: empty outline).  style 0: lines only (h, v, r in turn); 1: the three
// curve forms in turn; 2: lines and curves mixed, integer coordinates;
// 3: mixed, fractional coordinates advancing in steps of 0.005, thirds and
// sevenths.
func PathOfLength(n, style int) []type1.GlyphOp {
	if n == 0 {
		return nil
	}
	x, y := 10.0, 20.0
	out := []type1.GlyphOp{mv(x, y)}
	frac := []float64{0.005, 1.0 / 3, 1.0 / 7, 2.5, 0.995, 7.0 / 3}
	for i := 0; i < n; i++ {
		d := float64(5 + 3*(i%7))
		if style == 3 {
			d = frac[i%len(frac)] + float64(i%3)
		}
		if i%4 >= 2 {
			d = -d
		}
		curve := style == 1 || (style >= 2 && i%2 == 1)
		switch {
		case !curve && i%3 == 0:
			x += d
			out = append(out, ln(x, y))
		case !curve && i%3 == 1:
			y += d
			out = append(out, ln(x, y))
		case !curve:
			x += d
			y -= 2 * d
			out = append(out, ln(x, y))
		case i%3 == 0: // hv
			x1, y1 := x+d, y
			x2, y2 := x1+d/2, y1+d
			x, y = x2, y2+2*d
			out = append(out, cv(x1, y1, x2, y2, x, y))
		case i%3 == 1: // vh
			x1, y1 := x, y+d
			x2, y2 := x1+d, y1-d/2
			x, y = x2-2*d, y2
			out = append(out, cv(x1, y1, x2, y2, x, y))
		default: // rr
			x1, y1 := x+d, y-d
			x2, y2 := x1-d/2, y1+3*d
			x, y = x2+d, y2+d/4
			out = append(out, cv(x1, y1, x2, y2, x, y))
		}
	}
	out = append(out, cl())
	return out
}

// ---------------------------------------------------------------------------
// families

var stemVariants = [][2][]funit.Int16{
	{nil, nil},
	{{-10, 0, 500, 520}, nil},
	{nil, {50, 130}},
	{{0, 20}, {-32768, 32767, 100, 90}},
	{{0, 20, 340, 360, 0, 20, 680, 700}, {10, 40, 10, 40}}, // the same stem pair more than once
}

var glyphNameSets = [][]string{{"A"}, {".notdef", "A"}, {".notdef", "A", "B"}, {".notdef", "A", "B", "C"}}

func radix(i int, sizes ...int) []int {
	out := make([]int, len(sizes))
	for k, n := range sizes {
		out[k] = i % n
		i /= n
	}
	if i != 0 {
		panic("index out of range")
	}
	return out
}

func pow(b, e int) int {
	r := 1
	for ; e > 0; e-- {
		r *= b
	}
	return r
}

// shapeFamily: fonts with nGlyphs glyphs, each with one of nOut outlines, x stems x width variant.
func shapeFamily(nGlyphs int, outs []int, dom Domain) Family {
	nOut := len(outs)
	var outNames []string
	for _, o := range outs {
		outNames = append(outNames, outlineNames[o])
	}
	nW := 3
	if dom == DomainC08 {
		nW = 4
	}
	names := glyphNameSets[nGlyphs-1]
	n := pow(nOut, nGlyphs) * len(stemVariants) * nW
	return Family{
		Name: fmt.Sprintf("shapes-%d-glyphs", nGlyphs),
		N:    n,
		Rule: fmt.Sprintf("glyph names %v, each glyph one of %d outlines %v, x 5 stem variants (none, h, v, both incl. the int16 extremes and a negative width, repeated stem pairs) x %d width variants (all 600; per-glyph 0/1132/-50; vertical advance -1000 on the first glyph%s)",
			names, nOut, outNames, nW, map[bool]string{true: "; fractional 500.5/-0.5/107.49", false: ""}[dom == DomainC08]),
		Build: func(i int) *type1.Font {
			sizes := make([]int, 0, nGlyphs+2)
			for k := 0; k < nGlyphs; k++ {
				sizes = append(sizes, nOut)
			}
			sizes = append(sizes, len(stemVariants), nW)
			d := radix(i, sizes...)
			f := Base()
			f.Glyphs = map[string]*type1.Glyph{}
			encm := map[int]string{}
			for k, name := range names {
				g := &type1.Glyph{Cmds: Outline(outs[d[k]])}
				sv := stemVariants[d[nGlyphs]]
				g.HStem = append([]funit.Int16(nil), sv[0]...)
				g.VStem = append([]funit.Int16(nil), sv[1]...)
				switch d[nGlyphs+1] {
				case 0:
					g.WidthX = 600
				case 1:
					g.WidthX = []float64{0, 1132, -50, 2147483647}[k]
				case 2:
					g.WidthX = 600
					if k == 0 {
						g.WidthX = 0
						g.WidthY = -1000
					}
				case 3:
					g.WidthX = []float64{500.5, -0.5, 107.49, 1131.5}[k]
				}
				f.Glyphs[name] = g
				if name != ".notdef" {
					encm[int(name[0])] = name
				}
			}
			f.Encoding = CustomEncoding(encm)
			return f
		},
	}
}

func pathLengthFamily(maxLen int) Family {
	return Family{
		Name: "path-lengths",
		N:    (maxLen + 1) * 4,
		Rule: fmt.Sprintf("one glyph whose single contour has 0..%d segments x 4 styles (lines h/v/r in turn; the three curve forms in turn; mixed integer; mixed fractional with 0.005 steps, thirds, sevenths)", maxLen),
		Build: func(i int) *type1.Font {
			d := radix(i, maxLen+1, 4)
			f := Base()
			f.Glyphs["A"].Cmds = PathOfLength(d[0], d[1])
			return f
		},
	}
}

// InfoFields lists the string fields of FontInfo that are written.
var InfoFields = []string{"Version", "Notice", "Copyright", "FullName", "FamilyName", "Weight"}

// SetInfoString sets one of InfoFields.
func SetInfoString(f *type1.Font, field, s string) {
	switch field {
	case "Version":
		f.Version = s
	case "Notice":
		f.Notice = s
	case "Copyright":
		f.Copyright = s
	case "FullName":
		f.FullName = s
	case "FamilyName":
		f.FamilyName = s
	case "Weight":
		f.Weight = s
	default:
		panic(field)
	}
}

// GetInfoString reads one of InfoFields.
func GetInfoString(f *type1.Font, field string) string {
	switch field {
	case "Version":
		return f.Version
	case "Notice":
		return f.Notice
	case "Copyright":
		return f.Copyright
	case "FullName":
		return f.FullName
	case "FamilyName":
		return f.FamilyName
	case "Weight":
		return f.Weight
	}
	panic(field)
}

// stringsOver returns all strings of length <= maxLen over alphabet.
func stringsOver(alphabet []byte, maxLen int) []string {
	out := []string{""}
	prev := []string{""}
	for l := 1; l <= maxLen; l++ {
		var cur []string
		for _, p := range prev {
			for _, b := range alphabet {
				cur = append(cur, p+string([]byte{b}))
			}
		}
		out = append(out, cur...)
		prev = cur
	}
	return out
}

// InfoStrings is the string set of the info-strings family.
func InfoStrings(tier string) []string {
	wide := []byte{'(', ')', '\\', '\r', '\n', 0x00, 0xFF, 'a', '1', '%', ' ', '\f'}
	narrow := []byte{'(', ')', '\\', '\n', 'a'}
	l1, l2 := 2, 3
	if tier == "thorough" {
		l1, l2 = 3, 5
	}
	seen := map[string]bool{}
	var out []string
	add := func(ss []string) {
		for _, s := range ss {
			if !seen[s] {
				seen[s] = true
				out = append(out, s)
			}
		}
	}
	add(stringsOver(wide, l1))
	add(stringsOver(narrow, l2))
	var all []string
	for b := 0; b < 256; b++ {
		all = append(all, string([]byte{byte(b)}))
		all = append(all, "x"+string([]byte{byte(b)})+"y")
	}
	add(all)
	add([]string{"(()", "())", ")(", "((a)(b))", "\\(", "\\)", "a\\", "\\\\", "\\101", "\\n", "\r\n", "\n\r", "Copyright (c) 1990 Adobe\nAll Rights Reserved.", "%!PS", "001.007", strings.Repeat("long ", 60),
		// texts that look like the markers a reader or writer of the file itself looks for
		"currentfile eexec\n", "see\ncurrentfile eexec\nbelow", "currentfile eexec\r", "mark currentfile closefile\n", "cleartomark\n", "%%EndComments\n", "\n%%EOF\n", "/Private 1 dict dup begin"})
	return out
}

func infoStringFamily(tier string) Family {
	ss := InfoStrings(tier)
	return Family{
		Name: "info-strings",
		N:    len(ss) * len(InfoFields),
		Rule: fmt.Sprintf("base font with one of the 6 FontInfo strings %v set to each of %d strings: all strings up to length %d over {( ) \\ CR LF NUL 0xFF a 1 %% SP FF}, up to length %d over {( ) \\ LF a}, every single byte 0..255 alone and between letters, and 16 hand-picked ones (unbalanced/balanced parentheses, trailing backslash, escape look-alikes, CR LF, a long string)",
			InfoFields, len(ss), map[bool]int{false: 2, true: 3}[tier == "thorough"], map[bool]int{false: 3, true: 5}[tier == "thorough"]),
		Build: func(i int) *type1.Font {
			d := radix(i, len(InfoFields), len(ss))
			f := Base()
			SetInfoString(f, InfoFields[d[0]], ss[d[1]])
			return f
		},
	}
}

// RegularNames are names made of PostScript regular characters.
var RegularNames = []string{
	"A", "a.b", "A_1", "x-y", "1", "12", "1.5", "-3", "1e5", "16#FF", "+", "!", "$#&'*,-.:;=?@^_`|~\"", "\x80\xfe\xff", "\x7f", "a\\b", "\\", "dict", "put", "readonly", "dup", "NP", "begin",
	"StandardEncoding", "true", "FontName", "Private", "CharStrings", "space", "Aring", "uni0041", strings.Repeat("n", 127),
}

// VocabularyNames are glyph names equal to the names a Type 1 font program
// executes while the CharStrings dictionary is on the dictionary stack: RD, ND
// and end, and the operators in the bodies of RD {string currentfile exch
// readstring pop} and ND {def}.  Kept apart from RegularNames: in the Adobe
// font format itself a glyph of such a name shadows the operator.
var VocabularyNames = []string{"RD", "ND", "end", "def", "string", "currentfile", "exch", "readstring", "pop"}

func namesFamily(list []string, label string) Family {
	return Family{
		Name: label,
		N:    len(list) * 2,
		Rule: fmt.Sprintf("each of %d names made of regular characters (number look-alikes, operator names, high bytes, backslash, 127 characters) used (0) as the name of a glyph that is also encoded at code 65, (1) as FontName", len(list)),
		Build: func(i int) *type1.Font {
			d := radix(i, 2, len(list))
			name := list[d[1]]
			f := Base()
			if d[0] == 0 {
				g := f.Glyphs["A"]
				delete(f.Glyphs, "A")
				f.Glyphs[name] = g
				// a glyph that sorts after every name of the list, so that
				// the named glyph is never the last entry of CharStrings
				f.Glyphs["~~"] = &type1.Glyph{WidthX: 300, Cmds: Outline(3)}
				f.Encoding = CustomEncoding(map[int]string{65: name, 126: "~~"})
			} else {
				f.FontName = name
			}
			return f
		},
	}
}

// encoding family ---------------------------------------------------------

var encGlyphs = []string{"A", "B", "space"}
var encCodes = []int{0, 32, 65, 66, 200}
var encCodesThorough = []int{0, 32, 65, 66, 200, 255}

func encodingFamily(tier string) Family {
	codes := encCodes
	if tier == "thorough" {
		codes = encCodesThorough
	}
	over := []string{"", ".notdef", "A", "B"}
	nOver := pow(len(over), len(codes))
	const nBase = 4 // 0: none (nil), 1: all .notdef, 2: StandardEncoding restricted to the font's glyphs, 3: full StandardEncoding
	return Family{
		Name: "encodings",
		N:    8 * nBase * nOver,
		Rule: fmt.Sprintf("glyph set = .notdef plus each subset of {A, B, space}; encoding = none, or one of 3 bases (all .notdef; StandardEncoding restricted to the font's glyphs; the full StandardEncoding) with each of the codes %v independently kept or set to .notdef, A or B (so: custom encodings, encodings leaving codes of existing glyphs unassigned, proper subsets of StandardEncoding, names of absent glyphs)", codes),
		Build: func(i int) *type1.Font {
			d := radix(i, 8, nBase, nOver)
			f := Base()
			f.Glyphs = map[string]*type1.Glyph{".notdef": {WidthX: 500}}
			for k, name := range encGlyphs {
				if d[0]&(1<<k) != 0 {
					f.Glyphs[name] = &type1.Glyph{WidthX: float64(600 + 10*k), Cmds: Outline(2 + k)}
				}
			}
			if d[1] == 0 {
				f.Encoding = nil
				if d[2] != 0 {
					// overrides are meaningless without an encoding: keep the
					// family a plain product, the duplicates are harmless
				}
				return f
			}
			enc := make([]string, 256)
			for c := range enc {
				enc[c] = ".notdef"
				if d[1] >= 2 {
					s := psenc.StandardEncoding[c]
					if _, ok := f.Glyphs[s]; ok || d[1] == 3 {
						enc[c] = s
					}
				}
			}
			o := d[2]
			for _, c := range codes {
				if v := over[o%len(over)]; v != "" {
					enc[c] = v
				}
				o /= len(over)
			}
			f.Encoding = enc
			return f
		},
	}
}

// private / info numbers -----------------------------------------------------

func privateFamily() Family {
	blueValues := [][]funit.Int16{nil, {-10, 0, 500, 510}, {-32768, 32767}}
	otherBlues := [][]funit.Int16{nil, {-200, -190}}
	blueScale := []float64{0.039625, 0.05, 0.03963}
	blueShift := []int32{7, 0, -3, 2147483647}
	blueFuzz := []int32{1, 0, 5}
	stdHW := []float64{0, 50, 50.5}
	stdVW := []float64{0, 80}
	return Family{
		Name: "private-values",
		N:    3 * 2 * 3 * 4 * 3 * 3 * 2 * 2,
		Rule: "base font x BlueValues {absent, 2 pairs, int16 extremes} x OtherBlues {absent, 1 pair} x BlueScale {0.039625 (default), 0.05, 0.03963} x BlueShift {7 (default), 0, -3, 2^31-1} x BlueFuzz {1 (default), 0, 5} x StdHW {0 (absent), 50, 50.5} x StdVW {0, 80} x ForceBold",
		Build: func(i int) *type1.Font {
			d := radix(i, 3, 2, 3, 4, 3, 3, 2, 2)
			f := Base()
			f.Private = &type1.PrivateDict{
				BlueValues: append([]funit.Int16(nil), blueValues[d[0]]...),
				OtherBlues: append([]funit.Int16(nil), otherBlues[d[1]]...),
				BlueScale:  blueScale[d[2]],
				BlueShift:  blueShift[d[3]],
				BlueFuzz:   blueFuzz[d[4]],
				StdHW:      stdHW[d[5]],
				StdVW:      stdVW[d[6]],
				ForceBold:  d[7] == 1,
			}
			return f
		},
	}
}

// numberSweepFamily varies ONE numeric field at a time over a pool of values
// chosen for how they print and parse: exponents in either direction, values
// that need all 17 digits, values beyond int32/int53, denormals, negative
// zero-ish fractions, the neighbourhood of documented defaults.
func numberSweepFamily(dom Domain) Family {
	floats := []float64{0, 1, -1, 0.5, -0.5, 0.001, -0.001, 1e-5, -1e-5, 1e-7, 123456.789, -98765.4321, 1e6, 1e7, 12345678,
		1e15, 1e21, -1e21, 1.0 / 3, 0.1 + 0.2, 2147483648, -2147483649, 9007199254740993, 5e-324, 1.7976931348623157e308, 100, 250.25, 1e-300, 1e20, 123456789012}
	// (values within 1e-6 of the default other than the default itself are outside
	// this domain: the writer documents that it snaps them; C10 checks that)
	blueScale := []float64{0.039625, 0.039625 + 2e-6, 0.039625 - 2e-6, 0.039625 + 1.0000001e-6, 0.03962, 0.0454545, 1e-5, 0.5, 0.1 + 0.2, 1.0 / 3, 3.9625e-2, 39625e-6}
	ints := []int32{0, 1, -1, 7, 255, 256, 65535, 65536, -65536, 100000, 2147483647, -2147483648, 1000000000}
	blues := [][]funit.Int16{
		{0, 0}, {-1, 0}, {5, 5, 5, 5}, {-32768, -32768, 32767, 32767},
		{-20, 0, 400, 410, 500, 510, 600, 615, 700, 712, 800, 820, 900, 901}, // 7 pairs: the format's maximum for BlueValues
		{-300, -290, -250, -240, -200, -190, -150, -140, -100, -90},          // 5 pairs: the maximum for OtherBlues
		{10, -10}, {700, 710, -10, 0}, {1, 2, 3, 4, 5, 6},
		{-20, 0, 100, 110, 200, 210, 300, 310, 400, 410, 500, 510, 600, 615, 700, 712, 800, 820}, // 9 pairs: more than the format allows; written and read all the same
	}
	widths := []float64{0, 1, -1, 107, 108, -107, -108, 1131, 1132, -1131, -1132, 32000, -32000, 65535, 65536, 2147483647, -2147483648, 1000000, 999999}
	if dom == DomainC08 {
		widths = append(widths, 0.5, 0.49, -0.5, 107.5, 1131.5, 0.001, 1e-9, 2147483646.5)
	}
	stems := [][]funit.Int16{
		{0, 0}, {100, 100}, {-21, 0}, {-20, -20}, {5, -5}, {32767, -32768}, {-32768, 32767},
		{0, 10, 20, 30, 40, 50, 60, 70, 80, 90, 100, 110, 120, 130, 140, 150, 160, 170, 180, 190, 200, 210, 220, 230}, // 12 stems: fills the 24-entry charstring stack
		{107, 108, 1131, 1132, -107, -108, -1131, -1132},                                                              // boundaries of the number encodings
		{1, 2, 1, 2, 1, 2},
		{60, 140, 360, 440, 660, 740}, // three stems of equal width, evenly spaced (the shape hstem3 / vstem3 exist for)
		{0, 20, 100, 120, 200, 220},
	}
	type field struct {
		name string
		n    int
		set  func(f *type1.Font, k int)
	}
	fl := func(name string, pool []float64, set func(f *type1.Font, v float64)) field {
		return field{name, len(pool), func(f *type1.Font, k int) { set(f, pool[k]) }}
	}
	fields := []field{
		fl("ItalicAngle", floats, func(f *type1.Font, v float64) { f.ItalicAngle = v }),
		fl("UnderlinePosition", floats, func(f *type1.Font, v float64) { f.UnderlinePosition = funit.Float64(v) }),
		fl("UnderlineThickness", floats, func(f *type1.Font, v float64) { f.UnderlineThickness = funit.Float64(v) }),
		fl("BlueScale", blueScale, func(f *type1.Font, v float64) { f.Private.BlueScale = v }),
		fl("StdHW", floats, func(f *type1.Font, v float64) { f.Private.StdHW = v }),
		fl("StdVW", floats, func(f *type1.Font, v float64) { f.Private.StdVW = v }),
		{"BlueShift", len(ints), func(f *type1.Font, k int) { f.Private.BlueShift = ints[k] }},
		{"BlueFuzz", len(ints), func(f *type1.Font, k int) { f.Private.BlueFuzz = ints[k] }},
		{"BlueValues", len(blues), func(f *type1.Font, k int) { f.Private.BlueValues = append([]funit.Int16(nil), blues[k]...) }},
		{"OtherBlues", len(blues), func(f *type1.Font, k int) {
			f.Private.BlueValues = []funit.Int16{-10, 0, 500, 510}
			f.Private.OtherBlues = append([]funit.Int16(nil), blues[k]...)
		}},
		fl("WidthX of A", widths, func(f *type1.Font, v float64) { f.Glyphs["A"].WidthX = v }),
		fl("WidthY of A", widths, func(f *type1.Font, v float64) { f.Glyphs["A"].WidthX = 0; f.Glyphs["A"].WidthY = v }),
		fl("WidthX and WidthY of A", widths, func(f *type1.Font, v float64) {
			f.Glyphs["A"].WidthX = v
			f.Glyphs["A"].WidthY = max(-v, -2147483648)
			f.Glyphs["A"].WidthY = min(f.Glyphs["A"].WidthY, 2147483647)
		}),
		{"HStem of A", len(stems), func(f *type1.Font, k int) { f.Glyphs["A"].HStem = append([]funit.Int16(nil), stems[k]...) }},
		{"VStem of A", len(stems), func(f *type1.Font, k int) { f.Glyphs["A"].VStem = append([]funit.Int16(nil), stems[k]...) }},
		{"HStem and VStem of A", len(stems), func(f *type1.Font, k int) {
			f.Glyphs["A"].HStem = append([]funit.Int16(nil), stems[k]...)
			f.Glyphs["A"].VStem = append([]funit.Int16(nil), stems[(k+1)%len(stems)]...)
		}},
	}
	// a single large first step (the numerator of the quotient written for it
	// still fits 32 bits: q*|x| < 2^31), followed by small ones
	bigSteps := []float64{25000000.5, -30000000.25, 20000000 + 1.0/3, 700000000.5, -1000000000.5, 21474836.47, 16777216.5, 4194304.125, 1234567.875, 1000000000, 2147483647, -2147483648}
	fields = append(fields,
		fl("x of the first point of A", bigSteps, func(f *type1.Font, v float64) {
			g := f.Glyphs["A"]
			g.Cmds, g.HStem, g.VStem = nil, nil, nil
			g.MoveTo(v, 100)
			g.LineTo(v+50.5, 200)
			g.CurveTo(v+60, 210.25, v+70, 220, v+50.5, 300)
			g.LineTo(v, 300)
			g.ClosePath()
		}),
		fl("y of the second point of A", bigSteps, func(f *type1.Font, v float64) {
			g := f.Glyphs["A"]
			g.Cmds, g.HStem, g.VStem = nil, nil, nil
			g.MoveTo(10, 0) // (the step to v is v itself: inside the 32-bit range)
			g.LineTo(10, v)
			g.LineTo(60.5, v)
			g.ClosePath()
		}))
	for m := 0; m < 6; m++ {
		m := m
		fields = append(fields, fl(fmt.Sprintf("FontMatrix[%d]", m), floats, func(f *type1.Font, v float64) {
			if v == 0 && (m == 0 || m == 3) {
				v = 0.002 // a singular matrix is outside the domain
			}
			f.FontMatrix[m] = v
		}))
	}
	total := 0
	var names []string
	for _, fd := range fields {
		total += fd.n
		names = append(names, fmt.Sprintf("%s(%d)", fd.name, fd.n))
	}
	return Family{
		Name: "number-sweep",
		N:    total,
		Rule: "base font with ONE numeric field at a time set to every value of an adversarial pool (exponent forms in both directions, 17-digit values, beyond int32 and 2^53, denormal and largest float64, neighbourhood of the BlueScale default, int32/int16 extremes, blue arrays up to the format's maximum length, stem lists that fill the 24-entry charstring stack, widths at every number-encoding boundary): " + strings.Join(names, ", "),
		Build: func(i int) *type1.Font {
			f := Base()
			f.Private = DefaultPrivate()
			for _, fd := range fields {
				if i < fd.n {
					fd.set(f, i)
					return f
				}
				i -= fd.n
			}
			panic("number-sweep: index out of range")
		},
	}
}

// alignmentFamily: one glyph with a long charstring (well above the 512-byte
// blocks writers and ciphers like to work in), preceded in the encrypted part
// by two filler glyphs whose name lengths shift it to every one of 512
// consecutive byte positions.
func alignmentFamily() Family {
	return Family{
		Name: "long-charstring-at-every-alignment",
		N:    512 * 2,
		Rule: "a glyph with a 260-segment (about 1 KiB of charstring) or 700-segment outline, preceded in the file by two glyphs named a…a (1..128 letters) and b…b (1, 129, 257 or 385 letters): the long charstring starts at 512 consecutive byte offsets of the encrypted part",
		Build: func(i int) *type1.Font {
			shift, long := i%512, i/512
			f := Base()
			f.Encoding = nil
			f.Glyphs = map[string]*type1.Glyph{".notdef": {WidthX: 250}}
			n1, n2 := 1+shift%128, 1+128*(shift/128)
			for _, nm := range []string{strings.Repeat("a", n1), strings.Repeat("b", n2)} {
				g := &type1.Glyph{WidthX: 300}
				g.MoveTo(1, 2)
				g.LineTo(30, 40)
				g.ClosePath()
				f.Glyphs[nm] = g
			}
			f.Glyphs["zlong"] = &type1.Glyph{WidthX: 700, Cmds: PathOfLength([]int{260, 700}[long], 2+long)}
			return f
		},
	}
}

// longInfoStringFamily: strings beyond every line-length convention (255 bytes
// of DSC, 80 columns), with a character that needs escaping at every position
// around the multiples of 250, 255, 256 and 512.
func longInfoStringFamily() Family {
	specials := []string{"\\", "(", ")", "\r", "\n", "()", "\\("}
	var positions []int
	for _, b := range []int{78, 250, 255, 500, 510, 765} {
		for p := b - 5; p <= b+3; p++ {
			positions = append(positions, p)
		}
	}
	return Family{
		Name: "long-info-strings",
		N:    len(specials) * len(positions) * 2,
		Rule: fmt.Sprintf("Notice / FullName of 800 bytes with one of %q at every position within -5..+3 of 78, 250, 255, 500, 510, 765", specials),
		Build: func(i int) *type1.Font {
			d := radix(i, len(specials), len(positions), 2)
			pos := positions[d[1]]
			str := strings.Repeat("x", pos) + specials[d[0]] + strings.Repeat("y", 800-pos)
			f := Base()
			SetInfoString(f, []string{"Notice", "FullName"}[d[2]], str)
			return f
		},
	}
}

// nearAxisFamily: see cmd/c20 (same geometry through the public writer): lines
// and curve tangents that are almost parallel to an axis, with the small
// component below, around and above every tolerance an encoder might use.
func nearAxisFamily() Family {
	ds := []float64{0}
	for _, v := range []float64{1e-7, 2e-6, 0.001, 0.004, 0.0046, 0.0048, 0.0051, 0.006, 0.0075, 0.009, 0.0094, 0.01, 0.03} {
		ds = append(ds, v, -v)
	}
	nd := len(ds)
	return Family{
		Name: "near-axis-segments-and-tangents",
		N:    5 * nd * nd,
		Rule: fmt.Sprintf("(the last fifth of the items: the same outline 20,000 / 30,000 units away from the origin, where a tolerance relative to the coordinates would be larger than the deltas) glyph A = moveto, nearly horizontal line (dy = da), curve whose start tangent is nearly horizontal|vertical (small component da) and whose end tangent is nearly horizontal|vertical (small component db), nearly vertical line (dx = db), closepath, nearly vertical moveto (dx = da), nearly horizontal line (dy = db), line, closepath; da, db from %d values 0, +-1e-7 … +-0.03 around the tolerances 1e-6, 1/214, 0.005, 1/107, 0.01", nd),
		Build: func(i int) *type1.Font {
			far := i >= 4*nd*nd
			if far {
				i = (i-4*nd*nd)*4 + 1 // start tangent nearly vertical, end tangent nearly horizontal
			}
			d := radix(i, 2, 2, nd, nd)
			d = []int{d[2], d[3], d[0], d[1]}
			da, db := ds[d[0]], ds[d[1]]
			f := Base()
			g := f.Glyphs["A"]
			g.Cmds = nil
			g.HStem, g.VStem = nil, nil
			x, y := 100.0, 50.0
			if far {
				x, y = 20000, -30000
			}
			g.MoveTo(x, y)
			x, y = x+20, y+da
			g.LineTo(x, y)
			tangent := func(kind int, small, long float64) (float64, float64) {
				if kind == 0 {
					return long, small
				}
				return small, long
			}
			d1x, d1y := tangent(d[2], da, 10)
			d3x, d3y := tangent(d[3], db, 12)
			x1, y1 := x+d1x, y+d1y
			x2, y2 := x1+20, y1+25
			x3, y3 := x2+d3x, y2+d3y
			g.CurveTo(x1, y1, x2, y2, x3, y3)
			x, y = x3+db, y3-15
			g.LineTo(x, y)
			g.ClosePath()
			x, y = x+da, y+30
			g.MoveTo(x, y)
			x, y = x-9, y+db
			g.LineTo(x, y)
			g.LineTo(x+5, y+5)
			g.ClosePath()
			return f
		},
	}
}

func infoNumberFamily() Family {
	italic := []float64{0, -12.5, 1e-7, 123456789, 1e21}
	upos := []float64{0, -100, -75.5}
	uthick := []float64{0, 50, 0.001}
	matrices := [][6]float64{
		stdMatrix,
		{0.0005, 0, 0, 0.0005, 0, 0},
		{0.001, 0, 0.000212, 0.001, 0, 0},
		{1, 0, 0, 1, 10, -20},
		{1e-10, 0, 0, 1e+10, 0, 0},
		{0, 0, 0, 0, 0, 0},
		{0.001, 0, 0, 0, 0, 0},
		{0, 0, 0, 0, 0, 7},
	}
	return Family{
		Name: "info-numbers",
		N:    5 * 2 * 3 * 3 * 8,
		Rule: "base font x ItalicAngle {0, -12.5, 1e-7, 123456789, 1e21} x isFixedPitch x UnderlinePosition {0, -100, -75.5} x UnderlineThickness {0, 50, 0.001} x FontMatrix {standard, 1/2000, slanted, identity with translation, 1e-10/1e+10, all zeros, only the first entry non-zero, only the last entry non-zero}",
		Build: func(i int) *type1.Font {
			d := radix(i, 5, 2, 3, 3, 8)
			f := Base()
			f.ItalicAngle = italic[d[0]]
			f.IsFixedPitch = d[1] == 1
			f.UnderlinePosition = funit.Float64(upos[d[2]])
			f.UnderlineThickness = funit.Float64(uthick[d[3]])
			f.FontMatrix = matrices[d[4]]
			return f
		},
	}
}

// creation dates --------------------------------------------------------------

// Zones of the creation-date family.  Fixed zones only: the result must not
// depend on the machine's time zone database.
func zones() []*time.Location {
	return []*time.Location{
		time.UTC,
		time.FixedZone("CET", 3600),
		time.FixedZone("PST", -8*3600),
		time.FixedZone("CEST", 7200),
		time.FixedZone("", 5*3600+1800),
		time.FixedZone("", 0),
		time.FixedZone("", -3*3600),
		// zones the header comment cannot name: offsets with seconds, names
		// that are not abbreviations or that would break the comment line
		time.FixedZone("", 3632),
		time.FixedZone("LMT", -(7*3600 + 52*60 + 58)),
		time.FixedZone("myzone", 3600),
		time.FixedZone("X", -2*3600),
		time.FixedZone("Europe/Berlin", 7200),
		time.FixedZone("a b", 60),
		time.FixedZone("two\nlines", -60),
		time.FixedZone("GMT+1", 3600),
	}
}

var zoneNames = []string{"UTC", "CET+1", "PST-8", "CEST+2", "unnamed+05:30", "unnamed+00:00", "unnamed-03:00",
	"unnamed+01:00:32", "LMT-07:52:58", "myzone+1", "X-2", "Europe/Berlin+2", "'a b'+00:01", "name with a line break-00:01", "GMT+1"}

func dateFamily() Family {
	type ymd struct {
		y           int
		m           time.Month
		d, h, mi, s int
	}
	instants := []ymd{
		{2006, 1, 2, 15, 4, 5}, {1969, 12, 31, 23, 59, 59}, {1, 1, 2, 12, 0, 0}, {9999, 12, 30, 23, 59, 59}, {2024, 2, 29, 12, 0, 0},
	}
	nanos := []int{0, 500_000_000, 999_999_999}
	return Family{
		Name: "creation-dates",
		N:    1 + len(instants)*len(nanos)*len(zoneNames),
		Rule: "base font x creation time: zero, or {2006-01-02 15:04:05, 1969-12-31 23:59:59, 0001-01-02 12:00:00, 9999-12-30 23:59:59, 2024-02-29 12:00:00} (wall clock in the zone) x sub-second part {0, 0.5 s, 0.999999999 s} x zone {UTC, named fixed zones CET +1 h / PST -8 h / CEST +2 h, unnamed fixed zones +05:30 / +00:00 / -03:00, zone offsets with seconds (+01:00:32, LMT -07:52:58), zone names that are not abbreviations (myzone, X, Europe/Berlin, `a b`, a name with a line break, GMT+1)}",
		Build: func(i int) *type1.Font {
			f := Base()
			if i == 0 {
				return f
			}
			d := radix(i-1, len(instants), len(nanos), len(zoneNames))
			t := instants[d[0]]
			f.CreationDate = time.Date(t.y, t.m, t.d, t.h, t.mi, t.s, nanos[d[1]], zones()[d[2]])
			return f
		},
	}
}

// many glyphs ------------------------------------------------------------------

func manyGlyphsFamily() Family {
	counts := []int{0, 1, 3, 300}
	return Family{
		Name: "glyph-counts",
		N:    len(counts) * 2 * 2,
		Rule: "fonts with 0, 1, 3, 300 glyphs g0..g299 (outlines cycling through the family, widths 400+i) x with/without .notdef x encoding none / first 256 glyphs at codes 0..255",
		Build: func(i int) *type1.Font {
			d := radix(i, len(counts), 2, 2)
			f := Base()
			f.Glyphs = map[string]*type1.Glyph{}
			if d[1] == 1 {
				f.Glyphs[".notdef"] = &type1.Glyph{WidthX: 250}
			}
			enc := CustomEncoding(nil)
			for k := 0; k < counts[d[0]]; k++ {
				name := fmt.Sprintf("g%d", k)
				f.Glyphs[name] = &type1.Glyph{WidthX: float64(400 + k), Cmds: Outline(k % NumOutlines)}
				if k < 256 {
					enc[k] = name
				}
			}
			f.Encoding = enc
			if d[2] == 0 {
				f.Encoding = nil
			}
			return f
		},
	}
}

// curve forms -------------------------------------------------------------------

// curveFormsFamily: the three ways the writer encodes a curve (rrcurveto,
// hvcurveto, vhcurveto) with every combination of fractional parts whose best
// quotient p/q (q <= 107) is off by almost 1/214 in a known direction, on
// every free delta.  Errors of the same sign add up unless the writer measures
// each delta from the position the reader will reconstruct.
func curveFormsFamily() Family {
	fr := []float64{0, 0.0040, 0.0046, -0.0040, -0.0046}
	n := len(fr)
	nRR, nHV := n*n*n*n*n*n, n*n*n*n
	return Family{
		Name: "curve-forms-adversarial-fractions",
		N:    nRR + 2*nHV,
		Rule: "glyph A = moveto, curve, lineto, curve, lineto, closepath with the curve in each of the three forms (general, horizontal-start/vertical-end, vertical-start/horizontal-end) and every free delta = integer + f, f from {0, +-0.0040, +-0.0046}: 5^6 general and 2 x 5^4 special curves",
		Build: func(i int) *type1.Font {
			form := 0
			var d []int
			switch {
			case i < nRR:
				d = radix(i, n, n, n, n, n, n)
			case i < nRR+nHV:
				form, d = 1, radix(i-nRR, n, n, n, n)
			default:
				form, d = 2, radix(i-nRR-nHV, n, n, n, n)
			}
			var dl [3][2]float64
			switch form {
			case 0:
				dl = [3][2]float64{{10 + fr[d[0]], 20 + fr[d[1]]}, {20 + fr[d[2]], 20 + fr[d[3]]}, {20 + fr[d[4]], 10 + fr[d[5]]}}
			case 1:
				dl = [3][2]float64{{10 + fr[d[0]], 0}, {20 + fr[d[1]], 20 + fr[d[2]]}, {0, 10 + fr[d[3]]}}
			default:
				dl = [3][2]float64{{0, 10 + fr[d[0]]}, {20 + fr[d[1]], 20 + fr[d[2]]}, {10 + fr[d[3]], 0}}
			}
			f := Base()
			g := f.Glyphs["A"]
			g.Cmds = nil
			g.HStem, g.VStem = nil, nil
			x, y := 100.0, 50.0
			g.MoveTo(x, y)
			for rep := 0; rep < 2; rep++ {
				var p [6]float64
				if form == 1 {
					// keep the special shape exact: y1 == y0, x3 == x2
					p[0], p[1] = x+dl[0][0], y
					p[2], p[3] = p[0]+dl[1][0], p[1]+dl[1][1]
					p[4], p[5] = p[2], p[3]+dl[2][1]
				} else if form == 2 {
					p[0], p[1] = x, y+dl[0][1]
					p[2], p[3] = p[0]+dl[1][0], p[1]+dl[1][1]
					p[4], p[5] = p[2]+dl[2][0], p[3]
				} else {
					p[0], p[1] = x+dl[0][0], y+dl[0][1]
					p[2], p[3] = p[0]+dl[1][0], p[1]+dl[1][1]
					p[4], p[5] = p[2]+dl[2][0], p[3]+dl[2][1]
				}
				g.CurveTo(p[0], p[1], p[2], p[3], p[4], p[5])
				x, y = p[4]+7+fr[d[0]], p[5]-3+fr[d[1]]
				g.LineTo(x, y)
			}
			g.ClosePath()
			return f
		},
	}
}

// curveGridFamily: every coincidence between the coordinates of a curve's four
// points.  Which of the three curve operators the writer may use depends on
// equalities (first control point level with / straight above the start, end
// point level with / straight above the second control point); the grid makes
// every combination of equalities and inequalities occur, including the ones
// that look like a special form and are not.
func curveGridFamily() Family {
	offs := []float64{0, 50, -30}
	return Family{
		Name: "curve-coincidence-grid",
		N:    81,
		Rule: "item = (offset of the first control point from the start point, offset of the second control point) from {0, 50, -30}^4; glyph A holds nine curves, one for every offset of the end point from {0, 50, -30}^2 (all 729 combinations of equal / unequal x and y among the four points, relative to a start point that moves), each followed by a line",
		Build: func(i int) *type1.Font {
			d := radix(i, 3, 3, 3, 3)
			f := Base()
			g := f.Glyphs["A"]
			g.Cmds = nil
			g.HStem, g.VStem = nil, nil
			x, y := 100.0, 60.0
			g.MoveTo(x, y)
			for e := 0; e < 9; e++ {
				x1, y1 := x+offs[d[0]], y+offs[d[1]]
				x2, y2 := x+offs[d[2]], y+offs[d[3]]
				x3, y3 := x+offs[e%3], y+offs[e/3]
				g.CurveTo(x1, y1, x2, y2, x3, y3)
				x, y = x3+11, y3+7
				g.LineTo(x, y)
			}
			g.ClosePath()
			return f
		},
	}
}

// creepFamily: long paths whose segments are almost parallel to an axis, the
// other coordinate creeping the same way by less than the writer's 1e-6
// tolerance per segment: whatever the writer leaves out of a segment it has to
// make up for later, or the outline read back wanders off (by 8000 x 9e-7 =
// 0.0072 units, more than the 0.005 the round trip allows).
func creepFamily() Family {
	steps := []float64{9e-7, -9e-7, 5e-7, 9.9e-7}
	return Family{
		Name: "long-creeping-paths",
		N:    len(steps) * 2 * 2,
		Rule: "glyph A = one contour of 8000 segments one unit apart along an axis {x, y}, the other coordinate creeping by {9e-7, -9e-7, 5e-7, 9.9e-7} per segment, drawn with {lineto; moveto}",
		Build: func(i int) *type1.Font {
			d := radix(i, len(steps), 2, 2)
			st := steps[d[0]]
			f := Base()
			g := f.Glyphs["A"]
			g.Cmds = nil
			g.HStem, g.VStem = nil, nil
			g.MoveTo(10, 100)
			for k := 1; k <= 8000; k++ {
				a, b := 10+float64(k), 100+float64(k)*st
				if d[1] == 1 {
					a, b = 10+float64(k)*st, 100+float64(k)
				}
				if d[2] == 0 {
					g.LineTo(a, b)
				} else {
					g.MoveTo(a, b)
				}
			}
			if d[2] == 0 {
				g.ClosePath()
			}
			return f
		},
	}
}

// big fonts ---------------------------------------------------------------------

// bigFontFamily: fonts whose encrypted portion exceeds 64 KiB (PFB segment
// lengths above 16 bits, many eexec buffer flushes, long hex sections).
func bigFontFamily() Family {
	return Family{
		Name: "big-fonts",
		N:    2,
		Rule: "fonts whose encrypted portion exceeds 64 KiB: 130 glyphs with 200-segment outlines; 1700 glyphs with a 3-segment outline",
		Build: func(i int) *type1.Font {
			f := Base()
			f.Glyphs = map[string]*type1.Glyph{".notdef": {WidthX: 250}}
			f.Encoding = nil
			if i == 0 {
				for k := 0; k < 130; k++ {
					f.Glyphs[fmt.Sprintf("g%03d", k)] = &type1.Glyph{WidthX: float64(400 + k), Cmds: PathOfLength(200, k%4)}
				}
			} else {
				for k := 0; k < 1700; k++ {
					g := &type1.Glyph{WidthX: float64(300 + k%700)}
					g.MoveTo(float64(k%50), 0)
					g.LineTo(float64(100+k%30), float64(k%200))
					g.LineTo(0, 700)
					g.ClosePath()
					f.Glyphs[fmt.Sprintf("g%04d", k)] = g
				}
			}
			return f
		},
	}
}

// Families returns the font families of a tier for a domain.
func Families(tier string, dom Domain) []Family {
	nOut := NumOutlines
	if dom == DomainC08 {
		nOut = NumOutlinesOpen
	}
	var all, short []int
	for o := 0; o < nOut; o++ {
		all = append(all, o)
		if tier == "thorough" || (o != 12 && o != 13) {
			// quick tier: the two long outlines appear in the 1- and
			// 2-glyph families only
			short = append(short, o)
		}
	}
	fams := []Family{
		shapeFamily(1, all, dom),
		shapeFamily(2, all, dom),
		shapeFamily(3, short, dom),
		pathLengthFamily(40),
		infoStringFamily(tier),
		namesFamily(RegularNames, "names"),
		namesFamily(VocabularyNames, "names-shadowing-operators"),
		encodingFamily(tier),
		privateFamily(),
		infoNumberFamily(),
		dateFamily(),
		manyGlyphsFamily(),
		curveFormsFamily(),
		curveGridFamily(),
		creepFamily(),
		bigFontFamily(),
		numberSweepFamily(dom),
		alignmentFamily(),
		longInfoStringFamily(),
		nearAxisFamily(),
	}
	if tier == "thorough" {
		fams[3] = pathLengthFamily(120)
		var four []int
		for _, o := range all {
			if o != 12 && o != 13 { // the two long outlines stay in the 1..3-glyph families
				four = append(four, o)
			}
		}
		fams = append(fams, shapeFamily(4, four, dom))
	}
	return fams
}

// ---------------------------------------------------------------------------
// rendering

// Dump renders a font completely and deterministically.
func Dump(f *type1.Font) string {
	var sb strings.Builder
	fi := f.FontInfo
	fmt.Fprintf(&sb, "FontName=%q Version=%q Notice=%q Copyright=%q FullName=%q FamilyName=%q Weight=%q ItalicAngle=%v FixedPitch=%v UPos=%v UThick=%v Matrix=%v",
		fi.FontName, fi.Version, fi.Notice, fi.Copyright, fi.FullName, fi.FamilyName, fi.Weight, fi.ItalicAngle, fi.IsFixedPitch, fi.UnderlinePosition, fi.UnderlineThickness, fi.FontMatrix)
	if p := f.Private; p != nil {
		fmt.Fprintf(&sb, " Private{Blue=%v Other=%v Scale=%v Shift=%v Fuzz=%v StdHW=%v StdVW=%v Bold=%v}", p.BlueValues, p.OtherBlues, p.BlueScale, p.BlueShift, p.BlueFuzz, p.StdHW, p.StdVW, p.ForceBold)
	}
	if f.CreationDate.IsZero() {
		sb.WriteString(" Date=zero")
	} else {
		name, off := f.CreationDate.Zone()
		fmt.Fprintf(&sb, " Date=%s(zone %q %+ds)", f.CreationDate.Format("2006-01-02T15:04:05.999999999"), name, off)
	}
	if f.Encoding == nil {
		sb.WriteString(" Encoding=none")
	} else {
		sb.WriteString(" Encoding={")
		n := 0
		for c, name := range f.Encoding {
			if name != ".notdef" {
				if n < 12 {
					fmt.Fprintf(&sb, "%d:%s ", c, name)
				}
				n++
			}
		}
		fmt.Fprintf(&sb, "(%d assigned of %d)}", n, len(f.Encoding))
	}
	names := make([]string, 0, len(f.Glyphs))
	for n := range f.Glyphs {
		names = append(names, n)
	}
	sort.Strings(names)
	fmt.Fprintf(&sb, " Glyphs(%d){", len(names))
	for k, n := range names {
		if k >= 4 {
			sb.WriteString("… ")
			break
		}
		g := f.Glyphs[n]
		fmt.Fprintf(&sb, "%q w=(%v,%v) h=%v v=%v %s; ", n, g.WidthX, g.WidthY, g.HStem, g.VStem, DumpCmds(g.Cmds, 14))
	}
	sb.WriteString("}")
	return sb.String()
}

// DumpCmds renders a path.
func DumpCmds(cmds []type1.GlyphOp, limit int) string {
	var sb strings.Builder
	for i, c := range cmds {
		if i >= limit {
			fmt.Fprintf(&sb, "…(%d ops)", len(cmds))
			break
		}
		switch c.Op {
		case type1.OpMoveTo:
			fmt.Fprintf(&sb, "M%v ", c.Args)
		case type1.OpLineTo:
			fmt.Fprintf(&sb, "L%v ", c.Args)
		case type1.OpCurveTo:
			fmt.Fprintf(&sb, "C%v ", c.Args)
		case type1.OpClosePath:
			sb.WriteString("Z ")
		default:
			fmt.Fprintf(&sb, "op%d%v ", c.Op, c.Args)
		}
	}
	return strings.TrimSpace(sb.String())
}

// EditInPlace changes a font the way an editor does between two saves: every
// coordinate of every outline moves by (3, 3) and every stem edge by 1, while
// the number of commands and hints, the advance widths and the glyph values
// themselves (the same *Glyph pointers) stay what they were.
func EditInPlace(f *type1.Font) {
	for _, g := range f.Glyphs {
		for i := range g.Cmds {
			for k := range g.Cmds[i].Args {
				g.Cmds[i].Args[k] += 3
			}
		}
		for i := range g.HStem {
			if g.HStem[i] < 32000 && g.HStem[i] > -32000 {
				g.HStem[i]++
			}
		}
		for i := range g.VStem {
			if g.VStem[i] < 32000 && g.VStem[i] > -32000 {
				g.VStem[i]++
			}
		}
	}
}
