package t1fonts

import (
	"fmt"
	"math"
	"math/big"
	"sort"

	"seehuhn.de/go/postscript/funit"
	"seehuhn.de/go/postscript/type1"

	"verif/model/t1dec"
)

// Diff is one difference between two fonts.  Class is coarse and stable (it
// becomes part of a finding key); Detail has expected/actual.
type Diff struct {
	Class  string
	Detail string
}

func diff(class, format string, args ...any) Diff {
	return Diff{Class: class, Detail: fmt.Sprintf(format, args...)}
}

func isInt(x float64) bool { return x == math.Trunc(x) && !math.IsInf(x, 0) }

// EffectiveEncoding is the encoding as the reader documents it: a code whose
// name is not a glyph of the font refers to .notdef.
func EffectiveEncoding(enc []string, glyphs map[string]*type1.Glyph) []string {
	if enc == nil {
		return nil
	}
	out := make([]string, len(enc))
	for i, n := range enc {
		if _, ok := glyphs[n]; ok {
			out[i] = n
		} else {
			out[i] = ".notdef"
		}
	}
	return out
}

// Compare implements the equality of C09: got = Read(Write(src)).
//
//   - glyph set: equal, except that a source font without .notdef comes back
//     with an added .notdef that has no outline and no hints (the library
//     treats .notdef as implicitly present: NumGlyphs, GlyphList; the reader
//     documents the addition); the width of that added glyph is not compared
//   - outlines: same commands; a coordinate is compared exactly while all
//     coordinates of the glyph on that axis up to it are integers, and within
//     tol otherwise
//   - widths (integers in the C09 domain), stem hints: exact
//   - encoding: same name at each of the 256 codes, where a name that is not a
//     glyph of the font counts as .notdef on both sides (reader-documented)
//   - FontName and the six info strings: byte for byte
//   - ItalicAngle, isFixedPitch, underline values, font matrix: exact
//   - private values: exact; BlueValues/OtherBlues absent == empty
//   - creation time: both zero, or equal as instants after truncating the
//     source to the second
func Compare(src, got *type1.Font, tol float64) []Diff {
	var out []Diff
	// glyph set
	var names []string
	for n := range src.Glyphs {
		names = append(names, n)
	}
	sort.Strings(names)
	for _, n := range names {
		if _, ok := got.Glyphs[n]; !ok {
			out = append(out, diff("glyph-set", "glyph %q lost", n))
		}
	}
	var gotNames []string
	for n := range got.Glyphs {
		gotNames = append(gotNames, n)
	}
	sort.Strings(gotNames)
	for _, n := range gotNames {
		if _, ok := src.Glyphs[n]; ok {
			continue
		}
		g := got.Glyphs[n]
		if n == ".notdef" && len(g.Cmds) == 0 && len(g.HStem) == 0 && len(g.VStem) == 0 {
			continue // documented implicit .notdef
		}
		out = append(out, diff("glyph-set", "glyph %q appeared", n))
	}
	for _, n := range names {
		g2, ok := got.Glyphs[n]
		if !ok {
			continue
		}
		g1 := src.Glyphs[n]
		if g1.WidthX != g2.WidthX || g1.WidthY != g2.WidthY {
			out = append(out, diff("width", "glyph %q: width (%v,%v) came back as (%v,%v)", n, g1.WidthX, g1.WidthY, g2.WidthX, g2.WidthY))
		}
		if !sameStems(evenPrefix(g1.HStem), g2.HStem) {
			out = append(out, diff("stems", "glyph %q: HStem %v came back as %v", n, g1.HStem, g2.HStem))
		}
		if !sameStems(evenPrefix(g1.VStem), g2.VStem) {
			out = append(out, diff("stems", "glyph %q: VStem %v came back as %v", n, g1.VStem, g2.VStem))
		}
		if d := compareOutline(g1.Cmds, g2.Cmds, tol); d != "" {
			out = append(out, diff("outline", "glyph %q: %s; source %s; result %s", n, d, DumpCmds(g1.Cmds, 60), DumpCmds(g2.Cmds, 60)))
		}
	}
	// encoding
	e1 := EffectiveEncoding(src.Encoding, src.Glyphs)
	e2 := EffectiveEncoding(got.Encoding, got.Glyphs)
	switch {
	case e1 == nil && e2 != nil:
		out = append(out, diff("encoding", "font without encoding came back with one"))
	case e1 != nil && e2 == nil:
		out = append(out, diff("encoding", "encoding lost"))
	case len(e1) != len(e2):
		out = append(out, diff("encoding", "encoding length %d came back as %d", len(e1), len(e2)))
	default:
		for c := range e1 {
			if e1[c] != e2[c] {
				out = append(out, diff("encoding", "code %d: %q came back as %q", c, e1[c], e2[c]))
				break
			}
		}
	}
	// names and strings
	if src.FontName != got.FontName {
		out = append(out, diff("fontname", "FontName %q came back as %q", src.FontName, got.FontName))
	}
	for _, fld := range InfoFields {
		a, b := GetInfoString(src, fld), GetInfoString(got, fld)
		if a != b {
			out = append(out, diff("info-string:"+fld, "%s %q came back as %q", fld, a, b))
		}
	}
	if src.ItalicAngle != got.ItalicAngle {
		out = append(out, diff("info-number:ItalicAngle", "%v came back as %v", src.ItalicAngle, got.ItalicAngle))
	}
	if src.IsFixedPitch != got.IsFixedPitch {
		out = append(out, diff("info-number:isFixedPitch", "%v came back as %v", src.IsFixedPitch, got.IsFixedPitch))
	}
	if src.UnderlinePosition != got.UnderlinePosition {
		out = append(out, diff("info-number:UnderlinePosition", "%v came back as %v", src.UnderlinePosition, got.UnderlinePosition))
	}
	if src.UnderlineThickness != got.UnderlineThickness {
		out = append(out, diff("info-number:UnderlineThickness", "%v came back as %v", src.UnderlineThickness, got.UnderlineThickness))
	}
	if src.FontMatrix != got.FontMatrix {
		out = append(out, diff("font-matrix", "%v came back as %v", src.FontMatrix, got.FontMatrix))
	}
	// private
	p1, p2 := src.Private, got.Private
	if p2 == nil {
		out = append(out, diff("private", "private dictionary lost"))
	} else {
		if !sameStems(p1.BlueValues, p2.BlueValues) {
			out = append(out, diff("private:BlueValues", "%v came back as %v", p1.BlueValues, p2.BlueValues))
		}
		if !sameStems(p1.OtherBlues, p2.OtherBlues) {
			out = append(out, diff("private:OtherBlues", "%v came back as %v", p1.OtherBlues, p2.OtherBlues))
		}
		if p1.BlueScale != p2.BlueScale {
			out = append(out, diff("private:BlueScale", "%v came back as %v", p1.BlueScale, p2.BlueScale))
		}
		if p1.BlueShift != p2.BlueShift {
			out = append(out, diff("private:BlueShift", "%v came back as %v", p1.BlueShift, p2.BlueShift))
		}
		if p1.BlueFuzz != p2.BlueFuzz {
			out = append(out, diff("private:BlueFuzz", "%v came back as %v", p1.BlueFuzz, p2.BlueFuzz))
		}
		if p1.StdHW != p2.StdHW {
			out = append(out, diff("private:StdHW", "%v came back as %v", p1.StdHW, p2.StdHW))
		}
		if p1.StdVW != p2.StdVW {
			out = append(out, diff("private:StdVW", "%v came back as %v", p1.StdVW, p2.StdVW))
		}
		if p1.ForceBold != p2.ForceBold {
			out = append(out, diff("private:ForceBold", "%v came back as %v", p1.ForceBold, p2.ForceBold))
		}
	}
	// creation date
	d1, d2 := src.CreationDate, got.CreationDate
	switch {
	case d1.IsZero() && d2.IsZero():
	case d1.IsZero() != d2.IsZero():
		out = append(out, diff("creation-date", "%s came back as %s", fmtTime(d1), fmtTime(d2)))
	case d1.Unix() != d2.Unix() || d2.Nanosecond() != 0:
		out = append(out, diff("creation-date", "%s came back as %s (instants differ by %d s)", fmtTime(d1), fmtTime(d2), d2.Unix()-d1.Unix()))
	}
	return out
}

func fmtTime(t interface {
	IsZero() bool
	Format(string) string
}) string {
	if t.IsZero() {
		return "the zero time"
	}
	return t.Format("2006-01-02 15:04:05.999999999 -0700 MST")
}

func evenPrefix(s []funit.Int16) []funit.Int16 { return s[:len(s)&^1] }

func sameStems(a, b []funit.Int16) bool {
	if len(a) != len(b) {
		return false
	}
	for i := range a {
		if a[i] != b[i] {
			return false
		}
	}
	return true
}

func compareOutline(a, b []type1.GlyphOp, tol float64) string {
	if len(a) != len(b) {
		return fmt.Sprintf("%d commands came back as %d", len(a), len(b))
	}
	intX, intY := true, true
	for i := range a {
		if a[i].Op != b[i].Op {
			return fmt.Sprintf("command %d: %v came back as %v", i, a[i].Op, b[i].Op)
		}
		if len(a[i].Args) != len(b[i].Args) {
			return fmt.Sprintf("command %d: %d arguments came back as %d", i, len(a[i].Args), len(b[i].Args))
		}
		for k, v := range a[i].Args {
			w := b[i].Args[k]
			exact := &intX
			if k%2 == 1 {
				exact = &intY
			}
			if !isInt(v) {
				*exact = false
			}
			if *exact {
				if v != w {
					return fmt.Sprintf("command %d argument %d: integer coordinate %v came back as %v", i, k, v, w)
				}
			} else if !(math.Abs(v-w) <= tol) {
				return fmt.Sprintf("command %d argument %d: %v came back as %v (off by %g > %g)", i, k, v, w, math.Abs(v-w), tol)
			}
		}
	}
	return ""
}

// ---------------------------------------------------------------------------
// C08: source font versus the independently decoded file

func ratOf(x float64) *big.Rat {
	if x == math.Trunc(x) && math.Abs(x) < 1<<53 {
		return big.NewRat(int64(x), 1)
	}
	r := new(big.Rat)
	r.SetFloat64(x)
	return r
}

var tol214 = big.NewRat(1, 214)

func numEq(v t1dec.Value, want float64) bool {
	return (v.K == t1dec.KInt || v.K == t1dec.KReal) && v.F == want
}

// CompareDecoded checks that the decoded file says what the source font says
// (C08).  Outlines: exact while integer (as in Compare), within 1/214
// otherwise, in exact rational arithmetic.  Advance widths: the writer rounds
// them to integers (documented), so the expected width is round(w).  An
// optional FontInfo / Private entry that is absent from the file stands for
// its default ("" for Notice and Copyright; the Type 1 book's defaults for
// BlueScale 0.039625, BlueShift 7, BlueFuzz 1, ForceBold false; no entry for
// empty BlueValues/OtherBlues and zero StdHW/StdVW).
func CompareDecoded(src *type1.Font, dec *t1dec.Font) []Diff {
	var out []Diff
	if dec.FontName != src.FontName {
		out = append(out, diff("fontname", "FontName %q decoded as %q", src.FontName, dec.FontName))
	}
	// FontInfo strings
	keys := map[string]string{"Version": "version", "Notice": "Notice", "Copyright": "Copyright", "FullName": "FullName", "FamilyName": "FamilyName", "Weight": "Weight"}
	for _, fld := range InfoFields {
		want := GetInfoString(src, fld)
		v, ok := dec.Info.M[keys[fld]]
		switch {
		case !ok && want == "" && (fld == "Notice" || fld == "Copyright"):
		case !ok:
			out = append(out, diff("info-string:"+fld, "/%s missing from FontInfo, source has %q", keys[fld], want))
		case v.K != t1dec.KString:
			out = append(out, diff("info-string:"+fld, "/%s is %s", keys[fld], v))
		case v.S != want:
			out = append(out, diff("info-string:"+fld, "%s %q decoded as %q", fld, want, v.S))
		}
	}
	num := func(d *t1dec.Dict, class, key string, want float64) {
		v, ok := d.M[key]
		if !ok {
			out = append(out, diff(class+key, "/%s missing, source has %v", key, want))
		} else if !numEq(v, want) {
			out = append(out, diff(class+key, "/%s %v decoded as %s", key, want, v))
		}
	}
	num(dec.Info, "info-number:", "ItalicAngle", src.ItalicAngle)
	num(dec.Info, "info-number:", "UnderlinePosition", float64(src.UnderlinePosition))
	num(dec.Info, "info-number:", "UnderlineThickness", float64(src.UnderlineThickness))
	if v, ok := dec.Info.M["isFixedPitch"]; !ok || v.K != t1dec.KBool || v.B != src.IsFixedPitch {
		out = append(out, diff("info-number:isFixedPitch", "isFixedPitch %v decoded as %s (present %v)", src.IsFixedPitch, v, ok))
	}
	// top-level entries
	if v := dec.Top.M["FontType"]; v.K != t1dec.KInt || v.I != 1 {
		out = append(out, diff("top:FontType", "FontType is %s", v))
	}
	if v := dec.Top.M["PaintType"]; v.K != t1dec.KInt || v.I != 0 {
		out = append(out, diff("top:PaintType", "PaintType is %s", v))
	}
	if v := dec.Top.M["FontMatrix"]; v.K != t1dec.KArray || len(v.A.E) != 6 {
		out = append(out, diff("font-matrix", "FontMatrix is %s", v))
	} else {
		for i, e := range v.A.E {
			if !numEq(e, src.FontMatrix[i]) {
				out = append(out, diff("font-matrix", "FontMatrix %v decoded as %s", src.FontMatrix, v))
				break
			}
		}
	}
	if v := dec.Top.M["FontBBox"]; v.K != t1dec.KArray || len(v.A.E) != 4 {
		out = append(out, diff("top:FontBBox", "FontBBox is %s", v))
	} else {
		for _, e := range v.A.E {
			if e.K != t1dec.KInt && e.K != t1dec.KReal {
				out = append(out, diff("top:FontBBox", "FontBBox is %s", v))
				break
			}
		}
	}
	// encoding: a name that is not a glyph of the font selects .notdef, in
	// the source as in the file
	switch {
	case src.Encoding == nil && dec.Encoding != nil:
		out = append(out, diff("encoding", "font without encoding written with one"))
	case src.Encoding != nil && dec.Encoding == nil:
		out = append(out, diff("encoding", "encoding not written"))
	case src.Encoding != nil:
		e1 := EffectiveEncoding(src.Encoding, src.Glyphs)
		e2 := EffectiveEncoding(dec.Encoding, src.Glyphs)
		for c := range e1 {
			if e1[c] != e2[c] {
				out = append(out, diff("encoding", "code %d: %q decoded as %q (file uses the StandardEncoding keyword: %v)", c, e1[c], e2[c], dec.IsStdEnc))
				break
			}
		}
	}
	// private
	p := src.Private
	ints := func(key string, want []funit.Int16) {
		v, ok := dec.Private.M[key]
		if !ok {
			if len(want) != 0 {
				out = append(out, diff("private:"+key, "/%s missing, source has %v", key, want))
			}
			return
		}
		if v.K != t1dec.KArray || len(v.A.E) != len(want) {
			out = append(out, diff("private:"+key, "%v decoded as %s", want, v))
			return
		}
		for i, e := range v.A.E {
			if e.K != t1dec.KInt || e.I != int64(want[i]) {
				out = append(out, diff("private:"+key, "%v decoded as %s", want, v))
				return
			}
		}
	}
	ints("BlueValues", p.BlueValues)
	ints("OtherBlues", p.OtherBlues)
	optNum := func(key string, want, def float64, slack float64) {
		v, ok := dec.Private.M[key]
		if !ok {
			if math.Abs(want-def) > slack {
				out = append(out, diff("private:"+key, "/%s missing (default %v), source has %v", key, def, want))
			}
			return
		}
		if !numEq(v, want) {
			out = append(out, diff("private:"+key, "%v decoded as %s", want, v))
		}
	}
	// BlueScale within 1e-6 of the default may be left out (documented
	// quantisation of the writer)
	optNum("BlueScale", p.BlueScale, 0.039625, 1.0000001e-6)
	optNum("BlueShift", float64(p.BlueShift), 7, 0)
	optNum("BlueFuzz", float64(p.BlueFuzz), 1, 0)
	std := func(key string, want float64) {
		v, ok := dec.Private.M[key]
		if !ok {
			if want != 0 {
				out = append(out, diff("private:"+key, "/%s missing, source has %v", key, want))
			}
			return
		}
		if v.K != t1dec.KArray || len(v.A.E) != 1 || !numEq(v.A.E[0], want) {
			out = append(out, diff("private:"+key, "%v decoded as %s", want, v))
		}
	}
	std("StdHW", p.StdHW)
	std("StdVW", p.StdVW)
	if v, ok := dec.Private.M["ForceBold"]; ok {
		if v.K != t1dec.KBool || v.B != p.ForceBold {
			out = append(out, diff("private:ForceBold", "%v decoded as %s", p.ForceBold, v))
		}
	} else if p.ForceBold {
		out = append(out, diff("private:ForceBold", "ForceBold true not written"))
	}
	if v, ok := dec.Private.M["password"]; !ok || v.K != t1dec.KInt || v.I != 5839 {
		out = append(out, diff("private:password", "password is %s (present %v), the Type 1 book requires 5839", v, ok))
	}
	if v, ok := dec.Private.M["MinFeature"]; !ok || v.String() != "{16 16}" {
		out = append(out, diff("private:MinFeature", "MinFeature is %s (present %v), the Type 1 book requires {16 16}", v, ok))
	}
	// glyphs
	var names []string
	for n := range src.Glyphs {
		names = append(names, n)
	}
	sort.Strings(names)
	for _, n := range names {
		if _, ok := dec.Glyphs[n]; !ok {
			out = append(out, diff("glyph-set", "glyph %q not in the file", n))
		}
	}
	for _, n := range dec.SortedGlyphNames() {
		if _, ok := src.Glyphs[n]; !ok {
			out = append(out, diff("glyph-set", "file has glyph %q which the font does not have", n))
		}
	}
	for _, n := range names {
		d, ok := dec.Glyphs[n]
		if !ok {
			continue
		}
		g := src.Glyphs[n]
		if !roundedTo(g.WidthX, d.WX) || !roundedTo(g.WidthY, d.WY) {
			out = append(out, diff("width", "glyph %q: width (%v,%v) decoded as (%s,%s), expected the nearest integers", n, g.WidthX, g.WidthY, d.WX.RatString(), d.WY.RatString()))
		}
		if d.SBX.Sign() != 0 || d.SBY.Sign() != 0 {
			out = append(out, diff("sidebearing", "glyph %q: side bearing point (%s,%s), the outline is in absolute coordinates so it must be 0", n, d.SBX.RatString(), d.SBY.RatString()))
		}
		if s := stemDiff(evenPrefix(g.HStem), d.HStem); s != "" {
			out = append(out, diff("stems", "glyph %q: HStem %v decoded as %s", n, g.HStem, s))
		}
		if s := stemDiff(evenPrefix(g.VStem), d.VStem); s != "" {
			out = append(out, diff("stems", "glyph %q: VStem %v decoded as %s", n, g.VStem, s))
		}
		if s := CompareOutlineDecoded(g.Cmds, d.Cmds, tol214); s != "" {
			out = append(out, diff("outline", "glyph %q: %s; source %s; decoded %s", n, s, DumpCmds(g.Cmds, 60), DumpDecoded(d.Cmds, 60)))
		}
	}
	return out
}

// roundedTo: got is an integer nearest to w (either neighbour on a tie).
func roundedTo(w float64, got *big.Rat) bool {
	if !got.IsInt() {
		return false
	}
	d := new(big.Rat).Sub(ratOf(w), got)
	return d.Abs(d).Cmp(big.NewRat(1, 2)) <= 0
}

func stemDiff(want []funit.Int16, got []t1dec.Stem) string {
	bad := len(want) != 2*len(got)
	for i := 0; !bad && i < len(got); i++ {
		if got[i].From.Cmp(big.NewRat(int64(want[2*i]), 1)) != 0 || got[i].To.Cmp(big.NewRat(int64(want[2*i+1]), 1)) != 0 {
			bad = true
		}
	}
	if !bad {
		return ""
	}
	s := "["
	for _, st := range got {
		s += st.From.RatString() + ".." + st.To.RatString() + " "
	}
	return s + "]"
}

// CompareOutlineDecoded compares a source path with an independently decoded
// one: same commands; coordinates exact while integer, within tol otherwise.
func CompareOutlineDecoded(a []type1.GlyphOp, b []t1dec.Cmd, tol *big.Rat) string {
	if len(a) != len(b) {
		return fmt.Sprintf("%d commands decoded as %d", len(a), len(b))
	}
	opc := map[type1.GlyphOpType]byte{type1.OpMoveTo: 'm', type1.OpLineTo: 'l', type1.OpCurveTo: 'c', type1.OpClosePath: 'z'}
	intX, intY := true, true
	for i := range a {
		if opc[a[i].Op] != b[i].Op {
			return fmt.Sprintf("command %d: %v decoded as %c", i, a[i].Op, b[i].Op)
		}
		if len(a[i].Args) != len(b[i].Args) {
			return fmt.Sprintf("command %d: %d arguments decoded as %d", i, len(a[i].Args), len(b[i].Args))
		}
		for k, v := range a[i].Args {
			w := b[i].Args[k]
			exact := &intX
			if k%2 == 1 {
				exact = &intY
			}
			if !isInt(v) {
				*exact = false
			}
			if *exact && math.Abs(v) < 1<<53 {
				if !(w.IsInt() && w.Num().IsInt64() && w.Num().Int64() == int64(v)) {
					return fmt.Sprintf("command %d argument %d: integer coordinate %v decoded as %s", i, k, v, w.RatString())
				}
				continue
			}
			want := ratOf(v)
			if *exact {
				if want.Cmp(w) != 0 {
					return fmt.Sprintf("command %d argument %d: integer coordinate %v decoded as %s", i, k, v, w.RatString())
				}
			} else {
				d := new(big.Rat).Sub(want, w)
				d.Abs(d)
				if d.Cmp(tol) > 0 {
					f, _ := d.Float64()
					return fmt.Sprintf("command %d argument %d: %v decoded as %s (off by %.6g > %s)", i, k, v, w.RatString(), f, tol.RatString())
				}
			}
		}
	}
	return ""
}

// DumpDecoded renders a decoded path.
func DumpDecoded(cmds []t1dec.Cmd, limit int) string {
	s := ""
	for i, c := range cmds {
		if i >= limit {
			s += fmt.Sprintf("…(%d ops)", len(cmds))
			break
		}
		s += string(c.Op-32) + "["
		for k, a := range c.Args {
			if k > 0 {
				s += " "
			}
			s += a.RatString()
		}
		s += "] "
	}
	return s
}
