package t1model

import (
	"fmt"
	"math"
	"sort"
	"strings"
	"time"

	"seehuhn.de/go/postscript/type1"
)

// Path operation codes of the expected command lists.
const (
	OpMoveTo = iota + 1
	OpLineTo
	OpCurveTo
	OpClosePath
)

// ExpCmd is one expected path command in absolute coordinates.
type ExpCmd struct {
	Op   int
	Args []float64
}

// ExpGlyph is what reading must return for one glyph.
type ExpGlyph struct {
	Cmds           []ExpCmd
	HStem, VStem   []int
	WidthX, WidthY float64
	// Exact: all of the glyph's numbers are integers or small dyadic
	// fractions, so every float sum the reader may form is exact and the
	// comparison is by equality; otherwise the tolerance is 1e-9.
	Exact bool
}

// Expected is what reading a conforming serialisation of a model font must return.
type Expected struct {
	Glyphs   map[string]*ExpGlyph
	Encoding [256]string

	FontName                                                 string
	Version, Notice, Copyright, FullName, FamilyName, Weight string
	ItalicAngle                                              float64
	IsFixedPitch                                             bool
	UnderlinePosition, UnderlineThickness                    float64
	FontMatrix                                               [6]float64

	BlueValues, OtherBlues []int
	BlueScale              float64
	BlueShift, BlueFuzz    int
	StdHW, StdVW           float64
	ForceBold              bool

	HasDate bool
	Date    time.Time
}

// Tol is the tolerance for coordinates whose float sums are not exact.
const Tol = 1e-9

func ptArgs(ps ...Pt) []float64 {
	out := make([]float64, 0, 2*len(ps))
	for _, p := range ps {
		out = append(out, p.X.Float(), p.Y.Float())
	}
	return out
}

func (g *Glyph) exact() bool {
	ok := g.Sbx.Dyadic() && g.Sby.Dyadic() && g.WidthX.Dyadic() && g.WidthY.Dyadic()
	for _, c := range g.Contours {
		ok = ok && c.Start.X.Dyadic() && c.Start.Y.Dyadic()
		for _, s := range c.Segs {
			n := 1
			if s.Kind == Curve {
				n = 3
			}
			for i := 0; i < n; i++ {
				ok = ok && s.P[i].X.Dyadic() && s.P[i].Y.Dyadic()
			}
		}
	}
	return ok
}

// outline returns the path commands of a simple glyph shifted by (dx,dy).
func (g *Glyph) outline(dx, dy Q) []ExpCmd {
	var cmds []ExpCmd
	for _, c := range g.Contours {
		cmds = append(cmds, ExpCmd{OpMoveTo, ptArgs(c.Start.shift(dx, dy))})
		for _, s := range c.Segs {
			if s.Kind == Line {
				cmds = append(cmds, ExpCmd{OpLineTo, ptArgs(s.P[0].shift(dx, dy))})
			} else {
				cmds = append(cmds, ExpCmd{OpCurveTo, ptArgs(s.P[0].shift(dx, dy), s.P[1].shift(dx, dy), s.P[2].shift(dx, dy))})
			}
		}
		cmds = append(cmds, ExpCmd{Op: OpClosePath})
	}
	return cmds
}

func stemEdges(st []Stem) []int {
	var out []int
	for _, s := range st {
		out = append(out, s.Lo, s.Hi)
	}
	return out
}

// Quirks describes the exact effect of a known defect of the reader on the
// expectation.  It is used only to classify a violation as a known finding
// (the violation must then equal the prediction in every field); the
// property's oracle is Expected() without quirks.
type Quirks struct {
	// ExtraClosepathBefore: glyph name -> indexes into the glyph's correct
	// command list before which the reader emits a spurious closepath.
	ExtraClosepathBefore map[string][]int
	// SeacDropAccentClosepath: composites lack the closepaths of the accent.
	SeacDropAccentClosepath bool
}

func insertClosepaths(cmds []ExpCmd, before []int) []ExpCmd {
	if len(before) == 0 {
		return cmds
	}
	at := map[int]bool{}
	for _, i := range before {
		at[i] = true
	}
	var out []ExpCmd
	for i, c := range cmds {
		if at[i] {
			out = append(out, ExpCmd{Op: OpClosePath})
		}
		out = append(out, c)
	}
	return out
}

// Expected computes what the reader must return.
func (m *Font) Expected() *Expected { return m.ExpectedWith(nil) }

// ExpectedWith computes the expectation under the given quirks (nil = none).
func (m *Font) ExpectedWith(qk *Quirks) *Expected {
	if qk == nil {
		qk = &Quirks{}
	}
	e := &Expected{Glyphs: map[string]*ExpGlyph{}}
	simple := func(g *Glyph, dx, dy Q) []ExpCmd {
		return insertClosepaths(g.outline(dx, dy), qk.ExtraClosepathBefore[g.Name])
	}
	for _, g := range m.Glyphs {
		eg := &ExpGlyph{WidthX: g.WidthX.Float(), WidthY: g.WidthY.Float(), Exact: g.exact()}
		if g.Comp == nil {
			eg.Cmds = simple(g, I(0), I(0))
			eg.HStem = stemEdges(g.HStems)
			eg.VStem = stemEdges(g.VStems)
		} else {
			// Type 1 book, seac: base character at the origin followed by
			// the accent displaced by (adx, ady) (the generators only make
			// composites with asb equal to the composite's side bearing, so
			// both readings of the displacement coincide).  The composite's
			// own hsbw equals the base character's, as the book requires.
			base, acc := m.Glyph(g.Comp.Base), m.Glyph(g.Comp.Accent)
			eg.Cmds = simple(base, I(0), I(0))
			for _, c := range simple(acc, g.Comp.Adx, g.Comp.Ady) {
				if c.Op == OpClosePath && qk.SeacDropAccentClosepath {
					continue
				}
				eg.Cmds = append(eg.Cmds, c)
			}
			eg.HStem = stemEdges(base.HStems)
			eg.VStem = stemEdges(base.VStems)
			eg.Exact = base.exact() && acc.exact() && g.Comp.Adx.Dyadic() && g.Comp.Ady.Dyadic() && eg.Exact
		}
		e.Glyphs[g.Name] = eg
	}
	names := m.EncodingNames()
	for i, n := range names {
		if _, ok := e.Glyphs[n]; ok && n != "" {
			e.Encoding[i] = n
		} else {
			e.Encoding[i] = ".notdef"
		}
	}
	e.FontName = m.FontName
	e.Version, e.Notice, e.Copyright = m.Info.Version, m.Info.Notice, m.Info.Copyright
	e.FullName, e.FamilyName, e.Weight = m.Info.FullName, m.Info.FamilyName, m.Info.Weight
	e.ItalicAngle = m.Info.ItalicAngle
	e.IsFixedPitch = m.Info.IsFixedPitch
	e.UnderlinePosition, e.UnderlineThickness = m.Info.UnderlinePosition, m.Info.UnderlineThickness
	e.FontMatrix = m.FontMatrix

	p := m.Private
	e.BlueValues, e.OtherBlues = p.BlueValues, p.OtherBlues
	e.BlueScale, e.BlueShift, e.BlueFuzz = DefaultBlueScale, DefaultBlueShift, DefaultBlueFuzz
	if p.BlueScale != nil {
		e.BlueScale = *p.BlueScale
	}
	if p.BlueShift != nil {
		e.BlueShift = *p.BlueShift
	}
	if p.BlueFuzz != nil {
		e.BlueFuzz = *p.BlueFuzz
	}
	e.StdHW, e.StdVW = p.StdHW, p.StdVW
	if p.ForceBold != nil {
		e.ForceBold = *p.ForceBold
	}
	if m.Date != nil {
		e.HasDate = true
		e.Date = m.Date.Time()
	}
	return e
}

// Clone returns a deep copy (used by checks to predict the effect of a known defect).
func (e *Expected) Clone() *Expected {
	c := *e
	c.Glyphs = map[string]*ExpGlyph{}
	for n, g := range e.Glyphs {
		g2 := *g
		g2.Cmds = append([]ExpCmd(nil), g.Cmds...)
		c.Glyphs[n] = &g2
	}
	return &c
}

// Diff is one field in which the library's font differs from the expectation.
type Diff struct {
	Field string // stable class: glyph-set, cmds, widthX, widthY, hstem, vstem, encoding, info.X, private.X, fontname, fontmatrix, date
	Glyph string
	Want  string
	Got   string
}

func (d Diff) String() string {
	s := d.Field
	if d.Glyph != "" {
		s += "[" + d.Glyph + "]"
	}
	return s + ": want " + d.Want + ", got " + d.Got
}

func fmtCmds(cmds []ExpCmd) string {
	var sb strings.Builder
	for i, c := range cmds {
		if i > 0 {
			sb.WriteByte(' ')
		}
		switch c.Op {
		case OpMoveTo:
			sb.WriteByte('M')
		case OpLineTo:
			sb.WriteByte('L')
		case OpCurveTo:
			sb.WriteByte('C')
		case OpClosePath:
			sb.WriteByte('Z')
		default:
			fmt.Fprintf(&sb, "?%d", c.Op)
		}
		for j, a := range c.Args {
			if j > 0 {
				sb.WriteByte(',')
			}
			fmt.Fprintf(&sb, "%.12g", a)
		}
	}
	return sb.String()
}

// LibCmds converts the library's command list into the neutral form.
func LibCmds(cmds []type1.GlyphOp) []ExpCmd {
	out := make([]ExpCmd, len(cmds))
	for i, c := range cmds {
		op := 0
		switch c.Op {
		case type1.OpMoveTo:
			op = OpMoveTo
		case type1.OpLineTo:
			op = OpLineTo
		case type1.OpCurveTo:
			op = OpCurveTo
		case type1.OpClosePath:
			op = OpClosePath
		default:
			op = 100 + int(c.Op)
		}
		out[i] = ExpCmd{op, c.Args}
	}
	return out
}

func nargs(op int) int {
	switch op {
	case OpMoveTo, OpLineTo:
		return 2
	case OpCurveTo:
		return 6
	}
	return 0
}

// CmdsEqual compares two command lists with absolute tolerance tol (0 = exact).
func CmdsEqual(a, b []ExpCmd, tol float64) bool {
	if len(a) != len(b) {
		return false
	}
	for i := range a {
		if a[i].Op != b[i].Op {
			return false
		}
		n := nargs(a[i].Op)
		if len(a[i].Args) < n || len(b[i].Args) != n {
			return false
		}
		for j := 0; j < n; j++ {
			if !numEq(a[i].Args[j], b[i].Args[j], tol) {
				return false
			}
		}
	}
	return true
}

func numEq(a, b, tol float64) bool {
	if math.IsNaN(a) || math.IsNaN(b) {
		return false
	}
	if tol == 0 {
		return a == b
	}
	return math.Abs(a-b) <= tol
}

func intsEq[T ~int16 | ~int32 | ~int](want []int, got []T) bool {
	if len(want) != len(got) {
		return false
	}
	for i := range want {
		if int(got[i]) != want[i] {
			return false
		}
	}
	return true
}

// Compare checks the font returned by type1.Read against the expectation,
// field by field.  The result is empty when everything agrees.
func (e *Expected) Compare(f *type1.Font) []Diff {
	var ds []Diff
	add := func(field, glyph string, want, got any) {
		ds = append(ds, Diff{field, glyph, fmt.Sprint(want), fmt.Sprint(got)})
	}
	if f == nil || f.FontInfo == nil || f.Private == nil {
		add("nil-parts", "", "font with FontInfo and Private", "nil")
		return ds
	}
	// glyph set
	var wantNames, gotNames []string
	for n := range e.Glyphs {
		wantNames = append(wantNames, n)
	}
	for n := range f.Glyphs {
		gotNames = append(gotNames, n)
	}
	sort.Strings(wantNames)
	sort.Strings(gotNames)
	if strings.Join(wantNames, " ") != strings.Join(gotNames, " ") {
		add("glyph-set", "", wantNames, gotNames)
	}
	for _, n := range wantNames {
		w := e.Glyphs[n]
		g := f.Glyphs[n]
		if g == nil {
			continue
		}
		tol := Tol
		if w.Exact {
			tol = 0
		}
		if got := LibCmds(g.Cmds); !CmdsEqual(w.Cmds, got, tol) {
			add("cmds", n, fmtCmds(w.Cmds), fmtCmds(got))
		}
		if !numEq(w.WidthX, g.WidthX, tol) {
			add("widthX", n, w.WidthX, g.WidthX)
		}
		if !numEq(w.WidthY, g.WidthY, tol) {
			add("widthY", n, w.WidthY, g.WidthY)
		}
		if !intsEq(w.HStem, g.HStem) {
			add("hstem", n, w.HStem, g.HStem)
		}
		if !intsEq(w.VStem, g.VStem) {
			add("vstem", n, w.VStem, g.VStem)
		}
	}
	// encoding: all 256 slots
	if len(f.Encoding) != 256 {
		add("encoding", "", "256 slots", fmt.Sprintf("%d slots", len(f.Encoding)))
	} else {
		for i := 0; i < 256; i++ {
			if f.Encoding[i] != e.Encoding[i] {
				add("encoding", "", fmt.Sprintf("code %d -> %q", i, e.Encoding[i]), fmt.Sprintf("%q", f.Encoding[i]))
				break
			}
		}
	}
	str := func(field, want, got string) {
		if want != got {
			add(field, "", fmt.Sprintf("%q", want), fmt.Sprintf("%q", got))
		}
	}
	str("fontname", e.FontName, f.FontName)
	str("info.Version", e.Version, f.Version)
	str("info.Notice", e.Notice, f.Notice)
	str("info.Copyright", e.Copyright, f.Copyright)
	str("info.FullName", e.FullName, f.FullName)
	str("info.FamilyName", e.FamilyName, f.FamilyName)
	str("info.Weight", e.Weight, f.Weight)
	if e.ItalicAngle != f.ItalicAngle {
		add("info.ItalicAngle", "", e.ItalicAngle, f.ItalicAngle)
	}
	if e.IsFixedPitch != f.IsFixedPitch {
		add("info.isFixedPitch", "", e.IsFixedPitch, f.IsFixedPitch)
	}
	if e.UnderlinePosition != float64(f.UnderlinePosition) {
		add("info.UnderlinePosition", "", e.UnderlinePosition, f.UnderlinePosition)
	}
	if e.UnderlineThickness != float64(f.UnderlineThickness) {
		add("info.UnderlineThickness", "", e.UnderlineThickness, f.UnderlineThickness)
	}
	for i := 0; i < 6; i++ {
		if e.FontMatrix[i] != f.FontMatrix[i] {
			add("fontmatrix", "", e.FontMatrix, f.FontMatrix)
			break
		}
	}
	p := f.Private
	if !intsEq(e.BlueValues, p.BlueValues) {
		add("private.BlueValues", "", e.BlueValues, p.BlueValues)
	}
	if !intsEq(e.OtherBlues, p.OtherBlues) {
		add("private.OtherBlues", "", e.OtherBlues, p.OtherBlues)
	}
	if e.BlueScale != p.BlueScale {
		add("private.BlueScale", "", e.BlueScale, p.BlueScale)
	}
	if e.BlueShift != int(p.BlueShift) {
		add("private.BlueShift", "", e.BlueShift, p.BlueShift)
	}
	if e.BlueFuzz != int(p.BlueFuzz) {
		add("private.BlueFuzz", "", e.BlueFuzz, p.BlueFuzz)
	}
	if e.StdHW != p.StdHW {
		add("private.StdHW", "", e.StdHW, p.StdHW)
	}
	if e.StdVW != p.StdVW {
		add("private.StdVW", "", e.StdVW, p.StdVW)
	}
	if e.ForceBold != p.ForceBold {
		add("private.ForceBold", "", e.ForceBold, p.ForceBold)
	}
	if e.HasDate {
		_, wo := e.Date.Zone()
		_, gotOff := f.CreationDate.Zone()
		if !f.CreationDate.Equal(e.Date) || wo != gotOff {
			add("date", "", e.Date.Format(time.RFC3339), f.CreationDate.Format(time.RFC3339))
		}
	} else if !f.CreationDate.IsZero() {
		add("date", "", "zero time", f.CreationDate.Format(time.RFC3339))
	}
	return ds
}
