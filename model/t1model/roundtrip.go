package t1model

import (
	"fmt"
	"math"
	"sort"
	"strings"
	"time"

	"seehuhn.de/go/postscript/type1"
)

// Documented quantisations of the library's writer (property C10).
const (
	CoordQuantum   = 1.0 / 214 // coordinates are written as p/q with q <= 107
	BlueScaleSnap  = 1e-6      // BlueScale within 1e-6 of the default is not written
	floatSlack     = 1e-12
	widthHalfUnit  = 0.5
	blueScaleSlack = 1e-12
)

// CompareFonts compares two fonts returned by type1.Read.  With quant=false
// every field must be equal.  With quant=true (first write/read cycle) b may
// differ from a by the three documented quantisations only: advance widths
// rounded to whole units, coordinates within 1/214, BlueScale replaced by the
// default when within 1e-6 of it.
func CompareFonts(a, b *type1.Font, quant bool) []Diff {
	var ds []Diff
	add := func(field, glyph string, want, got any) {
		ds = append(ds, Diff{field, glyph, fmt.Sprint(want), fmt.Sprint(got)})
	}
	if a == nil || b == nil || a.FontInfo == nil || b.FontInfo == nil || a.Private == nil || b.Private == nil {
		add("nil-parts", "", "complete fonts", "nil part")
		return ds
	}
	var an, bn []string
	for n := range a.Glyphs {
		an = append(an, n)
	}
	for n := range b.Glyphs {
		bn = append(bn, n)
	}
	sort.Strings(an)
	sort.Strings(bn)
	if strings.Join(an, "\x00") != strings.Join(bn, "\x00") {
		add("glyph-set", "", fmt.Sprintf("%q", an), fmt.Sprintf("%q", bn))
	}
	width := func(field, n string, x, y float64) {
		if x == y {
			return
		}
		if quant && y == math.Trunc(y) && math.Abs(x-y) <= widthHalfUnit {
			return
		}
		add(field, n, x, y)
	}
	for _, n := range an {
		ga, gb := a.Glyphs[n], b.Glyphs[n]
		if ga == nil || gb == nil {
			if (ga == nil) != (gb == nil) {
				add("glyph-nil", n, ga != nil, gb != nil)
			}
			continue
		}
		tol := 0.0
		if quant {
			tol = CoordQuantum + floatSlack
		}
		ca, cb := LibCmds(ga.Cmds), LibCmds(gb.Cmds)
		if !CmdsEqual(ca, cb, tol) {
			add("cmds", n, fmtCmds(ca), fmtCmds(cb))
		}
		width("widthX", n, ga.WidthX, gb.WidthX)
		width("widthY", n, ga.WidthY, gb.WidthY)
		if fmt.Sprint(ga.HStem) != fmt.Sprint(gb.HStem) {
			add("hstem", n, ga.HStem, gb.HStem)
		}
		if fmt.Sprint(ga.VStem) != fmt.Sprint(gb.VStem) {
			add("vstem", n, ga.VStem, gb.VStem)
		}
	}
	if len(a.Encoding) != len(b.Encoding) {
		add("encoding", "", fmt.Sprintf("%d slots", len(a.Encoding)), fmt.Sprintf("%d slots", len(b.Encoding)))
	} else {
		for i := range a.Encoding {
			if a.Encoding[i] != b.Encoding[i] {
				add("encoding", "", fmt.Sprintf("code %d -> %q", i, a.Encoding[i]), fmt.Sprintf("%q", b.Encoding[i]))
				break
			}
		}
	}
	str := func(field, x, y string) {
		if x != y {
			add(field, "", fmt.Sprintf("%q", x), fmt.Sprintf("%q", y))
		}
	}
	num := func(field string, x, y float64) {
		if x != y {
			add(field, "", x, y)
		}
	}
	str("fontname", a.FontName, b.FontName)
	str("info.Version", a.Version, b.Version)
	str("info.Notice", a.Notice, b.Notice)
	str("info.Copyright", a.Copyright, b.Copyright)
	str("info.FullName", a.FullName, b.FullName)
	str("info.FamilyName", a.FamilyName, b.FamilyName)
	str("info.Weight", a.Weight, b.Weight)
	num("info.ItalicAngle", a.ItalicAngle, b.ItalicAngle)
	if a.IsFixedPitch != b.IsFixedPitch {
		add("info.isFixedPitch", "", a.IsFixedPitch, b.IsFixedPitch)
	}
	num("info.UnderlinePosition", float64(a.UnderlinePosition), float64(b.UnderlinePosition))
	num("info.UnderlineThickness", float64(a.UnderlineThickness), float64(b.UnderlineThickness))
	if a.FontMatrix != b.FontMatrix {
		add("fontmatrix", "", a.FontMatrix, b.FontMatrix)
	}
	pa, pb := a.Private, b.Private
	if fmt.Sprint(pa.BlueValues) != fmt.Sprint(pb.BlueValues) {
		add("private.BlueValues", "", pa.BlueValues, pb.BlueValues)
	}
	if fmt.Sprint(pa.OtherBlues) != fmt.Sprint(pb.OtherBlues) {
		add("private.OtherBlues", "", pa.OtherBlues, pb.OtherBlues)
	}
	if pa.BlueScale != pb.BlueScale {
		snapped := quant && pb.BlueScale == DefaultBlueScale && math.Abs(pa.BlueScale-DefaultBlueScale) <= BlueScaleSnap+blueScaleSlack
		if !snapped {
			add("private.BlueScale", "", pa.BlueScale, pb.BlueScale)
		}
	}
	if pa.BlueShift != pb.BlueShift {
		add("private.BlueShift", "", pa.BlueShift, pb.BlueShift)
	}
	if pa.BlueFuzz != pb.BlueFuzz {
		add("private.BlueFuzz", "", pa.BlueFuzz, pb.BlueFuzz)
	}
	num("private.StdHW", pa.StdHW, pb.StdHW)
	num("private.StdVW", pa.StdVW, pb.StdVW)
	if pa.ForceBold != pb.ForceBold {
		add("private.ForceBold", "", pa.ForceBold, pb.ForceBold)
	}
	_, oa := a.CreationDate.Zone()
	_, ob := b.CreationDate.Zone()
	if !a.CreationDate.Equal(b.CreationDate) || oa != ob || a.CreationDate.IsZero() != b.CreationDate.IsZero() {
		add("date", "", a.CreationDate.Format(time.RFC3339Nano), b.CreationDate.Format(time.RFC3339Nano))
	}
	return ds
}

// FiniteFont reports whether all numbers of the font are finite (the
// property's precondition).
func FiniteFont(f *type1.Font) bool {
	ok := func(x float64) bool { return !math.IsNaN(x) && !math.IsInf(x, 0) }
	if !ok(f.ItalicAngle) || !ok(float64(f.UnderlinePosition)) || !ok(float64(f.UnderlineThickness)) ||
		!ok(f.Private.BlueScale) || !ok(f.Private.StdHW) || !ok(f.Private.StdVW) {
		return false
	}
	for _, v := range f.FontMatrix {
		if !ok(v) {
			return false
		}
	}
	for _, g := range f.Glyphs {
		if !ok(g.WidthX) || !ok(g.WidthY) {
			return false
		}
		for _, c := range g.Cmds {
			for _, v := range c.Args {
				if !ok(v) {
					return false
				}
			}
		}
	}
	return true
}
