// Package t1model is the reference description of a Type 1 font used by the
// C06 and C10 checks: what a font *is* (outlines in absolute coordinates,
// metrics, stems as absolute edges, encoding, FontInfo, Private, creation
// date), independent of how it is written down.  The package also contains the
// exhaustive generators of small model fonts and the field-by-field comparer
// against the *type1.Font returned by the library.
//
// Everything here is written from the Adobe Type 1 Font Format book; nothing
// is derived from the library's reader or writer.
package t1model

import (
	"fmt"
	"strings"
	"time"
)

// Q is an exact rational number P/D with D > 0 in lowest terms.
type Q struct{ P, D int64 }

func gcd(a, b int64) int64 {
	if a < 0 {
		a = -a
	}
	if b < 0 {
		b = -b
	}
	for b != 0 {
		a, b = b, a%b
	}
	return a
}

// R returns p/q in lowest terms.
func R(p, q int64) Q {
	if q == 0 {
		panic("t1model: zero denominator")
	}
	if q < 0 {
		p, q = -p, -q
	}
	g := gcd(p, q)
	if g > 1 {
		p /= g
		q /= g
	}
	return Q{p, q}
}

// I returns the integer n as a rational.
func I(n int64) Q { return Q{n, 1} }

func (a Q) Add(b Q) Q   { return R(a.P*b.D+b.P*a.D, a.D*b.D) }
func (a Q) Sub(b Q) Q   { return R(a.P*b.D-b.P*a.D, a.D*b.D) }
func (a Q) IsInt() bool { return a.D == 1 }
func (a Q) IsZero() bool {
	return a.P == 0
}
func (a Q) Eq(b Q) bool { return a.P == b.P && a.D == b.D }

// Float is the nearest float64 (one correctly rounded division).
func (a Q) Float() float64 { return float64(a.P) / float64(a.D) }

// Dyadic reports whether the denominator is a small power of two, so that
// every partial sum of such numbers of moderate size is exact in float64.
func (a Q) Dyadic() bool {
	d := a.D
	return d&(d-1) == 0 && d <= 1024 && a.P < 1<<30 && a.P > -(1<<30)
}

func (a Q) String() string {
	if a.D == 1 {
		return fmt.Sprint(a.P)
	}
	return fmt.Sprintf("%d/%d", a.P, a.D)
}

// Pt is a point in character space (absolute coordinates).
type Pt struct{ X, Y Q }

func P(x, y int64) Pt { return Pt{I(x), I(y)} }

func (p Pt) String() string { return "(" + p.X.String() + "," + p.Y.String() + ")" }

func (p Pt) shift(dx, dy Q) Pt { return Pt{p.X.Add(dx), p.Y.Add(dy)} }

// SegKind distinguishes straight and curved segments.
type SegKind int

const (
	Line SegKind = iota
	Curve
)

// Seg is one segment of a contour in absolute coordinates.  A Line uses P[0]
// (its end point); a Curve uses P[0], P[1] (control points) and P[2] (end
// point).
//
// FlexOK marks a curve which, together with the curve that follows it in the
// same contour, satisfies the geometric conditions of the Type 1 book for
// being expressed as a flex (outer end points on one horizontal or vertical
// line, joining point an extremum with a horizontal/vertical tangent, depth at
// most 20 units).  Whether it *is* written as a flex is a serialisation
// choice.  FlexVertical tells the orientation.
type Seg struct {
	Kind         SegKind
	P            [3]Pt
	FlexOK       bool
	FlexVertical bool
}

func L(x, y int64) Seg { return Seg{Kind: Line, P: [3]Pt{P(x, y)}} }
func C(x1, y1, x2, y2, x3, y3 int64) Seg {
	return Seg{Kind: Curve, P: [3]Pt{P(x1, y1), P(x2, y2), P(x3, y3)}}
}

// End returns the end point of the segment.
func (s Seg) End() Pt {
	if s.Kind == Line {
		return s.P[0]
	}
	return s.P[2]
}

// Contour is one closed subpath.
type Contour struct {
	Start Pt
	Segs  []Seg
}

// Stem is one stem hint as a pair of absolute edges in the order declared
// (Hi < Lo for the ghost stems of width -20 / -21).
type Stem struct{ Lo, Hi int }

// Composite describes an accented character built with seac.
type Composite struct {
	Base, Accent string
	Adx, Ady     Q
}

// Glyph is one glyph of the model font.
type Glyph struct {
	Name     string
	Sbx, Sby Q // left side bearing point
	WidthX   Q
	WidthY   Q
	// Sbw: the glyph needs the sbw command (Sby or WidthY non-zero).
	Sbw bool

	HStems, VStems []Stem
	HStem3, VStem3 bool // the three stems of that direction are declared by hstem3/vstem3

	Contours []Contour
	Comp     *Composite
}

// HasHints reports whether any stem is declared.
func (g *Glyph) HasHints() bool { return len(g.HStems)+len(g.VStems) > 0 }

// Info holds the FontInfo dictionary.
type Info struct {
	Version, Notice, Copyright, FullName, FamilyName, Weight string
	ItalicAngle                                              float64
	IsFixedPitch                                             bool
	UnderlinePosition, UnderlineThickness                    float64
	// EmitEmpty makes the producer write empty strings as `()` entries
	// instead of leaving the entry out (same described font either way).
	EmitEmpty bool
}

// Private holds the Private dictionary; nil pointers mean "entry absent", in
// which case the documented default applies.
type Private struct {
	BlueValues, OtherBlues []int
	BlueScale              *float64
	BlueShift, BlueFuzz    *int
	StdHW, StdVW           float64 // 0 = absent
	ForceBold              *bool
}

// Documented defaults of the Type 1 book.
const (
	DefaultBlueScale = 0.039625
	DefaultBlueShift = 7
	DefaultBlueFuzz  = 1
)

// Date is the creation date.  Zone == "" means UTC without any zone in the
// file (layouts 1-3 can express that), otherwise a named zone with Offset
// seconds east of UTC (only layout 0 can express that).
type Date struct {
	Y, M, D, H, Min, S int
	Zone               string
	Offset             int
}

// Time returns the instant.
func (d *Date) Time() time.Time {
	loc := time.UTC
	if d.Zone != "" && !(d.Zone == "UTC" && d.Offset == 0) {
		loc = time.FixedZone(d.Zone, d.Offset)
	}
	return time.Date(d.Y, time.Month(d.M), d.D, d.H, d.Min, d.S, 0, loc)
}

// Font is the model font.
type Font struct {
	Label    string
	FontName string
	Info     Info
	// FontMatrix entries as written in the file (decimal literals) and their values.
	FontMatrix     [6]float64
	FontMatrixText [6]string
	Private        Private

	// StdEnc: the font is encoded with StandardEncoding.  Otherwise Enc gives
	// the glyph name of each code ("" = unassigned).
	StdEnc bool
	Enc    [256]string

	Glyphs []*Glyph
	Date   *Date
}

// Glyph returns the glyph with the given name, or nil.
func (m *Font) Glyph(name string) *Glyph {
	for _, g := range m.Glyphs {
		if g.Name == name {
			return g
		}
	}
	return nil
}

// EncodingNames returns the name at each of the 256 codes ("" = unassigned).
func (m *Font) EncodingNames() [256]string {
	if m.StdEnc {
		return StandardEncoding
	}
	return m.Enc
}

// Describe renders the model font for reports.
func (m *Font) Describe() string {
	var sb strings.Builder
	fmt.Fprintf(&sb, "font %q /%s", m.Label, m.FontName)
	if m.StdEnc {
		sb.WriteString(" enc=Standard")
	} else {
		sb.WriteString(" enc={")
		for i, n := range m.Enc {
			if n != "" {
				fmt.Fprintf(&sb, "%d:%s ", i, n)
			}
		}
		sb.WriteString("}")
	}
	for _, g := range m.Glyphs {
		fmt.Fprintf(&sb, " | %s sb=(%s,%s) w=(%s,%s)", g.Name, g.Sbx, g.Sby, g.WidthX, g.WidthY)
		if len(g.HStems) > 0 {
			fmt.Fprintf(&sb, " h%v", g.HStems)
			if g.HStem3 {
				sb.WriteString("(3)")
			}
		}
		if len(g.VStems) > 0 {
			fmt.Fprintf(&sb, " v%v", g.VStems)
			if g.VStem3 {
				sb.WriteString("(3)")
			}
		}
		if g.Comp != nil {
			fmt.Fprintf(&sb, " seac(base=%s accent=%s ad=(%s,%s))", g.Comp.Base, g.Comp.Accent, g.Comp.Adx, g.Comp.Ady)
		}
		for _, c := range g.Contours {
			fmt.Fprintf(&sb, " M%s", c.Start)
			for _, s := range c.Segs {
				if s.Kind == Line {
					fmt.Fprintf(&sb, " L%s", s.P[0])
				} else {
					fmt.Fprintf(&sb, " C%s%s%s", s.P[0], s.P[1], s.P[2])
					if s.FlexOK {
						sb.WriteString("~")
					}
				}
			}
			sb.WriteString(" Z")
		}
	}
	return sb.String()
}

// StandardEncoding is Adobe StandardEncoding (PLRM appendix E), "" for the
// unassigned codes.
var StandardEncoding = func() [256]string {
	var e [256]string
	low := []string{"space", "exclam", "quotedbl", "numbersign", "dollar", "percent", "ampersand", "quoteright",
		"parenleft", "parenright", "asterisk", "plus", "comma", "hyphen", "period", "slash",
		"zero", "one", "two", "three", "four", "five", "six", "seven", "eight", "nine",
		"colon", "semicolon", "less", "equal", "greater", "question", "at"}
	for i, n := range low {
		e[32+i] = n
	}
	for c := 'A'; c <= 'Z'; c++ {
		e[c] = string(c)
	}
	for i, n := range []string{"bracketleft", "backslash", "bracketright", "asciicircum", "underscore", "quoteleft"} {
		e[91+i] = n
	}
	for c := 'a'; c <= 'z'; c++ {
		e[c] = string(c)
	}
	for i, n := range []string{"braceleft", "bar", "braceright", "asciitilde"} {
		e[123+i] = n
	}
	hi := map[int]string{
		161: "exclamdown", 162: "cent", 163: "sterling", 164: "fraction", 165: "yen", 166: "florin", 167: "section",
		168: "currency", 169: "quotesingle", 170: "quotedblleft", 171: "guillemotleft", 172: "guilsinglleft",
		173: "guilsinglright", 174: "fi", 175: "fl", 177: "endash", 178: "dagger", 179: "daggerdbl",
		180: "periodcentered", 182: "paragraph", 183: "bullet", 184: "quotesinglbase", 185: "quotedblbase",
		186: "quotedblright", 187: "guillemotright", 188: "ellipsis", 189: "perthousand", 191: "questiondown",
		193: "grave", 194: "acute", 195: "circumflex", 196: "tilde", 197: "macron", 198: "breve", 199: "dotaccent",
		200: "dieresis", 202: "ring", 203: "cedilla", 205: "hungarumlaut", 206: "ogonek", 207: "caron", 208: "emdash",
		225: "AE", 227: "ordfeminine", 232: "Lslash", 233: "Oslash", 234: "OE", 235: "ordmasculine",
		241: "ae", 245: "dotlessi", 248: "lslash", 249: "oslash", 250: "oe", 251: "germandbls",
	}
	for c, n := range hi {
		e[c] = n
	}
	return e
}()

// StandardCode returns the StandardEncoding code of a glyph name, or -1.
func StandardCode(name string) int {
	if name == "" {
		return -1
	}
	for i, n := range StandardEncoding {
		if n == name {
			return i
		}
	}
	return -1
}
