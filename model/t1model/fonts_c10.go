package t1model

import (
	"fmt"
	"strings"
)

// UnusualNames are glyph / font names made of regular characters only that a
// careless serialiser could mishandle.
var UnusualNames = []string{
	"A.sc", "f_f_i", "uni0041", "a-b", "$", "1", "1.5", "-3", "16#FF", "a#20b", `a\b`, `a"b`, "'", "~", "!", "a|b", "@at", "a:b;c", "a,b", "+", "=", "^&*?",
	"\xe9\xff", "a\x7fb", "x.", ".x", "RD", "ND", "NP", "-|", "|-", "|", "true", "null", "StandardEncoding",
}

// C10Fonts returns the inputs of the C10 check: fonts with unusual but legal
// content (plus a few merely accepted ones).  The serialisation decisions are
// explored on top of this list by t1gen.Drive with Scope.Unusual.
func C10Fonts() []*Font {
	var out []*Font
	// 1. outline family: every outline with fractional widths / side bearings / sbw
	for o := 0; o < NumOutlines; o++ {
		for _, mt := range []int{1, 2, 3, 4} {
			h := 0
			if mt != 4 {
				h = (o + mt) % NumHintConfigs
			}
			out = append(out, NewFont(fmt.Sprintf("c10:%s/%s/%s", OutlineName[o], HintName[h], MetricsName[mt]),
				notdef(), NewGlyph("A", o, h, mt), NewGlyph("B", (o+7)%NumOutlines, 0, 0)))
		}
	}
	// 2. widths and side bearings around the rounding points
	for i, w := range []Q{R(1, 2), R(-1, 2), R(3, 2), R(5, 2), R(-5, 2), R(1, 3), R(2, 3), R(999, 2), R(1, 1000), I(0), I(-7), I(100000), R(1234567, 107), R(1, 108)} {
		g := NewGlyph("A", 1, 0, 0)
		g.WidthX = w
		out = append(out, NewFont(fmt.Sprintf("c10:width %s", w), notdef(), g))
		if i%2 == 0 {
			g2 := NewGlyph("A", 8, 0, 3)
			g2.WidthY = w
			g2.Sby = R(7, 3)
			g2.Sbx = R(-1, 214)
			out = append(out, NewFont(fmt.Sprintf("c10:sbw wy %s", w), notdef(), g2))
		}
	}
	// 3. coordinates that are hard for the p/q approximation
	for _, d := range []int64{2, 3, 7, 11, 107, 108, 109, 113, 214, 1000, 9973} {
		g := NewGlyph("A", 0, 0, 0)
		g.Contours = []Contour{{pt(R(1, d), R(d-1, d)), []Seg{
			lq(R(100*d+1, d), R(1, d)), lq(I(50), R(200*d-1, d)),
			cq(pt(R(30*d+1, d), R(150*d+1, 2*d)), pt(R(20*d-1, d), I(100)), pt(R(1, d), R(50*d+1, d)))}}}
		out = append(out, NewFont(fmt.Sprintf("c10:coordinates over %d", d), notdef(), g))
	}
	// 3a. fractional coordinates of large magnitude: the quotient p/q must stay
	// exact (or within 1/214) also where p approaches the 32-bit limit
	for _, big := range []int64{1000, 65536, 1000000, 10000000, 20000000, 20070000, 20300000, 25000000, 100000000, 1000000000} {
		for _, d := range []int64{2, 3, 4, 53, 106, 107} {
			if big*d+1 > 2147483647 {
				continue
			}
			g := NewGlyph("A", 0, 0, 0)
			g.Contours = []Contour{{pt(R(big*d+1, d), I(2)), []Seg{
				lq(R(big*d+1, d), R(-big*d+1, d)), lq(I(50), R(200*d-1, d)), lq(I(0), I(0))}}}
			out = append(out, NewFont(fmt.Sprintf("c10:large coordinates about %d over %d", big, d), notdef(), g))
		}
	}
	// 3b. the three curve forms with fractional deltas whose best quotient p/q is
	// off by almost 1/214 in a known direction, on every subset of the free
	// deltas: the encoder must measure every delta from the position the decoder
	// reconstructs, or errors of the same sign add up
	for form := 0; form < 3; form++ {
		free := []int{6, 4, 4}[form]
		for _, f := range []Q{R(23, 5000), R(-23, 5000)} {
			for mask := 1; mask < 1<<free; mask++ {
				fr := make([]Q, 6)
				for k := range fr {
					fr[k] = I(0)
					if k < free && mask&(1<<k) != 0 {
						fr[k] = f
					}
				}
				var d [3][2]Q
				switch form {
				case 0:
					d = [3][2]Q{{I(10).Add(fr[0]), I(20).Add(fr[1])}, {I(20).Add(fr[2]), I(20).Add(fr[3])}, {I(20).Add(fr[4]), I(10).Add(fr[5])}}
				case 1:
					d = [3][2]Q{{I(10).Add(fr[0]), I(0)}, {I(20).Add(fr[1]), I(20).Add(fr[2])}, {I(0), I(10).Add(fr[3])}}
				default:
					d = [3][2]Q{{I(0), I(10).Add(fr[0])}, {I(20).Add(fr[1]), I(20).Add(fr[2])}, {I(10).Add(fr[3]), I(0)}}
				}
				x, y := I(100), I(50)
				start := pt(x, y)
				var segs []Seg
				for rep := 0; rep < 2; rep++ {
					var p [3]Pt
					for k := 0; k < 3; k++ {
						x, y = x.Add(d[k][0]), y.Add(d[k][1])
						p[k] = pt(x, y)
					}
					segs = append(segs, cq(p[0], p[1], p[2]))
					x, y = x.Add(I(7).Add(f)), y.Add(I(-3).Add(f))
					segs = append(segs, lq(x, y))
				}
				g := NewGlyph("A", 0, 0, 0)
				g.Contours = []Contour{{start, segs}}
				out = append(out, NewFont(fmt.Sprintf("c10:curve form %d, fraction %s on deltas %06b", form, f, mask), notdef(), g))
			}
		}
	}
	// 4. missing .notdef, with and without a space glyph
	out = append(out, NewFont("c10:no .notdef", NewGlyph("A", 1, 0, 0)))
	{
		sp := NewGlyph("space", 0, 0, 0)
		sp.WidthX = R(555, 2)
		out = append(out, NewFont("c10:no .notdef but space", NewGlyph("A", 2, 1, 0), sp))
	}
	out = append(out, NewFont("c10:only .notdef", notdefBox()))
	// 5. strings
	for si, s := range append(append([]string{}, InterestingStrings...), "1.0\nend", "1.0\rend", "1.0\n%%CreationDate: Mon Jan 2 2006", "2\n3 4", "x\x0cend", "a\n", "%!PS-Adobe",
		// control characters directly followed by digits (an escape must not run into them)
		"Foundry.\x0c1999-2004", "\t1.0", "\x001", "\x1f7x", "\x7f0", "a\x0b12", "\b8", "\x01\x02\x03123", "\x0077", "\x07\x000") {
		for field := 0; field < 6; field++ {
			if si >= len(InterestingStrings) && field > 1 {
				continue
			}
			f := NewFont(fmt.Sprintf("c10:string %q in field %d", s, field), notdef(), NewGlyph("A", 1, 0, 0))
			p := []*string{&f.Info.Version, &f.Info.Notice, &f.Info.Copyright, &f.Info.FullName, &f.Info.FamilyName, &f.Info.Weight}[field]
			*p = s
			f.Info.EmitEmpty = s == ""
			out = append(out, f)
		}
	}
	// 5b. long strings with a character that needs an escape at every position around
	// the lengths at which a writer might break the literal (250, 255, 256, 500, 512)
	for _, esc := range []string{"\\", ")", "(", "\r"} {
		for _, pos := range []int{240, 245, 246, 247, 248, 249, 250, 251, 252, 253, 254, 255, 256, 257, 495, 496, 497, 498, 499, 500, 501, 509, 510, 511, 512, 513} {
			if esc != "\\" && pos%2 == 1 {
				continue
			}
			str := strings.Repeat("x", pos) + esc + strings.Repeat("y", 620-pos)
			f := NewFont(fmt.Sprintf("c10:620-byte Notice with %q at offset %d", esc, pos), notdef(), NewGlyph("A", 1, 0, 0))
			f.Info.Notice = str
			out = append(out, f)
		}
	}
	// 6. names with unusual regular characters (as glyph names and as font name)
	for _, n := range UnusualNames {
		f := NewFont(fmt.Sprintf("c10:glyph named %q", n), notdef(), NewGlyph("A", 1, 0, 0), NewGlyph(n, 2, 1, 0), NewGlyph("z", 5, 0, 0)).custom()
		f.Enc[65], f.Enc[200], f.Enc[122] = "A", n, "z"
		out = append(out, f)
		f = NewFont(fmt.Sprintf("c10:font named %q", n), notdef(), NewGlyph("A", 1, 0, 0))
		f.FontName = n
		out = append(out, f)
	}
	// 7. dictionaries: private values, encodings, dates, numbers
	out = append(out, dictionaryFonts()...)
	for _, bs := range []float64{0.0396255, 0.0396245, 0.039626, 0.039624, 0.0396261, 0.0396239, 0.039627, 0.039625, 0.03962500001, 0.0396259999, 1e-9, 0, 3.5, -0.039625} {
		f := NewFont(fmt.Sprintf("c10:BlueScale %v", bs), notdef(), NewGlyph("A", 1, 0, 0))
		f.Private.BlueScale = fp(bs)
		out = append(out, f)
	}
	{
		f := NewFont("c10:StdHW StdVW fractions", notdef(), NewGlyph("A", 1, 0, 0))
		f.Private.StdHW, f.Private.StdVW = 1.0/3, 1e-7
		out = append(out, f)
		f = NewFont("c10:info numbers", notdef(), NewGlyph("A", 1, 0, 0))
		f.Info.ItalicAngle, f.Info.UnderlinePosition, f.Info.UnderlineThickness = -1e-7, 1e21, 1.0/3
		out = append(out, f)
		f = NewFont("c10:matrix all zero", notdef(), NewGlyph("A", 1, 0, 0))
		f.FontMatrix = [6]float64{}
		f.FontMatrixText = [6]string{"0", "0", "0", "0", "0", "0"}
		out = append(out, f)
		f = NewFont("c10:matrix zero scale, translation only", notdef(), NewGlyph("A", 1, 0, 0))
		f.FontMatrix = [6]float64{0, 0, 0, 0, 3, -4}
		f.FontMatrixText = [6]string{"0", "0", "0", "0", "3", "-4"}
		out = append(out, f)
		f = NewFont("c10:matrix odd", notdef(), NewGlyph("A", 1, 0, 0))
		f.FontMatrix = [6]float64{1e-7, 0.5, -0.25, 1e21, 3, -4}
		f.FontMatrixText = [6]string{"0.0000001", "0.5", "-0.25", "1000000000000000000000.0", "3", "-4"}
		out = append(out, f)
	}
	// 8. standard-named glyphs under encodings that omit some of them
	{
		f := NewFont("c10:standard names, explicit subset encoding", notdef(), NewGlyph("A", 1, 0, 0), NewGlyph("B", 2, 0, 0), NewGlyph("space", 0, 0, 0)).custom()
		f.Enc[65] = "A"
		out = append(out, f)
		f = NewFont("c10:standard names, explicit full standard encoding", notdef(), NewGlyph("A", 1, 0, 0), NewGlyph("B", 2, 0, 0)).custom()
		f.Enc[65], f.Enc[66] = "A", "B"
		out = append(out, f)
		f = NewFont("c10:standard names at non-standard codes", notdef(), NewGlyph("A", 1, 0, 0), NewGlyph("B", 2, 0, 0)).custom()
		f.Enc[65], f.Enc[66], f.Enc[67] = "A", "B", "A"
		out = append(out, f)
	}
	// 9. composites (whatever the reader makes of them must survive the cycle)
	out = append(out, compositeFonts()...)
	return out
}
