package t1model

import "fmt"

// ---------------------------------------------------------------------------
// outline family

func pt(x, y Q) Pt { return Pt{x, y} }

func lq(x, y Q) Seg { return Seg{Kind: Line, P: [3]Pt{{x, y}}} }

func cq(a, b, c Pt) Seg { return Seg{Kind: Curve, P: [3]Pt{a, b, c}} }

func flexH(x0, y0 int64, after ...Seg) []Seg {
	// horizontal flex pair from (x0,y0) to (x0+100,y0), 8 units high
	c1 := C(x0+15, y0, x0+35, y0+8, x0+50, y0+8)
	c1.FlexOK = true
	c2 := C(x0+65, y0+8, x0+85, y0, x0+100, y0)
	return append([]Seg{c1, c2}, after...)
}

// NumOutlines is the size of the outline family.
const NumOutlines = 19

// OutlineName names the members of the family.
var OutlineName = [NumOutlines]string{
	"empty", "triangle", "rect", "rect-back-to-start", "rrcurves", "hv-vh-curves", "circle",
	"two-contours", "fractions", "dyadic-fractions", "flex-after-move", "flex-after-line",
	"flex-after-curve", "vertical-flex-after-line", "number-boundaries", "mixed-hv",
	"contour-starting-where-the-previous-one-ended", "nearly-axis-parallel-steps-far-from-the-origin",
	"curves-that-look-like-hv-or-vh-curves-and-are-not",
}

// Outline returns member k of the outline family.
func Outline(k int) []Contour {
	switch k {
	case 0:
		return nil
	case 1:
		return []Contour{{P(100, 0), []Seg{L(300, 0), L(200, 250)}}}
	case 2:
		return []Contour{{P(50, 0), []Seg{L(250, 0), L(250, 700), L(50, 700)}}}
	case 3:
		return []Contour{{P(50, 0), []Seg{L(250, 0), L(250, 700), L(50, 700), L(50, 0)}}}
	case 4:
		return []Contour{{P(100, 100), []Seg{C(120, 180, 180, 220, 250, 230), C(300, 200, 320, 150, 330, 90), L(100, 100)}}}
	case 5:
		return []Contour{{P(0, 100), []Seg{C(50, 100, 100, 150, 100, 200), C(100, 250, 150, 300, 200, 300), L(200, 100)}}}
	case 6:
		return []Contour{{P(300, 200), []Seg{
			C(300, 255, 255, 300, 200, 300), C(145, 300, 100, 255, 100, 200),
			C(100, 145, 145, 100, 200, 100), C(255, 100, 300, 145, 300, 200)}}}
	case 7:
		return []Contour{
			{P(50, 0), []Seg{L(450, 0), L(450, 600), L(50, 600)}},
			{P(150, 100), []Seg{L(250, 400), L(350, 100)}},
		}
	case 8:
		return []Contour{{pt(R(1, 3), R(1, 7)), []Seg{
			lq(R(301, 3), R(1, 7)), lq(I(50), R(602, 3)),
			cq(pt(I(10), I(150)), pt(R(5, 2), I(100)), pt(R(1, 3), I(50)))}}}
	case 9:
		return []Contour{{pt(R(1, 2), R(1, 4)), []Seg{
			lq(R(201, 2), R(1, 4)), lq(I(100), R(801, 4)),
			cq(pt(I(50), I(150)), pt(I(25), R(75, 2)), pt(R(1, 2), R(1, 2)))}}}
	case 10:
		return []Contour{{P(100, 300), flexH(100, 300, L(200, 0), L(100, 0))}}
	case 11:
		return []Contour{{P(100, 0), append([]Seg{L(100, 300)}, flexH(100, 300, L(200, 0))...)}}
	case 12:
		return []Contour{{P(100, 0), append([]Seg{C(90, 100, 90, 200, 100, 300)}, flexH(100, 300, L(200, 0))...)}}
	case 13:
		c1 := C(300, 15, 308, 35, 308, 50)
		c1.FlexOK, c1.FlexVertical = true, true
		c2 := C(308, 65, 300, 85, 300, 100)
		return []Contour{{P(0, 0), []Seg{L(300, 0), c1, c2, L(0, 100)}}}
	case 14:
		deltas := [][2]int64{{107, 108}, {1131, -107}, {1132, -108}, {-1131, -1132}, {364, 363}, {620, 619}, {876, 875},
			{-363, -364}, {-2000, 3000}, {32000, -31999}, {-20000, 0}, {0, 20000}}
		x, y := int64(0), int64(0)
		var segs []Seg
		for _, d := range deltas {
			x += d[0]
			y += d[1]
			segs = append(segs, L(x, y))
		}
		return []Contour{{P(0, 0), segs}}
	case 15:
		return []Contour{{P(0, 0), []Seg{L(100, 0), C(150, 0, 200, 50, 200, 100), L(200, 300), C(200, 350, 150, 400, 100, 400), L(0, 400)}}}
	case 16:
		// the moveto of the second and third contour goes to the current point (`0 hmoveto`)
		return []Contour{
			{P(50, 0), []Seg{L(250, 0), L(250, 300)}},
			{P(250, 300), []Seg{L(400, 300), L(400, 500)}},
			{P(400, 500), []Seg{C(420, 520, 440, 540, 460, 500), L(430, 480)}},
		}
	case 17:
		// steps of 0.015 and 0.006 across the direction of travel, 20,000 and 30,000 units out
		return []Contour{{pt(I(20000), I(-30000)), []Seg{
			lq(I(20020), R(-30000*200+3, 200)), lq(R(20020*500+3, 500), I(-29950)),
			cq(pt(I(20030), R(-29950*200+3, 200)), pt(I(20050), I(-29930)), pt(R(20050*500+3, 500), I(-29900))),
			lq(I(20000), I(-29900))}}}
	case 18:
		// start tangent on an axis, end point level with (or straight above) the FIRST
		// control point instead of the second: rrcurveto is the only form that fits
		return []Contour{{P(10, 20), []Seg{
			C(110, 20, 60, 100, 110, 120),   // y1 = y0, x3 = x1 != x2
			C(110, 220, 190, 170, 210, 220), // x1 = x0, y3 = y1 != y2
			C(310, 220, 260, 300, 260, 320), // a real hvcurveto (x3 = x2) for comparison
			C(260, 420, 340, 370, 360, 370), // a real vhcurveto (y3 = y2)
			C(460, 370, 360, 470, 360, 370), // y1 = y0, x3 = x2 = x0, y3 = y0
			L(10, 370)}}}
	}
	panic("no such outline")
}

// ---------------------------------------------------------------------------
// hint configurations (all need an integer side bearing)

const NumHintConfigs = 7

var HintName = [NumHintConfigs]string{"none", "h", "v", "both", "stem3", "ghost", "repeated"}

func applyHints(g *Glyph, k int) {
	switch k {
	case 0:
	case 1:
		g.HStems = []Stem{{0, 20}}
	case 2:
		g.VStems = []Stem{{50, 130}, {370, 450}}
	case 3:
		g.HStems = []Stem{{0, 20}, {680, 700}}
		g.VStems = []Stem{{50, 130}}
	case 4:
		g.HStems = []Stem{{0, 20}, {340, 360}, {680, 700}}
		g.HStem3 = true
		g.VStems = []Stem{{50, 100}, {200, 250}, {350, 400}}
		g.VStem3 = true
	case 5:
		g.HStems = []Stem{{700, 680}, {21, 0}} // ghost stems: widths -20 and -21
		g.VStems = []Stem{{-40, 60}}
	case 6:
		// the same stem declared more than once (as fonts that re-declare
		// their hints after a hint replacement do): every declaration counts
		g.HStems = []Stem{{0, 20}, {50, 70}, {0, 20}, {90, 100}}
		g.VStems = []Stem{{10, 40}, {10, 40}}
	default:
		panic("no such hint config")
	}
}

// ---------------------------------------------------------------------------
// metrics configurations

const NumMetrics = 6

var MetricsName = [NumMetrics]string{"int", "dyadic-width", "third-width", "sbw", "fractional-sb", "negative-sb"}

func applyMetrics(g *Glyph, k int) {
	switch k {
	case 0:
		g.Sbx, g.WidthX = I(50), I(500)
	case 1:
		g.Sbx, g.WidthX = I(50), R(1001, 2)
	case 2:
		g.Sbx, g.WidthX = I(0), R(1000, 3)
	case 3:
		g.Sbx, g.Sby, g.WidthX, g.WidthY = I(30), I(-20), I(600), I(-10)
		g.Sbw = true
	case 4:
		g.Sbx, g.WidthX = R(50, 3), I(500) // no hints allowed
	case 5:
		g.Sbx, g.WidthX = I(-30), I(0)
	default:
		panic("no such metrics")
	}
	g.Sby = R(g.Sby.P, max64(g.Sby.D, 1))
	g.WidthY = R(g.WidthY.P, max64(g.WidthY.D, 1))
}

func max64(a, b int64) int64 {
	if a > b {
		return a
	}
	return b
}

// NewGlyph builds a glyph from the three families.
func NewGlyph(name string, outline, hints, metrics int) *Glyph {
	g := &Glyph{Name: name, Sby: I(0), WidthY: I(0)}
	applyMetrics(g, metrics)
	if metrics == 4 && hints != 0 {
		panic("hints need an integer side bearing")
	}
	applyHints(g, hints)
	g.Contours = Outline(outline)
	return g
}

func notdef() *Glyph {
	return &Glyph{Name: ".notdef", Sbx: I(0), Sby: I(0), WidthX: I(250), WidthY: I(0)}
}

func notdefBox() *Glyph {
	g := notdef()
	g.Sbx = I(20)
	g.Contours = []Contour{{P(20, 0), []Seg{L(230, 0), L(230, 500), L(20, 500)}}}
	return g
}

// NewFont returns a font with default FontInfo, FontMatrix and Private and
// StandardEncoding.
func NewFont(label string, glyphs ...*Glyph) *Font {
	return &Font{
		Label:    label,
		FontName: "VerifTest",
		Info: Info{Version: "001.001", FullName: "Verif Test Regular", FamilyName: "Verif Test", Weight: "Regular",
			UnderlinePosition: -100, UnderlineThickness: 50},
		FontMatrix:     [6]float64{0.001, 0, 0, 0.001, 0, 0},
		FontMatrixText: [6]string{"0.001", "0", "0", "0.001", "0", "0"},
		StdEnc:         true,
		Glyphs:         glyphs,
	}
}

func ip(v int) *int           { return &v }
func fp(v float64) *float64   { return &v }
func bp(v bool) *bool         { return &v }
func (m *Font) custom() *Font { m.StdEnc = false; return m }

// InterestingStrings are the FontInfo string values explored.
var InterestingStrings = []string{
	"", "x", "(balanced) (parens)", ")(", "((", "))", `back\slash`, `ends with backslash\`, `\(`, `octal\101`,
	"line1\nline2", "cr\rlf", "crlf\r\nend", "tab\there", "\x00nul\x00", "\xff\x80\xfe high", "100% (c) 1999", " leading and trailing ",
	"trailing newline\n", "\x7f\x1b\x0c", "three\nlines of\ntext\n\nand an empty one", "\n\n", "rev\x018 tab\x0b9 bell\x079 \x1f8\x009",
}

// ---------------------------------------------------------------------------
// font lists

// Group classifies a model font so that checks can give different groups
// different sets of decisions.
type Group int

const (
	GroupOutline    Group = iota // one glyph (every outline x hints x metrics): all decisions
	GroupComposite               // fonts with seac composites
	GroupMulti                   // two and three glyphs: interactions between glyphs (subr numbering, order)
	GroupDictionary              // fonts that vary strings, numbers, encodings, dates: no per-command decisions
)

// Item is one entry of a font list.
type Item struct {
	Font  *Font
	Group Group
}

// C06Fonts returns the model fonts of the C06 check.  thorough adds nothing to
// the list (the tiers differ in the deviation bound), but the list is a
// function so that it is rebuilt for every execution (no shared state).
func C06Fonts() []Item {
	var out []Item
	add := func(g Group, f *Font) { out = append(out, Item{f, g}) }

	// A: one glyph (plus an empty .notdef): every outline x every hint
	// configuration, metrics cycling over the integer-side-bearing kinds.
	for o := 0; o < NumOutlines; o++ {
		for h := 0; h < NumHintConfigs; h++ {
			mt := (o + h) % 4
			add(GroupOutline, NewFont(fmt.Sprintf("A:%s/%s/%s", OutlineName[o], HintName[h], MetricsName[mt]),
				notdef(), NewGlyph("A", o, h, mt)))
		}
		// every outline x the two remaining metrics kinds, no hints
		for _, mt := range []int{4, 5} {
			add(GroupOutline, NewFont(fmt.Sprintf("A:%s/none/%s", OutlineName[o], MetricsName[mt]),
				notdef(), NewGlyph("A", o, 0, mt)))
		}
	}
	// B: two glyphs from a sub-family of 8 outlines (all ordered pairs).
	sub := []int{1, 5, 7, 8, 10, 11, 14, 15}
	for i, o1 := range sub {
		for j, o2 := range sub {
			h1, h2 := (i+j)%NumHintConfigs, (i+2*j+1)%NumHintConfigs
			add(GroupMulti, NewFont(fmt.Sprintf("B:%s+%s", OutlineName[o1], OutlineName[o2]),
				notdefBox(), NewGlyph("A", o1, h1, (i+j)%4), NewGlyph("B", o2, h2, (i*j+1)%4)))
		}
	}
	// C: three glyphs.
	for o := 0; o < NumOutlines; o++ {
		o2, o3 := (o+5)%NumOutlines, (o+9)%NumOutlines
		add(GroupMulti, NewFont(fmt.Sprintf("C:%s+%s+%s", OutlineName[o], OutlineName[o2], OutlineName[o3]),
			notdef(), NewGlyph("A", o, o%NumHintConfigs, o%4), NewGlyph("B", o2, (o+3)%NumHintConfigs, (o+1)%4), NewGlyph("space", o3, 0, 4+o%2)))
	}
	// F: accented composites (Type 1 book seac restrictions, DESIGN.md section 10).
	for _, f := range compositeFonts() {
		add(GroupComposite, f)
	}
	// D: FontInfo strings over interesting bytes, each string in each field.
	for si, s := range InterestingStrings {
		for field := 0; field < 6; field++ {
			f := NewFont(fmt.Sprintf("D:string%d/field%d", si, field), notdef(), NewGlyph("A", 1, 0, 0))
			p := []*string{&f.Info.Version, &f.Info.Notice, &f.Info.Copyright, &f.Info.FullName, &f.Info.FamilyName, &f.Info.Weight}[field]
			*p = s
			f.Info.EmitEmpty = s == "" && field%2 == 0
			add(GroupDictionary, f)
		}
	}
	for _, f := range dictionaryFonts() {
		add(GroupDictionary, f)
	}
	return out
}

func accentGlyph(name string, two bool) *Glyph {
	g := &Glyph{Name: name, Sbx: I(40), Sby: I(0), WidthX: I(333), WidthY: I(0)}
	g.Contours = []Contour{{P(60, 500), []Seg{L(160, 500), L(180, 650)}}}
	if two {
		g.Contours = []Contour{
			{P(40, 520), []Seg{L(100, 520), L(100, 580), L(40, 580)}},
			{P(160, 520), []Seg{L(220, 520), L(220, 580), L(160, 580)}},
		}
	}
	return g
}

func baseGlyph(name string, outline, hints int) *Glyph {
	g := &Glyph{Name: name, Sbx: I(40), Sby: I(0), WidthX: I(560), WidthY: I(0)}
	applyHints(g, hints)
	g.Contours = Outline(outline)
	return g
}

func compGlyph(name, base, accent string, adx, ady Q) *Glyph {
	return &Glyph{Name: name, Sbx: I(40), Sby: I(0), WidthX: I(560), WidthY: I(0), Comp: &Composite{base, accent, adx, ady}}
}

func compositeFonts() []*Font {
	var out []*Font
	// all three glyphs with the same fractional side bearing (no hints: those need an integer one)
	for _, sb := range []Q{R(81, 2), R(-7, 3)} {
		a, acc, comp := baseGlyph("A", 1, 0), accentGlyph("acute", false), compGlyph("Aacute", "A", "acute", I(120), R(401, 2))
		a.Sbx, acc.Sbx, comp.Sbx = sb, sb, sb
		out = append(out, NewFont(fmt.Sprintf("F:composite with side bearing %s", sb), notdef(), a, acc, comp))
	}
	n := 0
	for _, bo := range []int{1, 5, 11, 7} { // base outlines: lines, curves, flex-after-line, two contours
		for _, hints := range []int{0, 3} {
			for _, std := range []bool{true, false} {
				n++
				two := n%2 == 0
				glyphs := []*Glyph{notdef(), baseGlyph("A", bo, hints), accentGlyph("acute", two),
					compGlyph("Aacute", "A", "acute", I(120), I(200))}
				label := fmt.Sprintf("F:composite base=%s hints=%s", OutlineName[bo], HintName[hints])
				if n%3 == 0 {
					// second composite with a fractional displacement and a second accent
					glyphs = append(glyphs, accentGlyph("dieresis", !two), compGlyph("Adieresis", "A", "dieresis", R(201, 2), I(-15)))
					label += " +Adieresis"
				}
				f := NewFont(label, glyphs...)
				if !std {
					// custom encoding that keeps the components at their
					// StandardEncoding codes, as the Type 1 book requires
					f.custom()
					f.Enc[65] = "A"
					f.Enc[194] = "acute"
					f.Enc[200] = "dieresis" // 200 is dieresis in StandardEncoding as well
					f.Enc[1] = "Aacute"
					f.Enc[66] = "Adieresis"
					if f.Glyph("dieresis") == nil {
						f.Enc[200] = ""
						f.Enc[66] = ""
					}
					f.Label += " custom-enc"
				}
				out = append(out, f)
			}
		}
	}
	return out
}

func dictionaryFonts() []*Font {
	var out []*Font
	base := func(label string) *Font {
		return NewFont(label, notdef(), NewGlyph("A", 1, 0, 0), NewGlyph("B", 2, 1, 0))
	}
	// E: Private dictionary
	{
		f := base("E:private all absent")
		out = append(out, f)
		f = base("E:private all non-default")
		f.Private = Private{BlueValues: []int{-10, 0, 500, 510, 700, 710}, OtherBlues: []int{-250, -240},
			BlueScale: fp(0.05), BlueShift: ip(8), BlueFuzz: ip(0), StdHW: 50, StdVW: 85, ForceBold: bp(true)}
		out = append(out, f)
		f = base("E:private defaults written explicitly")
		f.Private = Private{BlueValues: []int{-10, 0}, BlueScale: fp(0.039625), BlueShift: ip(7), BlueFuzz: ip(1), ForceBold: bp(false)}
		out = append(out, f)
		f = base("E:private fuzz 2 shift 0 scale near default")
		f.Private = Private{BlueValues: []int{}, BlueScale: fp(0.0396255), BlueShift: ip(0), BlueFuzz: ip(2), StdHW: 50.5, StdVW: 0.25}
		out = append(out, f)
		f = base("E:private negative and large")
		f.Private = Private{BlueValues: []int{-32768, 32767}, OtherBlues: []int{-1, 1}, BlueScale: fp(0.5), BlueShift: ip(-3), BlueFuzz: ip(100), StdHW: 1000, ForceBold: bp(true)}
		out = append(out, f)
		f = base("E:private negative standard stem widths")
		f.Private = Private{BlueValues: []int{-10, 0}, StdHW: -12.5, StdVW: -80}
		out = append(out, f)
		f = base("E:private more alignment zones than the format's seven and five pairs")
		f.Private = Private{BlueValues: []int{-20, 0, 100, 110, 200, 210, 300, 310, 400, 410, 500, 510, 600, 615, 700, 712, 800, 820, 900, 901}, OtherBlues: []int{-600, -590, -500, -490, -400, -390, -300, -290, -200, -190, -100, -90}}
		out = append(out, f)
		f = base("E:private fifteen BlueValues and eleven OtherBlues")
		f.Private = Private{BlueValues: []int{-20, 0, 100, 110, 200, 210, 300, 310, 400, 410, 500, 510, 600, 615, 700}, OtherBlues: []int{-600, -590, -500, -490, -400, -390, -300, -290, -200, -190, -100}}
		out = append(out, f)
		for _, fz := range []int{0, 1, 2} {
			f = base(fmt.Sprintf("E:private only BlueFuzz %d", fz))
			f.Private = Private{BlueFuzz: ip(fz)}
			out = append(out, f)
		}
		for _, sh := range []int{6, 7, 8} {
			f = base(fmt.Sprintf("E:private only BlueShift %d", sh))
			f.Private = Private{BlueShift: ip(sh)}
			out = append(out, f)
		}
	}
	// E2: every subset of the eight optional Private entries present (each with a
	// non-default value), and OtherBlues next to an empty BlueValues array
	for mask := 0; mask < 256; mask++ {
		var p Private
		var names []string
		for bit, n := range []string{"BlueValues", "OtherBlues", "BlueScale", "BlueShift", "BlueFuzz", "StdHW", "StdVW", "ForceBold"} {
			if mask&(1<<bit) == 0 {
				continue
			}
			names = append(names, n)
			switch bit {
			case 0:
				p.BlueValues = []int{-12, 0, 480, 492}
			case 1:
				p.OtherBlues = []int{-250, -240}
			case 2:
				p.BlueScale = fp(0.045)
			case 3:
				p.BlueShift = ip(9)
			case 4:
				p.BlueFuzz = ip(3)
			case 5:
				p.StdHW = 44
			case 6:
				p.StdVW = 91
			case 7:
				p.ForceBold = bp(true)
			}
		}
		f := base(fmt.Sprintf("E:private entries present %v", names))
		f.Private = p
		out = append(out, f)
	}
	{
		f := base("E:private OtherBlues next to an empty BlueValues array")
		f.Private = Private{BlueValues: []int{}, OtherBlues: []int{-250, -240}}
		out = append(out, f)
	}
	// G: encodings
	{
		f := base("G:custom A at 65 only, B unencoded").custom()
		f.Enc[65] = "A"
		out = append(out, f)
		f = base("G:custom codes 0, 255, 1").custom()
		f.Enc[0], f.Enc[255], f.Enc[1] = "A", "A", "B"
		out = append(out, f)
		f = base("G:custom A and B swapped").custom()
		f.Enc[65], f.Enc[66] = "B", "A"
		out = append(out, f)
		f = base("G:custom empty").custom()
		out = append(out, f)
		f = base("G:custom every code the same glyph").custom()
		for i := range f.Enc {
			f.Enc[i] = "B"
		}
		out = append(out, f)
		f = NewFont("G:standard with many standard glyphs", notdef(), NewGlyph("space", 0, 0, 0), NewGlyph("A", 1, 0, 0),
			NewGlyph("germandbls", 2, 0, 0), NewGlyph("exclamdown", 5, 0, 0), NewGlyph("quoteright", 1, 0, 0), NewGlyph("notinstandard", 1, 0, 0))
		out = append(out, f)
	}
	// H: creation dates
	{
		dates := []*Date{
			nil,
			{Y: 2021, M: 3, D: 7},
			{Y: 2024, M: 2, D: 29, H: 13, Min: 4, S: 5},
			{Y: 1999, M: 12, D: 31, H: 23, Min: 59, S: 59},
			{Y: 1999, M: 12, D: 31, H: 23, Min: 59, S: 59, Zone: "EST", Offset: -5 * 3600},
			{Y: 2010, M: 7, D: 1, H: 0, Min: 0, S: 1, Zone: "CEST", Offset: 2 * 3600},
			{Y: 2010, M: 7, D: 15, H: 12, Min: 30, S: 0, Zone: "UTC", Offset: 0},
			{Y: 2033, M: 11, D: 9, H: 6, Min: 7, S: 8, Zone: "IST", Offset: 5*3600 + 1800},
		}
		for i, d := range dates {
			f := base(fmt.Sprintf("H:date %d", i))
			f.Date = d
			out = append(out, f)
		}
	}
	// I: FontInfo numbers, FontMatrix, font name
	{
		f := base("I:italic -12.5 fixed pitch")
		f.Info.ItalicAngle, f.Info.IsFixedPitch = -12.5, true
		f.Info.UnderlinePosition, f.Info.UnderlineThickness = -133.5, 20.25
		out = append(out, f)
		f = base("I:italic 9 integer")
		f.Info.ItalicAngle = 9
		f.Info.UnderlinePosition, f.Info.UnderlineThickness = 0, 0
		out = append(out, f)
		f = base("I:matrix 2048 units")
		f.FontMatrix = [6]float64{0.00048828125, 0, 0, 0.00048828125, 0, 0}
		f.FontMatrixText = [6]string{"0.00048828125", "0", "0", "0.00048828125", "0", "0"}
		out = append(out, f)
		f = base("I:matrix oblique")
		f.FontMatrix = [6]float64{0.001, 0, 0.000167, 0.001, 0, 0}
		f.FontMatrixText = [6]string{"0.001", "0", "0.000167", "0.001", "0", "0"}
		out = append(out, f)
		f = base("I:font name with unusual regular characters")
		f.FontName = "Verif-Test_1.0+a"
		out = append(out, f)
		f = base("I:no strings at all")
		f.Info.Version, f.Info.FullName, f.Info.FamilyName, f.Info.Weight = "", "", "", ""
		out = append(out, f)
		f = base("I:all strings empty but present")
		f.Info.Version, f.Info.FullName, f.Info.FamilyName, f.Info.Weight = "", "", "", ""
		f.Info.EmitEmpty = true
		out = append(out, f)
	}
	return out
}
