// Package pstoken is the token generator of the C04 check: PostScript objects
// with all their legal spellings, written from the PLRM (3rd edition, section
// 3.2 "Syntax").  The ground truth of every generated text is the object
// sequence it was generated from; nothing here parses PostScript.
package pstoken

import (
	"fmt"
	"math"
	"math/big"
	"strings"
)

// Kind of a generated object.
type Kind int

const (
	Int Kind = iota
	Real
	String
	LitName  // /name
	ExecName // name (also [ ] << >>)
	Proc     // { ... }
)

var kindNames = []string{"int", "real", "string", "litname", "name", "proc"}

func (k Kind) String() string { return kindNames[k] }

// Object is the ground truth for one token.
type Object struct {
	Kind Kind
	Int  int64
	Rat  *big.Rat // exact value of a real
	Str  []byte
	Name string
	Proc []Object
	// Label is a short human-readable description.
	Label string
}

// Spelling is one legal way of writing an object.
type Spelling struct {
	Text string
	// StartsDelim: the first byte is a delimiter character, so the token may
	// directly follow a name or number.
	StartsDelim bool
	// SelfEnding: the token ends with its own closing delimiter, so anything
	// may directly follow it.
	SelfEnding bool
}

func isDelim(b byte) bool {
	switch b {
	case '(', ')', '<', '>', '[', ']', '{', '}', '/', '%':
		return true
	}
	return false
}

// IsRegular reports whether b is a regular character in the sense of PLRM
// 3.2 restricted to what the check generates: not one of the six white-space
// characters (NUL, TAB, LF, FF, CR, SP) and not a delimiter.  The other
// control bytes are never generated inside names (DESIGN.md C04).
func IsRegular(b byte) bool {
	switch b {
	case 0, 9, 10, 12, 13, 32:
		return false
	}
	return !isDelim(b)
}

// MkSpelling derives the adjacency properties of a token text.
func MkSpelling(kind Kind, text string) Spelling {
	s := Spelling{Text: text, StartsDelim: isDelim(text[0])}
	switch kind {
	case String, Proc:
		s.SelfEnding = true
	case ExecName:
		switch text {
		case "[", "]", "<<", ">>":
			s.SelfEnding = true
		}
	}
	return s
}

// CanAbut reports whether b may follow a without any separator and still be
// read as the same two tokens.
func CanAbut(a, b Spelling) bool {
	if strings.HasSuffix(a.Text, "/") && strings.HasPrefix(b.Text, "/") {
		// "//name" is the immediately-evaluated-name syntax
		return false
	}
	return a.SelfEnding || b.StartsDelim
}

// ---------------------------------------------------------------------------
// numbers

// IntSpellings returns decimal and radix spellings of v.
func IntSpellings(v int64) []string {
	var out []string
	d := fmt.Sprint(v)
	out = append(out, d)
	if v >= 0 {
		out = append(out, "+"+d, "00"+d)
		u := big.NewInt(v)
		out = append(out,
			"2#"+u.Text(2),
			"8#"+u.Text(8),
			"16#"+strings.ToUpper(u.Text(16)),
			"16#"+u.Text(16),
			"36#"+strings.ToUpper(u.Text(36)),
			"36#"+u.Text(36),
			"10#"+d,
			"7#"+u.Text(7),
		)
		if v == 0 {
			out = append(out, "-0")
		}
	} else {
		out = append(out, "-00"+d[1:])
	}
	return dedupe(out)
}

// RealSpellings returns spellings of the real number (-1)^neg * digits * 10^exp10
// (digits is a non-empty decimal digit string without leading zeros, or "0").
func RealSpellings(neg bool, digits string, exp10 int) []string {
	sign := ""
	if neg {
		sign = "-"
	}
	n := len(digits)
	var out []string
	e := func(mant string, x int) {
		// exponent forms
		xs := fmt.Sprint(x)
		out = append(out, sign+mant+"e"+xs, sign+mant+"E"+xs)
		if x >= 0 {
			out = append(out, sign+mant+"e+"+xs, sign+mant+"E+0"+xs)
		} else {
			out = append(out, sign+mant+"e-0"+xs[1:])
		}
	}
	// plain decimal notation, if it stays short
	switch {
	case exp10 >= 0 && exp10 <= 8:
		whole := digits + strings.Repeat("0", exp10)
		if digits == "0" {
			whole = "0"
		}
		out = append(out, sign+whole+".", sign+whole+".0", sign+"0"+whole+".00")
	case exp10 < 0 && -exp10 < n:
		out = append(out, sign+digits[:n+exp10]+"."+digits[n+exp10:], sign+"00"+digits[:n+exp10]+"."+digits[n+exp10:]+"0")
	case exp10 < 0 && -exp10 <= n+6:
		frac := strings.Repeat("0", -exp10-n) + digits
		out = append(out, sign+"."+frac, sign+"0."+frac, sign+"."+frac+"0")
	}
	e(digits, exp10)
	e(digits+".", exp10)
	e(digits+".0", exp10)
	e("."+digits, exp10+n)
	e("0."+digits, exp10+n)
	if n > 1 {
		e(digits[:1]+"."+digits[1:], exp10+n-1)
	}
	if !neg {
		out = append(out, "+"+out[0])
		out = append(out, "+"+digits+"e"+fmt.Sprint(exp10))
	}
	return dedupe(out)
}

// RealValue returns the exact value digits*10^exp10 with sign.
func RealValue(neg bool, digits string, exp10 int) *big.Rat {
	m, _ := new(big.Int).SetString(digits, 10)
	r := new(big.Rat).SetInt(m)
	p := new(big.Int).Exp(big.NewInt(10), big.NewInt(int64(abs(exp10))), nil)
	if exp10 >= 0 {
		r.Mul(r, new(big.Rat).SetInt(p))
	} else {
		r.Quo(r, new(big.Rat).SetInt(p))
	}
	if neg {
		r.Neg(r)
	}
	return r
}

func abs(x int) int {
	if x < 0 {
		return -x
	}
	return x
}

// RealMatches reports whether got is an acceptable floating-point reading of
// the exact value want: the nearest float64, or, where want is not exactly
// representable, one of its two neighbours (the PLRM does not fix rounding).
func RealMatches(want *big.Rat, got float64) bool {
	if math.IsNaN(got) || math.IsInf(got, 0) {
		return false
	}
	f, exact := want.Float64()
	if got == f {
		return true
	}
	if exact {
		return false
	}
	return got == math.Nextafter(f, math.Inf(1)) || got == math.Nextafter(f, math.Inf(-1))
}

func dedupe(ss []string) []string {
	seen := map[string]bool{}
	var out []string
	for _, s := range ss {
		if !seen[s] {
			seen[s] = true
			out = append(out, s)
		}
	}
	return out
}

// ---------------------------------------------------------------------------
// literal strings

// piece is one lexical element of a literal string body.
type piece struct {
	text string
	// noOctalNext: the next byte of the body must not be an octal digit
	// (short octal escape).
	noOctalNext bool
	// noLFNext: the next byte of the body must not be a raw LF (the piece ends
	// in a raw CR, which would pair up with it).
	noLFNext bool
	// raw parenthesis: +1 for "(", -1 for ")"
	paren int
}

// LitOptions selects which forms LiteralSpellings enumerates.
type LitOptions struct {
	Gaps      bool // line continuations (\LF, \CR, \CRLF) between bytes, before the first and after the last
	Octal     bool // \d \dd \ddd and the overflowing \4dd-\7dd forms
	Backslash bool // \x for characters without a special meaning (the backslash is ignored)
}

// byteForms returns the pieces that denote the single content byte b.
func byteForms(b byte, o LitOptions) []piece {
	var out []piece
	switch b {
	case '\\':
		// never raw
	case '\r':
		// a raw CR denotes LF, not CR
	case '(':
		out = append(out, piece{text: "(", paren: 1})
	case ')':
		out = append(out, piece{text: ")", paren: -1})
	case '\n':
		out = append(out, piece{text: "\n"}, piece{text: "\r", noLFNext: true}, piece{text: "\r\n"})
	default:
		out = append(out, piece{text: string([]byte{b})})
	}
	named := map[byte]string{'\n': "n", '\r': "r", '\t': "t", '\b': "b", '\f': "f", '\\': "\\", '(': "(", ')': ")"}
	if n, ok := named[b]; ok {
		out = append(out, piece{text: "\\" + n})
	}
	if o.Backslash {
		switch {
		case b == 'n' || b == 'r' || b == 't' || b == 'b' || b == 'f' || b == '\\' || b == '(' || b == ')':
		case b >= '0' && b <= '7':
		case b == '\n' || b == '\r':
		default:
			out = append(out, piece{text: "\\" + string([]byte{b})})
		}
	}
	if o.Octal {
		out = append(out, piece{text: fmt.Sprintf("\\%03o", b)})
		if b < 64 {
			out = append(out, piece{text: fmt.Sprintf("\\%02o", b), noOctalNext: true})
		}
		if b < 8 {
			out = append(out, piece{text: fmt.Sprintf("\\%o", b), noOctalNext: true})
		}
		// high-order overflow is ignored (PLRM 3.2.2)
		out = append(out, piece{text: fmt.Sprintf("\\%03o", 256+int(b))})
	}
	return out
}

var gapForms = []piece{
	{text: ""},
	{text: "\\\n"},
	{text: "\\\r", noLFNext: true},
	{text: "\\\r\n"},
}

// LiteralSpellings returns every "( ... )" spelling of content that the
// options allow.  Constraints honoured: raw parentheses balance; a short octal
// escape is not followed by an octal digit; a raw CR (as a newline or inside
// a line continuation) is not followed by a raw LF.
func LiteralSpellings(content []byte, o LitOptions) []string {
	var out []string
	var sb []byte
	var rec func(i int, prev piece, depth int)
	emit := func(prev piece, p piece, depth int) (int, bool) {
		if p.text != "" {
			first := p.text[0]
			if prev.noOctalNext && first >= '0' && first <= '7' {
				return 0, false
			}
			if prev.noLFNext && first == '\n' {
				return 0, false
			}
		}
		depth += p.paren
		if depth < 0 {
			return 0, false
		}
		return depth, true
	}
	carry := func(prev, p piece) piece {
		if p.text == "" {
			return prev // an empty gap does not separate anything
		}
		return p
	}
	gaps := gapForms[:1]
	if o.Gaps {
		gaps = gapForms
	}
	rec = func(i int, prev piece, depth int) {
		for _, g := range gaps {
			d1, ok := emit(prev, g, depth)
			if !ok {
				continue
			}
			mark := len(sb)
			sb = append(sb, g.text...)
			pg := carry(prev, g)
			if i == len(content) {
				// the closing parenthesis is neither a digit nor LF
				if d1 == 0 {
					out = append(out, "("+string(sb)+")")
				}
				sb = sb[:mark]
				continue
			}
			for _, f := range byteForms(content[i], o) {
				d2, ok := emit(pg, f, d1)
				if !ok {
					continue
				}
				m2 := len(sb)
				sb = append(sb, f.text...)
				rec(i+1, f, d2)
				sb = sb[:m2]
			}
			sb = sb[:mark]
		}
	}
	rec(0, piece{}, 0)
	return out
}

// ---------------------------------------------------------------------------
// hexadecimal strings

const lowerHex = "0123456789abcdef"
const upperHex = "0123456789ABCDEF"

// HexDigits returns the hex digits of content; bit i of caseMask selects
// upper case for digit i (cyclic over 16 bits).  If dropLast is set and the
// last nibble is 0, the final digit is omitted (PLRM: a missing final digit
// is taken to be 0).
func HexDigits(content []byte, caseMask uint16, dropLast bool) []byte {
	var out []byte
	for _, b := range content {
		for _, nib := range []byte{b >> 4, b & 15} {
			if caseMask>>(uint(len(out))%16)&1 == 1 {
				out = append(out, upperHex[nib])
			} else {
				out = append(out, lowerHex[nib])
			}
		}
	}
	if dropLast && len(content) > 0 && content[len(content)-1]&15 == 0 {
		out = out[:len(out)-1]
	}
	return out
}

// WrapWithInserts returns open + body + close with the strings ins[pos]
// inserted before body[pos] (pos == len(body): before close).
func WrapWithInserts(open string, body []byte, close string, ins map[int]string) string {
	var sb strings.Builder
	sb.WriteString(open)
	for i := 0; i <= len(body); i++ {
		if s, ok := ins[i]; ok {
			sb.WriteString(s)
		}
		if i < len(body) {
			sb.WriteByte(body[i])
		}
	}
	sb.WriteString(close)
	return sb.String()
}

// ---------------------------------------------------------------------------
// ASCII85 strings

// A85Body returns the ASCII base-85 encoding of content (without <~ and ~>).
// If useZ is set, all-zero groups are written as "z", otherwise as "!!!!!".
func A85Body(content []byte, useZ bool) []byte {
	var out []byte
	for i := 0; i < len(content); i += 4 {
		n := len(content) - i
		if n > 4 {
			n = 4
		}
		var grp [4]byte
		copy(grp[:], content[i:i+n])
		v := uint64(grp[0])<<24 | uint64(grp[1])<<16 | uint64(grp[2])<<8 | uint64(grp[3])
		if n == 4 && v == 0 && useZ {
			out = append(out, 'z')
			continue
		}
		var d [5]byte
		for k := 4; k >= 0; k-- {
			d[k] = byte(v%85) + '!'
			v /= 85
		}
		out = append(out, d[:n+1]...)
	}
	return out
}

// ---------------------------------------------------------------------------
// DSC comments

// DSC is one expected structured comment.
type DSC struct {
	Key, Value string
}
