package mc

import (
	"encoding/json"
	"fmt"
	"hash/fnv"
	"math/rand"
	"os"
	"runtime/debug"
	"runtime/pprof"
	"strings"
	"syscall"
	"time"
	"unsafe"
)

// Family is one exhaustive exploration: Items independent roots, each with a
// choice tree explored completely within MaxDev deviations.
type Family struct {
	Name  string
	Items int
	// MaxDev bounds the number of non-default Deviate answers per execution.
	MaxDev int
	Body   func(c *Ctx, item int) Verdict
	// Rule: how cases are enumerated and what makes one non-trivial.
	Rule string
	// Budget is the internal deadline for this family (0 = none).  Hitting it
	// ends the family with exhaustive=false; it never produces an alarm.
	Budget time.Duration
	// HangSeconds overrides the watchdog (default 120 s without progress).
	HangSeconds int
	// Describe renders an item for crash reports (the body cannot be asked:
	// it is what crashed).
	Describe func(item int) string
	// CrashKey gives the finding key for a crash/hang on item.
	CrashKey func(item int) string
	// Supporting families are reported but do not decide the property
	// (e.g. a free-running -race pass).
	Supporting bool
	// Note is copied into the evidence.
	Note string
}

// Stats is what a worker measured.
type Stats struct {
	Items        int            `json:"items"`
	Executions   int            `json:"executions"`
	ChoicePoints int            `json:"choice_points"`
	MaxDepth     int            `json:"max_depth"`
	DevHist      []int          `json:"dev_hist"`
	States       int            `json:"states"`
	Transitions  int            `json:"transitions"`
	Nontrivial   int            `json:"nontrivial"`
	Outcomes     map[string]int `json:"outcomes"`
	Samples      []string       `json:"samples"`
	Replayed     int            `json:"replayed"`
	Capped       bool           `json:"capped"`
	SigCapped    bool           `json:"sig_capped"`
	WallS        float64        `json:"wall_s"`
	NextPos      int            `json:"next_pos"`
}

// Violation is one failing execution, verified by re-execution.
type Violation struct {
	Family  string `json:"family"`
	Item    int    `json:"item"`
	Choices []int  `json:"choices"`
	Key     string `json:"key"`
	Detail  string `json:"detail"`
	Render  string `json:"render"`
	Crash   bool   `json:"crash,omitempty"`
}

type record struct {
	Type      string     `json:"type"` // stats | violation | nondet | done
	Stats     *Stats     `json:"stats,omitempty"`
	Violation *Violation `json:"violation,omitempty"`
	Msg       string     `json:"msg,omitempty"`
}

type worker struct {
	fam       *Family
	out       *os.File
	enc       *json.Encoder
	progress  []byte
	stats     Stats
	sigs      map[uint64]struct{}
	keys      map[string]int
	suspects  int
	seen      map[uint64]visit
	deadline  time.Time
	lastFlush time.Time
}

const maxSigs = 3_000_000
const maxKeysPerWorker = 40
const maxPerKey = 1

func (w *worker) setProgress(pos, item int) {
	if w.progress == nil {
		return
	}
	*(*int64)(unsafe.Pointer(&w.progress[0])) = int64(pos)
	*(*int64)(unsafe.Pointer(&w.progress[8])) = int64(item)
	*(*int64)(unsafe.Pointer(&w.progress[16]))++
}

func (w *worker) heartbeat() {
	if w.progress != nil {
		*(*int64)(unsafe.Pointer(&w.progress[16]))++
	}
}

func (w *worker) flush(force bool) {
	now := time.Now()
	if !force && now.Sub(w.lastFlush) < time.Second {
		return
	}
	w.lastFlush = now
	st := w.stats
	w.enc.Encode(record{Type: "stats", Stats: &st})
}

// runOnce executes the body for one prefix, catching panics.
func (w *worker) runOnce(item int, prefix []int, render bool) (c *Ctx, v Verdict) {
	c = &Ctx{prefix: prefix, maxDev: w.fam.MaxDev, render: render, seen: w.seen}
	defer func() {
		if r := recover(); r != nil {
			msg := fmt.Sprint(r)
			stack := string(debug.Stack())
			v = Verdict{OK: false, Outcome: "PANIC", Key: "panic: " + panicKey(msg, stack), Detail: "panic: " + msg + "\n" + trimStack(stack), Nontrivial: true}
		}
	}()
	v = w.fam.Body(c, item)
	return c, v
}

func panicKey(msg, stack string) string {
	// keep the message class and the first library frame
	if i := strings.Index(msg, "["); i > 0 && strings.Contains(msg, "out of range") {
		msg = msg[:i]
	}
	if len(msg) > 80 {
		msg = msg[:80]
	}
	fn := ""
	for _, line := range strings.Split(stack, "\n") {
		if strings.HasPrefix(line, "seehuhn.de/go/postscript") {
			fn = line
			if i := strings.Index(fn, "("); i > 0 {
				fn = fn[:i]
			}
			break
		}
	}
	return strings.TrimSpace(msg) + " @" + fn
}

func trimStack(s string) string {
	lines := strings.Split(s, "\n")
	if len(lines) > 30 {
		lines = lines[:30]
	}
	return strings.Join(lines, "\n")
}

func (w *worker) account(c *Ctx, v Verdict, item int) {
	st := &w.stats
	st.Executions++
	st.ChoicePoints += len(c.points) - min(len(c.prefix), len(c.points))
	if len(c.points) > st.MaxDepth {
		st.MaxDepth = len(c.points)
	}
	d := c.DevUsed()
	for len(st.DevHist) <= d {
		st.DevHist = append(st.DevHist, 0)
	}
	st.DevHist[d]++
	st.States += c.newStates
	st.Transitions += c.transitions
	if v.Nontrivial {
		if v.Sig == "" {
			st.Nontrivial++
		} else {
			h := fnv.New64a()
			fmt.Fprintf(h, "%d|", item)
			h.Write([]byte(v.Sig))
			k := h.Sum64()
			if _, ok := w.sigs[k]; !ok {
				if len(w.sigs) < maxSigs {
					w.sigs[k] = struct{}{}
					st.Nontrivial++
				} else {
					st.SigCapped = true
				}
			}
		}
	}
	if len(st.Outcomes) < 400 || st.Outcomes[v.Outcome] > 0 {
		st.Outcomes[v.Outcome]++
	} else {
		st.Outcomes["(other)"]++
	}
}

func sameObservation(a, b Verdict) bool {
	return a.OK == b.OK && a.Outcome == b.Outcome && a.Key == b.Key && a.Sig == b.Sig
}

// explore runs prefix and then every extension within the deviation bound.
func (w *worker) explore(item int, prefix []int) {
	wantRender := len(w.stats.Samples) < 6 && (w.stats.Executions%97 == 0)
	c, v := w.runOnce(item, prefix, wantRender)
	if c.diverged != "" {
		w.nondet(item, prefix, c.diverged)
	}
	w.account(c, v, item)
	w.heartbeat()
	if wantRender && v.Render != "" && v.OK {
		s := v.Render
		if len(s) > 600 {
			s = s[:600] + "…"
		}
		w.stats.Samples = append(w.stats.Samples, fmt.Sprintf("[%s item=%d choices=%v outcome=%s] %s", w.fam.Name, item, c.choices, v.Outcome, s))
	}
	// determinism self-check on every 1000th execution and every violation
	if !v.OK || (w.stats.Executions%1000 == 0 && !c.pruned) {
		reps := 1
		if !v.OK {
			reps = 4
		}
		full := append([]int(nil), c.choices...)
		var last Verdict
		suspect := false
		for r := 0; r < reps; r++ {
			w.seen = map[uint64]visit{} // a replay must not be pruned
			c2, v2 := w.runOnce(item, full, !v.OK)
			w.stats.Replayed++
			if c2.diverged != "" || !sameObservation(v, v2) || len(c2.choices) != len(full) {
				if !v.OK && c2.diverged == "" {
					// A violation that does not repeat when the execution is run again in
					// this process: either the harness is nondeterministic, or the code
					// under test carried state over from the first execution.  The
					// parent decides by running this one execution first thing in fresh
					// processes (see confirmSuspects).
					w.suspect(item, full, v)
					suspect = true
					break
				}
				w.nondet(item, full, fmt.Sprintf("re-execution differs: first=%+v again=%+v diverged=%q", v, v2, c2.diverged))
			}
			last = v2
		}
		w.seen = c.seen
		if !v.OK && !suspect {
			w.violation(item, full, last)
		}
	}
	if !w.deadline.IsZero() && w.stats.Executions%64 == 0 && time.Now().After(w.deadline) {
		w.stats.Capped = true
	}
	if w.stats.Capped {
		return
	}
	w.flush(false)
	choices := c.choices
	points := c.points
	for i := len(prefix); i < len(points); i++ {
		p := points[i]
		if p.arity <= 1 {
			continue
		}
		if p.dev {
			used := 0
			for j := 0; j < i; j++ {
				if points[j].dev && choices[j] != 0 {
					used++
				}
			}
			if used+1 > w.fam.MaxDev {
				continue
			}
		}
		for alt := 1; alt < p.arity; alt++ {
			np := make([]int, i+1)
			copy(np, choices[:i])
			np[i] = alt
			w.explore(item, np)
			if w.stats.Capped {
				return
			}
		}
	}
}

func (w *worker) nondet(item int, choices []int, msg string) {
	w.enc.Encode(record{Type: "nondet", Msg: fmt.Sprintf("family=%s item=%d choices=%v: %s", w.fam.Name, item, choices, msg)})
	w.out.Sync()
	fmt.Fprintf(os.Stderr, "NONDETERMINISTIC-HARNESS family=%s item=%d choices=%v: %s\n", w.fam.Name, item, choices, msg)
	os.Exit(3)
}

// suspect records a violation that did not repeat on re-execution in this process.
func (w *worker) suspect(item int, choices []int, v Verdict) {
	if w.suspects >= 3 {
		return
	}
	w.suspects++
	w.enc.Encode(record{Type: "suspect", Violation: &Violation{
		Family: w.fam.Name, Item: item, Choices: choices, Key: v.Key, Detail: v.Detail, Render: v.Render,
	}})
	w.out.Sync()
}

func (w *worker) violation(item int, choices []int, v Verdict) {
	if w.keys[v.Key] >= maxPerKey {
		w.keys[v.Key]++
		return
	}
	if len(w.keys) >= maxKeysPerWorker {
		return
	}
	w.keys[v.Key]++
	w.enc.Encode(record{Type: "violation", Violation: &Violation{
		Family: w.fam.Name, Item: item, Choices: choices, Key: v.Key, Detail: v.Detail, Render: v.Render,
	}})
}

// runWorker is the entry point of a worker process.
// confirmChoices, when set (flag -confirm), makes the worker run that single
// execution of item -onlyitem and nothing else.
var confirmChoices []int

func runWorker(fam *Family, shard, nshards, startPos, onlyItem int, seed int64, outPath, progressPath string, budget time.Duration) {
	debug.SetMaxStack(256 << 20)
	debug.SetGCPercent(200)
	out, err := os.OpenFile(outPath, os.O_CREATE|os.O_WRONLY|os.O_APPEND, 0o644)
	if err != nil {
		fmt.Fprintln(os.Stderr, err)
		os.Exit(4)
	}
	w := &worker{fam: fam, out: out, enc: json.NewEncoder(out), sigs: map[uint64]struct{}{}, keys: map[string]int{}}
	w.stats.Outcomes = map[string]int{}
	if progressPath != "" {
		f, err := os.OpenFile(progressPath, os.O_CREATE|os.O_RDWR, 0o644)
		if err == nil {
			f.Truncate(64)
			w.progress, _ = syscall.Mmap(int(f.Fd()), 0, 64, syscall.PROT_READ|syscall.PROT_WRITE, syscall.MAP_SHARED)
			f.Close()
		}
	}
	if pf := os.Getenv("VERIF_CPUPROFILE"); pf != "" && shard == 0 {
		if f, err := os.Create(pf); err == nil {
			pprof.StartCPUProfile(f)
			defer pprof.StopCPUProfile()
		}
	}
	start := time.Now()
	if budget > 0 {
		w.deadline = start.Add(budget)
	}
	if confirmChoices != nil {
		// one execution, the first this process makes: no self-check, no exploration
		w.setProgress(0, onlyItem)
		w.seen = map[uint64]visit{}
		_, v := w.runOnce(onlyItem, confirmChoices, true)
		if !v.OK {
			w.violation(onlyItem, confirmChoices, v)
		}
		w.flush(true)
		w.enc.Encode(record{Type: "done"})
		out.Close()
		os.Exit(0)
	}
	var items []int
	if onlyItem >= 0 {
		items = []int{onlyItem}
	} else {
		for i := shard; i < fam.Items; i += nshards {
			items = append(items, i)
		}
		rng := rand.New(rand.NewSource(seed*1000003 + int64(shard)))
		rng.Shuffle(len(items), func(i, j int) { items[i], items[j] = items[j], items[i] })
	}
	pos := startPos
	for ; pos < len(items); pos++ {
		item := items[pos]
		w.setProgress(pos, item)
		w.seen = map[uint64]visit{}
		w.explore(item, nil)
		if w.stats.Capped {
			break
		}
		w.stats.Items++
		w.stats.NextPos = pos + 1
	}
	w.stats.WallS = time.Since(start).Seconds()
	w.flush(true)
	w.enc.Encode(record{Type: "done"})
	out.Close()
	pprof.StopCPUProfile()
	os.Exit(0)
}
