// Package mc is the bounded-exhaustive explorer shared by all property checks.
//
// A check is a nondeterministic Go program ("body") whose every free decision
// is a call to Ctx.Choose or Ctx.Deviate.  The explorer enumerates all
// executions of the body within the deviation bound by depth-first search over
// the choice tree, re-running the body (and hence the real library code) from
// a fresh state for every path.
package mc

import (
	"fmt"
	"hash/fnv"
)

// point is one choice point met during an execution.
type point struct {
	arity int
	dev   bool
}

// Ctx is handed to the body for one execution.
type Ctx struct {
	prefix  []int
	choices []int
	points  []point
	maxDev  int

	render bool

	// explicit-state bookkeeping (per item)
	seen        map[uint64]visit
	newStates   int
	transitions int

	diverged string
	pruned   bool
}

type visit struct {
	dev   int
	depth int
}

// Choose returns a value in [0,n).  Every alternative is explored.
func (c *Ctx) Choose(n int) int {
	return c.choose(n, false)
}

// Deviate returns 0 (the default answer of the environment) unless the
// explorer is exploring a deviation here; any non-zero answer costs one
// deviation, and executions with more than the configured number of
// deviations are not explored.
func (c *Ctx) Deviate(n int) int {
	return c.choose(n, true)
}

func (c *Ctx) choose(n int, dev bool) int {
	if n <= 0 {
		panic("mc: Choose with n <= 0")
	}
	i := len(c.choices)
	v := 0
	if i < len(c.prefix) {
		v = c.prefix[i]
		if v >= n {
			c.diverged = fmt.Sprintf("replay divergence at point %d: recorded choice %d, arity now %d", i, v, n)
			v = 0
		}
	}
	c.choices = append(c.choices, v)
	c.points = append(c.points, point{arity: n, dev: dev})
	return v
}

// DevUsed returns the number of deviations taken so far in this execution.
func (c *Ctx) DevUsed() int {
	k := 0
	for i, v := range c.choices {
		if c.points[i].dev && v != 0 {
			k++
		}
	}
	return k
}

// Render tells the body whether it should fill Verdict.Render (it is only
// needed for samples, violations and replays; producing it for every
// execution would dominate the run time).
func (c *Ctx) Render() bool { return c.render }

// Step counts one transition taken on the real code.
func (c *Ctx) Step() { c.transitions++ }

// Steps counts n transitions.
func (c *Ctx) Steps(n int) { c.transitions += n }

// live reports whether the execution has left the replayed prefix.
func (c *Ctx) live() bool { return len(c.choices) >= len(c.prefix) }

// Visit registers the canonical state key reached by the execution.  It
// returns true if the state was already expanded by an earlier execution of
// the same item with no more deviations used and at least as much remaining
// depth; the body should then stop (its futures are already covered).
// depthRemaining may be 0 when the body has no depth bound.
func (c *Ctx) Visit(key []byte, depthRemaining int) bool {
	if !c.live() {
		return false
	}
	h := fnv.New64a()
	h.Write(key)
	k := h.Sum64()
	dev := c.DevUsed()
	if old, ok := c.seen[k]; ok {
		if old.dev <= dev && old.depth >= depthRemaining {
			c.pruned = true
			return true
		}
		if dev <= old.dev && depthRemaining >= old.depth {
			c.seen[k] = visit{dev, depthRemaining}
		}
		return false
	}
	c.seen[k] = visit{dev, depthRemaining}
	c.newStates++
	return false
}

// Verdict is the result of one execution of a body.
type Verdict struct {
	OK         bool
	Outcome    string // coarse class, for the outcome histogram
	Nontrivial bool   // by the family's stated rule
	Sig        string // optional: distinctness signature within the item
	Key        string // finding key (when !OK)
	Detail     string // expected/actual (when !OK)
	Render     string // the case written out (when Ctx.Render())
}

// Pass is a convenience constructor.
func Pass(outcome string, nontrivial bool) Verdict {
	return Verdict{OK: true, Outcome: outcome, Nontrivial: nontrivial}
}

// Fail is a convenience constructor.
func Fail(key, detail string) Verdict {
	return Verdict{OK: false, Outcome: "VIOLATION", Key: key, Detail: detail, Nontrivial: true}
}
