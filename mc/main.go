package mc

import (
	"bufio"
	"crypto/sha256"
	"encoding/json"
	"flag"
	"fmt"
	"os"
	"os/exec"
	"path/filepath"
	"runtime"
	"sort"
	"strconv"
	"strings"
	"sync"
	"sync/atomic"
	"syscall"
	"time"
	"unsafe"
)

// Program describes the check of one property.
type Program struct {
	Property    string
	Level       string // evidence level, normally "model_checking"
	Assumptions []string
	TrustedBase []string
	// Families returns the explorations for a tier ("quick" or "thorough").
	Families func(tier string) []Family
	// Explanation is copied into coverage.explanation.
	Explanation string
	// MemLimitKB is the address-space cap of each worker (default 4 GiB).
	MemLimitKB int
}

type knownFinding struct {
	Property string `json:"property"`
	Key      string `json:"key"`
	Status   string `json:"status"` // open | fixed
	Commit   string `json:"commit,omitempty"`
	What     string `json:"what"`
	Line     string `json:"line,omitempty"`
}

type knownFile struct {
	Findings []knownFinding `json:"findings"`
}

type famResult struct {
	Name       string         `json:"name"`
	Items      int            `json:"items"`
	ItemsDone  int            `json:"items_done"`
	MaxDev     int            `json:"max_deviations"`
	Executions int            `json:"executions"`
	ChoicePts  int            `json:"choice_points"`
	MaxDepth   int            `json:"max_depth"`
	DevHist    []int          `json:"deviation_histogram"`
	States     int            `json:"states"`
	Trans      int            `json:"transitions"`
	Nontrivial int            `json:"nontrivial"`
	Outcomes   map[string]int `json:"outcomes"`
	Replayed   int            `json:"determinism_replays"`
	Exhaustive bool           `json:"exhaustive"`
	Cap        string         `json:"cap_hit,omitempty"`
	Rule       string         `json:"rule"`
	WallS      float64        `json:"wall_s"`
	Supporting bool           `json:"supporting,omitempty"`
	Note       string         `json:"note,omitempty"`
	samples    []string
}

var root string

// Main is the entry point of every check binary.
func Main(p Program) {
	var (
		tier      = flag.String("tier", envOr("VERIF_TIER", "quick"), "quick|thorough")
		seedFlag  = flag.Int64("seed", envInt("VERIF_SEED", 1), "seed (permutes visiting order only)")
		workers   = flag.Int("workers", min(16, runtime.NumCPU()), "worker processes")
		evidence  = flag.String("evidence", "", "evidence file to write")
		replay    = flag.String("replay", "", "replay file")
		rootFlag  = flag.String("root", envOr("VERIF_ROOT", "/verif"), "verif root")
		only      = flag.String("only", "", "run only the named family (debugging; evidence still written)")
		isWorker  = flag.Bool("worker", false, "internal")
		famIdx    = flag.Int("family", 0, "internal")
		shard     = flag.Int("shard", 0, "internal")
		nshards   = flag.Int("nshards", 1, "internal")
		startPos  = flag.Int("startpos", 0, "internal")
		onlyItem  = flag.Int("onlyitem", -1, "internal")
		outPath   = flag.String("out", "", "internal")
		progPath  = flag.String("progress", "", "internal")
		budgetSec = flag.Float64("budget", 0, "internal")
		confirm   = flag.String("confirm", "", "internal: JSON list of choices of the one execution to run")
	)
	flag.Parse()
	if *confirm != "" {
		if err := json.Unmarshal([]byte(*confirm), &confirmChoices); err != nil || confirmChoices == nil {
			confirmChoices = []int{}
		}
	}
	root = *rootFlag
	if *tier != "quick" && *tier != "thorough" {
		fmt.Fprintln(os.Stderr, "bad tier", *tier)
		os.Exit(2)
	}
	fams := p.Families(*tier)
	if *isWorker {
		f := &fams[*famIdx]
		runWorker(f, *shard, *nshards, *startPos, *onlyItem, *seedFlag, *outPath, *progPath, time.Duration(*budgetSec*float64(time.Second)))
		return
	}
	if *replay != "" {
		os.Exit(doReplay(p, fams, *replay))
	}
	if *evidence == "" {
		*evidence = filepath.Join(root, "evidence", p.Property+".json")
	}
	os.Exit(parent(p, fams, *tier, *seedFlag, *workers, *evidence, *only))
}

func envOr(k, d string) string {
	if v := os.Getenv(k); v != "" {
		return v
	}
	return d
}

func envInt(k string, d int64) int64 {
	if v := os.Getenv(k); v != "" {
		if n, err := strconv.ParseInt(v, 10, 64); err == nil {
			return n
		}
	}
	return d
}

type workerRun struct {
	shard    int
	startPos int
	onlyItem int
	confirm  string // JSON choices: run this one execution only
	outPath  string
	progPath string
	cmd      *exec.Cmd
	exitCode int
	signaled bool
	hung     bool
}

func readProgress(path string) (pos, item, beat int64, ok bool) {
	b, err := os.ReadFile(path)
	if err != nil || len(b) < 24 {
		return 0, 0, 0, false
	}
	return *(*int64)(unsafe.Pointer(&b[0])), *(*int64)(unsafe.Pointer(&b[8])), *(*int64)(unsafe.Pointer(&b[16])), true
}

func spawn(p Program, famIdx int, fam *Family, tier string, seed int64, nshards int, wr *workerRun, budget time.Duration) error {
	exe, err := os.Executable()
	if err != nil {
		return err
	}
	mem := p.MemLimitKB
	if mem == 0 {
		mem = 4 << 20
	}
	args := []string{"-c", fmt.Sprintf("ulimit -v %d; exec \"$0\" \"$@\"", mem), exe,
		"-worker", "-tier", tier, "-seed", fmt.Sprint(seed), "-family", fmt.Sprint(famIdx),
		"-shard", fmt.Sprint(wr.shard), "-nshards", fmt.Sprint(nshards), "-startpos", fmt.Sprint(wr.startPos),
		"-onlyitem", fmt.Sprint(wr.onlyItem), "-out", wr.outPath, "-progress", wr.progPath,
		"-budget", fmt.Sprintf("%.1f", budget.Seconds()), "-root", root}
	if wr.confirm != "" {
		args = append(args, "-confirm", wr.confirm)
	}
	cmd := exec.Command("/bin/sh", args...)
	cmd.Env = append(os.Environ(), "GOMAXPROCS=1", "GOTRACEBACK=single")
	cmd.Stdout = nil
	stderrPath := wr.outPath + ".stderr"
	ef, err := os.OpenFile(stderrPath, os.O_CREATE|os.O_WRONLY|os.O_APPEND, 0o644)
	if err != nil {
		return err
	}
	cmd.Stderr = ef
	wr.cmd = cmd
	err = cmd.Start()
	ef.Close()
	return err
}

// wait runs the watchdog and waits for the worker.
func (wr *workerRun) wait(hangSeconds int) {
	done := make(chan struct{})
	go func() {
		err := wr.cmd.Wait()
		if err != nil {
			if ee, ok := err.(*exec.ExitError); ok {
				wr.exitCode = ee.ExitCode()
				if ws, ok := ee.Sys().(syscall.WaitStatus); ok && ws.Signaled() {
					wr.signaled = true
				}
			} else {
				wr.exitCode = -1
			}
		}
		close(done)
	}()
	var lastBeat int64 = -1
	lastChange := time.Now()
	tick := time.NewTicker(time.Second)
	defer tick.Stop()
	for {
		select {
		case <-done:
			return
		case <-tick.C:
			_, _, beat, ok := readProgress(wr.progPath)
			if ok && beat != lastBeat {
				lastBeat = beat
				lastChange = time.Now()
			} else if time.Since(lastChange) > time.Duration(hangSeconds)*time.Second {
				wr.hung = true
				wr.cmd.Process.Kill()
				<-done
				return
			}
		}
	}
}

type famOutcome struct {
	res        famResult
	violations []Violation
	nondet     []string
	harnessErr []string
}

// suspectsOf lists the violations a worker saw once but could not repeat in-process.
func suspectsOf(path string) (out []Violation) {
	f, err := os.Open(path)
	if err != nil {
		return nil
	}
	defer f.Close()
	sc := bufio.NewScanner(f)
	sc.Buffer(make([]byte, 1<<20), 64<<20)
	for sc.Scan() {
		var r record
		if json.Unmarshal(sc.Bytes(), &r) == nil && r.Type == "suspect" && r.Violation != nil {
			out = append(out, *r.Violation)
		}
	}
	return
}

func readOut(path string) (last *Stats, vio []Violation, nondet []string, done bool) {
	f, err := os.Open(path)
	if err != nil {
		return nil, nil, nil, false
	}
	defer f.Close()
	sc := bufio.NewScanner(f)
	sc.Buffer(make([]byte, 1<<20), 64<<20)
	for sc.Scan() {
		var r record
		if json.Unmarshal(sc.Bytes(), &r) != nil {
			continue
		}
		switch r.Type {
		case "stats":
			last = r.Stats
		case "violation":
			vio = append(vio, *r.Violation)
		case "nondet":
			nondet = append(nondet, r.Msg)
		case "done":
			done = true
		}
	}
	return
}

func merge(dst *famResult, st *Stats) {
	if st == nil {
		return
	}
	dst.ItemsDone += st.Items
	dst.Executions += st.Executions
	dst.ChoicePts += st.ChoicePoints
	if st.MaxDepth > dst.MaxDepth {
		dst.MaxDepth = st.MaxDepth
	}
	for i, n := range st.DevHist {
		for len(dst.DevHist) <= i {
			dst.DevHist = append(dst.DevHist, 0)
		}
		dst.DevHist[i] += n
	}
	dst.States += st.States
	dst.Trans += st.Transitions
	dst.Nontrivial += st.Nontrivial
	dst.Replayed += st.Replayed
	for k, n := range st.Outcomes {
		dst.Outcomes[k] += n
	}
	if st.Capped {
		dst.Exhaustive = false
		dst.Cap = "time budget of family reached"
	}
	if st.SigCapped {
		dst.Note += " distinct-signature set capped (nontrivial is a lower bound)."
	}
	for _, s := range st.Samples {
		if len(dst.samples) < 12 {
			dst.samples = append(dst.samples, s)
		}
	}
}

func runFamily(p Program, famIdx int, fam *Family, tier string, seed int64, nworkers int, scratch string) famOutcome {
	start := time.Now()
	fo := famOutcome{res: famResult{Name: fam.Name, Items: fam.Items, MaxDev: fam.MaxDev, Outcomes: map[string]int{}, Exhaustive: true, Rule: fam.Rule, Supporting: fam.Supporting, Note: fam.Note}}
	if fam.Items <= 0 {
		return fo
	}
	n := nworkers
	if fam.Items < n {
		n = fam.Items
	}
	hang := fam.HangSeconds
	if hang == 0 {
		hang = 120
	}
	var mu sync.Mutex
	var wg sync.WaitGroup
	// once a few crashes or hangs have been attributed in this family there is
	// nothing to gain from waiting for the watchdog again and again: the
	// remaining shards stop (the family is then reported as not exhaustive)
	var crashes atomic.Int32
	const maxCrashesPerFamily = 4
	for s := 0; s < n; s++ {
		wg.Add(1)
		go func(s int) {
			defer wg.Done()
			startPos := 0
			seg := 0
			deadline := time.Time{}
			if fam.Budget > 0 {
				deadline = start.Add(fam.Budget)
			}
			for {
				if crashes.Load() >= maxCrashesPerFamily && seg > 0 {
					return
				}
				wr := &workerRun{shard: s, startPos: startPos, onlyItem: -1,
					outPath:  filepath.Join(scratch, fmt.Sprintf("f%d-s%d-%d.jsonl", famIdx, s, seg)),
					progPath: filepath.Join(scratch, fmt.Sprintf("f%d-s%d-%d.progress", famIdx, s, seg))}
				var budget time.Duration
				if !deadline.IsZero() {
					budget = time.Until(deadline)
					if budget < time.Second {
						budget = time.Second
					}
				}
				if err := spawn(p, famIdx, fam, tier, seed, n, wr, budget); err != nil {
					mu.Lock()
					fo.harnessErr = append(fo.harnessErr, err.Error())
					mu.Unlock()
					return
				}
				wr.wait(hang)
				last, vio, nondet, done := readOut(wr.outPath)
				// violations that did not repeat inside the worker: run each as the first
				// execution of two fresh processes; if both violate with the same key the
				// code under test carries state between executions and the violation
				// stands, otherwise the harness is nondeterministic
				for si, sv := range suspectsOf(wr.outPath) {
					cj, _ := json.Marshal(sv.Choices)
					if sv.Choices == nil {
						cj = []byte("[]")
					}
					confirmed := 0
					for t := 0; t < 2; t++ {
						wr2 := &workerRun{shard: 0, onlyItem: sv.Item, confirm: string(cj),
							outPath:  filepath.Join(scratch, fmt.Sprintf("f%d-s%d-%d-confirm%d-%d.jsonl", famIdx, s, seg, si, t)),
							progPath: filepath.Join(scratch, fmt.Sprintf("f%d-s%d-%d-confirm%d-%d.progress", famIdx, s, seg, si, t))}
						if err := spawn(p, famIdx, fam, tier, seed, 1, wr2, 0); err != nil {
							break
						}
						wr2.wait(hang)
						_, v2, _, d2 := readOut(wr2.outPath)
						if d2 && len(v2) == 1 && v2[0].Key == sv.Key {
							confirmed++
						}
					}
					if confirmed == 2 {
						sv.Detail += "\n(violates as the first execution of a fresh process, 2 of 2 times; did not repeat when re-executed in the same process: state is carried over between executions)"
						vio = append(vio, sv)
					} else {
						nondet = append(nondet, fmt.Sprintf("family=%s item=%d choices=%v: violation %s seen once, not repeated in-process, confirmed in %d of 2 fresh processes", fam.Name, sv.Item, sv.Choices, sv.Key, confirmed))
					}
				}
				mu.Lock()
				merge(&fo.res, last)
				fo.violations = append(fo.violations, vio...)
				fo.nondet = append(fo.nondet, nondet...)
				mu.Unlock()
				if done && wr.exitCode == 0 && !wr.hung {
					return
				}
				if wr.exitCode == 3 && len(nondet) > 0 {
					return
				}
				if wr.exitCode == 3 || wr.exitCode == 4 {
					mu.Lock()
					fo.harnessErr = append(fo.harnessErr, fmt.Sprintf("worker shard %d exit %d: %s", s, wr.exitCode, tail(wr.outPath+".stderr", 2000)))
					mu.Unlock()
					return
				}
				// crash or hang: attribute to the item in the progress file
				pos, item, _, ok := readProgress(wr.progPath)
				if !ok {
					mu.Lock()
					fo.harnessErr = append(fo.harnessErr, fmt.Sprintf("worker shard %d died (exit %d) without progress record: %s", s, wr.exitCode, tail(wr.outPath+".stderr", 2000)))
					mu.Unlock()
					return
				}
				how := fmt.Sprintf("worker died (exit %d, signaled=%v)", wr.exitCode, wr.signaled)
				if wr.hung {
					how = fmt.Sprintf("no progress for %d s (hang)", hang)
				}
				stderrTail := tail(wr.outPath+".stderr", 3000)
				// re-run that single item in fresh workers
				repro := 0
				const tries = 3
				for t := 0; t < tries; t++ {
					wr2 := &workerRun{shard: 0, onlyItem: int(item),
						outPath:  filepath.Join(scratch, fmt.Sprintf("f%d-s%d-%d-rerun%d.jsonl", famIdx, s, seg, t)),
						progPath: filepath.Join(scratch, fmt.Sprintf("f%d-s%d-%d-rerun%d.progress", famIdx, s, seg, t))}
					if err := spawn(p, famIdx, fam, tier, seed, 1, wr2, 0); err != nil {
						break
					}
					wr2.wait(hang)
					_, _, _, d2 := readOut(wr2.outPath)
					if !(d2 && wr2.exitCode == 0 && !wr2.hung) {
						repro++
					} else if t == 0 {
						break
					}
				}
				crashes.Add(1)
				mu.Lock()
				if repro == tries {
					desc := fmt.Sprintf("item %d", item)
					if fam.Describe != nil {
						desc = fam.Describe(int(item))
					}
					key := "crash: " + fam.Name
					if fam.CrashKey != nil {
						key = fam.CrashKey(int(item))
					}
					fo.violations = append(fo.violations, Violation{Family: fam.Name, Item: int(item), Key: key,
						Detail: how + "; reproduced in " + fmt.Sprint(tries) + " fresh single-item workers\n" + stderrTail, Render: desc, Crash: true})
				} else {
					fo.harnessErr = append(fo.harnessErr, fmt.Sprintf("family %s item %d: %s but reproduced only %d/%d times: %s", fam.Name, item, how, repro, tries, stderrTail))
				}
				mu.Unlock()
				startPos = int(pos) + 1
				seg++
				if crashes.Load() >= maxCrashesPerFamily {
					mu.Lock()
					fo.res.Exhaustive = false
					mu.Unlock()
					return
				}
				if seg > 200 {
					mu.Lock()
					fo.harnessErr = append(fo.harnessErr, "too many worker crashes in shard")
					mu.Unlock()
					return
				}
			}
		}(s)
	}
	wg.Wait()
	fo.res.WallS = time.Since(start).Seconds()
	fo.res.samples = dedupe(fo.res.samples)
	return fo
}

func dedupe(ss []string) []string {
	seen := map[string]bool{}
	var out []string
	for _, s := range ss {
		if !seen[s] {
			seen[s] = true
			out = append(out, s)
		}
	}
	return out
}

func tail(path string, n int) string {
	b, err := os.ReadFile(path)
	if err != nil {
		return ""
	}
	// keep the head of a Go fatal error: it names the cause
	if len(b) > n {
		b = b[:n]
	}
	return string(b)
}

func loadKnown(prop string) []knownFinding {
	files := []string{filepath.Join(root, "known_findings.json")}
	more, _ := filepath.Glob(filepath.Join(root, "known_findings.d", "*.json"))
	sort.Strings(more)
	files = append(files, more...)
	var out []knownFinding
	for _, fn := range files {
		b, err := os.ReadFile(fn)
		if err != nil {
			continue
		}
		var kf knownFile
		if err := json.Unmarshal(b, &kf); err != nil {
			fmt.Fprintln(os.Stderr, fn+":", err)
			os.Exit(2)
		}
		for _, f := range kf.Findings {
			if f.Property == prop && f.Status == "open" {
				out = append(out, f)
			}
		}
	}
	return out
}

func parent(p Program, fams []Family, tier string, seed int64, nworkers int, evidencePath, only string) int {
	start := time.Now()
	scratch, err := os.MkdirTemp(filepath.Join(root, "build"), "run-"+p.Property+"-")
	if err != nil {
		os.MkdirAll(filepath.Join(root, "build"), 0o755)
		scratch, err = os.MkdirTemp(filepath.Join(root, "build"), "run-"+p.Property+"-")
		if err != nil {
			fmt.Fprintln(os.Stderr, err)
			return 2
		}
	}
	defer os.RemoveAll(scratch)

	var results []famResult
	var violations []Violation
	var harness []string
	for i := range fams {
		if only != "" && fams[i].Name != only {
			continue
		}
		fo := runFamily(p, i, &fams[i], tier, seed, nworkers, scratch)
		results = append(results, fo.res)
		violations = append(violations, fo.violations...)
		harness = append(harness, fo.harnessErr...)
		for _, m := range fo.nondet {
			harness = append(harness, "NONDETERMINISTIC-HARNESS "+m)
		}
		fmt.Printf("family %-28s items=%d/%d executions=%d states=%d transitions=%d nontrivial=%d outcomes=%d exhaustive=%v wall=%.1fs\n",
			fo.res.Name, fo.res.ItemsDone, fo.res.Items, fo.res.Executions, fo.res.States, fo.res.Trans, fo.res.Nontrivial, len(fo.res.Outcomes), fo.res.Exhaustive, fo.res.WallS)
	}

	// classify violations
	known := loadKnown(p.Property)
	byKey := map[string][]Violation{}
	var keys []string
	for _, v := range violations {
		if _, ok := byKey[v.Key]; !ok {
			keys = append(keys, v.Key)
		}
		byKey[v.Key] = append(byKey[v.Key], v)
	}
	sort.Strings(keys)
	nViol := 0
	knownHit := map[string]bool{}
	os.MkdirAll(filepath.Join(root, "replays"), 0o755)
	var lines []string
	for _, k := range keys {
		v := byKey[k][0]
		isKnown := false
		for _, kf := range known {
			if kf.Key == k {
				isKnown = true
				if !knownHit[k] {
					knownHit[k] = true
					lines = append(lines, fmt.Sprintf("KNOWN-FINDING: property=%s %s [key=%s]", p.Property, kf.What, k))
				}
			}
		}
		if isKnown {
			continue
		}
		nViol++
		h := sha256.Sum256([]byte(k))
		path := filepath.Join(root, "replays", fmt.Sprintf("%s-%x.json", p.Property, h[:6]))
		rep := map[string]any{"property": p.Property, "tier": tier, "seed": seed, "family": v.Family, "item": v.Item,
			"choices": v.Choices, "key": v.Key, "detail": v.Detail, "render": v.Render, "crash": v.Crash}
		b, _ := json.MarshalIndent(rep, "", " ")
		os.WriteFile(path, b, 0o644)
		fmt.Printf("--- violation key=%s\n    case: %s\n    %s\n", k, oneLine(v.Render, 400), oneLine(v.Detail, 1200))
		lines = append(lines, fmt.Sprintf("VIOLATION property=%s replay=%s", p.Property, path))
	}
	for _, l := range lines {
		fmt.Println(l)
	}

	// evidence
	tot := famResult{Outcomes: map[string]int{}}
	exhaustive := true
	var samples []any
	var famJSON []famResult
	var rules []string
	for _, r := range results {
		famJSON = append(famJSON, r)
		if r.Supporting {
			continue
		}
		tot.Executions += r.Executions
		tot.States += r.States
		tot.Trans += r.Trans
		tot.Nontrivial += r.Nontrivial
		tot.ChoicePts += r.ChoicePts
		if !r.Exhaustive {
			exhaustive = false
		}
		for i, s := range r.samples {
			if i < 3 {
				samples = append(samples, s)
			}
		}
		rules = append(rules, r.Name+": "+r.Rule)
	}
	level := p.Level
	if level == "" {
		level = "model_checking"
	}
	states := tot.States + tot.Executions
	transitions := tot.Trans + tot.ChoicePts + tot.Executions
	if len(samples) == 0 {
		samples = append(samples, "(no sample rendered)")
	}
	cov := map[string]any{
		"states":                        states,
		"transitions":                   transitions,
		"traces_validated_against_impl": tot.Executions,
		"samples":                       samples,
		"evaluations":                   tot.Executions,
		"distinct_nontrivial":           tot.Nontrivial,
		"rule":                          strings.Join(rules, " || "),
		"exhaustive":                    exhaustive,
		"families":                      famJSON,
		"explanation": "states = distinct canonical states registered by explicit-state families + distinct complete executions (leaves of the choice tree, each visited once by construction); " +
			"transitions = steps counted on real library code + choice points decided + executions; every execution runs the real implementation and is compared with the oracle, so traces_validated_against_impl = executions. " + p.Explanation,
		"workers":        nworkers,
		"known_findings": len(knownHit),
		"trusted_base":   p.TrustedBase,
	}
	ev := map[string]any{
		"property_id": p.Property,
		"tier":        tier,
		"seed":        seed,
		"level":       level,
		"coverage":    cov,
		"assumptions": p.Assumptions,
		"wall_s":      time.Since(start).Seconds(),
		"violations":  nViol,
	}
	if len(harness) > 0 {
		ev["harness_errors"] = harness
	}
	b, _ := json.MarshalIndent(ev, "", " ")
	os.MkdirAll(filepath.Dir(evidencePath), 0o755)
	if err := os.WriteFile(evidencePath, b, 0o644); err != nil {
		fmt.Fprintln(os.Stderr, err)
		return 2
	}
	fmt.Printf("%s %s: executions=%d states=%d transitions=%d nontrivial=%d exhaustive=%v violations=%d known=%d wall=%.1fs\n",
		p.Property, tier, tot.Executions, states, transitions, tot.Nontrivial, exhaustive, nViol, len(knownHit), time.Since(start).Seconds())
	if len(harness) > 0 {
		for _, h := range harness {
			fmt.Fprintln(os.Stderr, "HARNESS-ERROR:", oneLine(h, 2000))
		}
		if nViol == 0 {
			return 2
		}
	}
	if nViol > 0 {
		return 1
	}
	return 0
}

func oneLine(s string, n int) string {
	s = strings.ReplaceAll(s, "\n", " ⏎ ")
	if len(s) > n {
		s = s[:n] + "…"
	}
	return s
}

func doReplay(p Program, _ []Family, path string) int {
	b, err := os.ReadFile(path)
	if err != nil {
		fmt.Fprintln(os.Stderr, err)
		return 2
	}
	var rep struct {
		Tier    string `json:"tier"`
		Family  string `json:"family"`
		Item    int    `json:"item"`
		Choices []int  `json:"choices"`
		Key     string `json:"key"`
		Crash   bool   `json:"crash"`
	}
	if err := json.Unmarshal(b, &rep); err != nil {
		fmt.Fprintln(os.Stderr, err)
		return 2
	}
	fams := p.Families(rep.Tier)
	for i := range fams {
		if fams[i].Name != rep.Family {
			continue
		}
		w := &worker{fam: &fams[i], sigs: map[uint64]struct{}{}, keys: map[string]int{}, seen: map[uint64]visit{}}
		w.stats.Outcomes = map[string]int{}
		c, v := w.runOnce(rep.Item, rep.Choices, true)
		fmt.Printf("replay family=%s item=%d choices=%v\ncase: %s\noutcome: %s\n", rep.Family, rep.Item, c.choices, v.Render, v.Outcome)
		if !v.OK {
			fmt.Printf("key: %s\n%s\nVIOLATION property=%s replay=%s\n", v.Key, v.Detail, p.Property, path)
			return 1
		}
		fmt.Println("property held on this case")
		return 0
	}
	fmt.Fprintln(os.Stderr, "family not found:", rep.Family)
	return 2
}
