#!/bin/bash
# Builds every check binary once (offline) so that later ./check calls hit a warm build cache.
set -u
cd "$(dirname "$0")"
export GOFLAGS=-mod=mod GOPROXY=off GOSUMDB=off GOTOOLCHAIN=local
mkdir -p build/bin evidence replays
cp /repo/go.sum go.sum 2>/dev/null
rc=0
for d in cmd/c*/; do
  id=$(basename "$d")
  overlay=()
  if [ -x "$d/overlay.sh" ]; then
    "$d/overlay.sh" "build/overlay-$id.json" >"build/overlay-$id.log" 2>&1 && overlay=(-overlay "build/overlay-$id.json")
  fi
  case "$id" in
    *race) go build -race -o "build/bin/$id" "./$d" || rc=1 ;;
    *) go build "${overlay[@]}" -o "build/bin/$id" "./$d" || rc=1 ;;
  esac
done
exit $rc
