module verif

go 1.23.2

require (
	seehuhn.de/go/geom v0.0.0-20250114140758-af83eac7b27c
	seehuhn.de/go/postscript v0.0.0
)

require golang.org/x/exp v0.0.0-20240409090435-93d18d7e34b8

replace seehuhn.de/go/postscript => /repo
