// C05 — eexec-encrypted program sections are transparent.
//
// Three bounded-exhaustive families, all through the public
// Interpreter.Execute; the oracle never looks inside the library.
//
//  1. cipher-edges: the stream cipher is a graph with 2^16 states and 256
//     outgoing edges (cipher bytes) per state.  Item = block of source states;
//     the item's ciphertext trail takes every wanted (state, byte) edge whose
//     source lies in the block (and transit edges to get back into the block),
//     fed as the payload of `65536 string currentfile exch readstring <payload> pop`
//     inside one eexec section.  The strings left on the operand stack must
//     equal the plaintext computed by model/eexecref (written from the Type 1
//     book).  The body recounts the covered pairs with its own bitmap while
//     walking the reference cipher along the bytes actually fed; the count is
//     reported as "transitions" and in the outcome text.  The union over all
//     items is the full wanted edge set by construction (thorough: all
//     16,777,216 pairs, in binary and in hex form; quick: the 1,048,576 pairs
//     with byte%16 == state%16, so every state is entered as a source).
//  2. layout: small plaintexts x container {binary, hex lower/upper/mixed} x
//     white space inserted at every single position and every pair of
//     positions after the fourth hex digit x 1-4 white-space bytes between
//     `eexec` and the ciphertext x four-byte prefixes by byte class x
//     trailers.
//  3. position: the section shifted so that the scanner's 512-byte refill
//     boundary (or a short read of the source) falls at every offset from 8
//     bytes before `eexec` to 8 bytes after the first token following the
//     encrypted part.
//
// Oracle for 2 and 3 (differential, on a fresh interpreter each):
//
//	currentfile eexec <gap> <ciphertext of P> <trailer>
//
// must leave the same interpreter state (error value, operand stack, dict
// stack, userdict, systemdict contents) as
//
//	systemdict begin <P without its final `currentfile closefile`> end <trailer>
//
// Preconditions / tolerances (the property leaves these open; DESIGN.md C05):
//   - inside the encrypted part, the token that closes the file is followed by
//     exactly one delimiter byte, which is the last encrypted byte (every
//     real font does this, with a white-space byte; with none the scanner has
//     already pulled one ciphertext byte through the cipher when decryption
//     stops).  Family closefile-followed-by-a-delimiter covers the other
//     delimiters: the byte is part of the program;
//   - "legal prefix": hex form <=> the first four ciphertext bytes are all
//     hex digits; binary form: first byte not blank/tab/CR/LF and at least one
//     of the first four not a hex digit (Type 1 book 7.2);
//   - white space between `eexec` and the ciphertext is blank/tab/CR/LF only;
//   - hex form: white space only after the fourth hex digit;
//   - plaintexts keep begin/end balanced, so "dict stack restored" and `end`
//     coincide;
//   - nothing is compared that the clear-text run cannot show (NumOps, DSC).
package main

import (
	"bytes"
	"encoding/hex"
	"fmt"
	"reflect"
	"sort"
	"strconv"
	"strings"
	"time"

	"seehuhn.de/go/postscript"

	"verif/env"
	"verif/mc"
	"verif/model/eexecref"
)

// ---------------------------------------------------------------------------
// interpreter state snapshot

type snap struct {
	intp *postscript.Interpreter
	sb   strings.Builder
}

func mapPtr(d postscript.Dict) uintptr { return reflect.ValueOf(d).Pointer() }

func (s *snap) obj(o postscript.Object, depth int) {
	if depth > 8 {
		s.sb.WriteString("<deep>")
		return
	}
	switch o := o.(type) {
	case nil:
		s.sb.WriteString("-file-")
	case postscript.Integer:
		s.sb.WriteByte('i')
		s.sb.WriteString(strconv.FormatInt(int64(o), 10))
	case postscript.Real:
		s.sb.WriteByte('r')
		s.sb.WriteString(strconv.FormatFloat(float64(o), 'g', -1, 64))
	case postscript.Boolean:
		if o {
			s.sb.WriteString("btrue")
		} else {
			s.sb.WriteString("bfalse")
		}
	case postscript.String:
		s.sb.WriteByte('s')
		s.sb.WriteString(hex.EncodeToString(o))
	case postscript.Name:
		s.sb.WriteByte('/')
		s.raw(string(o))
	case postscript.Operator:
		s.sb.WriteByte('x')
		s.raw(string(o))
	case postscript.Array:
		s.sb.WriteString("[")
		for _, e := range o {
			s.obj(e, depth+1)
			s.sb.WriteString(" ")
		}
		s.sb.WriteString("]")
	case postscript.Procedure:
		s.sb.WriteString("{")
		for _, e := range o {
			s.obj(e, depth+1)
			s.sb.WriteString(" ")
		}
		s.sb.WriteString("}")
	case postscript.Dict:
		s.dict(o, depth+1, false)
	default:
		v := reflect.ValueOf(o)
		if v.Kind() == reflect.Func {
			// builtins are shared by all interpreters of the process
			s.sb.WriteString("<builtin ")
			s.sb.WriteString(strconv.FormatUint(uint64(v.Pointer()), 16))
			s.sb.WriteString(">")
		} else {
			fmt.Fprintf(&s.sb, "<%T %v>", o, o)
		}
	}
}

func (s *snap) dict(d postscript.Dict, depth int, expand bool) {
	if !expand {
		switch mapPtr(d) {
		case mapPtr(s.intp.SystemDict):
			s.sb.WriteString("*systemdict*")
			return
		case mapPtr(s.intp.UserDict):
			s.sb.WriteString("*userdict*")
			return
		case mapPtr(s.intp.ErrorDict):
			s.sb.WriteString("*errordict*")
			return
		case mapPtr(s.intp.FontDirectory):
			s.sb.WriteString("*FontDirectory*")
			return
		}
	}
	// builtins (shared Go functions) are folded into a count and an
	// order-independent checksum of (key, function pointer); everything else
	// is written out in key order.
	keys := make([]string, 0, 16)
	nBuiltin, sum := 0, uint64(0)
	for k, v := range d {
		if rv := reflect.ValueOf(v); rv.IsValid() && rv.Kind() == reflect.Func {
			h := uint64(14695981039346656037)
			for i := 0; i < len(k); i++ {
				h = (h ^ uint64(k[i])) * 1099511628211
			}
			sum += (h ^ uint64(rv.Pointer())) * 0x9E3779B97F4A7C15
			nBuiltin++
			continue
		}
		keys = append(keys, string(k))
	}
	sort.Strings(keys)
	s.sb.WriteString("<<")
	if nBuiltin > 0 {
		s.sb.WriteString("builtins:")
		s.sb.WriteString(strconv.Itoa(nBuiltin))
		s.sb.WriteByte('#')
		s.sb.WriteString(strconv.FormatUint(sum, 16))
		s.sb.WriteByte(' ')
	}
	for _, k := range keys {
		s.raw(k)
		s.sb.WriteByte(':')
		s.obj(d[postscript.Name(k)], depth+1)
		s.sb.WriteString(" ")
	}
	s.sb.WriteString(">>")
}

// raw writes a length-prefixed byte string (unambiguous without quoting).
func (s *snap) raw(k string) {
	s.sb.WriteString(strconv.Itoa(len(k)))
	s.sb.WriteByte('"')
	s.sb.WriteString(k)
}

// snapshot renders everything the property talks about.
func snapshot(intp *postscript.Interpreter, err error) string {
	s := &snap{intp: intp}
	if err != nil {
		fmt.Fprintf(&s.sb, "ERROR %v\n", err)
	} else {
		s.sb.WriteString("ok\n")
	}
	s.sb.WriteString("stack:")
	for _, o := range intp.Stack {
		s.sb.WriteString(" ")
		s.obj(o, 0)
	}
	s.sb.WriteString("\ndictstack:")
	for _, d := range intp.DictStack {
		s.sb.WriteString(" ")
		s.dict(d, 0, false)
	}
	s.sb.WriteString("\nuserdict: ")
	s.dict(intp.UserDict, 0, true)
	s.sb.WriteString("\nsystemdict: ")
	s.dict(intp.SystemDict, 0, true)
	// structured comments are part of the effect of executing a text
	fmt.Fprintf(&s.sb, "\ndsc: %q\n", intp.DSC)
	return s.sb.String()
}

func diffAt(a, b string) string {
	i := 0
	for i < len(a) && i < len(b) && a[i] == b[i] {
		i++
	}
	lo := max(0, i-60)
	cut := func(s string) string {
		hi := min(len(s), i+100)
		if lo > len(s) {
			return ""
		}
		return s[lo:hi]
	}
	return fmt.Sprintf("first difference at %d: eexec run …%q… | clear run …%q…", i, cut(a), cut(b))
}

// ---------------------------------------------------------------------------
// family 1: cipher edges

const chunkSize = 65536

// glue precedes each payload of 65536 cipher bytes (readstring consumes the one
// white-space byte after its own name); glueAfter follows it.
const glue = "\n65536 string currentfile exch readstring "
const glueAfter = "\npop"

// planner produces the item's ciphertext walk.
type planner struct {
	lo, hi    int // block of source states [lo,hi)
	unused    [][4]uint64
	left      []int
	remaining int
	isTarget  []bool
	// BFS scratch
	stamp   []uint32
	gen     uint32
	parent  []uint32 // (prev state << 8) | byte
	queue   []uint16
	pending []byte
}

func newPlanner(lo, hi int, want func(s uint16, c byte) bool) *planner {
	p := &planner{lo: lo, hi: hi, unused: make([][4]uint64, hi-lo), left: make([]int, hi-lo), isTarget: make([]bool, 65536),
		stamp: make([]uint32, 65536), parent: make([]uint32, 65536)}
	for s := lo; s < hi; s++ {
		for c := 0; c < 256; c++ {
			if want(uint16(s), byte(c)) {
				p.unused[s-lo][c>>6] |= 1 << (c & 63)
				p.left[s-lo]++
				p.remaining++
			}
		}
		p.isTarget[s] = p.left[s-lo] > 0
	}
	return p
}

// next returns the next cipher byte to feed when the cipher is in state x.
func (p *planner) next(x uint16) byte {
	if len(p.pending) > 0 {
		c := p.pending[0]
		p.pending = p.pending[1:]
		return c
	}
	if p.remaining == 0 {
		return 0 // filler
	}
	if p.isTarget[x] {
		i := int(x) - p.lo
		// prefer an unused edge that lands on a target again
		pick := -1
		for w := 0; w < 4; w++ {
			m := p.unused[i][w]
			for m != 0 {
				b := m & -m
				c := w*64 + bitIndex(b)
				if pick < 0 {
					pick = c
				}
				if y := eexecref.Step(x, byte(c)); p.isTarget[y] && (y != x || p.left[i] > 1) {
					pick = c
					w = 4
					break
				}
				m &^= b
			}
		}
		p.unused[i][pick>>6] &^= 1 << (pick & 63)
		p.left[i]--
		p.remaining--
		if p.left[i] == 0 {
			p.isTarget[x] = false
		}
		return byte(pick)
	}
	// breadth-first search for the nearest state that still has unused edges
	p.gen++
	p.queue = append(p.queue[:0], x)
	p.stamp[x] = p.gen
	for qi := 0; qi < len(p.queue); qi++ {
		n := p.queue[qi]
		for c := 0; c < 256; c++ {
			y := eexecref.Step(n, byte(c))
			if p.stamp[y] == p.gen {
				continue
			}
			p.stamp[y] = p.gen
			p.parent[y] = uint32(n)<<8 | uint32(c)
			if p.isTarget[y] {
				var path []byte
				for z := y; z != x; {
					pr := p.parent[z]
					path = append(path, byte(pr))
					z = uint16(pr >> 8)
				}
				for i, j := 0, len(path)-1; i < j; i, j = i+1, j-1 {
					path[i], path[j] = path[j], path[i]
				}
				p.pending = path[1:]
				return path[0]
			}
			p.queue = append(p.queue, y)
		}
	}
	panic("cipher graph: no state with unused edges reachable (harness bug)")
}

func bitIndex(b uint64) int {
	n := 0
	for b > 1 {
		b >>= 1
		n++
	}
	return n
}

func wantAll(uint16, byte) bool       { return true }
func wantQuick(s uint16, c byte) bool { return c&15 == byte(s)&15 }

func cipherBody(blockSize int, want func(uint16, byte) bool, hex bool) func(c *mc.Ctx, item int) mc.Verdict {
	return func(c *mc.Ctx, item int) mc.Verdict {
		lo, hi := item*blockSize, (item+1)*blockSize
		pl := newPlanner(lo, hi, want)
		planned := pl.remaining

		// ciphertext: 4 prefix bytes, then per chunk the glue and 65536 payload bytes
		ci := eexecref.New()
		cipher := ci.Encrypt(nil, []byte{0, 0, 0, 0})
		var wantStrings [][]byte
		covered := make([][4]uint64, blockSize)
		nCovered, transit := 0, 0
		for chunk := 0; chunk == 0 || pl.remaining > 0 || len(pl.pending) > 0; chunk++ {
			if chunk > 400 {
				panic("cipher trail does not end (harness bug)")
			}
			cipher = ci.Encrypt(cipher, []byte(glue))
			plain := make([]byte, 0, chunkSize)
			for k := 0; k < chunkSize; k++ {
				x := ci.R
				b := pl.next(x)
				// recount coverage independently of the planner
				if int(x) >= lo && int(x) < hi && want(x, b) {
					w := &covered[int(x)-lo][b>>6]
					if *w&(1<<(b&63)) == 0 {
						*w |= 1 << (b & 63)
						nCovered++
					} else {
						transit++
					}
				} else {
					transit++
				}
				cipher = append(cipher, b)
				plain = append(plain, ci.DecryptByte(b))
			}
			wantStrings = append(wantStrings, plain)
			cipher = ci.Encrypt(cipher, []byte(glueAfter))
		}
		cipher = ci.Encrypt(cipher, []byte("\ncurrentfile closefile\n"))

		var prog bytes.Buffer
		prog.WriteString("currentfile eexec\n")
		form := "binary"
		if hex {
			form = "hex"
			h := eexecref.Armour(cipher, eexecref.HexLower)
			for i := 0; i < len(h); i += 64 {
				prog.Write(h[i:min(len(h), i+64)])
				prog.WriteByte('\n')
			}
		} else {
			prog.Write(cipher)
		}

		intp := postscript.NewInterpreter()
		err := intp.Execute(bytes.NewReader(prog.Bytes()))
		c.Steps(nCovered)
		render := fmt.Sprintf("%s eexec section, source states [%d,%d): %d chunks of 65536 cipher bytes, %d wanted (state,byte) pairs, %d transit/filler edges", form, lo, hi, len(wantStrings), planned, transit)
		fail := func(kind, detail string) mc.Verdict {
			v := mc.Fail("C05:cipher:"+kind, detail+" | "+render)
			v.Render = render
			return v
		}
		if nCovered != planned {
			return fail("harness-coverage-incomplete", fmt.Sprintf("covered %d of %d planned pairs", nCovered, planned))
		}
		if err != nil {
			return fail("execute-error", fmt.Sprintf("Execute returned %v", err))
		}
		if len(intp.Stack) != len(wantStrings) {
			return fail("wrong-stack-depth", fmt.Sprintf("expected %d strings on the operand stack, found %d objects", len(wantStrings), len(intp.Stack)))
		}
		for i, w := range wantStrings {
			got, ok := intp.Stack[i].(postscript.String)
			if !ok {
				return fail("not-a-string", fmt.Sprintf("stack[%d] is %T", i, intp.Stack[i]))
			}
			if !bytes.Equal(got, w) {
				j := 0
				for j < len(got) && j < len(w) && got[j] == w[j] {
					j++
				}
				g := -1
				if j < len(got) {
					g = int(got[j])
				}
				e := -1
				if j < len(w) {
					e = int(w[j])
				}
				return fail("plaintext-differs", fmt.Sprintf("chunk %d: length got %d expected %d; first difference at byte %d: got %d expected %d", i, len(got), len(w), j, g, e))
			}
		}
		if len(intp.DictStack) != 2 {
			return fail("dictstack-not-restored", fmt.Sprintf("dict stack depth %d after the section", len(intp.DictStack)))
		}
		v := mc.Pass(fmt.Sprintf("%s: %d wanted (state,byte) pairs per item covered and decrypted as the reference cipher does", form, planned), nCovered > 0)
		v.Sig = form
		if c.Render() {
			v.Render = render
		}
		return v
	}
}

// ---------------------------------------------------------------------------
// families 2 and 3: layouts

type plaintext struct {
	name string
	enc  string // the encrypted part, complete (ends with the white-space byte after closefile unless eof)
	ref  string // what the clear-text run executes between `systemdict begin` and `end`
	mark bool   // leaves a mark on the stack, so `cleartomark` trailers make sense
	eof  bool   // section ends by end of file: nothing can follow
	long bool   // long plaintext: single white-space insertions only
}

func allBytes() string {
	b := make([]byte, 256)
	for i := range b {
		b[i] = byte(i)
	}
	return string(b)
}

func longDefs() string {
	var sb strings.Builder
	for i := 0; i < 60; i++ {
		fmt.Fprintf(&sb, "/k%02d %d def\n", i, i*i)
	}
	return sb.String()
}

func mkPlain(name, body, closer, refCloser string, mark bool) plaintext {
	return plaintext{name: name, enc: body + closer, ref: body + refCloser, mark: mark}
}

var plaintexts = func() []plaintext {
	ps := []plaintext{
		mkPlain("defs", "/a 1 def /b (xyz) def ", "mark currentfile closefile\n", "mark", true),
		mkPlain("procs", "/p { { 2 } exec 1 } def p /q [1 2 3] def ", "currentfile closefile ", "", false),
		mkPlain("readstring-all-bytes", "/s 256 string def currentfile s readstring\n"+allBytes()+" pop /t 7 def ", "mark currentfile closefile\n", "mark", true),
		mkPlain("dict", "/d 3 dict def d begin /x 10 def /y x 2 mul def end d /y get ", "mark currentfile closefile\r", "mark", true),
		{name: "ends-by-eof", enc: "/a 1 def 7 8 9", ref: "/a 1 def 7 8 9", eof: true},
		mkPlain("stack-leftovers", "1 2 3 (abc) /n ", "mark currentfile closefile\t", "mark", true),
		mkPlain("empty", "", "mark currentfile closefile\n", "mark", true),
		mkPlain("close-in-proc", "/done { currentfile closefile } def 5 mark ", "done\n", "", true),
		mkPlain("systemdict-on-top", "/zzverif 5 def currentdict /zzverif known userdict /zzverif known ", "mark currentfile closefile\n", "mark", true),
		mkPlain("comments-and-strings", "% comment inside\n/h <41 42> def /g (\\(\x80\xff\\)) def %x\r", "mark currentfile closefile\n", "mark", true),
		mkPlain("two-readstrings", "currentfile 3 string readstring\n\x00\r\n pop currentfile 2 string readstring \n\n pop ", "mark currentfile closefile\n", "mark", true),
		mkPlain("dsc-then-readstring", "/R {currentfile 7 string readstring pop} def\n%%BeginData: x\nR abcdefg /after 1 def ", "mark currentfile closefile\n", "mark", true),
		mkPlain("dsc-inside", "/z 0 def\n%%Inside: yes\n%%+ more\n/a 1 def\n/b 2 def\n%%Second: s\n", "mark currentfile closefile\n", "mark", true),
		mkPlain("lf-then-dsc", "\n%%Inside: first line\n/a 1 def\r\n%%Second: after CR LF\n/b 2 def ", "mark currentfile closefile\n", "mark", true),
		// the encrypted part runs at the execution level of the eexec operator: a
		// recursion that just fits as clear text fits inside the section as well
		mkPlain("recursion-98-deep", "/r { dup 0 ne { 1 sub r } if } def 98 r ", "mark currentfile closefile\n", "mark", true),
		mkPlain("recursion-99-deep", "/r { dup 0 ne { 1 sub r } if } def 99 r ", "mark currentfile closefile\n", "mark", true),
		mkPlain("long", longDefs(), "mark currentfile closefile\n", "mark", true),
	}
	ps[2].long = true
	ps[len(ps)-1].long = true
	return ps
}()

type trailer struct {
	name     string
	text     string
	needMark bool
}

func zeros512() string {
	var sb strings.Builder
	for i := 0; i < 8; i++ {
		sb.WriteString(strings.Repeat("0", 64))
		sb.WriteString("\n")
	}
	return sb.String()
}

var trailers = []trailer{
	{"none", "", false},
	{"cleartomark", "\ncleartomark\n", true},
	{"1-zero+cleartomark", "0\ncleartomark\n", true},
	{"512-zeros+cleartomark", "\n" + zeros512() + "cleartomark\n", true},
	{"definitions", "\n/after 42 def (tail) 1.5\n", false},
	{"512-zeros+cleartomark+definitions", zeros512() + "cleartomark /after currentdict def\n", true},
}

func trailersFor(p plaintext) []int {
	if p.eof {
		return []int{0}
	}
	var out []int
	for i, t := range trailers {
		if t.needMark && !p.mark {
			continue
		}
		out = append(out, i)
	}
	return out
}

const (
	contBinary = iota
	contHexLower
	contHexUpper
	contHexMixed
)

var contNames = []string{"binary", "hex-lower", "hex-upper", "hex-mixed"}

func hexCase(cont int) eexecref.HexCase {
	switch cont {
	case contHexUpper:
		return eexecref.HexUpper
	case contHexMixed:
		return eexecref.HexMixed
	}
	return eexecref.HexLower
}

var wsKinds = []string{" ", "\t", "\r", "\n", "\r\n", "\x00", "\f"} // the six PostScript white-space characters and CR LF
var wsNames = []string{"SP", "TAB", "CR", "LF", "CRLF", "NUL", "FF"}

// insertion of white space before hex digit pos.
type ins struct {
	pos int
	ws  string
}

// buildSection returns the bytes from `currentfile eexec` to the end of the
// ciphertext.
func buildSection(p plaintext, cont int, gap string, prefix [4]byte, inserts []ins) []byte {
	ci := eexecref.New()
	cipher := append([]byte(nil), prefix[:]...)
	ci.Skip(prefix[:])
	cipher = ci.Encrypt(cipher, []byte(p.enc))
	out := []byte("currentfile eexec" + gap)
	if cont == contBinary {
		return append(out, cipher...)
	}
	h := eexecref.Armour(cipher, hexCase(cont))
	k := 0
	for i := 0; i <= len(h); i++ {
		for k < len(inserts) && inserts[k].pos == i {
			out = append(out, inserts[k].ws...)
			k++
		}
		if i < len(h) {
			out = append(out, h[i])
		}
	}
	return out
}

func hexDigits(p plaintext) int { return 2 * (4 + len(p.enc)) }

var defaultBinPrefix = [4]byte{0xd9, 0xd6, 0x6f, 0x63} // ciphertext of four zero bytes

func refProgram(p plaintext, t trailer) string {
	return "systemdict begin " + p.ref + " end " + t.text
}

// refSnapshots memoises the clear-text run (a pure function of its key).
var refSnapshots = map[[2]int]string{}
var freshSnapshot string

func refSnapshot(pi, ti int) string {
	k := [2]int{pi, ti}
	if s, ok := refSnapshots[k]; ok {
		return s
	}
	intp := postscript.NewInterpreter()
	err := intp.ExecuteString(refProgram(plaintexts[pi], trailers[ti]))
	s := snapshot(intp, err)
	refSnapshots[k] = s
	return s
}

func fresh() string {
	if freshSnapshot == "" {
		freshSnapshot = snapshot(postscript.NewInterpreter(), nil)
	}
	return freshSnapshot
}

// runCase executes prog (delivered by src) and compares with the clear run.
func runCase(c *mc.Ctx, family string, pi, ti int, prog []byte, split int, describe func() string) mc.Verdict {
	return runCase2(c, family, pi, ti, prog, split, 0, describe)
}

// runCase2: like runCase; with 0 < split < split2 < len(prog) the source
// delivers the input in three pieces that end at split and split2.
func runCase2(c *mc.Ctx, family string, pi, ti int, prog []byte, split, split2 int, describe func() string) mc.Verdict {
	intp := postscript.NewInterpreter()
	var err error
	if split == -1 {
		// the whole program in one Read call, together with io.EOF
		src := env.NewSource(prog)
		src.Decide = func(call, want, remaining int) (int, bool) { return want, true }
		err = intp.Execute(src)
	} else if split > 0 && split < len(prog) {
		src := env.NewSource(prog)
		src.Decide = func(call, want, remaining int) (int, bool) {
			if call == 0 {
				return split, false
			}
			if call == 1 && split2 > split && split2 < len(prog) {
				return split2 - split, false
			}
			return want, false
		}
		err = intp.Execute(src)
	} else {
		err = intp.Execute(bytes.NewReader(prog))
	}
	c.Step()
	got := snapshot(intp, err)
	want := refSnapshot(pi, ti)
	if strings.HasPrefix(want, "ERROR") {
		v := mc.Fail("C05:"+family+":clear-text-run-fails", "the clear-text reference run itself fails: "+want[:min(len(want), 200)]+" | "+describe())
		v.Render = describe()
		return v
	}
	if got != want {
		kind := "state-differs"
		switch {
		case strings.HasPrefix(got, "ERROR"):
			kind = "eexec-run-error"
		case lineOf(got, "stack:") != lineOf(want, "stack:"):
			kind = "operand-stack-differs"
		case lineOf(got, "dictstack:") != lineOf(want, "dictstack:"):
			kind = "dict-stack-differs"
		case lineOf(got, "userdict:") != lineOf(want, "userdict:"):
			kind = "userdict-differs"
		case lineOf(got, "systemdict:") != lineOf(want, "systemdict:"):
			kind = "systemdict-differs"
		}
		v := mc.Fail("C05:"+family+":"+kind, diffAt(got, want)+" | "+describe())
		v.Render = describe()
		return v
	}
	v := mc.Pass("", got != fresh())
	if c.Render() {
		v.Render = describe()
	}
	return v
}

func lineOf(s, prefix string) string {
	for _, l := range strings.Split(s, "\n") {
		if strings.HasPrefix(l, prefix) {
			return l
		}
	}
	return ""
}

func show(b []byte) string {
	if len(b) > 300 {
		return fmt.Sprintf("%q…(%d bytes)", b[:300], len(b))
	}
	return fmt.Sprintf("%q", b)
}

// ---- 2a: white space inside the hex form

type wsItem struct {
	pi, cont, pos int
}

func wsItems() []wsItem {
	var items []wsItem
	for pi, p := range plaintexts {
		for cont := contHexLower; cont <= contHexMixed; cont++ {
			n := hexDigits(p)
			for pos := 4; pos <= n; pos++ {
				items = append(items, wsItem{pi, cont, pos})
			}
		}
	}
	return items
}

// kind pairs used in the quick tier for two insertions
var quickPairs = [][2]int{{0, 3}, {2, 3}, {4, 1}}

func wsBody(items []wsItem, thorough bool) func(c *mc.Ctx, item int) mc.Verdict {
	return func(c *mc.Ctx, item int) mc.Verdict {
		it := items[item]
		p := plaintexts[it.pi]
		n := hexDigits(p)
		second := 0 // 0 = no second insertion; k>0: second insertion at pos+k-1
		if !p.long {
			second = c.Choose(n - it.pos + 2)
		}
		var inserts []ins
		var k1, k2 int
		if second == 0 {
			k1 = c.Choose(len(wsKinds))
			inserts = []ins{{it.pos, wsKinds[k1]}}
		} else {
			if thorough {
				k1 = c.Choose(len(wsKinds))
				k2 = c.Choose(len(wsKinds))
			} else {
				pr := quickPairs[c.Choose(len(quickPairs))]
				k1, k2 = pr[0], pr[1]
			}
			inserts = []ins{{it.pos, wsKinds[k1]}, {it.pos + second - 1, wsKinds[k2]}}
		}
		ts := trailersFor(p)
		ti := ts[(it.pos+second)%len(ts)] // trailer varies with the position; not a free dimension here
		sec := buildSection(p, it.cont, "\n", defaultBinPrefix, inserts)
		prog := append(sec, trailers[ti].text...)
		v := runCase(c, "layout-ws", it.pi, ti, prog, 0, func() string {
			return fmt.Sprintf("plaintext %q, %s, white space %v, trailer %q: %s", p.name, contNames[it.cont], descIns(inserts), trailers[ti].name, show(prog))
		})
		if v.OK {
			v.Outcome = contNames[it.cont] + "/" + map[bool]string{true: "one-insertion", false: "two-insertions"}[second == 0]
		}
		return v
	}
}

func descIns(in []ins) string {
	var parts []string
	for _, i := range in {
		n := "?"
		for k, w := range wsKinds {
			if w == i.ws {
				n = wsNames[k]
			}
		}
		parts = append(parts, fmt.Sprintf("%s before digit %d", n, i.pos))
	}
	return strings.Join(parts, ", ")
}

// ---- 2b: prefix x gap x trailer

// byte classes for ciphertext prefix bytes
var classReps = [3][3]byte{
	{'0', 'f', 'A'},   // hex digit
	{' ', '\n', '\r'}, // white space (tab is used in the gaps)
	{0x00, 'g', 0xff}, // other (NUL and FF are not eexec white space)
}
var classNames = []string{"H", "W", "O"}

type prefixCase struct {
	cont   int
	prefix [4]byte
	desc   string
}

func prefixCases() []prefixCase {
	var out []prefixCase
	for cl := 0; cl < 81; cl++ {
		cls := [4]int{cl / 27, cl / 9 % 3, cl / 3 % 3, cl % 3}
		for rep := 0; rep < 3; rep++ {
			var pf [4]byte
			for i := range pf {
				// rotate the representative per position so that a class such
				// as HHHO does not always use the same digit four times
				pf[i] = classReps[cls[i]][(rep+i)%3]
			}
			if !eexecref.LegalBinaryPrefix(pf) {
				continue
			}
			out = append(out, prefixCase{contBinary, pf, fmt.Sprintf("class %s%s%s%s rep %d", classNames[cls[0]], classNames[cls[1]], classNames[cls[2]], classNames[cls[3]], rep)})
		}
	}
	hexPrefixes := [][4]byte{{0, 0, 0, 0}, {0xff, 0xff, 0xff, 0xff}, {0x0a, 0x0d, 0x20, 0x09}, {0xd9, 0xd6, 0x6f, 0x63}, {0xab, 0xcd, 0xef, 0x01}, {0x25, 0x21, 0x28, 0x7d}}
	for cont := contHexLower; cont <= contHexMixed; cont++ {
		for _, pf := range hexPrefixes {
			out = append(out, prefixCase{cont, pf, fmt.Sprintf("prefix bytes %x", pf[:])})
		}
	}
	return out
}

func gaps(thorough bool) []string {
	alpha := []string{" ", "\t", "\r", "\n"}
	var out []string
	var rec func(cur string, n int)
	rec = func(cur string, n int) {
		if cur != "" {
			out = append(out, cur)
		}
		if n == 0 {
			return
		}
		for _, a := range alpha {
			rec(cur+a, n-1)
		}
	}
	if thorough {
		rec("", 4)
		return out
	}
	rec("", 2)
	out = append(out, "\r\n\r\n", " \t\r\n", "\n\n\n", "   \n", "\r\r\r\r", "\t \t")
	return out
}

type pgItem struct {
	pi int
	pc int
}

func pgBody(items []pgItem, pcs []prefixCase, gs []string) func(c *mc.Ctx, item int) mc.Verdict {
	return func(c *mc.Ctx, item int) mc.Verdict {
		it := items[item]
		p := plaintexts[it.pi]
		pc := pcs[it.pc]
		gap := gs[c.Choose(len(gs))]
		ts := trailersFor(p)
		ti := ts[c.Choose(len(ts))]
		sec := buildSection(p, pc.cont, gap, pc.prefix, nil)
		prog := append(sec, trailers[ti].text...)
		v := runCase(c, "layout-prefix", it.pi, ti, prog, 0, func() string {
			return fmt.Sprintf("plaintext %q, %s, %s, gap %q, trailer %q: %s", p.name, contNames[pc.cont], pc.desc, gap, trailers[ti].name, show(prog))
		})
		if v.OK {
			v.Outcome = contNames[pc.cont] + "/trailer:" + trailers[ti].name
		}
		return v
	}
}

// ---- 3: position of the refill boundary

type posItem struct {
	pi, cont, gi, ti int
}

var posGaps = []string{"\n", " \r\n"}

func posItems() []posItem {
	var out []posItem
	for pi, p := range plaintexts {
		for cont := contBinary; cont <= contHexMixed; cont++ {
			for gi := range posGaps {
				for _, ti := range trailersFor(p) {
					if ti == 1 || ti == 2 {
						continue // covered by the layout family; keep 0, 3, 4, 5
					}
					out = append(out, posItem{pi, cont, gi, ti})
				}
			}
		}
	}
	return out
}

func posBody(items []posItem) func(c *mc.Ctx, item int) mc.Verdict {
	return func(c *mc.Ctx, item int) mc.Verdict {
		it := items[item]
		p := plaintexts[it.pi]
		t := trailers[it.ti]
		sec := buildSection(p, it.cont, posGaps[it.gi], defaultBinPrefix, nil)
		prog := append(append([]byte(nil), sec...), t.text...)
		// offsets from 8 bytes before `eexec` to 8 bytes after the first token
		// that follows the encrypted part
		start := len("currentfile ") - 8
		end := len(sec)
		rest := t.text
		i := 0
		for i < len(rest) && rest[i] <= 32 {
			i++
		}
		for i < len(rest) && rest[i] > 32 {
			i++
		}
		end += i + 8
		if end > len(prog) {
			end = len(prog)
		}
		off := start + c.Choose(end-start+1)
		mode := c.Choose(2)
		var full []byte
		split := 0
		if mode == 0 {
			// padding comment in front: a 512-byte boundary falls at offset off
			l := (512 - off%512) % 512
			var pad string
			switch {
			case l >= 2:
				pad = "%" + strings.Repeat("p", l-2) + "\n"
			case l == 1:
				pad = " "
			}
			full = append([]byte(pad), prog...)
		} else {
			// the source delivers the first off bytes, then the rest
			full = prog
			split = off
			if split == 0 {
				split = 1
			}
		}
		v := runCase(c, "position", it.pi, it.ti, full, split, func() string {
			return fmt.Sprintf("plaintext %q, %s, gap %q, trailer %q, buffer boundary at offset %d of the section (%s): %s", p.name, contNames[it.cont], posGaps[it.gi], t.name, off,
				[]string{"padding comment in front", "short first read of the source"}[mode], show(prog))
		})
		if v.OK {
			v.Outcome = contNames[it.cont] + "/" + []string{"padded", "split"}[mode]
		}
		return v
	}
}

// threePiecesItems / threePiecesBody: the source hands over a short program in
// three pieces, for every pair of cut points: the second piece may be shorter
// than the first (the read buffer then still holds older bytes behind the
// valid ones) and may end between the two digits of a hexadecimal pair.
type threeItem struct{ pi, cont, first int }

func threePiecesItems() []threeItem {
	var out []threeItem
	for pi, p := range plaintexts {
		if p.long {
			continue
		}
		for cont := contBinary; cont <= contHexMixed; cont++ {
			n := len(buildSection(p, cont, "\n", defaultBinPrefix, nil)) + len(trailers[trailersFor(p)[0]].text)
			for first := 1; first < n-1; first++ {
				out = append(out, threeItem{pi, cont, first})
			}
		}
	}
	return out
}

func threePiecesBody(items []threeItem) func(c *mc.Ctx, item int) mc.Verdict {
	return func(c *mc.Ctx, item int) mc.Verdict {
		it := items[item]
		p := plaintexts[it.pi]
		ti := trailersFor(p)[0]
		prog := append(buildSection(p, it.cont, "\n", defaultBinPrefix, nil), trailers[ti].text...)
		second := it.first + 1 + c.Choose(len(prog)-1-it.first)
		v := runCase2(c, "three-pieces", it.pi, ti, prog, it.first, second, func() string {
			return fmt.Sprintf("plaintext %q, %s, trailer %q, delivered in three pieces ending at offsets %d, %d and %d: %s", p.name, contNames[it.cont], trailers[ti].name, it.first, second, len(prog), show(prog))
		})
		if v.OK {
			v.Outcome = contNames[it.cont]
		}
		return v
	}
}

// twoSectionsBody: two eexec sections in one stream (e.g. two fonts in one
// file): the clear text that follows the first section contains a second
// `currentfile eexec`; both must be transparent.
func twoSectionsBody(c *mc.Ctx, item int) mc.Verdict {
	np := len(plaintexts)
	p1, p2 := plaintexts[item%np], plaintexts[(item/np)%np]
	conts := (item / np / np) % 16
	c1, c2 := conts%4, conts/4
	if p1.eof {
		return mc.Pass("n/a:first-section-ends-by-eof", false)
	}
	var tis []int
	for _, ti := range trailersFor(p1) {
		// the trailer of the first section must leave the stack usable; all do
		tis = append(tis, ti)
	}
	ti := tis[c.Choose(len(tis))]
	t2s := trailersFor(p2)
	t2 := t2s[c.Choose(len(t2s))]
	sep := "\n"
	if trailers[ti].text == "" {
		sep = "\n" // first section's closing white space is inside the ciphertext
	}
	prog := buildSection(p1, c1, "\n", defaultPrefixFor(c1), nil)
	prog = append(prog, trailers[ti].text...)
	prog = append(prog, sep...)
	prog = append(prog, buildSection(p2, c2, " ", defaultPrefixFor(c2), nil)...)
	prog = append(prog, trailers[t2].text...)
	describe := func() string {
		return fmt.Sprintf("two sections: %s (%s) + trailer %s, then %s (%s) + trailer %s: %s", p1.name, contNames[c1], trailers[ti].name, p2.name, contNames[c2], trailers[t2].name, show(prog))
	}
	intp := postscript.NewInterpreter()
	err := intp.Execute(bytes.NewReader(prog))
	c.Step()
	got := snapshot(intp, err)
	ref := postscript.NewInterpreter()
	rerr := ref.ExecuteString(refProgram(p1, trailers[ti]) + sep + refProgram(p2, trailers[t2]))
	want := snapshot(ref, rerr)
	if strings.HasPrefix(want, "ERROR") {
		// the combination is not a meaningful program in the clear either
		return mc.Pass("n/a:clear-run-fails", false)
	}
	if got != want {
		v := mc.Fail("C05:two-sections:state-differs", diffAt(got, want)+" | "+describe())
		v.Render = describe()
		return v
	}
	v := mc.Pass("two-sections-ok", true)
	if c.Render() {
		v.Render = describe()
	}
	return v
}

// restoreBody: "the dictionary stack is restored" — whatever the encrypted part
// does to the dictionary stack (more begins than ends, more ends than begins)
// the stack after the section is the one before `eexec`.
var restoreOuters = []int{0, 1, 2, 15, 16, 17, 18}

var restorePlains = []string{"", "end ", "end end ", "end end end ", "1 dict begin ", "1 dict begin 2 dict begin ", "end 1 dict begin ", "end end 1 dict begin /zz 1 def "}

func restoreBody(c *mc.Ctx, item int) mc.Verdict {
	np := len(restorePlains)
	body := restorePlains[item%np]
	cont := (item / np) % 4
	outer := restoreOuters[(item/np/4)%len(restoreOuters)] // extra dictionaries open when eexec is entered
	// the plaintext executed in the clear behind `systemdict begin`: if that
	// overflows the dictionary stack (20 entries), so must the section
	depth, overflow := 2+outer+1, 2+outer+1 > 20
	for _, t := range strings.Fields(body) {
		switch t {
		case "begin":
			depth++
		case "end":
			depth--
		}
		if depth > 20 {
			overflow = true
		}
	}
	if overflow {
		p := plaintext{name: "dictstack:" + body, enc: "/inside 5 def " + body + "mark currentfile closefile\n"}
		var pre strings.Builder
		for i := 0; i < outer; i++ {
			pre.WriteString("2 dict begin ")
		}
		prog := append([]byte(pre.String()), buildSection(p, cont, "\n", defaultBinPrefix, nil)...)
		intp := postscript.NewInterpreter()
		err := intp.Execute(bytes.NewReader(prog))
		c.Step()
		if err == nil || !strings.Contains(err.Error(), "dictstackoverflow") {
			v := mc.Fail("C05:dictstack-restore:limit", fmt.Sprintf("%d extra dictionaries open, encrypted part `%s` (%s): the clear-text run overflows the dictionary stack, the section gives %v", outer, p.enc, contNames[cont], err))
			return v
		}
		return mc.Pass("overflows-like-the-clear-text", true)
	}
	if strings.Count(body, "end ") > 1+outer {
		// more `end`s than dictionaries above userdict: dictstackunderflow is correct
		return mc.Pass("n/a:would-pop-userdict", false)
	}
	p := plaintext{name: "dictstack:" + body, enc: "/inside 5 def " + body + "mark currentfile closefile\n"}
	var pre strings.Builder
	for i := 0; i < outer; i++ {
		fmt.Fprintf(&pre, "2 dict begin /marker%d %d def ", i, 70+i)
	}
	prog := append([]byte(pre.String()), buildSection(p, cont, "\n", defaultBinPrefix, nil)...)
	prog = append(prog, "\ncleartomark "...)
	for i := 0; i < outer; i++ {
		fmt.Fprintf((*bytesWriter)(&prog), "marker%d ", i)
	}
	describe := func() string {
		return fmt.Sprintf("%d extra dictionaries open, encrypted part `%s` (%s): %s", outer, p.enc, contNames[cont], show(prog))
	}
	intp := postscript.NewInterpreter()
	err := intp.Execute(bytes.NewReader(prog))
	c.Step()
	fail := func(class, detail string) mc.Verdict {
		v := mc.Fail("C05:dictstack-restore:"+class, detail+" | "+describe())
		v.Render = describe()
		return v
	}
	if err != nil {
		return fail("error", "unexpected error "+err.Error())
	}
	if len(intp.DictStack) != 2+outer {
		return fail("depth", fmt.Sprintf("dictionary stack depth %d after the section, %d before it", len(intp.DictStack), 2+outer))
	}
	if len(intp.Stack) != outer {
		return fail("stack", fmt.Sprintf("operand stack depth %d, expected the %d marker values", len(intp.Stack), outer))
	}
	for i := 0; i < outer; i++ {
		if intp.Stack[i] != postscript.Integer(70+i) {
			return fail("stack", fmt.Sprintf("marker%d resolved to %v", i, intp.Stack[i]))
		}
	}
	v := mc.Pass("restored", true)
	if c.Render() {
		v.Render = describe()
	}
	return v
}

// delimiterBody: the token `closefile` may be ended by any delimiter, not only
// by white space.  The delimiter is the last encrypted byte (the scanner has to
// read and decrypt it to see where the token ends) and it is part of the
// program: the clear text that follows continues the token it starts.
var closeDelims = []struct{ delim, clear, ref string }{
	{"/", "nm 5 def nm", "/nm 5 def nm"},
	{"/", " 6", "/ 6"}, // the empty name
	{"[", " 1 2 ] length", "[ 1 2 ] length"},
	{"[", "]", "[]"},
	{"(", "abc) length", "(abc) length"},
	{"(", ")", "()"},
	{"<", "4142> length", "<4142> length"},
	{"<", "< /k 1 >> /k get", "<< /k 1 >> /k get"},
	{"<", "~87cURD]i~> length", "<~87cURD]i~> length"},
	{"{", " 1 2 } exec", "{ 1 2 } exec"},
	{"{", "}", "{}"},
	{"%", " rest of the comment\n 9", "% rest of the comment\n 9"},
	{"%", "%Key: value\n 9", "%%Key: value\n 9"},
	{" ", "7", " 7"},
	{"\n", "8 ", "\n8 "},
	{"\x00", "8 ", " 8 "},
	{"\f", "8 ", " 8 "},
}
var closeBodies = []string{"/a 1 def ", "1 2 3 ", "", "/p { currentfile closefile } def "}

func delimiterBody(c *mc.Ctx, item int) mc.Verdict {
	nd := len(closeDelims)
	d := closeDelims[item%nd]
	cont := (item / nd) % 4
	bi := item / nd / 4
	body := closeBodies[bi]
	closer := "mark currentfile closefile"
	if bi == 3 {
		closer = "mark p"
	}
	p := plaintext{name: "closefile" + d.delim, enc: body + closer + d.delim}
	prog := append(buildSection(p, cont, "\n", defaultBinPrefix, nil), d.clear...)
	ref := "systemdict begin " + body + "mark end " + d.ref
	describe := func() string {
		return fmt.Sprintf("encrypted part `%s` (%s) followed by the clear text %q; clear-text equivalent `%s`: %s", p.enc, contNames[cont], d.clear, ref, show(prog))
	}
	ri := postscript.NewInterpreter()
	rerr := ri.ExecuteString(ref)
	want := snapshot(ri, rerr)
	intp := postscript.NewInterpreter()
	err := intp.Execute(bytes.NewReader(prog))
	c.Step()
	got := snapshot(intp, err)
	if strings.HasPrefix(want, "ERROR") {
		return mc.Fail("C05:closefile-delimiter:clear-text-run-fails", want[:min(len(want), 200)]+" | "+describe())
	}
	if got != want {
		kind := "state-differs"
		if strings.HasPrefix(got, "ERROR") {
			kind = "eexec-run-error"
		}
		v := mc.Fail("C05:closefile-delimiter:"+kind, diffAt(got, want)+" | "+describe())
		v.Render = describe()
		return v
	}
	v := mc.Pass(contNames[cont], true)
	if c.Render() {
		v.Render = describe()
	}
	return v
}

// readDelimBody: readstring starts with the byte after the ONE white-space byte
// that ends its token, whatever that byte and the following one are (a CR LF
// pair there is a delimiter and a data byte).  Absolute oracle: the string read.
var rsDelims = []string{" ", "\n", "\r", "\t", "\f", "\x00"}
var rsFirst = []byte{0x0A, 0x0D, 0x20, 0x00, 0x09, 0x0C, 0x41, 0x80, 0xFF}
var rsForms = []string{"currentfile s readstring", "R"} // directly, and through an RD-style procedure

func readDelimBody(c *mc.Ctx, item int) mc.Verdict {
	d := rsDelims[item%len(rsDelims)]
	b0 := rsFirst[(item/len(rsDelims))%len(rsFirst)]
	form := rsForms[(item/len(rsDelims)/len(rsFirst))%len(rsForms)]
	cont := item / len(rsDelims) / len(rsFirst) / len(rsForms)
	data := []byte{b0, 0x0A, 0x01, 0x0D}
	p := plaintext{name: "readstring-delimiter", enc: "/s 4 string def /R { currentfile s readstring } def " + form + d + string(data) + " pop /t 7 def mark currentfile closefile\n"}
	prog := append(buildSection(p, cont, "\n", defaultBinPrefix, nil), "\ncleartomark s t"...)
	describe := func() string {
		return fmt.Sprintf("`%s` ended by %q, data % x (%s): %s", form, d, data, contNames[cont], show(prog))
	}
	intp := postscript.NewInterpreter()
	err := intp.Execute(bytes.NewReader(prog))
	c.Step()
	fail := func(class, detail string) mc.Verdict {
		v := mc.Fail("C05:readstring-delimiter:"+class, detail+" | "+describe())
		v.Render = describe()
		return v
	}
	if err != nil {
		return fail("error", "unexpected error "+err.Error())
	}
	if len(intp.Stack) != 3 {
		return fail("stack", fmt.Sprintf("operand stack %v, expected the substring left by readstring, the string and 7", intp.Stack))
	}
	sub, ok1 := intp.Stack[0].(postscript.String)
	got, ok2 := intp.Stack[1].(postscript.String)
	if !ok1 || !ok2 || !bytes.Equal(got, data) || !bytes.Equal(sub, data) || intp.Stack[2] != postscript.Integer(7) {
		return fail("wrong-bytes", fmt.Sprintf("readstring delivered % x / % x (then %v), the data after the delimiter is % x", []byte(sub), []byte(got), intp.Stack[2], data))
	}
	v := mc.Pass(contNames[cont], true)
	if c.Render() {
		v.Render = describe()
	}
	return v
}

// secondCallBody: an interpreter that has run a program with an encrypted tail
// is used again.  However the encrypted part ended (it closed its file, it
// executed stop, it failed, the data ran out), the next Execute call reads its
// own input as clear text; the state after the second call equals the state
// reached when the first program is given in the clear.
var secondEndings = []struct{ name, enc, ref string }{
	{"closefile", "/a 1 def mark currentfile closefile\n", "/a 1 def mark end"},
	{"stop", "/a 1 def stop\n", "/a 1 def stop"},
	{"stop inside a procedure", "/a 1 def { { stop } exec } exec\n", "/a 1 def { { stop } exec } exec"},
	{"error", "/a 1 def 1 (x) add\n", "/a 1 def 1 (x) add"},
	{"end of data", "/a 1 def", "/a 1 def end"},
}
var secondProgs = []string{"/b 2 def a b add", "currentdict /a known", "%%Second: call\n(xyz) length"}

func secondCallBody(c *mc.Ctx, item int) mc.Verdict {
	e := secondEndings[item%len(secondEndings)]
	cont := (item / len(secondEndings)) % 4
	second := secondProgs[item/len(secondEndings)/4]
	p := plaintext{name: "second-call:" + e.name, enc: e.enc}
	prog := buildSection(p, cont, "\n", defaultBinPrefix, nil)
	describe := func() string {
		return fmt.Sprintf("first call: encrypted part `%s` (%s, ends by %s); second call on the same interpreter: `%s`: %s", e.enc, contNames[cont], e.name, second, show(prog))
	}
	ri := postscript.NewInterpreter()
	ri.ExecuteString("systemdict begin " + e.ref)
	rerr := ri.ExecuteString(second)
	want := snapshot(ri, rerr)
	intp := postscript.NewInterpreter()
	intp.Execute(bytes.NewReader(prog))
	err := intp.ExecuteString(second)
	c.Steps(2)
	got := snapshot(intp, err)
	if got != want {
		kind := "state-differs"
		if strings.HasPrefix(got, "ERROR") && !strings.HasPrefix(want, "ERROR") {
			kind = "second-call-fails"
		}
		v := mc.Fail("C05:second-call:"+kind, diffAt(got, want)+" | "+describe())
		v.Render = describe()
		return v
	}
	v := mc.Pass(e.name+"/"+contNames[cont], true)
	if c.Render() {
		v.Render = describe()
	}
	return v
}

// insideBody: "with the system dictionary pushed on the dictionary stack" — the
// dictionary stack INSIDE the section is the one before `eexec` plus systemdict,
// whatever stood on top before (systemdict itself, userdict, the same
// dictionary twice).  The encrypted part closes 0..3 dictionaries, opens 0..1
// and then defines a key; afterwards the key must be in exactly the dictionary a
// simulation of the dictionary stack says, and in no other.
var insideOuters = [][]string{{}, {"d0"}, {"d0", "d1"}, {"systemdict"}, {"userdict"}, {"d0", "systemdict"}, {"systemdict", "systemdict"}, {"d0", "d0"}, {"systemdict", "d1"}}
var insideBodies = []string{"", "end ", "end end ", "end end end ", "1 dict begin ", "end 1 dict begin ", "end end 1 dict begin ", "end end d1 begin "}

func insideBody(c *mc.Ctx, item int) mc.Verdict {
	nb := len(insideBodies)
	body := insideBodies[item%nb]
	cont := (item / nb) % 4
	outer := insideOuters[item/nb/4]
	// simulate
	stack := append([]string{"systemdict", "userdict"}, outer...)
	stack = append(stack, "systemdict")
	fresh := 0
	legal := true
	for _, tok := range strings.Fields(body) {
		switch tok {
		case "end":
			if len(stack) <= 2 {
				legal = false
			} else {
				stack = stack[:len(stack)-1]
			}
		case "begin":
			// operand decided by the preceding tokens
		case "1", "dict":
		case "d1":
			stack = append(stack, "d1")
		}
	}
	if strings.Contains(body, "1 dict begin") {
		stack = append(stack, "fresh")
		fresh++
	}
	if !legal {
		return mc.Pass("n/a:would-pop-userdict", false)
	}
	target := stack[len(stack)-1]
	p := plaintext{name: "inside:" + body, enc: body + "/seedkey 42 def mark currentfile closefile\n"}
	pre := "/d0 2 dict def /d1 2 dict def "
	for _, d := range outer {
		pre += d + " begin "
	}
	prog := append([]byte(pre), buildSection(p, cont, "\n", defaultBinPrefix, nil)...)
	prog = append(prog, "\ncleartomark systemdict /seedkey known userdict /seedkey known d0 /seedkey known d1 /seedkey known"...)
	describe := func() string {
		return fmt.Sprintf("dictionaries opened before eexec %v, encrypted part `%s` (%s): %s", outer, p.enc, contNames[cont], show(prog))
	}
	intp := postscript.NewInterpreter()
	err := intp.Execute(bytes.NewReader(prog))
	c.Step()
	fail := func(class, detail string) mc.Verdict {
		v := mc.Fail("C05:dictstack-inside:"+class, detail+" | "+describe())
		v.Render = describe()
		return v
	}
	if err != nil {
		return fail("error", "unexpected error "+err.Error())
	}
	if len(intp.DictStack) != 2+len(outer) {
		return fail("depth", fmt.Sprintf("dictionary stack depth %d after the section, %d before it", len(intp.DictStack), 2+len(outer)))
	}
	if len(intp.Stack) != 4 {
		return fail("stack", fmt.Sprintf("operand stack depth %d, expected 4 booleans", len(intp.Stack)))
	}
	for i, d := range []string{"systemdict", "userdict", "d0", "d1"} {
		want := postscript.Boolean(d == target)
		if intp.Stack[i] != want {
			return fail("definition-landed-elsewhere", fmt.Sprintf("`%s /seedkey known` is %v; the definition belongs into %s (dictionary stack inside the section: %v)", d, intp.Stack[i], target, stack))
		}
	}
	v := mc.Pass("defined-in:"+target, true)
	if c.Render() {
		v.Render = describe()
	}
	return v
}

type bytesWriter []byte

func (b *bytesWriter) Write(p []byte) (int, error) { *b = append(*b, p...); return len(p), nil }

// prefixSweepBody: every value of every one of the four prefix bytes, the
// other three being hex digits: the form is binary unless all four are hex
// digits, whatever the value (control bytes, high bytes, punctuation).
func plainIndex(name string) int {
	for i, p := range plaintexts {
		if p.name == name {
			return i
		}
	}
	panic("no plaintext " + name)
}

func prefixSweepBody(c *mc.Ctx, item int) mc.Verdict {
	pos, val := item/256, byte(item%256)
	base := [4]byte{'3', 'c', 'E', '1'}
	sweepPlains := []int{0, 3, 5, plainIndex("lf-then-dsc")}
	pi := c.Choose(len(sweepPlains))
	p := plaintexts[sweepPlains[pi]]
	gap := []string{"\n", " ", "\r"}[c.Choose(3)] // what stands between `eexec` and the cipher text
	prefix := base
	prefix[pos] = val
	if !eexecref.LegalBinaryPrefix(prefix) {
		return mc.Pass("n/a:not-a-legal-binary-prefix", false)
	}
	tis := trailersFor(p)
	ti := tis[c.Choose(len(tis))]
	prog := buildSection(p, contBinary, gap, prefix, nil)
	prog = append(prog, trailers[ti].text...)
	split := 0
	if val%3 == 0 {
		split = -1 // every third prefix value: delivered in one piece together with the end of the input
	}
	return runCase(c, "prefix-byte-sweep", sweepPlains[pi], ti, prog, split, func() string {
		return fmt.Sprintf("binary section with ciphertext prefix % x (byte %d swept) after %q, plaintext %s, trailer %s", prefix[:], pos, gap, p.name, trailers[ti].name)
	})
}

// defaultPrefixFor returns four lead bytes whose ciphertext is legal for the form.
func defaultPrefixFor(cont int) [4]byte {
	if cont == contBinary {
		return defaultBinPrefix
	}
	return hexLegalPrefix
}

// hexLegalPrefix: ciphertext bytes whose hex armouring trivially consists of hex digits.
var hexLegalPrefix = defaultBinPrefix

func main() {
	mc.Main(mc.Program{
		Property: "C05",
		Assumptions: []string{
			"the token that closes the file inside the encrypted part is followed by exactly one white-space byte, which is the last encrypted byte",
			"legal prefix: hex form <=> first four ciphertext bytes are hex digits; binary: first byte not blank/tab/CR/LF and one of the first four not a hex digit",
			"white space between eexec and the ciphertext is blank/tab/CR/LF; hex-form white space only after the fourth digit",
			"plaintexts keep begin/end balanced",
			"cipher family: trails are arbitrary ciphertext read through readstring; the four-byte prefix there is the ciphertext of four zero bytes",
		},
		TrustedBase: []string{"model/eexecref (Type 1 book 7.1/7.2)", "bytes.Reader / env.Source delivery", "snapshot renderer of interpreter state"},
		Explanation: "cipher-edges: 'transitions' of that family = distinct wanted (cipher state, cipher byte) pairs decrypted by the real scanner and compared with the reference (recounted by the body with its own bitmap).",
		Families: func(tier string) []mc.Family {
			thorough := tier == "thorough"
			budget := 50 * time.Second
			if thorough {
				budget = 10 * time.Minute
			}
			var fams []mc.Family
			const block = 512
			desc := func(i int) string { return fmt.Sprintf("cipher trail for source states [%d,%d)", i*block, (i+1)*block) }
			if thorough {
				fams = append(fams,
					mc.Family{Name: "cipher-edges-binary", Items: 65536 / block, Body: cipherBody(block, wantAll, false), Budget: budget, Describe: desc,
						CrashKey: func(int) string { return "C05:cipher:crash" },
						Rule:     "item = block of 512 cipher states; one eexec section (binary) whose readstring payloads walk every one of the 256 outgoing edges of every state of the block (union over the 128 items = all 16,777,216 (state,byte) pairs); strings on the stack compared with eexecref; non-trivial = pairs covered > 0, counted once per form"},
					mc.Family{Name: "cipher-edges-hex", Items: 65536 / block, Body: cipherBody(block, wantAll, true), Budget: budget, Describe: desc,
						CrashKey: func(int) string { return "C05:cipher:crash" },
						Rule:     "same trails, ciphertext hex-armoured (lower case, 64 digits per line)"})
			} else {
				fams = append(fams,
					mc.Family{Name: "cipher-edges-binary", Items: 65536 / block, Body: cipherBody(block, wantQuick, false), Budget: budget, Describe: desc,
						CrashKey: func(int) string { return "C05:cipher:crash" },
						Rule:     "item = block of 512 cipher states; one eexec section (binary) whose readstring payloads take, from every state s of the block, the 16 edges with byte%16 == s%16 (union over the 128 items = 1,048,576 (state,byte) pairs, every one of the 65,536 states entered as a source); strings on the stack compared with eexecref; non-trivial = pairs covered > 0"})
			}

			wi := wsItems()
			fams = append(fams, mc.Family{Name: "layout-hex-whitespace", Items: len(wi), Body: wsBody(wi, thorough), Budget: budget,
				Describe: func(i int) string { return fmt.Sprintf("%+v", wi[i]) },
				CrashKey: func(int) string { return "C05:layout-ws:crash" },
				Rule: "item = (plaintext of 12, hex case of 3, position >= 4 of the first white-space insertion); choices: second insertion at every later-or-equal position (short plaintexts) or none, white-space kinds from {SP,TAB,CR,LF,CRLF} (quick: 3 kind pairs (SP+LF, CR+LF, CRLF+TAB) for two insertions, thorough: all 25); " +
					"differential oracle against the clear-text run; non-trivial = final state differs from a fresh interpreter's"})

			pcs := prefixCases()
			gs := gaps(thorough)
			var pgi []pgItem
			for pi := range plaintexts {
				for pc := range pcs {
					pgi = append(pgi, pgItem{pi, pc})
				}
			}
			fams = append(fams, mc.Family{Name: "layout-prefix-gap-trailer", Items: len(pgi), Body: pgBody(pgi, pcs, gs), Budget: budget,
				Describe: func(i int) string { return fmt.Sprintf("%+v %s", pgi[i], pcs[pgi[i].pc].desc) },
				CrashKey: func(int) string { return "C05:layout-prefix:crash" },
				Rule: fmt.Sprintf("item = (plaintext of 12, prefix case of %d: binary with every legal class word over {hex digit, white space, other}^4 x 3 representatives, hex lower/upper/mixed x 6 prefix values); choices: %d gaps (white-space strings of length 1..%d over SP/TAB/CR/LF) x compatible trailers of 6; differential oracle; non-trivial = final state differs from a fresh interpreter's",
					len(pcs), len(gs), map[bool]int{true: 4, false: 2}[thorough])})

			pi := posItems()
			fams = append(fams, mc.Family{Name: "position-buffer-boundary", Items: len(pi), Body: posBody(pi), Budget: budget,
				Describe: func(i int) string { return fmt.Sprintf("%+v", pi[i]) },
				CrashKey: func(int) string { return "C05:position:crash" },
				Rule:     "item = (plaintext, container of 4, gap of 2, trailer of 4); choices: every offset from 8 bytes before `eexec` to 8 bytes after the first token following the encrypted part x {padding comment so that the 512-byte refill boundary falls there, source delivering exactly that many bytes first}; differential oracle; non-trivial = final state differs from a fresh interpreter's"})
			t3 := threePiecesItems()
			fams = append(fams, mc.Family{Name: "section-delivered-in-three-pieces", Items: len(t3), Body: threePiecesBody(t3), Budget: budget,
				Rule: "item = (short plaintext, container of 4, end of the first piece); choice = end of the second piece: every pair of cut points 0 < i < j < length of the program (section + first trailer); the second piece may be shorter than the first and may end inside a pair of hex digits; oracle: state equals the clear-text reference run; non-trivial = state differs from a fresh interpreter"})
			fams = append(fams, mc.Family{Name: "dictstack-inside-section", Items: len(insideBodies) * 4 * len(insideOuters), Body: insideBody, Budget: budget,
				Rule: "dictionaries opened before `eexec` (none; one or two fresh ones; systemdict; userdict; a fresh one then systemdict; systemdict twice; the same fresh one twice; systemdict then a fresh one) x encrypted part that closes 0..3 dictionaries, then opens none / a new one / an old one, then defines a key x 4 containers; a simulation of the dictionary stack (the one before eexec plus systemdict) says which dictionary receives the definition: afterwards the key must be known there and nowhere else, and the stack depth restored; cases that would close userdict are skipped; non-trivial = all others"})
			fams = append(fams, mc.Family{Name: "dictstack-restore", Items: len(restorePlains) * 4 * len(restoreOuters), Body: restoreBody, Budget: budget,
				Rule: "item = (what the encrypted part does to the dictionary stack: nothing, 1..3 extra `end`, 1..2 extra `begin`, mixtures) x container (binary, hex lower/upper/mixed) x 0, 1, 2, 15..18 extra dictionaries open when eexec is entered (the last ones reach the limit of 20: the section must overflow exactly where the clear-text run does); after the section the dictionary stack must be exactly the one before it (depth and contents: names defined in the outer dictionaries resolve again); non-trivial = every case"})
			fams = append(fams, mc.Family{Name: "closefile-followed-by-a-delimiter", Items: len(closeDelims) * 4 * len(closeBodies), Body: delimiterBody, Budget: budget,
				Rule: fmt.Sprintf("item = the byte that ends the token `closefile` (last encrypted byte) and the clear text continuing from it, %d cases: / [ ( < {  %% starting a name, the empty name, arrays, strings, hexadecimal and ASCII85 strings, a dictionary, procedures, a comment and a DSC comment, and the white-space bytes SP LF NUL FF; x container {binary, hex lower / upper / mixed} x 4 encrypted bodies (closefile also inside a procedure); the state must equal that of `systemdict begin body mark end` followed by the delimiter and the clear text; non-trivial = all", len(closeDelims))})
			fams = append(fams, mc.Family{Name: "readstring-delimiter-and-first-byte", Items: len(rsDelims) * len(rsFirst) * len(rsForms) * 4, Body: readDelimBody, Budget: budget,
				Rule: fmt.Sprintf("item = the white-space byte that ends the token before the data (%q) x the first data byte (% x) x {readstring written out, an RD-style procedure} x container: four data bytes (first, LF, 01, CR) must be delivered exactly; in particular a CR as delimiter does not take a following LF with it; non-trivial = all", rsDelims, rsFirst)})
			fams = append(fams, mc.Family{Name: "second-call-after-a-section", Items: len(secondEndings) * 4 * len(secondProgs), Body: secondCallBody, Budget: budget,
				Rule: fmt.Sprintf("item = how the encrypted part of the first Execute call ends (%d ways: closefile, stop, stop inside procedures, an error, end of data) x container x %d programs for a second call on the same interpreter: the state after the second call equals the one reached when the first program is `systemdict begin` + plaintext in the clear; non-trivial = all", len(secondEndings), len(secondProgs))})
			fams = append(fams, mc.Family{Name: "prefix-byte-sweep", Items: 4 * 256, Body: prefixSweepBody, Budget: budget,
				Rule: "item = (position 0..3, byte value 0..255): binary section whose ciphertext prefix is three hex digits and that byte; x 3 plaintexts x trailers; differential against the clear-text run; non-trivial = the prefix is legal for the binary form"})
			fams = append(fams, mc.Family{Name: "two-sections-in-one-stream", Items: len(plaintexts) * len(plaintexts) * 16, Body: twoSectionsBody, Budget: budget,
				Rule: "item = (first plaintext, second plaintext, container of each from {binary, hex lower, hex upper, hex mixed}); choices = trailer after the first and after the second section; the program is section 1 + trailer + a second `currentfile eexec` section + trailer in ONE stream; state must equal the clear-text run of both (`systemdict begin .. end` twice); non-trivial = the clear-text run succeeds"})
			return fams
		},
	})
}
