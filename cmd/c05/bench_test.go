package main

import (
	"bytes"
	"testing"

	"seehuhn.de/go/postscript"
)

func BenchmarkCase(b *testing.B) {
	p := plaintexts[0]
	sec := buildSection(p, contHexLower, "\n", defaultBinPrefix, nil)
	prog := append(sec, trailers[3].text...)
	for i := 0; i < b.N; i++ {
		intp := postscript.NewInterpreter()
		err := intp.Execute(bytes.NewReader(prog))
		_ = snapshot(intp, err)
	}
}
func BenchmarkExecOnly(b *testing.B) {
	p := plaintexts[0]
	sec := buildSection(p, contHexLower, "\n", defaultBinPrefix, nil)
	prog := append(sec, trailers[3].text...)
	for i := 0; i < b.N; i++ {
		intp := postscript.NewInterpreter()
		intp.Execute(bytes.NewReader(prog))
	}
}
func BenchmarkNew(b *testing.B) {
	for i := 0; i < b.N; i++ {
		postscript.NewInterpreter()
	}
}
