// zz_enginetest exercises the engine's handling of violations that do not repeat
// inside one process (not a property check; run by hand:
// go run ./cmd/zz_enginetest -evidence /tmp/e.json; expect exit 1 for family
// "state-carried" and a nondeterminism error for family "flaky" when enabled
// with -only flaky).
package main

import (
	"os"
	"time"

	"verif/mc"
)

var touched bool

func main() {
	mc.Main(mc.Program{
		Property: "ENGINETEST",
		Families: func(tier string) []mc.Family {
			return []mc.Family{
				{Name: "state-carried", Items: 4, Budget: 10 * time.Second,
					Rule: "item 2 violates on the first execution of a process only (the 'library' remembers)",
					Body: func(c *mc.Ctx, item int) mc.Verdict {
						c.Step()
						if item == 2 && !touched {
							touched = true
							return mc.Fail("ENGINETEST:first-execution-only", "violates only as the first execution")
						}
						return mc.Pass("ok", true)
					}},
				{Name: "flaky", Items: 4, Budget: 10 * time.Second,
					Rule: "item 1 violates depending on the process id (a nondeterministic harness)",
					Body: func(c *mc.Ctx, item int) mc.Verdict {
						c.Step()
						if item == 1 && !touched && os.Getpid()%2 == 0 {
							touched = true
							return mc.Fail("ENGINETEST:flaky", "depends on the pid")
						}
						touched = true
						return mc.Pass("ok", true)
					}},
			}
		},
	})
}
