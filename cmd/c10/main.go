// C10 — any font that was read can be written and re-read without further change.
//
// Decided by bounded-exhaustive enumeration: inputs x are the files the
// independent producer verif/model/t1gen writes for every font of
// t1model.C10Fonts() ("unusual but legal" content: fractional widths and side
// bearings, sbw, encodings naming absent glyphs, missing .notdef, empty
// strings, strings with line ends / parentheses / backslashes / all kinds of
// bytes, names with unusual regular characters, the four date layouts,
// non-default Private values, BlueScale around its default, composites, flex,
// subroutines, contours without explicit closepath, no or short Encoding)
// under every serialisation with at most MaxDev deviations from the plain
// style; for each accepted x the two write formats are free choices
// (4 x 4, all explored):
//
//	F1 = Read(x)                       (x rejected or non-finite: nothing to check)
//	Write_f1(F1) must succeed (no error, no panic)   for each of the 4 formats
//	F2 = Read(Write_f1(F1)) must succeed and equal F1 up to quantisation
//	F3 = Read(Write_f2(F2)) must succeed and equal F2 exactly
//
// Quantisation tolerated between F1 and F2, and nothing else (property text):
//   - WidthX/WidthY: F2's value is a whole number within 0.5 of F1's;
//   - coordinates: same command sequence, every argument within 1/214 (+1e-12
//     float slack);
//   - BlueScale: F2's value is 0.039625 and F1's was within 1e-6 (+1e-12) of it.
//
// Everything else (glyph set, stems, 256 encoding slots, strings byte for
// byte, numbers, FontMatrix, Private, creation date as instant + UTC offset)
// must be equal; between F2 and F3 everything must be equal.
//
// Preconditions on the generated inputs: finite decimal numbers; creation
// dates without fractional seconds (the property does not say what happens to
// them); coordinate deltas of at least 1e-6 or exactly 0.
package main

import (
	"bytes"
	"fmt"
	"strings"
	"time"

	"seehuhn.de/go/postscript/type1"

	"verif/mc"
	"verif/model/t1fonts"
	"verif/model/t1gen"
	"verif/model/t1model"
	"verif/model/t1raw"
)

var formats = []type1.FileFormat{type1.FormatPFA, type1.FormatPFB, type1.FormatBinary, type1.FormatNoEExec}
var formatNames = []string{"PFA", "PFB", "Binary", "NoEExec"}

const (
	keyVersionLineEnd = "C10:header-injection:version-line-end"
	keyStdSubset      = "C10:encoding:standard-subset-written-as-StandardEncoding"
	keyProcNameGlyph  = "C10:glyph-named-RD-ND-NP-shadows-procedure"
	keySeacOpen       = "C10:seac:unclosed-accent-contours-closed-on-reread"
)

// closeOpenContours returns cmds with a closepath added wherever a contour
// that contains a line ends without one (before the next moveto / at the end).
func closeOpenContours(cmds []type1.GlyphOp) []type1.GlyphOp {
	var out []type1.GlyphOp
	open := false
	for _, c := range cmds {
		switch c.Op {
		case type1.OpMoveTo:
			if open {
				out = append(out, type1.GlyphOp{Op: type1.OpClosePath})
				open = false
			}
		case type1.OpLineTo:
			open = true
		case type1.OpClosePath:
			open = false
		}
		out = append(out, c)
	}
	if open {
		out = append(out, type1.GlyphOp{Op: type1.OpClosePath})
	}
	return out
}

// write runs the library's writer, turning a panic into an error.
func write(f *type1.Font, format type1.FileFormat) (data []byte, err error, panicked bool) {
	defer func() {
		if r := recover(); r != nil {
			err = fmt.Errorf("panic: %v", r)
			panicked = true
		}
	}()
	buf := &bytes.Buffer{}
	err = f.Write(buf, &type1.WriterOptions{Format: format})
	return buf.Bytes(), err, false
}

// cycle writes f and reads the result back.
func cycle(f *type1.Font, format type1.FileFormat) (g *type1.Font, data []byte, stage string, err error) {
	data, err, panicked := write(f, format)
	if panicked {
		return nil, data, "write-panic", err
	}
	if err != nil {
		return nil, data, "write-error", err
	}
	g, err = type1.Read(bytes.NewReader(data))
	if err != nil {
		return nil, data, "reread-error", err
	}
	return g, data, "", nil
}

func copyFont(f *type1.Font) *type1.Font {
	g := *f
	fi := *f.FontInfo
	g.FontInfo = &fi
	pd := *f.Private
	g.Private = &pd
	g.Glyphs = map[string]*type1.Glyph{}
	for n, gl := range f.Glyphs {
		g.Glyphs[n] = gl
	}
	g.Encoding = append([]string(nil), f.Encoding...)
	return &g
}

// cleanCycle reports whether f survives one quantised cycle in the format.
func cleanCycle(f *type1.Font, format type1.FileFormat) bool {
	g, _, stage, _ := cycle(f, format)
	return stage == "" && len(t1model.CompareFonts(f, g, true)) == 0
}

// classify decides whether a first-cycle failure of F1 is exactly one of the
// known defects.  Each test is a counterfactual: remove the one suspected
// cause from a copy of F1 and require that the copy passes cleanly.
func classify(m *t1model.Font, F1, F2 *type1.Font, format type1.FileFormat, stage string, diffs []t1model.Diff) string {
	// consequence of the C06 seac defect: the reader leaves the accent's
	// contours of a composite unclosed; writing and re-reading closes them
	if stage == "" && len(diffs) > 0 && F2 != nil {
		only := true
		for _, d := range diffs {
			mg := m.Glyph(d.Glyph)
			if d.Field != "cmds" || mg == nil || mg.Comp == nil {
				only = false
				break
			}
			want := t1model.LibCmds(closeOpenContours(F1.Glyphs[d.Glyph].Cmds))
			if !t1model.CmdsEqual(want, t1model.LibCmds(F2.Glyphs[d.Glyph].Cmds), t1model.CoordQuantum+1e-12) {
				only = false
				break
			}
		}
		if only {
			return keySeacOpen
		}
	}
	// (c) line end in the version string, copied unescaped into the `%!` header line
	if strings.ContainsAny(F1.Version, "\n\r") {
		g := copyFont(F1)
		g.Version = strings.NewReplacer("\n", " ", "\r", " ").Replace(F1.Version)
		if cleanCycle(g, format) {
			return keyVersionLineEnd
		}
	}
	// glyph named like the writer's RD/ND/NP procedures
	for _, pn := range []string{"RD", "ND", "NP"} {
		if gl, ok := F1.Glyphs[pn]; ok {
			g := copyFont(F1)
			delete(g.Glyphs, pn)
			g.Glyphs["x"+pn] = gl
			for i, n := range g.Encoding {
				if n == pn {
					g.Encoding[i] = "x" + pn
				}
			}
			if cleanCycle(g, format) {
				return keyProcNameGlyph
			}
		}
	}
	// encoding that is StandardEncoding on a subset of the font's standard-named glyphs
	if stage == "" && len(diffs) > 0 {
		only := true
		for _, d := range diffs {
			if d.Field != "encoding" {
				only = false
			}
		}
		if only && len(F1.Encoding) == 256 && F2 != nil && len(F2.Encoding) == 256 {
			// F1's encoding is StandardEncoding restricted to a subset of the
			// font's standard-named glyphs, and F2's is exactly
			// StandardEncoding restricted to all of them
			subset, widened, predicted := true, false, true
			for i, n := range F1.Encoding {
				std := t1model.StandardEncoding[i]
				_, has := F1.Glyphs[std]
				has = has && std != ""
				if n != ".notdef" && n != std {
					subset = false
				}
				if has && n == ".notdef" {
					widened = true
				}
				want := ".notdef"
				if has {
					want = std
				}
				if F2.Encoding[i] != want {
					predicted = false
				}
			}
			if subset && widened && predicted {
				return keyStdSubset
			}
		}
	}
	return ""
}

func summarize(ds []t1model.Diff) string {
	var parts []string
	for i, d := range ds {
		if i == 3 {
			parts = append(parts, fmt.Sprintf("… %d more", len(ds)-3))
			break
		}
		parts = append(parts, d.String())
	}
	return strings.Join(parts, "; ")
}

func clip(b []byte, n int) string {
	if len(b) > n {
		return fmt.Sprintf("%q… (%d bytes)", b[:n], len(b))
	}
	return fmt.Sprintf("%q", b)
}

// sloppyFont says `/Encoding StandardEncoding def` and then stores into that array, and into systemdict.
var sloppyFont = t1raw.Build(t1raw.FontSpec{EncLenIV: 4,
	Top:    "StandardEncoding 39 /quotesingle put StandardEncoding 65 /Alpha put StandardEncoding 66 /.notdef put StandardEncoding 96 /grave put systemdict /zzsloppy 1 put\n",
	Glyphs: map[string][]byte{".notdef": {139, 248, 136, 13, 14}, "A": {139, 248, 136, 13, 14}},
	Order:  []string{".notdef", "A"}})

func body(fonts []*t1model.Font) func(c *mc.Ctx, item int) mc.Verdict {
	sc := t1gen.Scope{Global: true, Glyph: true, Unusual: true}
	return func(c *mc.Ctx, item int) mc.Verdict {
		m := fonts[item]
		opt := t1gen.Drive(c, m, sc)
		i1 := c.Choose(len(formats))
		x, err := t1gen.Generate(m, opt)
		if err != nil {
			if strings.Contains(err.Error(), "seac components not at") {
				// the encoding forms without an Encoding entry are outside
				// the book's rule for seac; nothing to generate
				return mc.Pass("not-generated/seac-needs-encoding", false)
			}
			panic("harness: generator refused its own options: " + err.Error())
		}
		render := func() string {
			return fmt.Sprintf("%s || %s || format1 %s", m.Describe(), opt, formatNames[i1])
		}
		fail := func(key, detail string) mc.Verdict {
			v := mc.Fail(key, detail+" || "+render())
			v.Render = render()
			return v
		}
		if item%4 == 1 {
			// one input in four is read after the process has read a font program that
			// stores into StandardEncoding and the other system objects in place
			// (what one font program does is that font's business only)
			type1.Read(bytes.NewReader(sloppyFont))
		}
		F1, err := type1.Read(bytes.NewReader(x))
		c.Step()
		if err != nil {
			return mc.Pass("x-rejected", false)
		}
		if !t1model.FiniteFont(F1) {
			return mc.Pass("x-not-finite", false)
		}
		F2, data1, stage, err := cycle(F1, formats[i1])
		c.Step()
		if stage != "" {
			if key := classify(m, F1, nil, formats[i1], stage, nil); key != "" {
				return fail(key, fmt.Sprintf("cycle 1 (%s): %s: %v; written file starts %s", formatNames[i1], stage, err, clip(data1, 160)))
			}
			return fail("C10:cycle1:"+stage, fmt.Sprintf("cycle 1 (%s): %v; written file starts %s", formatNames[i1], err, clip(data1, 160)))
		}
		if ds := t1model.CompareFonts(F1, F2, true); len(ds) > 0 {
			if key := classify(m, F1, F2, formats[i1], "", ds); key != "" {
				return fail(key, fmt.Sprintf("cycle 1 (%s) changed the font beyond the documented quantisation: %s", formatNames[i1], summarize(ds)))
			}
			return fail("C10:cycle1:"+ds[0].Field, fmt.Sprintf("cycle 1 (%s) changed the font beyond the documented quantisation: %s", formatNames[i1], summarize(ds)))
		}
		// second cycle: every format, inside this execution (the space
		// explored is still format1 x format2 in 4 x 4)
		for i2 := range formats {
			F3, data2, stage, err := cycle(F2, formats[i2])
			c.Step()
			if stage != "" {
				return fail("C10:cycle2:"+stage, fmt.Sprintf("cycle 2 (%s after %s): %v; written file starts %s", formatNames[i2], formatNames[i1], err, clip(data2, 160)))
			}
			if ds := t1model.CompareFonts(F2, F3, false); len(ds) > 0 {
				return fail("C10:cycle2:"+ds[0].Field, fmt.Sprintf("cycle 2 (%s after %s) changed the font: %s", formatNames[i2], formatNames[i1], summarize(ds)))
			}
		}
		outcome := "closed/" + t1gen.ContainerName(opt.Container) + "/" + formatNames[i1]
		nontrivial := false
		for _, g := range F1.Glyphs {
			if len(g.Cmds) > 0 {
				nontrivial = true
			}
		}
		v := mc.Pass(outcome, nontrivial)
		if c.Render() {
			v.Render = render()
		}
		return v
	}
}

// bigBody: inputs whose encrypted portion exceeds 64 KiB (PFB segment lengths
// above 16 bits, many buffer flushes): x = the library's own output for the two
// big fonts in each container; then the same two cycles as for every input.
func bigBody(c *mc.Ctx, item int) mc.Verdict {
	fam := t1fonts.Families("quick", t1fonts.DomainC09)
	var big *t1fonts.Family
	for i := range fam {
		if fam[i].Name == "big-fonts" {
			big = &fam[i]
		}
	}
	src := big.Build(item % big.N)
	i0 := (item / big.N) % len(formats)
	x, err, _ := write(src, formats[i0])
	if err != nil {
		return mc.Fail("C10:big:cannot-produce-input", err.Error())
	}
	i1 := c.Choose(len(formats))
	desc := fmt.Sprintf("big font #%d (%d glyphs) written as %s (%d bytes) as input, format1 %s", item%big.N, len(src.Glyphs), formatNames[i0], len(x), formatNames[i1])
	fail := func(key, detail string) mc.Verdict {
		v := mc.Fail(key, detail+" || "+desc)
		v.Render = desc
		return v
	}
	F1, err := type1.Read(bytes.NewReader(x))
	c.Step()
	if err != nil {
		return fail("C10:big:x-rejected", "the library cannot read its own output: "+err.Error())
	}
	F2, data1, stage, err := cycle(F1, formats[i1])
	c.Step()
	if stage != "" {
		return fail("C10:big:cycle1:"+stage, fmt.Sprintf("cycle 1 (%s): %v; written file starts %s", formatNames[i1], err, clip(data1, 100)))
	}
	if ds := t1model.CompareFonts(F1, F2, true); len(ds) > 0 {
		return fail("C10:big:cycle1:"+ds[0].Field, "cycle 1 changed the font: "+summarize(ds))
	}
	for i2 := range formats {
		F3, data2, stage, err := cycle(F2, formats[i2])
		c.Step()
		if stage != "" {
			return fail("C10:big:cycle2:"+stage, fmt.Sprintf("cycle 2 (%s after %s): %v; written file starts %s", formatNames[i2], formatNames[i1], err, clip(data2, 100)))
		}
		if ds := t1model.CompareFonts(F2, F3, false); len(ds) > 0 {
			return fail("C10:big:cycle2:"+ds[0].Field, "cycle 2 changed the font: "+summarize(ds))
		}
	}
	v := mc.Pass("big/closed/"+formatNames[i0]+"/"+formatNames[i1], true)
	if c.Render() {
		v.Render = desc
	}
	return v
}

func main() {
	fonts := t1model.C10Fonts()
	mc.Main(mc.Program{
		Property: "C10",
		Assumptions: []string{
			"inputs are the files of the independent producer t1gen for t1model.C10Fonts() (unusual but legal content, a few merely accepted shapes), not arbitrary byte strings",
			"tolerated between F1 and F2: widths to whole units (|d| <= 0.5), coordinates within 1/214 (+1e-12), BlueScale snapped to 0.039625 when within 1e-6 (+1e-12); nothing between F2 and F3",
			"creation dates are compared as instant plus UTC offset; inputs have no fractional seconds",
		},
		TrustedBase: []string{"verif/model/t1gen, verif/model/t1model (producer of the inputs, comparer)"},
		Explanation: "Each execution = one (input file, format1) pair: Read(x), Write_f1, Read, then Write_f2 + Read for each of the 4 second formats, all on the real library.",
		Families: func(tier string) []mc.Family {
			dev, budget := 1, 50*time.Second
			if tier == "thorough" {
				dev, budget = 2, 11*time.Minute
			}
			return []mc.Family{{
				Name: "big-inputs", Items: 2 * len(formats), Body: bigBody, Budget: budget,
				Rule: "item = (one of two fonts whose encrypted portion exceeds 64 KiB: 130 glyphs x 200 segments, 1700 small glyphs) x container of the input file (the library's own output in each of the 4 formats); format1 free (4), all 4 format2 inside the execution; same closure oracle; non-trivial = every case",
			}, {
				Name: "read-write-read-write-read", Items: len(fonts), MaxDev: dev, Budget: budget,
				Body:     body(fonts),
				Describe: func(i int) string { return fonts[i].Describe() },
				CrashKey: func(int) string { return "C10:crash" },
				Rule: fmt.Sprintf("item = one of %d unusual model fonts; input file = every serialisation with <= %d deviations from the plain style "+
					"(container x6, lenIV {4,0,1,7}, -| names, encoding form x5 incl. naming absent glyphs / none / short, date layout x4, line end x3, string form x3, hex case, dense style; per glyph subr factoring x5, hint replacement, dotsection, sbw form, vstem-first, no explicit closepath); "+
					"format1 is a free choice (4), all 4 values of format2 are run inside each execution (so format1 x format2 in 4 x 4 is covered; transitions count every Read); non-trivial = x accepted, both cycles completed and compared, font has an outline", len(fonts), dev),
			}}
		},
	})
}
