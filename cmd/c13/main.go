// C13 — I/O faults surface as errors and truncation never yields a partial result.
//
// Exhaustive single-fault injection on the real readers and writers:
//
//   - read faults: for every corpus input (programs, CMaps, the sample font in
//     4 formats, AFM files, PFB streams) a reader that fails with a sentinel
//     error at byte offset k, for EVERY k in 0..len, under two delivery styles
//     (everything asked for up to k; one byte at a time).  If the fault reached
//     the library (the reader consumed input up to k) the call must return a
//     non-nil error; if the library stopped reading before k the result must be
//     the complete one.
//   - truncation: every font file and every CMap file cut at EVERY offset must
//     give an error or a result deep-equal to the complete one.
//   - write faults: for the sample font (and two variants) x 5 output forms and
//     for metrics values, a writer that fails ONLY the j-th Write call
//     (transient: later calls succeed), for every j below the number of calls
//     of the fault-free run; and a writer that accepts only the first b bytes
//     in total (short write + error), for every b below the full length.
//     Every injected fault must surface as a non-nil error.
//
// No panic is tolerated anywhere (caught by the engine).
package main

import (
	"bufio"
	"bytes"
	"errors"
	"fmt"
	"io"
	"strings"
	"time"

	"seehuhn.de/go/postscript/afm"
	"seehuhn.de/go/postscript/funit"
	"seehuhn.de/go/postscript/pfb"
	"seehuhn.de/go/postscript/type1"

	"verif/env"
	"verif/mc"
	"verif/model/corpus"
	"verif/model/observe"
)

type entry struct {
	in   corpus.Input
	kind string
}

func entries() []entry {
	var es []entry
	for _, in := range corpus.Programs() {
		es = append(es, entry{in, "ps"})
	}
	for _, in := range corpus.CMaps() {
		es = append(es, entry{in, "cmap"})
	}
	for _, in := range corpus.Fonts() {
		es = append(es, entry{in, "font"})
	}
	for _, in := range corpus.FontsT1gen() {
		es = append(es, entry{in, "font"})
	}
	for _, in := range corpus.AFMs() {
		es = append(es, entry{in, "afm"})
	}
	for _, in := range corpus.PFBs() {
		es = append(es, entry{in, "pfb"})
	}
	return es
}

var refCache = map[string]observe.Result{}

func reference(e entry) observe.Result {
	k := e.kind + "/" + e.in.Name
	if r, ok := refCache[k]; ok {
		return r
	}
	r := observe.Run(e.kind, bytes.NewReader(e.in.Data))
	refCache[k] = r
	return r
}

const block = 64

func readFaultFamily(es []entry, budget time.Duration) mc.Family {
	type it struct{ e, first int }
	var items []it
	total := 0
	for ei, e := range es {
		for k := 0; k <= len(e.in.Data); k += block {
			items = append(items, it{ei, k})
		}
		total += len(e.in.Data) + 1
	}
	return mc.Family{
		Name: "read-fault-at-every-offset", Items: len(items), Budget: budget,
		Rule: fmt.Sprintf("%d corpus inputs x a read fault (sentinel error) at EVERY byte offset k in 0..len (%d offsets) x %d fault styles (full reads up to k then the error alone; one byte at a time; the error in the same call as the last good bytes; the same with 7-byte reads; a transient error reported once, alone or together with data, after which the reader carries on; for programs and CMaps also through a bufio.Reader, which hands the library an io.ByteReader and forgets an error once reported) x 5 error values (a sentinel, io.ErrUnexpectedEOF, an error wrapping io.EOF, io.ErrNoProgress, io.ErrClosedPipe; PFB inputs and transient faults: sentinel only) x {plain, seekable (fonts)}; item = block of %d offsets; non-trivial = the fault was delivered to the library", len(es), total, len(faultStyles), block),
		Body: func(c *mc.Ctx, item int) mc.Verdict {
			e := es[items[item].e]
			n := min(block, len(e.in.Data)+1-items[item].first)
			k := items[item].first + c.Choose(n)
			style := c.Choose(len(faultStyles))
			seek := false
			if e.kind == "font" {
				seek = c.Choose(2) == 1
			}
			src := env.NewSource(e.in.Data)
			src.FailAt = k
			src.FailErr = env.ErrInjected
			fs := faultStyles[style]
			if fs.withData && fs.once && e.kind != "ps" && e.kind != "cmap" {
				// A one-shot error that accompanies the very bytes which complete a
				// request is dropped by io.ReadFull by contract; type1.Read's format
				// sniffing, pfb.Decode and bufio (afm) are built on it.  "The reader
				// fails at offset k" is read as a failure that persists for those;
				// the interpreter's own scanner (ps, cmap) must keep even a one-shot one.
				return mc.Pass("n/a:one-shot-error-with-data-through-io.ReadFull", false)
			}
			if fs.oneByte {
				src.Decide = func(call, want, remaining int) (int, bool) { return 1, false }
			}
			if fs.chunk7 {
				src.Decide = func(call, want, remaining int) (int, bool) { return 7, false }
			}
			src.FailWithData, src.FailOnce = fs.withData, fs.once
			// what the fault looks like: the sentinel, or an error value that readers
			// tend to special-case (for inputs whose end the library finds by itself,
			// i.e. not for PFB streams, where bytes after the end marker are never needed)
			// (only for faults that persist: "the stream ended unexpectedly" reported
			// once by a reader that then carries on is not a meaningful answer)
			if !fs.once && e.kind != "pfb" && !(len(e.in.Data) > 0 && e.in.Data[0] == 0x80) {
				src.FailErr = faultErrors[c.Choose(len(faultErrors))]
			}
			var r io.Reader = src
			if fs.buffered {
				if e.kind != "ps" && e.kind != "cmap" {
					return mc.Pass("n/a:buffered-source-only-for-the-interpreter's-scanner", false)
				}
				r = bufio.NewReaderSize(src, 16)
			}
			if seek {
				r = env.SeekSource{Source: src}
			}
			got := observe.Run(e.kind, r)
			c.Steps(src.Calls)
			name := e.kind + "/" + e.in.Name
			desc := fmt.Sprintf("%s: read fault at offset %d of %d, style %q, seekable=%v", name, k, len(e.in.Data), fs.name, seek)
			// An error that came together with the last bytes a request needed is
			// dropped by io.ReadFull by contract; if the library then never reads
			// again (it had all it needed, e.g. the PFB end marker) the fault was
			// never in its way: treated like a fault that was not reached.
			reached := src.Faulted() && !(got.Err == nil && fs.withData && !fs.once && src.CallsAfterFault == 0 && e.kind != "ps" && e.kind != "cmap")
			if reached {
				if got.Err == nil {
					v := mc.Fail("C13:read-fault-swallowed:"+name, desc+": the reader returned the fault to the library but the call returned a result and no error")
					v.Render = desc
					return v
				}
				v := mc.Pass(e.kind+"/fault-surfaced", true)
				if c.Render() {
					v.Render = desc + " → " + got.Err.Error()
				}
				return v
			}
			// the library never read as far as the fault: nothing may differ
			ref := reference(e)
			if got.Obs != ref.Obs {
				v := mc.Fail("C13:result-differs-without-fault:"+name, desc+": the fault was never reached, yet the result differs from the fault-free run")
				v.Render = desc
				return v
			}
			return mc.Pass(e.kind+"/fault-not-reached", false)
		},
		Describe: func(item int) string { e := es[items[item].e]; return e.kind + "/" + e.in.Name },
		CrashKey: func(item int) string { e := es[items[item].e]; return "C13:crash:read:" + e.kind + "/" + e.in.Name },
	}
}

var faultErrors = []error{env.ErrInjected, io.ErrUnexpectedEOF, fmt.Errorf("read failed: %w", io.EOF), io.ErrNoProgress, io.ErrClosedPipe}

var faultStyles = []struct {
	name                            string
	oneByte, chunk7, withData, once bool
	buffered                        bool // the source is wrapped in a bufio.Reader (an io.ByteReader that forgets an error once it has reported it)
}{
	{name: "full reads, error alone, persistent"},
	{name: "one byte per read, error alone, persistent", oneByte: true},
	{name: "error together with the last good bytes, persistent", withData: true},
	{name: "7-byte reads, error together with data, persistent", chunk7: true, withData: true},
	{name: "error alone, reported once, then the reader carries on", once: true},
	{name: "error together with data, reported once, then the reader carries on", withData: true, once: true},
	{name: "7-byte reads, error together with data, reported once", chunk7: true, withData: true, once: true},
	{name: "through a bufio.Reader: 7-byte reads, error alone, reported once", chunk7: true, once: true, buffered: true},
	{name: "through a bufio.Reader: error alone, persistent", buffered: true},
}

func truncationFamily(es []entry, budget time.Duration) mc.Family {
	var sel []entry
	for _, e := range es {
		// (a file defining two CMaps cut after the first is a complete one-CMap
		// file whose result legitimately differs: not a truncation case)
		if e.kind == "font" || (e.kind == "cmap" && e.in.Name != "two-cmaps") {
			sel = append(sel, e)
		}
	}
	type it struct{ e, first int }
	var items []it
	total := 0
	for ei, e := range sel {
		for k := 0; k < len(e.in.Data); k += block {
			items = append(items, it{ei, k})
		}
		total += len(e.in.Data)
	}
	return mc.Family{
		Name: "truncation-at-every-offset", Items: len(items), Budget: budget,
		Rule: fmt.Sprintf("%d font files (4 containers) and CMap files cut at EVERY offset k in 0..len-1 (%d cuts) x 2 delivery styles; the result must be an error or deep-equal to the complete result; non-trivial = every case", len(sel), total),
		Body: func(c *mc.Ctx, item int) mc.Verdict {
			e := sel[items[item].e]
			n := min(block, len(e.in.Data)-items[item].first)
			k := items[item].first + c.Choose(n)
			style := c.Choose(2)
			src := env.NewSource(e.in.Data[:k])
			if style == 1 {
				src.Decide = func(call, want, remaining int) (int, bool) { return 3, true }
			}
			got := observe.Run(e.kind, src)
			c.Steps(src.Calls)
			name := e.kind + "/" + e.in.Name
			desc := fmt.Sprintf("%s truncated to %d of %d bytes", name, k, len(e.in.Data))
			if got.Err != nil {
				v := mc.Pass(e.kind+"/truncated-error", true)
				if c.Render() {
					v.Render = desc + " → " + got.Err.Error()
				}
				return v
			}
			ref := reference(e)
			if got.Obs != ref.Obs {
				v := mc.Fail("C13:partial-result:"+name, desc+": no error, but the result differs from the complete one (silently incomplete)")
				v.Render = desc
				return v
			}
			v := mc.Pass(e.kind+"/truncated-complete", true)
			if c.Render() {
				v.Render = desc + " → complete result"
			}
			return v
		},
	}
}

// ---------------------------------------------------------------------------

type writeCase struct {
	name  string
	write func(w io.Writer) error
}

func writeCases() []writeCase {
	var out []writeCase
	fonts := map[string]*type1.Font{"sample": corpus.SampleFont()}
	// a font with many glyphs (several flushes of the 512-byte eexec buffer and many hex lines)
	big := corpus.SampleFont()
	for i := 0; i < 40; i++ {
		g := big.NewGlyph(fmt.Sprintf("g%02d", i), float64(400+i))
		g.MoveTo(0, 0)
		g.LineTo(float64(100+i), 0)
		g.LineTo(float64(100+i), 700)
		g.ClosePath()
	}
	fonts["big"] = big
	tiny := corpus.SampleFont()
	tiny.Glyphs = map[string]*type1.Glyph{".notdef": {WidthX: 500}}
	tiny.Encoding = nil
	tiny.CreationDate = time.Time{}
	tiny.Private.BlueValues = nil
	tiny.Private.OtherBlues = nil
	tiny.Private.StdHW, tiny.Private.StdVW = 0, 0
	tiny.Private.BlueValues = []funit.Int16{}
	fonts["tiny"] = tiny
	// a font with one glyph whose charstring is far longer than any buffer a
	// writer might use (600 segments, about 2.5 KiB), so that one Write call of
	// the encoder spans several flushes
	long := corpus.SampleFont()
	lg := long.NewGlyph("longglyph", 700)
	lg.MoveTo(10, 10)
	for i := 0; i < 600; i++ {
		lg.LineTo(float64(10+(i*37)%900), float64(10+(i*91)%800))
	}
	lg.ClosePath()
	fonts["long-charstring"] = long
	for _, fname := range []string{"sample", "big", "tiny", "long-charstring"} {
		f := fonts[fname]
		for _, format := range corpus.Formats {
			format := format
			out = append(out, writeCase{fname + "/" + corpus.FormatName(format), func(w io.Writer) error {
				return f.Write(w, &type1.WriterOptions{Format: format})
			}})
		}
		out = append(out, writeCase{fname + "/pdf", func(w io.Writer) error {
			_, _, err := f.WritePDF(w)
			return err
		}})
		out = append(out, writeCase{fname + "/default-options", func(w io.Writer) error { return f.Write(w, nil) }})
	}
	metrics := map[string]*afm.Metrics{"sample": corpus.SampleMetrics()}
	nokern := corpus.SampleMetrics()
	nokern.Kern = nil
	metrics["nokern"] = nokern
	empty := &afm.Metrics{Glyphs: map[string]*afm.GlyphInfo{}, FontName: "E", FullName: "E"}
	metrics["empty"] = empty
	for _, mname := range []string{"sample", "nokern", "empty"} {
		m := metrics[mname]
		out = append(out, writeCase{"afm/" + mname, func(w io.Writer) error { return m.Write(w) }})
	}
	return out
}

type writeProbe struct{ calls, bytes int }

func writeFaultFamily(cases []writeCase, budget time.Duration) mc.Family {
	probes := make([]writeProbe, len(cases))
	for i, wc := range cases {
		w := env.NewFaultWriter()
		if err := wc.write(w); err != nil {
			panic("fault-free write failed: " + err.Error())
		}
		probes[i] = writeProbe{w.Calls, len(w.Buf)}
	}
	// items: (case, call-fault block) and (case, byte-limit block)
	type it struct {
		c, first int
		byCall   bool
	}
	var items []it
	nCalls, nBytes := 0, 0
	for i, p := range probes {
		for j := 0; j < p.calls; j += block {
			items = append(items, it{i, j, true})
		}
		for b := 0; b < p.bytes; b += block {
			items = append(items, it{i, b, false})
		}
		nCalls += p.calls
		nBytes += p.bytes
	}
	return mc.Family{
		Name: "write-fault-at-every-call-and-offset", Items: len(items), Budget: budget,
		Rule: fmt.Sprintf("%d writer invocations (4 fonts, one of them with a 600-segment glyph, x {PFA, PFB, binary, no-eexec, WritePDF, default options} and 3 metrics values) x a transient fault at EVERY Write call index (%d calls in total; reported with 0 bytes written, or with all bytes of the call written) and a short write + error at EVERY byte offset (%d offsets; persistent, or reported once with later writes succeeding); each must return a non-nil error; non-trivial = every case", len(cases), nCalls, nBytes),
		Body: func(c *mc.Ctx, item int) mc.Verdict {
			x := items[item]
			wc := cases[x.c]
			p := probes[x.c]
			w := env.NewFaultWriter()
			var desc string
			if x.byCall {
				j := x.first + c.Choose(min(block, p.calls-x.first))
				w.FailCall = j
				desc = fmt.Sprintf("%s: Write call #%d of %d fails (later calls succeed)", wc.name, j, p.calls)
				if c.Choose(2) == 1 {
					w.FullCount = true
					desc = fmt.Sprintf("%s: Write call #%d of %d takes all its bytes and reports an error with them (later calls succeed)", wc.name, j, p.calls)
				}
			} else {
				b := x.first + c.Choose(min(block, p.bytes-x.first))
				w.Limit = b
				desc = fmt.Sprintf("%s: writer accepts only the first %d of %d bytes", wc.name, b, p.bytes)
				if c.Choose(2) == 1 {
					w.LimitOnce = true
					desc = fmt.Sprintf("%s: the write that crosses byte %d of %d is short and fails, later writes succeed", wc.name, b, p.bytes)
				}
			}
			err := wc.write(w)
			c.Steps(w.Calls)
			if err == nil {
				kind := "byte-limit"
				if x.byCall {
					kind = "call"
				}
				v := mc.Fail("C13:write-fault-swallowed:"+kind+":"+wc.name, desc+": the writing call returned nil")
				v.Render = desc
				return v
			}
			out := "byte-limit-surfaced"
			if x.byCall {
				out = "call-fault-surfaced"
			}
			v := mc.Pass(out, true)
			if c.Render() {
				v.Render = desc + " → " + err.Error()
			}
			return v
		},
		Describe: func(item int) string { return cases[items[item].c].name },
		CrashKey: func(item int) string { return "C13:crash:write:" + cases[items[item].c].name },
	}
}

// pfbTextFaultFamily: a fault reported together with data.  Inside the text
// segments of a PFB stream the decoder reads with plain Read calls, so a
// source that hands over the bytes up to offset k of such a segment together
// with an error - once; a timeout, say - has reported a fault the decoder
// sees: the decoding call must return an error, not complete as if nothing
// had happened.  (Headers and binary segments are read with io.ReadFull, which
// is documented to drop an error that arrives with the last byte it asked for;
// those offsets are not part of this family.)
type faultWithData struct {
	data []byte
	pos  int
	at   int // the call whose data ends at this offset also reports the fault
	done bool
}

var errTransient = errors.New("injected transient fault (reported together with data)")

func (r *faultWithData) Read(p []byte) (int, error) {
	if r.pos >= len(r.data) {
		return 0, io.EOF
	}
	n := min(len(p), len(r.data)-r.pos)
	if !r.done && r.pos < r.at && r.pos+n >= r.at {
		n = r.at - r.pos
		copy(p, r.data[r.pos:r.pos+n])
		r.pos += n
		r.done = true
		return n, errTransient
	}
	copy(p, r.data[r.pos:r.pos+n])
	r.pos += n
	return n, nil
}

func pfbTextFaultFamily(budget time.Duration) mc.Family {
	type target struct {
		name string
		data []byte
		at   int
	}
	var ts []target
	add := func(name string, data []byte) {
		// walk the segment headers; every offset inside the payload of a text segment is a target
		for pos := 0; pos+6 <= len(data) && data[pos] == 0x80 && (data[pos+1] == 1 || data[pos+1] == 2); {
			n := int(data[pos+2]) | int(data[pos+3])<<8 | int(data[pos+4])<<16 | int(data[pos+5])<<24
			if pos+6+n > len(data) {
				break
			}
			if data[pos+1] == 1 {
				for k := 1; k <= n; k++ {
					if n > 40 && k > 3 && k < n-3 && k%17 != 0 {
						continue // long segments: both ends and every 17th offset
					}
					ts = append(ts, target{name, data, pos + 6 + k})
				}
			}
			pos += 6 + n
		}
	}
	for _, in := range corpus.PFBs() {
		add("pfb/"+in.Name, in.Data)
	}
	for _, in := range corpus.Fonts() {
		if len(in.Data) > 0 && in.Data[0] == 0x80 {
			add("font/"+in.Name, in.Data)
		}
	}
	return mc.Family{
		Name: "pfb-text-segment-fault-reported-with-data", Items: len(ts), Budget: budget,
		Rule: fmt.Sprintf("%d targets: every offset inside the text segments of the PFB inputs (both ends and every 17th offset of long segments); the source delivers the bytes up to that offset together with a transient error (reported once, later calls succeed); through pfb.Decode + io.ReadAll and, for fonts, type1.Read: the call must return an error; non-trivial = all", len(ts)),
		Body: func(c *mc.Ctx, item int) mc.Verdict {
			t := ts[item]
			_, err := io.ReadAll(pfb.Decode(&faultWithData{data: t.data, at: t.at}))
			c.Step()
			what := fmt.Sprintf("%s: transient fault reported together with the data ending at offset %d of %d (inside a text segment)", t.name, t.at, len(t.data))
			if err == nil {
				v := mc.Fail("C13:read-fault-swallowed:pfb-text-segment:with-data", what+": io.ReadAll(pfb.Decode(r)) returned no error")
				v.Render = what
				return v
			}
			if strings.HasPrefix(t.name, "font/") {
				_, ferr := type1.Read(&faultWithData{data: t.data, at: t.at})
				c.Step()
				if ferr == nil {
					v := mc.Fail("C13:read-fault-swallowed:pfb-text-segment:with-data:type1.Read", what+": type1.Read returned a font and no error")
					v.Render = what
					return v
				}
			}
			return mc.Pass("reported", true)
		},
		Describe: func(i int) string { return fmt.Sprintf("%s offset %d", ts[i].name, ts[i].at) },
	}
}

func main() {
	mc.Main(mc.Program{
		Property: "C13",
		Level:    "fault_enumeration",
		Assumptions: []string{
			"a read fault counts only if the library actually read up to the faulting offset (a reader that legitimately stops earlier, e.g. at a PFB end marker, must then return the complete result)",
			"single faults (one per execution); write faults are transient so that a dropped error check cannot be masked by a later failing call",
		},
		TrustedBase: []string{"observe.Dump / pscmp.Canon as complete renderings of results"},
		Families: func(tier string) []mc.Family {
			budget := 50 * time.Second
			if tier == "thorough" {
				budget = 12 * time.Minute
			}
			es := entries()
			return []mc.Family{readFaultFamily(es, budget), truncationFamily(es, budget), writeFaultFamily(writeCases(), budget), pfbTextFaultFamily(budget)}
		},
	})
}
