// C08 — the Type 1 writer emits conforming files that say what the font says,
// judged by an independent decoder.
//
// Decided by bounded-exhaustive enumeration: every font of the families in
// verif/model/t1fonts (DomainC08) x 5 output forms (Font.Write with FormatPFA,
// FormatPFB, FormatBinary, FormatNoEExec, and Font.WritePDF).  The written
// bytes are decoded by verif/model/t1dec, an independent Type 1 consumer
// written from the Adobe Type 1 book (own PFB de-framer, eexec key 55665,
// charstring key 4330 with 4 lead bytes, own tokenizer, own charstring
// interpreter in exact rational arithmetic); none of the library's reader,
// scanner, interpreter or charstring decoder is involved.
//
// Oracle = the statement of C08:
//
//   - the file decodes (container, encryption, syntax, charstrings) and the
//     decoded FontName, FontInfo, FontMatrix, Private values, encoding, glyph
//     set, advance widths, stem hints and outlines are those of the source
//     font.  Outlines: exact while the coordinates are integers, within 1/214
//     otherwise (exact rational arithmetic).  Advance widths are rounded to
//     integers by the writer (documented: encodeCharstrings uses math.Round);
//     either neighbour is accepted on a tie;
//   - PFB: 0x80, type 1/2, 32-bit little-endian length, complete payload, end
//     marker 80 03, nothing after it; segments are text, binary, text, the
//     binary one being exactly the encrypted portion;
//   - binary form (FormatBinary, PFB, PDF): the byte right after the white
//     space ending `eexec` is not white space and one of the first four
//     ciphertext bytes is not a hexadecimal digit;
//   - hex form (PFA): the decoder's detection rule finds hex;
//   - PFA/PFB/binary: after the encrypted portion at least 512 zeros and
//     cleartomark, nothing else;
//   - WritePDF: length1 = offset of the first ciphertext byte = size of the
//     clear text, length2 = number of bytes from there to the end of what was
//     written, and the encrypted portion ends exactly there.
//
// Tolerances the property leaves open: an encoding entry naming a glyph the
// font does not have selects .notdef on both sides; absent optional entries
// stand for their defaults (Notice/Copyright "", BlueScale 0.039625 - the
// writer omits values within 1e-6 of it, BlueShift 7, BlueFuzz 1, empty
// BlueValues/OtherBlues, zero StdHW/StdVW); FontBBox may be [0 0 0 0].
// The creation date is not part of what C08 states and is not compared.
//
// Preconditions on generated fonts: names of one or more regular characters,
// finite numbers, encodings nil or 256 entries, even-length stem arrays,
// coordinate deltas and rounded widths inside the 32-bit range.
package main

import (
	"bytes"
	"fmt"
	"io"
	"strings"
	"time"

	"seehuhn.de/go/postscript/type1"

	"verif/mc"
	"verif/model/t1dec"
	"verif/model/t1fonts"
)

var formNames = []string{"PFA", "PFB", "binary", "no-eexec", "PDF"}
var formFormats = []type1.FileFormat{type1.FormatPFA, type1.FormatPFB, type1.FormatBinary, type1.FormatNoEExec, 0}

func hasLineBreak(s string) bool { return strings.ContainsAny(s, "\n\r\f") }

func shadowingGlyph(f *type1.Font) string {
	for _, n := range t1fonts.VocabularyNames {
		if _, ok := f.Glyphs[n]; ok {
			return n
		}
	}
	return ""
}

// subsetOfStandard: see cmd/c09; the input class of the known encoding defect.
func subsetOfStandard(f *type1.Font) bool {
	if len(f.Encoding) != 256 {
		return false
	}
	omitted := false
	for c, n := range f.Encoding {
		std := t1dec.StandardEncoding[c]
		if n != std && n != ".notdef" {
			return false
		}
		if n == ".notdef" && std != ".notdef" {
			if _, has := f.Glyphs[std]; has {
				omitted = true
			}
		}
	}
	return omitted
}

func isHexDigit(b byte) bool {
	return b >= '0' && b <= '9' || b >= 'a' && b <= 'f' || b >= 'A' && b <= 'F'
}

// checkLayout verifies the container-level clauses.  It returns a key suffix
// and a detail, or "".
func checkLayout(form int, data []byte, lay *t1dec.Layout, length1, length2 int) (string, string) {
	wantEexec := []string{"hex", "binary", "binary", "none", "binary"}[form]
	if lay.PFB != (form == 1) {
		return "container", fmt.Sprintf("PFB framing present: %v", lay.PFB)
	}
	if lay.EExec != wantEexec {
		return "eexec-form", fmt.Sprintf("decoder detects the encrypted portion as %q, the format calls for %q (first four bytes % x)", lay.EExec, wantEexec, lay.CipherHead)
	}
	if wantEexec == "binary" {
		if lay.CipherStart != lay.EexecTokenEnd {
			return "binary-first-byte-white-space", fmt.Sprintf("the ciphertext starts with white space byte %#02x at offset %d", lay.Stream[lay.EexecTokenEnd], lay.EexecTokenEnd)
		}
		nonHex := false
		for _, b := range lay.CipherHead {
			if !isHexDigit(b) {
				nonHex = true
			}
		}
		if !nonHex {
			return "binary-looks-like-hex", fmt.Sprintf("first four ciphertext bytes % x are all hexadecimal digits", lay.CipherHead)
		}
	}
	if form == 1 {
		segs := lay.Segments
		if len(segs) != 3 || segs[0].Type != 1 || segs[1].Type != 2 || segs[2].Type != 1 {
			return "pfb-segments", fmt.Sprintf("segments %+v, expected text, binary, text", segs)
		}
		if segs[1].Start != lay.CipherStart {
			return "pfb-segments", fmt.Sprintf("binary segment starts at stream offset %d, first ciphertext byte is at %d", segs[1].Start, lay.CipherStart)
		}
		if segs[1].Start+segs[1].Len != lay.CipherEnd {
			return "pfb-segments", fmt.Sprintf("binary segment ends at stream offset %d, the encrypted portion (through closefile) ends at %d", segs[1].Start+segs[1].Len, lay.CipherEnd)
		}
	}
	if form <= 2 {
		if lay.TrailerZeros < 512 || !lay.TrailerCleartomark || lay.TrailerOther != "" {
			return "trailer", fmt.Sprintf("trailer has %d zeros, cleartomark %v, other bytes %q; expected 512 zeros and cleartomark", lay.TrailerZeros, lay.TrailerCleartomark, lay.TrailerOther)
		}
	}
	if form == 4 {
		if length1 != lay.CipherStart {
			return "pdf-length1", fmt.Sprintf("WritePDF returned length1 = %d, the first ciphertext byte is at offset %d", length1, lay.CipherStart)
		}
		if length2 != len(data)-lay.CipherStart {
			return "pdf-length2", fmt.Sprintf("WritePDF returned length2 = %d, %d bytes were written after the clear text (total %d)", length2, len(data)-lay.CipherStart, len(data))
		}
		if lay.CipherEnd != len(data) {
			return "pdf-encrypted-end", fmt.Sprintf("the encrypted portion (through closefile) ends at offset %d, %d bytes were written", lay.CipherEnd, len(data))
		}
	}
	return "", ""
}

func body(fam t1fonts.Family) func(c *mc.Ctx, item int) mc.Verdict {
	return func(c *mc.Ctx, item int) mc.Verdict {
		src := fam.Build(item)
		pristine := fam.Build(item)
		form := c.Choose(len(formNames))
		render := func() string {
			return fmt.Sprintf("family %s item %d form %s: %s", fam.Name, item, formNames[form], t1fonts.Dump(pristine))
		}
		fail := func(key, detail string) mc.Verdict {
			v := mc.Fail(key, detail+" | "+render())
			v.Render = render()
			return v
		}
		var buf bytes.Buffer
		var err error
		length1, length2 := 0, 0
		if form == 4 {
			length1, length2, err = src.WritePDF(&buf)
		} else {
			err = src.Write(&buf, &type1.WriterOptions{Format: formFormats[form]})
		}
		c.Step()
		if err != nil {
			return fail("C08:write-error", "write: "+err.Error())
		}
		// writing is an observation: the font handed to the writer is what it was before
		if after, before := t1fonts.Dump(src), t1fonts.Dump(pristine); after != before {
			return fail("C08:write-changed-the-font", "the font value differs after writing: "+after)
		}
		data := buf.Bytes()
		dec, derr := t1dec.Decode(data, form == 4)
		c.Step()
		if derr != nil {
			if dec != nil && form != 0 && form != 3 {
				// the decoder got as far as the encrypted portion: a binary
				// ciphertext that starts with white space or looks like hex
				// is misread by every conforming eexec
				lay := &dec.Layout
				if lay.CipherStart != lay.EexecTokenEnd {
					return fail("C08:binary-first-byte-white-space", fmt.Sprintf("the ciphertext starts with white space byte %#02x at offset %d; eexec skips it and decrypts garbage (%v)", lay.Stream[lay.EexecTokenEnd], lay.EexecTokenEnd, derr))
				}
				if lay.EExec == "hex" {
					return fail("C08:binary-looks-like-hex", fmt.Sprintf("first four ciphertext bytes % x are all hexadecimal digits; eexec takes the binary data for hex (%v)", lay.CipherHead, derr))
				}
			}
			switch {
			case strings.HasPrefix(derr.Class, "pfb:"):
				return fail("C08:"+derr.Class, derr.Msg)
			case hasLineBreak(pristine.Version):
				return fail("C08:version-line-break-in-header-comment", fmt.Sprintf("Version %q is copied into the %%! header comment; independent decoder: %v", pristine.Version, derr))
			case shadowingGlyph(pristine) != "":
				return fail("C08:glyph-name-shadows-font-program-operator", fmt.Sprintf("glyph named %q; independent decoder: %v", shadowingGlyph(pristine), derr))
			}
			return fail("C08:decode:"+derr.Class, "independent decoder: "+derr.Msg)
		}
		if k, d := checkLayout(form, data, &dec.Layout, length1, length2); k != "" {
			return fail("C08:"+k, d)
		}
		diffs := t1fonts.CompareDecoded(pristine, dec)
		for _, d := range diffs {
			if d.Class == "encoding" && dec.IsStdEnc && subsetOfStandard(pristine) {
				continue // narrow known class, reported below if nothing else differs
			}
			if hasLineBreak(pristine.Version) {
				return fail("C08:version-line-break-in-header-comment", d.Detail)
			}
			return fail("C08:"+d.Class, d.Detail)
		}
		if len(diffs) > 0 {
			return fail("C08:encoding:subset-of-StandardEncoding-written-as-StandardEncoding", diffs[0].Detail)
		}
		// The same font value, edited in place and written again (one item in four,
		// chosen by a pure function of the item): the second file says what the
		// edited font says, whatever the first write may have remembered.
		if item%4 == 1 && len(diffs) == 0 {
			t1fonts.EditInPlace(src)
			t1fonts.EditInPlace(pristine)
			buf.Reset()
			if form == 4 {
				_, _, err = src.WritePDF(&buf)
			} else {
				err = src.Write(&buf, &type1.WriterOptions{Format: formFormats[form]})
			}
			if err != nil {
				return fail("C08:write-error", "second write after an in-place edit: "+err.Error())
			}
			dec2, derr2 := t1dec.Decode(buf.Bytes(), form == 4)
			c.Steps(2)
			if derr2 != nil {
				return fail("C08:rewrite-after-edit:decode:"+derr2.Class, "file written after an in-place edit: independent decoder: "+derr2.Msg)
			}
			for _, d := range t1fonts.CompareDecoded(pristine, dec2) {
				if d.Class == "encoding" && dec2.IsStdEnc && subsetOfStandard(pristine) {
					continue
				}
				return fail("C08:rewrite-after-edit:"+d.Class, "after editing the font in place (every coordinate +3, every stem edge +1) and writing it again: "+d.Detail)
			}
		}
		compared := 0
		for n := range pristine.Glyphs {
			if _, ok := dec.Glyphs[n]; ok {
				compared++
			}
		}
		v := mc.Pass(fam.Name+"/"+formNames[form], len(data) > 0 && (compared > 0 || len(pristine.Glyphs) == 0))
		if c.Render() {
			v.Render = render()
		}
		return v
	}
}

// afterFailureBody: what a write produces does not depend on an earlier write
// having failed: for every output form and every Write call index j of that
// form, a write of another font to a writer that fails from call j on is
// followed by a write of the font under test, which must give exactly the bytes
// it gives in a fresh process state (taken before any failure).
type failFrom struct{ calls, from int }

func (w *failFrom) Write(p []byte) (int, error) {
	w.calls++
	if w.calls > w.from {
		return 0, fmt.Errorf("injected write fault")
	}
	return len(p), nil
}

func writeForm(f *type1.Font, form int, w io.Writer) error {
	if form == 4 {
		_, _, err := f.WritePDF(w)
		return err
	}
	return f.Write(w, &type1.WriterOptions{Format: formFormats[form]})
}

func afterFailureFonts() []*type1.Font {
	long := t1fonts.Base()
	long.Glyphs["A"].Cmds = t1fonts.PathOfLength(300, 2)
	return []*type1.Font{t1fonts.Base(), long}
}

var afterFailureRefs = map[[2]int][]byte{}

func afterFailureBody(c *mc.Ctx, item int) mc.Verdict {
	form, fi := item%len(formNames), item/len(formNames)
	font := afterFailureFonts()[fi]
	ref, ok := afterFailureRefs[[2]int{form, fi}]
	if !ok {
		var b bytes.Buffer
		if err := writeForm(font, form, &b); err != nil {
			return mc.Fail("C08:write-error", err.Error())
		}
		ref = b.Bytes()
		afterFailureRefs[[2]int{form, fi}] = ref
	}
	// number of Write calls of the failing write
	probe := &failFrom{from: 1 << 30}
	other := afterFailureFonts()[1-fi]
	writeForm(other, form, probe)
	for j := 0; j <= probe.calls; j++ {
		writeForm(other, form, &failFrom{from: j})
		var b bytes.Buffer
		err := writeForm(font, form, &b)
		c.Step()
		if err != nil || !bytes.Equal(b.Bytes(), ref) {
			what := fmt.Sprintf("form %s, font %d written after a write of another font that failed from Write call %d (of %d) on", formNames[form], fi, j+1, probe.calls)
			v := mc.Fail("C08:write-after-failed-write", fmt.Sprintf("%s: error %v, %d bytes instead of %d", what, err, b.Len(), len(ref)))
			v.Render = what
			return v
		}
	}
	return mc.Pass("same-bytes-after-every-failure", true)
}

func main() {
	mc.Main(mc.Program{
		Property: "C08",
		Assumptions: []string{
			"domain: regular-character names of length >= 1, finite numbers, encodings nil or 256 entries, even-length stem arrays, 32-bit coordinate deltas and widths",
			"the independent decoder reads the shape of font program the Type 1 book describes (dictionary-building vocabulary, RD/ND/NP recognised by their bodies, the .notdef fill loop as an idiom); it is not a PostScript interpreter",
			"advance widths are rounded to integers by the writer (documented)",
			"a Level 1 interpreter's fixed dictionary capacities are enforced (dictfull), including the FID entry added by definefont",
		},
		TrustedBase: []string{"verif/model/t1dec (second reading of the Type 1 book, PLRM 3.2 and technical note 5040)", "strconv.ParseFloat for numbers in the font program", "math/big"},
		Explanation: "Each execution writes one generated font in one output form and decodes the bytes with the independent decoder; every execution is compared field by field with the source font.",
		Families: func(tier string) []mc.Family {
			fams := t1fonts.Families(tier, t1fonts.DomainC08)
			budget := 55 * time.Second
			if tier == "thorough" {
				budget = 11 * time.Minute
			}
			var out []mc.Family
			for _, f := range fams {
				f := f
				out = append(out, mc.Family{
					Name:   f.Name,
					Items:  f.N,
					Body:   body(f),
					Budget: budget,
					Rule:   "item = one font: " + f.Rule + "; free choice = output form {PFA, PFB, binary, no-eexec, WritePDF}; non-trivial = bytes were written, the independent decoder accepted them and every source glyph was found and compared",
					Describe: func(item int) string {
						return fmt.Sprintf("family %s item %d: %s", f.Name, item, t1fonts.Dump(f.Build(item)))
					},
					CrashKey: func(item int) string { return "C08:crash:" + f.Name },
				})
			}
			out = append(out, mc.Family{
				Name:     "write-after-failed-write",
				Items:    len(formNames) * 2,
				Body:     afterFailureBody,
				Budget:   budget,
				Rule:     "item = (output form of 5) x (font: small, one 300-segment glyph): for EVERY Write call index j of that form, another font is written to a writer that fails from call j on, then the font under test is written to a healthy writer: the bytes must equal those written before any failure; non-trivial = all",
				CrashKey: func(int) string { return "C08:crash:write-after-failed-write" },
			})
			return out
		},
	})
}
