// C15 — AFM metrics survive writing and reading.
//
// Three obligations, all decided by bounded-exhaustive enumeration on the real
// afm.Write / afm.Read:
//
//	(1) write-read: metrics value -> library Write -> library Read; everything
//	    must come back (each glyph's width, bounding box, ligatures, the code of
//	    each glyph, kerning pairs in order, all global fields incl. Version and
//	    Notice).
//	(2) indep-read: the same values laid out by the independent writer
//	    verif/model/afmcodec under layout choices (field order inside a C line,
//	    tabs / several spaces, CRLF, trailing blanks, comment lines, unknown
//	    keys and fields, optional sections, order of the global keys, omitted
//	    zero-valued keys, order of the glyph lines, missing final newline)
//	    -> library Read; the same comparison.
//	(3) closure: every text of (1) and (2) that the reader accepts, including
//	    texts with fractional / oddly spelled numbers and irregular lines from
//	    (2): m1 = Read(text); m2 = Read(Write(m1)); m3 = Read(Write(m2)).
//	    m1 -> m2: names and text fields equal, every number either unchanged or
//	    (if it was not integral) replaced by an integral value less than 1
//	    away; m3 must equal m2 exactly.
//
// Enumeration: an item is a *shape* (glyph set, injective partial encoding,
// ligature pattern, kerning pattern); inside an item every value field (text
// and number) and every layout dimension is an mc.Deviate point whose
// alternative 0 is a typical value and whose other alternatives run through
// the field's whole pool; a family explores all executions with at most
// MaxDev fields/dimensions away from the base (1 = every pool value of every
// field once, 2 = all pairs of fields, 3 = all triples).  In the families with
// 2 or 3 deviations every shape is cut into one item per position of the first
// deviating point (type dev below) so that the work spreads over the worker
// processes; the union of these items is exactly the space just described.
// In the independent-writer families the code of the first encoded glyph is a
// further point (as given, 0, 255).
//
// Preconditions on generated values ("integral and in range", "single
// tokens") and tolerances — all the oracle is looser than plain equality:
//   - widths and kerning adjustments are integers in [-32768, 32767]: the
//     reader stores WX through funit.Int16 and KernPair.Adjust is an Int16, so
//     nothing else is representable;
//   - bounding-box coordinates and the numeric global fields are integers
//     with |x| <= 2^32 (the writer converts box coordinates with int(), so
//     "in range" is taken as "well inside a 64-bit integer"); in (1) and in
//     the identity comparison of (2) no fractional value is used;
//   - FontName, glyph names, ligature names and kerning names are single
//     tokens without ';'; FullName, Version and Notice are words separated by
//     single blanks without leading or trailing blanks (a line-oriented
//     key/value format cannot keep other spacing); FontName is never empty;
//   - .notdef is never given a code: in an encoding vector ".notdef" means
//     "no glyph", so such an assignment is not observable; an encoding never
//     names a glyph that is not in the glyph map (an AFM file has no place to
//     store such a name); encodings are compared in the canonical 256-entry
//     form in which unassigned codes hold ".notdef" (a nil or short vector
//     equals the same vector padded with ".notdef");
//   - ligatures are compared as maps (order-insensitive: the writer's order of
//     L fields is Go map order, which is C17's subject); a nil and an empty
//     ligature map are the same;
//   - closure: "rounding" accepts either integral neighbour (floor, ceil or
//     nearest), and an unchanged value is always accepted; NaN and infinities
//     are never generated;
//   - layout choices are restricted to what the AFM specification allows: the
//     keyword starts the line (no indentation), no blank lines, keys and
//     counts present where the specification requires them, comment lines
//     contain no semicolon.  Irregular lines (duplicate glyph line, two glyphs
//     with one code, codes outside 0..255, missing WX/B/N, duplicate global
//     key, doubled blanks inside Notice, "True", duplicate L successor, short
//     B) are only used for the closure part.
//
// The verdict never depends on the text the library writes (its L fields come
// in map order); only on the values read back, compared in sorted order.
package main

import (
	"bytes"
	"fmt"
	"sort"
	"strings"
	"time"

	"seehuhn.de/go/geom/rect"
	"seehuhn.de/go/postscript/afm"
	"seehuhn.de/go/postscript/funit"

	"verif/mc"
	"verif/model/afmcodec"
	"verif/model/observe"
)

// ---------------------------------------------------------------- shapes

var namePool = []string{".notdef", "A", "B", "f_i.alt", "space"}

type shape struct {
	names    []string
	codes    []int // per glyph; -1 = not encoded
	encForm  int   // 0 = 256 entries, 1 = nil (only when nothing is encoded), 2 = cut after the highest code
	ligPat   int
	kernPat  int
	ligCount []int
}

var encFormNames = []string{"256", "nil", "short"}

const (
	numLigPats  = 7
	numKernPats = 7
)

var ligPool = []afmcodec.Lig{{Succ: "i", Lig: "fi"}, {Succ: "l", Lig: "fl"}, {Succ: "A", Lig: "f_i.alt"}}

func ligCounts(pat, n int) []int {
	out := make([]int, n)
	switch pat {
	case 1:
		out[0] = 1
	case 2:
		out[0] = 2
	case 3:
		out[0] = 3
	case 4:
		for i := range out {
			out[i] = 1
		}
	case 5:
		for i := range out {
			out[i] = i % 4
		}
		if n == 1 {
			out[0] = 2
		}
	case 6:
		out[0] = 1
		out[n-1] = 3
	}
	return out
}

func kernPairs(pat int, names []string) [][2]string {
	first, last := names[0], names[len(names)-1]
	switch pat {
	case 1:
		return [][2]string{{first, first}}
	case 2:
		return [][2]string{{first, last}, {last, first}}
	case 3:
		return [][2]string{{last, first}, {first, last}, {first, first}}
	case 4:
		return [][2]string{{first, first}, {first, first}}
	case 5:
		return [][2]string{{"X", "Y.alt"}, {first, "X"}, {"Y.alt", first}}
	case 6:
		// single-token names with characters that matter to formatted output
		return [][2]string{{"%", first}, {first, "per%cent"}, {"a%sb", "100%"}, {"%d", "%%"}}
	}
	return nil
}

func (s shape) String() string {
	var parts []string
	for i, n := range s.names {
		c := "-"
		if s.codes[i] >= 0 {
			c = fmt.Sprint(s.codes[i])
		}
		parts = append(parts, fmt.Sprintf("%s@%s/L%d", n, c, s.ligCount[i]))
	}
	return fmt.Sprintf("glyphs[%s] enc=%s kern-pattern=%d(%d pairs)", strings.Join(parts, " "), encFormNames[s.encForm], s.kernPat, len(kernPairs(s.kernPat, s.names)))
}

// glyphSets returns all subsets of the name pool with minN..maxN members.
func glyphSets(minN, maxN int) [][]string {
	var out [][]string
	for mask := 1; mask < 1<<len(namePool); mask++ {
		var set []string
		for i, n := range namePool {
			if mask&(1<<i) != 0 {
				set = append(set, n)
			}
		}
		if len(set) >= minN && len(set) <= maxN {
			out = append(out, set)
		}
	}
	return out
}

// encodings enumerates every injective partial assignment of codes from
// codePool to the glyphs other than .notdef.
func encodings(names []string, codePool []int) [][]int {
	var out [][]int
	cur := make([]int, len(names))
	used := map[int]bool{}
	var rec func(i int)
	rec = func(i int) {
		if i == len(names) {
			out = append(out, append([]int(nil), cur...))
			return
		}
		cur[i] = -1
		rec(i + 1)
		if names[i] == ".notdef" {
			return
		}
		for _, c := range codePool {
			if used[c] {
				continue
			}
			used[c] = true
			cur[i] = c
			rec(i + 1)
			used[c] = false
		}
		cur[i] = -1
	}
	rec(0)
	return out
}

type shapeSpec struct {
	sets      [][]string
	codePool  []int
	encFilter func(names []string, codes []int) bool
	ligPats   []int
	kernPats  []int
	short     bool
}

func shapes(sp shapeSpec) []shape {
	var out []shape
	for _, set := range sp.sets {
		for _, codes := range encodings(set, sp.codePool) {
			if sp.encFilter != nil && !sp.encFilter(set, codes) {
				continue
			}
			maxCode := -1
			for _, c := range codes {
				maxCode = max(maxCode, c)
			}
			forms := []int{0}
			if maxCode < 0 {
				forms = append(forms, 1)
			} else if sp.short && maxCode < 255 {
				forms = append(forms, 2)
			}
			for _, form := range forms {
				for _, lp := range sp.ligPats {
					for _, kp := range sp.kernPats {
						out = append(out, shape{names: set, codes: codes, encForm: form, ligPat: lp, kernPat: kp, ligCount: ligCounts(lp, len(set))})
					}
				}
			}
		}
	}
	return out
}

func seq(n int) []int {
	out := make([]int, n)
	for i := range out {
		out[i] = i
	}
	return out
}

// ---------------------------------------------------------------- values

var (
	fontNames = []string{"TestFont-Regular", "X", "Helvetica-BoldOblique"}
	// (text fields are byte strings: a Latin-1 copyright sign or e-acute is not valid UTF-8 and stays what it is; so does UTF-8)
	fullNames = []string{"Test Font Regular", "", "Solo", "A B C D", "Caf\xe9 Sans"}
	versions  = []string{"", "1", "001.007", "Version 1.0 beta"}
	notices   = []string{"", "Copyright", "Copyright (c) 1985 Example Systems Incorporated. All Rights Reserved.", "a b", "Copyright \xa9 1985 Example \xc2\xa9 \xe2\x82\xac \xff\xfe"}
)

func ints(vs ...int) []afmcodec.Num {
	out := make([]afmcodec.Num, len(vs))
	for i, v := range vs {
		out[i] = afmcodec.Int(v)
	}
	return out
}

func raws(kv ...any) []afmcodec.Num {
	var out []afmcodec.Num
	for i := 0; i < len(kv); i += 2 {
		out = append(out, afmcodec.Raw(kv[i].(string), kv[i+1].(float64)))
	}
	return out
}

func hdrPool(base int) []afmcodec.Num {
	return ints(base, 0, 1, -1, -1000, 718, 32767, -32768, 1000000, 4294967296)
}

var (
	hdrExotic      = raws("0.5", 0.5, "-217.5", -217.5, "1234.567", 1234.567)
	capExotic      = raws("1e3", 1e3, "+5", 5.0, ".5", 0.5, "1e30", 1e30, "2.5", 2.5, "1.5", 1.5, "-0.4", -0.4)
	italicPool     = ints(0, -12, 12, -90, 45, 1000000)
	italicExotic   = raws("-12.5", -12.5, "0.000001", 0.000001, "1e30", 1e30)
	wxExotic       = raws("+500", 500.0, "007", 7.0, "-0", 0.0, "40000", -25536.0, "-40000", 25536.0)
	bExotic        = raws("0.5", 0.5, "-0.5", -0.5, "12.75", 12.75, "-12.75", -12.75)
	bExoticFirst   = raws("1e30", 1e30, "-1e30", -1e30, "1e3", 1e3, "9007199254740993", 9007199254740992.0)
	adjExotic      = raws("+5", 5.0, "-0", 0.0, "40000", -25536.0)
	adjBase        = []int{-50, 30, -10}
	hdrBase        = map[string]int{"UnderlinePosition": -100, "UnderlineThickness": 50, "CapHeight": 662, "XHeight": 450, "Ascender": 683, "Descender": -217}
	hdrNumericKeys = []string{"UnderlinePosition", "UnderlineThickness", "CapHeight", "XHeight", "Ascender", "Descender"}
)

func wxPool(i int) []afmcodec.Num  { return ints(500+100*i, 0, 1, -1, 1000, 32767, -32768) }
func adjPool(i int) []afmcodec.Num { return ints(adjBase[i%3], 0, 1, -1, 32767, -32768) }
func bPool(i, k int) []afmcodec.Num {
	base := []int{10 + i, -20 - i, 400 + 10*i, 700 + 5*i}[k]
	// (the last value makes the box flat: URx = LLx, URy = LLy, and the other way round)
	flat := []int{400 + 10*i, 700 + 5*i, 10 + i, -20 - i}[k]
	return ints(base, 0, 1, -1, -250, 32767, -32768, 100000, -2147483649, flat)
}

// dev routes every deviation point of a body.  With first < 0 it is plain
// mc.Ctx.Deviate.  With first >= 0 the item is the slice of the space in
// which point number `first` is the FIRST one that deviates: earlier points
// take their base value, point `first` takes every non-base value (a free
// choice, not counted), later points are ordinary deviation points.  With
// first == number of points nothing deviates.  The slices first = 0..P
// partition the executions with <= MaxDev+1 deviations; this only serves to
// turn one big item into many small ones for the worker pool.
type dev struct {
	c     *mc.Ctx
	first int
	idx   int
	void  bool // the first deviating point has no alternative: empty slice
}

func (d *dev) Deviate(n int) int {
	p := d.idx
	d.idx++
	switch {
	case d.first < 0 || p > d.first:
		return d.c.Deviate(n)
	case p < d.first:
		return 0
	}
	if n <= 1 {
		d.void = true
		return 0
	}
	return 1 + d.c.Choose(n-1)
}

// pick is one deviation point over a pool; with exotic the closure-only
// spellings are appended to the pool.
func pick(c *dev, pool []afmcodec.Num, exotic bool, extra ...[]afmcodec.Num) afmcodec.Num {
	n := len(pool)
	if exotic {
		for _, e := range extra {
			n += len(e)
		}
	}
	k := c.Deviate(n)
	if k < len(pool) {
		return pool[k]
	}
	k -= len(pool)
	for _, e := range extra {
		if k < len(e) {
			return e[k]
		}
		k -= len(e)
	}
	panic("unreachable")
}

// buildModel decides every value field of the shape.
func buildModel(c *dev, sh shape, exotic bool) *afmcodec.Model {
	m := &afmcodec.Model{}
	m.FontName = fontNames[c.Deviate(len(fontNames))]
	m.FullName = fullNames[c.Deviate(len(fullNames))]
	m.Version = versions[c.Deviate(len(versions))]
	m.Notice = notices[c.Deviate(len(notices))]
	m.ItalicAngle = pick(c, italicPool, exotic, italicExotic)
	m.IsFixedPitch = c.Deviate(2) == 1
	for _, key := range hdrNumericKeys {
		var v afmcodec.Num
		if key == "CapHeight" {
			v = pick(c, hdrPool(hdrBase[key]), exotic, hdrExotic, capExotic)
		} else {
			v = pick(c, hdrPool(hdrBase[key]), exotic, hdrExotic)
		}
		switch key {
		case "UnderlinePosition":
			m.UnderlinePosition = v
		case "UnderlineThickness":
			m.UnderlineThickness = v
		case "CapHeight":
			m.CapHeight = v
		case "XHeight":
			m.XHeight = v
		case "Ascender":
			m.Ascender = v
		case "Descender":
			m.Descender = v
		}
	}
	for i, name := range sh.names {
		g := afmcodec.Glyph{Name: name, Code: sh.codes[i]}
		g.WX = pick(c, wxPool(i), exotic, wxExotic)
		for k := 0; k < 4; k++ {
			if i == 0 {
				g.B[k] = pick(c, bPool(i, k), exotic, bExotic, bExoticFirst)
			} else {
				g.B[k] = pick(c, bPool(i, k), exotic, bExotic)
			}
		}
		for l := 0; l < sh.ligCount[i]; l++ {
			g.Ligs = append(g.Ligs, ligPool[(l+i)%len(ligPool)])
		}
		m.Glyphs = append(m.Glyphs, g)
	}
	for i, p := range kernPairs(sh.kernPat, sh.names) {
		m.Kern = append(m.Kern, afmcodec.Kern{Left: p[0], Right: p[1], Adj: pick(c, adjPool(i), exotic, adjExotic)})
	}
	return m
}

// toMetrics converts the model into the library's type (values only; exotic
// spellings never reach this function).
func toMetrics(m *afmcodec.Model, sh shape) *afm.Metrics {
	out := &afm.Metrics{
		Glyphs:             map[string]*afm.GlyphInfo{},
		FontName:           m.FontName,
		FullName:           m.FullName,
		Version:            m.Version,
		Notice:             m.Notice,
		CapHeight:          m.CapHeight.V,
		XHeight:            m.XHeight.V,
		Ascent:             m.Ascender.V,
		Descent:            m.Descender.V,
		UnderlinePosition:  m.UnderlinePosition.V,
		UnderlineThickness: m.UnderlineThickness.V,
		ItalicAngle:        m.ItalicAngle.V,
		IsFixedPitch:       m.IsFixedPitch,
	}
	maxCode := -1
	for _, g := range m.Glyphs {
		maxCode = max(maxCode, g.Code)
	}
	switch sh.encForm {
	case 0:
		out.Encoding = make([]string, 256)
	case 2:
		out.Encoding = make([]string, maxCode+1)
	}
	for i := range out.Encoding {
		out.Encoding[i] = ".notdef"
	}
	for _, g := range m.Glyphs {
		gi := &afm.GlyphInfo{
			WidthX: g.WX.V,
			BBox:   rect.Rect{LLx: g.B[0].V, LLy: g.B[1].V, URx: g.B[2].V, URy: g.B[3].V},
		}
		if len(g.Ligs) > 0 {
			gi.Ligatures = map[string]string{}
			for _, l := range g.Ligs {
				gi.Ligatures[l.Succ] = l.Lig
			}
		}
		out.Glyphs[g.Name] = gi
		if g.Code >= 0 {
			out.Encoding[g.Code] = g.Name
		}
	}
	for _, k := range m.Kern {
		out.Kern = append(out.Kern, &afm.KernPair{Left: k.Left, Right: k.Right, Adjust: funit.Int16(k.Adj.V)})
	}
	return out
}

func describeModel(m *afmcodec.Model) string {
	var sb strings.Builder
	fmt.Fprintf(&sb, "FontName=%q FullName=%q Version=%q Notice=%q ItalicAngle=%s IsFixedPitch=%v UPos=%s UThick=%s Cap=%s XH=%s Asc=%s Desc=%s glyphs:",
		m.FontName, m.FullName, m.Version, m.Notice, m.ItalicAngle.S, m.IsFixedPitch, m.UnderlinePosition.S, m.UnderlineThickness.S,
		m.CapHeight.S, m.XHeight.S, m.Ascender.S, m.Descender.S)
	for _, g := range m.Glyphs {
		fmt.Fprintf(&sb, " {%s C=%d WX=%s B=[%s %s %s %s] L=%v}", g.Name, g.Code, g.WX.S, g.B[0].S, g.B[1].S, g.B[2].S, g.B[3].S, g.Ligs)
	}
	sb.WriteString(" kern:")
	for _, k := range m.Kern {
		fmt.Fprintf(&sb, " (%s %s %s)", k.Left, k.Right, k.Adj.S)
	}
	return sb.String()
}

// ---------------------------------------------------------------- oracle glue

// Differences which have been classified as known defects of the current tree
// are reported only when an execution shows nothing else, so that they cannot
// hide a different failure of the same execution.
var lowPriority = map[string]bool{
	"C15:write-read:Version:lost":                    true,
	"C15:write-read:Notice:lost":                     true,
	"C15:write-read:glyph-bbox:huge-value-corrupted": true,
}

type finding struct{ key, detail string }

func choose(fs []finding) finding {
	for _, f := range fs {
		if !lowPriority[f.key] {
			return f
		}
	}
	return fs[0]
}

func libWrite(c *mc.Ctx, m *afm.Metrics) (string, error) {
	var buf bytes.Buffer
	// (deep comparison for one value in eight, chosen by a pure function of the value)
	deep := (len(m.Glyphs)+len(m.Kern)+len(m.Notice)+len(m.FullName)+len(m.Version)+int(m.CapHeight)+int(m.XHeight)+int(m.ItalicAngle))%8 == 0
	before := ""
	if deep {
		before = observe.Dump(m)
	}
	err := m.Write(&buf)
	c.Step()
	if err == nil && deep && observe.Dump(m) != before {
		// writing is an observation: the value handed to Write is what it was before
		return buf.String(), fmt.Errorf("C15 harness observation: Metrics.Write changed the metrics value it was given (before %s, after %s)", before, observe.Dump(m))
	}
	return buf.String(), err
}

func libRead(c *mc.Ctx, text string) (*afm.Metrics, error) {
	m, err := afm.Read(strings.NewReader(text))
	c.Step()
	return m, err
}

// closure runs m1 -> Write -> Read -> Write -> Read and returns the findings.
func closure(c *mc.Ctx, m1 *afm.Metrics) (fs []finding, trace string) {
	t2, err := libWrite(c, m1)
	if err != nil {
		return []finding{{"C15:write-read:write-error", fmt.Sprintf("Write of a value returned by Read failed: %v", err)}}, ""
	}
	m2, err := libRead(c, t2)
	if err != nil {
		return []finding{{"C15:write-read:own-output-rejected", fmt.Sprintf("Read rejects the writer's output: %v\n%s", err, t2)}}, t2
	}
	for _, d := range afmcodec.CompareCycle(m1, m2, false) {
		fs = append(fs, finding{"C15:write-read:" + d.Key(), "cycle 1 (value returned by Read -> Write -> Read): " + d.Detail + "\nwritten text:\n" + t2})
	}
	t3, err := libWrite(c, m2)
	if err != nil {
		return append(fs, finding{"C15:write-read:write-error", fmt.Sprintf("second Write failed: %v", err)}), t2
	}
	m3, err := libRead(c, t3)
	if err != nil {
		return append(fs, finding{"C15:write-read:own-output-rejected", fmt.Sprintf("Read rejects the writer's second output: %v\n%s", err, t3)}), t2
	}
	for _, d := range afmcodec.CompareCycle(m2, m3, true) {
		fs = append(fs, finding{"C15:second-cycle:" + d.Key(), "cycle 2 must change nothing: " + d.Detail + "\nsecond text:\n" + t2 + "third text:\n" + t3})
	}
	return fs, t2
}

// content measures what came back, for the outcome histogram and the
// non-triviality rule.
func content(m *afm.Metrics) (outcome string, nontrivial bool) {
	ligs, enc := 0, 0
	for _, name := range sortedNames(m.Glyphs) {
		ligs += len(m.Glyphs[name].Ligatures)
	}
	for _, n := range m.Encoding {
		if n != ".notdef" && n != "" {
			enc++
		}
	}
	return fmt.Sprintf("glyphs=%d encoded=%v ligs=%v kerns=%v", len(m.Glyphs), enc > 0, ligs > 0, len(m.Kern) > 0),
		len(m.Glyphs) > 0 && (ligs > 0 || enc > 0 || len(m.Kern) > 0)
}

func sortedNames(m map[string]*afm.GlyphInfo) []string {
	names := make([]string, 0, len(m))
	for n := range m {
		names = append(names, n)
	}
	sort.Strings(names)
	return names
}

func failWith(fs []finding, render string) mc.Verdict {
	f := choose(fs)
	v := mc.Fail(f.key, f.detail+"\ninput: "+render)
	v.Render = render
	return v
}

// ---------------------------------------------------------------- bodies

// entry is one item: a shape and, for partitioned families, the number of
// the first deviating point (-1 = not partitioned).
type entry struct {
	sh    shape
	first int
}

// libBody: obligation (1) and the closure of the library's own output.
func libBody(list []entry) func(c *mc.Ctx, item int) mc.Verdict {
	return func(c *mc.Ctx, item int) mc.Verdict {
		sh := list[item].sh
		d := &dev{c: c, first: list[item].first}
		model := buildModel(d, sh, false)
		if d.void {
			return mc.Pass("empty slice", false)
		}
		m0 := toMetrics(model, sh)
		render := func() string { return "shape " + sh.String() + " | " + describeModel(model) }
		text, err := libWrite(c, m0)
		if err != nil {
			return failWith([]finding{{"C15:write-read:write-error", fmt.Sprintf("Write failed: %v", err)}}, render())
		}
		m1, err := libRead(c, text)
		if err != nil {
			return failWith([]finding{{"C15:write-read:own-output-rejected", fmt.Sprintf("Read rejects the writer's output: %v\n%s", err, text)}}, render())
		}
		var fs []finding
		for _, d := range afmcodec.Compare(model, m1) {
			fs = append(fs, finding{"C15:write-read:" + d.Key(), "generated value -> Write -> Read: " + d.Detail + "\nwritten text:\n" + text})
		}
		cf, _ := closure(c, m1)
		fs = append(fs, cf...)
		if len(fs) > 0 {
			return failWith(fs, render())
		}
		outcome, nt := content(m1)
		v := mc.Pass(outcome, nt)
		if c.Render() {
			v.Render = render() + "\n" + text
		}
		return v
	}
}

// indepModel decides the model and the layout of one execution of the
// independent-writer families.
func indepModel(d *dev, sh shape) (*afmcodec.Model, afmcodec.Layout) {
	model := buildModel(d, sh, true)
	// the code of the first encoded glyph also runs through the boundary
	// values of the code range (the other codes of these shapes are 65..68)
	for i := range model.Glyphs {
		if model.Glyphs[i].Code >= 0 {
			model.Glyphs[i].Code = []int{model.Glyphs[i].Code, 0, 255}[d.Deviate(3)]
			break
		}
	}
	var lay afmcodec.Layout
	for k := range lay {
		lay[k] = d.Deviate(afmcodec.Dims[k].N)
	}
	return model, lay
}

// indepBody: obligation (2) and the closure of every accepted text.
func indepBody(list []entry) func(c *mc.Ctx, item int) mc.Verdict {
	return func(c *mc.Ctx, item int) mc.Verdict {
		sh := list[item].sh
		d := &dev{c: c, first: list[item].first}
		model, lay := indepModel(d, sh)
		if d.void {
			return mc.Pass("empty slice", false)
		}
		text := afmcodec.Write(model, lay)
		render := func() string {
			return "shape " + sh.String() + " | " + describeModel(model) + " | layout " + lay.String() + "\n" + text
		}
		m1, err := libRead(c, text)
		if err != nil {
			if lay.Identity() {
				return failWith([]finding{{"C15:indep-read:rejected", fmt.Sprintf("Read rejects a well-formed file: %v", err)}}, render())
			}
			return mc.Pass("irregular text rejected by Read", false)
		}
		var fs []finding
		if lay.Identity() {
			for _, d := range afmcodec.Compare(model, m1) {
				fs = append(fs, finding{"C15:indep-read:" + d.Key(), "independent writer -> Read: " + d.Detail})
			}
		} else if lay.DataDetermined() {
			// a repeated glyph line / a line without a name adds nothing to the data
			for _, d := range afmcodec.Compare(model, m1) {
				fs = append(fs, finding{"C15:indep-read:extra-line-changes-the-data:" + d.Key(), "independent writer (with an extra line that carries no data) -> Read: " + d.Detail})
			}
		}
		cf, _ := closure(c, m1)
		fs = append(fs, cf...)
		if len(fs) > 0 {
			return failWith(fs, render())
		}
		outcome, nt := content(m1)
		if !lay.Identity() {
			outcome = "irregular " + outcome
		}
		v := mc.Pass(outcome, nt)
		if c.Render() {
			v.Render = render()
		}
		return v
	}
}

// entries turns shapes into items.  For dev >= 2 every shape is split into
// the slices "point j deviates first" (see type dev); the family then runs
// with MaxDev = dev-1 for the remaining points.
func entries(list []shape, devs int, indep bool) (out []entry, maxDev int) {
	if devs < 2 {
		for _, sh := range list {
			out = append(out, entry{sh, -1})
		}
		return out, devs
	}
	for _, sh := range list {
		d := &dev{c: &mc.Ctx{}, first: -1}
		if indep {
			indepModel(d, sh)
		} else {
			buildModel(d, sh, false)
		}
		for j := 0; j <= d.idx; j++ {
			out = append(out, entry{sh, j})
		}
	}
	return out, devs - 1
}

// ---------------------------------------------------------------- families

func family(name string, list []shape, devs int, body func([]entry) func(*mc.Ctx, int) mc.Verdict, budget time.Duration, what string) mc.Family {
	indep := strings.HasPrefix(name, "indep")
	items, maxDev := entries(list, devs, indep)
	split := ""
	if devs >= 2 {
		split = fmt.Sprintf(" (each shape is split into one item per position of the first deviating point, whose alternatives are free choices; the engine bound for the remaining points is %d)", maxDev)
	}
	return mc.Family{
		Name:   name,
		Items:  len(items),
		MaxDev: maxDev,
		Body:   body(items),
		Budget: budget,
		Rule: fmt.Sprintf("%d shapes (%s); inside a shape every text/number field%s is a deviation point over its pool; all executions with <= %d points away from the base values are run%s; "+
			"non-trivial = the metrics READ BACK hold at least one glyph and at least one ligature, encoded glyph or kerning pair", len(list), what,
			map[bool]string{true: ", the code of the first encoded glyph (as given, 0, 255) and every one of the 15 layout dimensions of afmcodec", false: ""}[indep], devs, split),
		Describe: func(i int) string { return fmt.Sprintf("%s first-deviation=%d", items[i].sh.String(), items[i].first) },
		CrashKey: func(i int) string { return "C15:crash:" + name },
	}
}

func coreSets(big bool) [][]string {
	sets := [][]string{{"A"}, {".notdef", "A"}, {"A", "B"}, {"A", "B", "f_i.alt", "space"}}
	if big {
		sets = append(sets, []string{".notdef", "A", "B"}, []string{".notdef", "A", "B", "space"}, []string{"f_i.alt"}, []string{".notdef"})
	}
	return sets
}

func families(tier string) []mc.Family {
	all14 := glyphSets(1, 4)
	if tier == "quick" {
		// budgets sum to 45 s
		b := []time.Duration{45 * time.Second, 30 * time.Second, 30 * time.Second, 35 * time.Second}
		// ligature x kerning combinations: every pattern of one kind with the
		// empty pattern of the other, plus three mixed ones
		wideLib := append(shapes(shapeSpec{sets: all14, codePool: []int{0, 65}, ligPats: seq(numLigPats), kernPats: []int{0}}),
			shapes(shapeSpec{sets: all14, codePool: []int{0, 65}, ligPats: []int{0}, kernPats: []int{1, 2, 3, 4, 5, 6}})...)
		wideLib = append(wideLib, shapes(shapeSpec{sets: all14, codePool: []int{0, 65}, ligPats: []int{5}, kernPats: []int{3}})...)
		deepLib := shapes(shapeSpec{sets: coreSets(false), codePool: []int{65, 66, 67, 68}, encFilter: ascending, ligPats: []int{5}, kernPats: []int{3}})
		wideIndep := shapes(shapeSpec{sets: all14, codePool: []int{65}, ligPats: []int{0, 5}, kernPats: []int{0, 3, 6}})
		deepIndep := shapes(shapeSpec{sets: coreSets(false)[:3], codePool: []int{65, 66}, encFilter: ascending, ligPats: []int{5}, kernPats: []int{3}})
		return []mc.Family{
			family("lib-write-read/wide", wideLib, 1, libBody, b[0], "all glyph sets of 1-4 names from {.notdef,A,B,f_i.alt,space} x all injective partial encodings over codes {0,65} incl. nil vector x (7 ligature patterns (0-3 per glyph) without kerning + 6 kerning patterns (1-3 pairs, duplicates, absent glyphs) without ligatures + ligatures 0..3 per glyph with 3 kerning pairs)"),
			family("lib-write-read/pairs", deepLib, 2, libBody, b[1], "4 core glyph sets x {nothing encoded, nil vector, everything encoded}, ligatures 0..3 per glyph, 3 kerning pairs"),
			family("indep-read/wide", wideIndep, 1, indepBody, b[2], "all glyph sets of 1-4 names x encodings with at most one glyph at code 65 x ligature patterns {none, 0..3 per glyph} x kerning {none, 3 pairs}"),
			family("indep-read/pairs", deepIndep, 2, indepBody, b[3], "glyph sets {A}, {.notdef,A}, {A,B}; everything encoded ascending, nothing encoded, nil vector; ligatures 0..3 per glyph; 3 kerning pairs"),
			sizesFamily(30 * time.Second),
		}
	}
	// thorough; budgets sum to 590 s
	b := []time.Duration{90 * time.Second, 110 * time.Second, 80 * time.Second, 80 * time.Second, 130 * time.Second, 100 * time.Second}
	codes3 := []int{0, 65, 255}
	wideLib := append(shapes(shapeSpec{sets: all14, codePool: codes3, ligPats: seq(numLigPats), kernPats: []int{0}}),
		shapes(shapeSpec{sets: all14, codePool: codes3, ligPats: []int{0, 5}, kernPats: []int{1, 2, 3, 4, 5, 6}})...)
	for _, sh := range shapes(shapeSpec{sets: all14, codePool: codes3, ligPats: []int{0, 5}, kernPats: []int{0, 3, 6}, short: true}) {
		if sh.encForm == 2 {
			wideLib = append(wideLib, sh)
		}
	}
	deepLib := append(shapes(shapeSpec{sets: all14, codePool: []int{65, 66, 67, 68}, encFilter: ascending, ligPats: []int{5}, kernPats: []int{3}}),
		shapes(shapeSpec{sets: coreSets(true), codePool: []int{65, 66, 67, 68}, encFilter: ascending, ligPats: []int{0}, kernPats: []int{0}})...)
	lastAt65 := func(_ []string, codes []int) bool { return codes[len(codes)-1] == 65 }
	tripleLib := shapes(shapeSpec{sets: [][]string{{"A"}, {".notdef", "A"}}, codePool: []int{65}, encFilter: lastAt65, ligPats: []int{2}, kernPats: []int{2}})
	tripleLib = append(tripleLib, shapes(shapeSpec{sets: [][]string{{"A", "B"}}, codePool: []int{65, 66}, encFilter: func(n []string, c []int) bool { return c[0] == 65 && c[1] == 66 }, ligPats: []int{1}, kernPats: []int{1}})...)
	tripleIndep := shapes(shapeSpec{sets: [][]string{{"A"}}, codePool: []int{65}, encFilter: lastAt65, ligPats: []int{2}, kernPats: []int{1}})
	wideIndep := append(shapes(shapeSpec{sets: all14, codePool: []int{0, 65}, ligPats: seq(numLigPats), kernPats: []int{0}}),
		shapes(shapeSpec{sets: all14, codePool: []int{0, 65}, ligPats: []int{0, 5}, kernPats: []int{1, 2, 3, 4, 5, 6}})...)
	deepIndep := append(shapes(shapeSpec{sets: coreSets(true), codePool: []int{65, 66, 67, 68}, encFilter: ascending, ligPats: []int{5}, kernPats: []int{3}}),
		shapes(shapeSpec{sets: coreSets(true), codePool: []int{65, 66, 67, 68}, encFilter: ascending, ligPats: []int{0}, kernPats: []int{0}})...)
	return []mc.Family{
		family("lib-write-read/wide", wideLib, 1, libBody, b[0], "all glyph sets of 1-4 names from {.notdef,A,B,f_i.alt,space} x all injective partial encodings over codes {0,65,255} incl. nil vector x (7 ligature patterns without kerning + ligature patterns {none, 0..3 per glyph} x 6 kerning patterns), plus the same encodings as vectors cut after the highest code x ligatures {none, 0..3} x kerning {none, 3 pairs}"),
		family("lib-write-read/pairs", deepLib, 2, libBody, b[1], "all glyph sets of 1-4 names x {nothing encoded, nil vector, everything encoded ascending from 65} with ligatures 0..3 per glyph and 3 kerning pairs, plus 8 core glyph sets without ligatures and kerning"),
		family("lib-write-read/triples", tripleLib, 3, libBody, b[2], "glyph sets {A}, {.notdef,A} with A at code 65, 2 ligatures, 2 kerning pairs; {A,B} at codes 65, 66 with 1 ligature and 1 kerning pair"),
		family("indep-read/wide", wideIndep, 1, indepBody, b[3], "all glyph sets of 1-4 names x all injective partial encodings over codes {0,65} incl. nil vector x (7 ligature patterns without kerning + ligature patterns {none, 0..3 per glyph} x 6 kerning patterns)"),
		family("indep-read/pairs", deepIndep, 2, indepBody, b[4], "8 core glyph sets x {nothing encoded, nil vector, everything encoded ascending} x {(ligatures 0..3 per glyph, 3 kerning pairs), (no ligatures, no kerning)}"),
		family("indep-read/triples", tripleIndep, 3, indepBody, b[5], "glyph set {A} at code 65, 2 ligatures, 1 kerning pair"),
		sizesFamily(60 * time.Second),
	}
}

// sizesFamily: metrics far beyond the small shapes — long text fields (up to the
// 64 KiB line limit of the reader), glyphs with hundreds of ligatures (one
// long line), thousands of glyphs and kerning pairs — and ItalicAngle, the one
// number the writer does not round, over values that need all 17 digits.
// Library write -> read must return equal metrics; a second cycle must be
// byte-identical.
func sizesFamily(budget time.Duration) mc.Family {
	type cse struct {
		name string
		make func() *afm.Metrics
	}
	base := func() *afm.Metrics {
		m := &afm.Metrics{Glyphs: map[string]*afm.GlyphInfo{}, Encoding: make([]string, 256), FontName: "Sizes", FullName: "Sizes Regular", Version: "1.0", Notice: "n"}
		for i := range m.Encoding {
			m.Encoding[i] = ".notdef"
		}
		m.Glyphs["A"] = &afm.GlyphInfo{WidthX: 600}
		m.Glyphs["A"].BBox.URx, m.Glyphs["A"].BBox.URy = 590, 700
		m.Encoding[65] = "A"
		return m
	}
	words := func(n int) string {
		var sb strings.Builder
		for i := 0; sb.Len() < n; i++ {
			if i > 0 {
				sb.WriteByte(' ')
			}
			fmt.Fprintf(&sb, "w%d", i)
		}
		return sb.String()[:n-1] + "x"
	}
	var cases []cse
	for _, n := range []int{255, 256, 1000, 4000, 4080, 4088, 4089, 4090, 4095, 4096, 4097, 4100, 5000, 8191, 8192, 8193, 20000, 60000, 65520, 65530, 65536, 65537, 70000, 200000} {
		n := n
		cases = append(cases, cse{fmt.Sprintf("Notice of %d bytes", n), func() *afm.Metrics { m := base(); m.Notice = words(n); return m }})
	}
	for _, n := range []int{4090, 4097, 30000, 70000} {
		n := n
		cases = append(cases, cse{fmt.Sprintf("FullName of %d bytes", n), func() *afm.Metrics { m := base(); m.FullName = words(n); return m }})
		cases = append(cases, cse{fmt.Sprintf("FontName of %d bytes", n), func() *afm.Metrics { m := base(); m.FontName = strings.Repeat("N", n); return m }})
		cases = append(cases, cse{fmt.Sprintf("glyph name of %d bytes", n), func() *afm.Metrics {
			m := base()
			m.Glyphs[strings.Repeat("g", n)] = &afm.GlyphInfo{WidthX: 1}
			return m
		}})
	}
	for _, n := range []int{10, 100, 250, 300, 400, 1000, 3000, 9000} {
		n := n
		cases = append(cases, cse{fmt.Sprintf("glyph with %d ligatures", n), func() *afm.Metrics {
			m := base()
			m.Glyphs["A"].Ligatures = map[string]string{}
			for i := 0; i < n; i++ {
				m.Glyphs["A"].Ligatures[fmt.Sprintf("s%04d", i)] = fmt.Sprintf("lig%04d", i)
			}
			return m
		}})
	}
	for _, n := range []int{300, 5000} {
		n := n
		cases = append(cases, cse{fmt.Sprintf("%d glyphs and %d kerning pairs", n, 2*n), func() *afm.Metrics {
			m := base()
			for i := 0; i < n; i++ {
				g := &afm.GlyphInfo{WidthX: float64(200 + i%700)}
				g.BBox.LLx, g.BBox.URx, g.BBox.URy = float64(i%10), float64(150+i%700), 700
				m.Glyphs[fmt.Sprintf("g%05d", i)] = g
				m.Kern = append(m.Kern, &afm.KernPair{Left: fmt.Sprintf("g%05d", i), Right: "A", Adjust: funit.Int16(-i % 100)},
					&afm.KernPair{Left: "A", Right: fmt.Sprintf("g%05d", (i*7)%n), Adjust: funit.Int16(i % 90)})
			}
			return m
		}})
	}
	// files of several megabytes: a long kerning list; a long notice in front of everything else
	cases = append(cases, cse{"300 glyphs and 200000 kerning pairs (a file of about 5 MB)", func() *afm.Metrics {
		m := base()
		for i := 0; i < 300; i++ {
			m.Glyphs[fmt.Sprintf("g%05d", i)] = &afm.GlyphInfo{WidthX: float64(200 + i)}
		}
		for i := 0; i < 200000; i++ {
			m.Kern = append(m.Kern, &afm.KernPair{Left: fmt.Sprintf("g%05d", i%300), Right: fmt.Sprintf("g%05d", (i/300)%300), Adjust: funit.Int16(i%200 - 100)})
		}
		return m
	}})
	cases = append(cases, cse{"Notice of 5000000 bytes followed by 300 glyphs", func() *afm.Metrics {
		m := base()
		m.Notice = words(5000000)
		for i := 0; i < 300; i++ {
			m.Glyphs[fmt.Sprintf("g%05d", i)] = &afm.GlyphInfo{WidthX: float64(200 + i)}
		}
		return m
	}})
	for _, v := range []float64{-9.46232221, 11.3099325, -0.000123456789, 1.0 / 3, 0.1 + 0.2, 123456789.125, -12.300000000000001, 1e-7, 16777217, 0.30000001192092896, 359.99999999999994, -1e15, 5e-324} {
		v := v
		cases = append(cases, cse{fmt.Sprintf("ItalicAngle %v", v), func() *afm.Metrics { m := base(); m.ItalicAngle = v; return m }})
	}
	// encoding vectors with few, almost all and all 256 codes taken, with and
	// without an explicit .notdef glyph (which has no code of its own when every
	// slot names another glyph)
	for _, n := range []int{1, 2, 128, 254, 255, 256} {
		for _, withNotdef := range []bool{false, true} {
			for _, fromTop := range []bool{false, true} {
				n, withNotdef, fromTop := n, withNotdef, fromTop
				cases = append(cases, cse{fmt.Sprintf("%d codes taken (from the top: %v), .notdef glyph present: %v", n, fromTop, withNotdef), func() *afm.Metrics {
					m := base()
					delete(m.Glyphs, "A")
					m.Encoding[65] = ".notdef"
					for i := 0; i < n; i++ {
						code := i
						if fromTop {
							code = 255 - i
						}
						name := fmt.Sprintf("c%03d", (i*37)%256)
						m.Glyphs[name] = &afm.GlyphInfo{WidthX: float64(300 + i)}
						m.Encoding[code] = name
					}
					m.Glyphs["unencoded"] = &afm.GlyphInfo{WidthX: 77}
					if withNotdef {
						m.Glyphs[".notdef"] = &afm.GlyphInfo{WidthX: 250}
					}
					return m
				}})
			}
		}
	}
	histCases := historyCases()
	nSize := len(cases)
	_ = nSize
	return mc.Family{
		Name: "sizes-and-precision", Items: len(cases) + len(histCases), Budget: budget,
		Rule: fmt.Sprintf("%d metrics values written and re-read by the library: Notice of 255..200000 bytes (every length around 4096, 8192 and 65536), FullName / FontName / a glyph name of 4090, 4097, 30000, 70000 bytes, one glyph with 10..9000 ligatures (one line of up to 100 KiB each), 300 and 5000 glyphs with twice as many kerning pairs, files of about 5 MB (200,000 kerning pairs; a 5,000,000-byte Notice in front of the glyphs), ItalicAngle over 13 values that need up to 17 significant digits, encoding vectors with 1, 2, 128, 254, 255 and all 256 codes taken (from either end) with and without an explicit .notdef glyph; oracle: deep-equal metrics after one cycle, byte-identical file after a second; plus %d history cases: a write that follows a write which failed after 0, 40, 200 or 1000 bytes gives the same bytes as without it, and a value returned by Read may be overwritten by the caller (encoding, glyph map, kerning list) without changing what later Read calls return (files with every glyph unencoded, none unencoded, no glyphs); non-trivial = all", len(cases), len(histCases)),
		Body: func(c *mc.Ctx, item int) mc.Verdict {
			if item >= len(cases) {
				h := histCases[item-len(cases)]
				c.Step()
				if msg := h.run(); msg != "" {
					v := mc.Fail("C15:history:"+h.key, h.name+": "+msg)
					v.Render = h.name
					return v
				}
				return mc.Pass("history-independent", true)
			}
			cs := cases[item]
			m := cs.make()
			var b1 bytes.Buffer
			if err := m.Write(&b1); err != nil {
				return mc.Fail("C15:sizes:write-error", cs.name+": Write returned "+err.Error())
			}
			m2, err := afm.Read(bytes.NewReader(b1.Bytes()))
			c.Step()
			if err != nil {
				return mc.Fail("C15:sizes:read-error", cs.name+": the library cannot read what it wrote: "+err.Error())
			}
			short := func(s string) string {
				if len(s) > 300 {
					return s[:150] + "…" + s[len(s)-100:]
				}
				return s
			}
			want, got := observe.Dump(m), observe.Dump(m2)
			if want != got {
				k := 0
				for k < len(want) && k < len(got) && want[k] == got[k] {
					k++
				}
				lo := max(0, k-60)
				return mc.Fail("C15:sizes:write-read-differs", fmt.Sprintf("%s: metrics differ after write/read at byte %d of the dump: wrote …%s, read …%s", cs.name, k, short(want[lo:]), short(got[lo:])))
			}
			var b2 bytes.Buffer
			if err := m2.Write(&b2); err != nil {
				return mc.Fail("C15:sizes:write-error", cs.name+": second Write returned "+err.Error())
			}
			// ligature order within a line is map order (C17): compare sorted lines
			if sortedLines(b1.String()) != sortedLines(b2.String()) {
				return mc.Fail("C15:sizes:second-cycle-differs", cs.name+": the second write differs from the first")
			}
			v := mc.Pass("equal", true)
			if c.Render() {
				v.Render = cs.name + fmt.Sprintf(" → %d bytes, equal after the cycle", b1.Len())
			}
			return v
		},
		Describe: func(item int) string {
			if item >= len(cases) {
				return histCases[item-len(cases)].name
			}
			return cases[item].name
		},
		CrashKey: func(item int) string { return "C15:crash:sizes" },
	}
}

type historyCase struct {
	name, key string
	run       func() string // "" = fine
}

type failAfter struct{ left int }

func (w *failAfter) Write(p []byte) (int, error) {
	if len(p) > w.left {
		n := w.left
		w.left = 0
		return n, fmt.Errorf("injected write fault")
	}
	w.left -= len(p)
	return len(p), nil
}

func clipC(s string) string {
	if len(s) > 600 {
		return s[:600] + "…"
	}
	return s
}

func historyCases() []historyCase {
	small := func(name string, n int) *afm.Metrics {
		m := &afm.Metrics{Glyphs: map[string]*afm.GlyphInfo{}, Encoding: make([]string, 256), FontName: name, FullName: name + " Regular", Version: "1.0", Notice: "notice of " + name}
		for i := range m.Encoding {
			m.Encoding[i] = ".notdef"
		}
		for i := 0; i < n; i++ {
			g := &afm.GlyphInfo{WidthX: float64(300 + 10*i)}
			g.BBox.URx, g.BBox.URy = float64(250+i), 700
			nm := fmt.Sprintf("%s%d", strings.ToLower(name[:1]), i)
			m.Glyphs[nm] = g
			m.Encoding[65+i] = nm
		}
		if n > 1 {
			m.Kern = []*afm.KernPair{{Left: strings.ToLower(name[:1]) + "0", Right: strings.ToLower(name[:1]) + "1", Adjust: -25}}
		}
		return m
	}
	var out []historyCase
	for _, k := range []int{0, 40, 200, 1000} {
		k := k
		out = append(out, historyCase{fmt.Sprintf("Write after a Write of other metrics that failed after %d bytes", k), "write-after-failed-write", func() string {
			var ref bytes.Buffer
			if err := small("Second", 2).Write(&ref); err != nil {
				return "reference write failed: " + err.Error()
			}
			small("First", 40).Write(&failAfter{left: k})
			var got bytes.Buffer
			if err := small("Second", 2).Write(&got); err != nil {
				return "write failed: " + err.Error()
			}
			if !bytes.Equal(got.Bytes(), ref.Bytes()) {
				return fmt.Sprintf("the output differs from the same write made before the failed one: %d bytes instead of %d, starting %q", got.Len(), ref.Len(), got.Bytes()[:min(80, got.Len())])
			}
			return ""
		}})
	}
	// the value as it is when Write is called is what is written: a metrics value is
	// written, changed in place (encoding vector, a width, a ligature, a kerning pair;
	// nothing is replaced, so every slice and map keeps its identity) and written again
	for _, edit := range []string{"two codes swapped in the encoding vector", "an unencoded glyph given a code", "a width and a box", "a kerning adjustment and a ligature"} {
		edit := edit
		out = append(out, historyCase{"Write, edit in place (" + edit + "), Write again", "rewrite-after-edit", func() string {
			m := small("Edit", 4)
			m.Encoding[68] = ".notdef" // e3 starts unencoded
			m.Glyphs["e0"].Ligatures = map[string]string{"e1": "e2"}
			if err := m.Write(&bytes.Buffer{}); err != nil {
				return "first write failed: " + err.Error()
			}
			switch edit {
			case "two codes swapped in the encoding vector":
				m.Encoding[65], m.Encoding[66] = m.Encoding[66], m.Encoding[65]
			case "an unencoded glyph given a code":
				m.Encoding[200] = "e3"
			case "a width and a box":
				m.Glyphs["e1"].WidthX = 777
				m.Glyphs["e1"].BBox.LLx = -33
			default:
				m.Kern[0].Adjust = 44
				m.Glyphs["e0"].Ligatures["e1"] = "e3"
			}
			var buf bytes.Buffer
			if err := m.Write(&buf); err != nil {
				return "second write failed: " + err.Error()
			}
			got, err := afm.Read(bytes.NewReader(buf.Bytes()))
			if err != nil {
				return "re-read failed: " + err.Error()
			}
			if a, b := observe.Dump(got), observe.Dump(m); a != b {
				return fmt.Sprintf("the second file does not describe the edited value: read back %s, written %s", clipC(a), clipC(b))
			}
			return ""
		}})
	}
	texts := map[string]string{
		"every glyph unencoded": "StartFontMetrics 4.1\nFontName U\nFullName U R\nStartCharMetrics 2\nC -1 ; WX 500 ; N a ; B 0 0 400 700 ;\nC -1 ; WX 600 ; N b ; B 0 0 500 700 ; L a ab ;\nEndCharMetrics\nStartKernData\nStartKernPairs 1\nKPX a b -10\nEndKernPairs\nEndKernData\nEndFontMetrics\n",
		"every glyph encoded":   "StartFontMetrics 4.1\nFontName E\nFullName E R\nStartCharMetrics 2\nC 65 ; WX 500 ; N a ; B 0 0 400 700 ;\nC 66 ; WX 600 ; N b ; B 0 0 500 700 ;\nEndCharMetrics\nEndFontMetrics\n",
		"no glyphs":             "StartFontMetrics 4.1\nFontName N\nFullName N R\nStartCharMetrics 0\nEndCharMetrics\nEndFontMetrics\n",
	}
	var names []string
	for n := range texts {
		names = append(names, n)
	}
	sort.Strings(names)
	// what each text reads as, established before any result has been touched
	// (and therefore the same in every re-execution within this process)
	pristine := map[string]string{}
	for _, n := range names {
		m, err := afm.Read(strings.NewReader(texts[n]))
		pristine[n] = observe.Dump(m) + fmt.Sprint(" err=", err)
	}
	for _, first := range names {
		for _, second := range names {
			first, second := first, second
			out = append(out, historyCase{fmt.Sprintf("Read(%s), result overwritten by the caller, then Read(%s)", first, second), "read-result-shared", func() string {
				want := pristine[second]
				m, err := afm.Read(strings.NewReader(texts[first]))
				if err != nil {
					return "read failed: " + err.Error()
				}
				for i := range m.Encoding {
					m.Encoding[i] = "alpha"
				}
				for _, g := range m.Glyphs {
					g.WidthX = -1
					for k := range g.Ligatures {
						g.Ligatures[k] = "overwritten"
					}
				}
				m.Glyphs["extra"] = &afm.GlyphInfo{WidthX: 1}
				for _, kp := range m.Kern {
					kp.Adjust = 99
				}
				m.Kern = append(m.Kern[:0], &afm.KernPair{Left: "x", Right: "y", Adjust: 1})
				again, err := afm.Read(strings.NewReader(texts[second]))
				if err != nil {
					return "second read failed: " + err.Error()
				}
				if got := observe.Dump(again) + " err=<nil>"; got != want {
					return "a later Read returns something else than before the caller overwrote an earlier result: " + got
				}
				return ""
			}})
		}
	}
	return out
}

func sortedLines(s string) string {
	lines := strings.Split(s, "\n")
	for i, l := range lines {
		if strings.Contains(l, " ; L ") {
			parts := strings.Split(l, " ; ")
			sort.Strings(parts)
			lines[i] = strings.Join(parts, " ; ")
		}
	}
	return strings.Join(lines, "\n")
}

// ascending keeps "nothing encoded" and "every glyph other than .notdef
// encoded with increasing codes starting at 65".
func ascending(names []string, codes []int) bool {
	n, next, ok := 0, 65, true
	for i, c := range codes {
		if c >= 0 {
			n++
			if c != next {
				ok = false
			}
			next++
		} else if names[i] != ".notdef" {
			ok = false
		}
	}
	return n == 0 || ok
}

func main() {
	mc.Main(mc.Program{
		Property: "C15",
		Assumptions: []string{
			"widths and kerning adjustments are integers in [-32768,32767] (funit.Int16 in the reader and in KernPair)",
			"bounding-box coordinates and numeric global fields are integers with |x| <= 2^32 in the identity parts; fractional and oddly spelled numbers only in the closure part",
			"names are single tokens without ';'; FullName/Version/Notice are words separated by single blanks; FontName non-empty",
			".notdef is never given a code and encodings only name glyphs of the glyph map; encodings are compared in the canonical 256-entry form",
			"ligatures are compared as maps (the writer's L order is Go map order, subject of C17)",
			"closure: either integral neighbour is accepted as 'rounding'; NaN/Inf never generated",
			"layouts stay inside the AFM specification: keyword at the start of the line, no blank lines, CR-only line ends / CH <hex> codes / StartKernPairs0 not used",
		},
		TrustedBase: []string{"strconv, bufio.Scanner, fmt of the Go standard library", "afmcodec writer (reference, written from the AFM specification 5004)"},
		Families:    families,
		Explanation: "C15: value fields and layout dimensions are deviation points; MaxDev=k means all combinations of k fields/dimensions over their full pools.",
	})
}
