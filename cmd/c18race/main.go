// c18race is the free-running -race pass of C18 (supporting evidence only: it
// samples the interleavings the Go scheduler happens to produce).  It runs the
// same kind of bodies as the lazy-init exploration plus readers and writers on
// distinct instances from 16 goroutines, built with -race and WITHOUT the
// cooperative scheduler (whose hand-offs would hide races from the detector).
package main

import (
	"bytes"
	"fmt"
	"os"
	"sync"

	"seehuhn.de/go/postscript"
	"seehuhn.de/go/postscript/afm"
	"seehuhn.de/go/postscript/pfb"
	"seehuhn.de/go/postscript/type1"
	"seehuhn.de/go/postscript/type1/names"

	"verif/model/corpus"
)

func main() {
	fonts := corpus.Fonts()
	cmaps := corpus.CMaps()
	afms := corpus.AFMs()
	pfbs := corpus.PFBs()
	var wg sync.WaitGroup
	start := make(chan struct{})
	errs := make(chan string, 64)
	for g := 0; g < 16; g++ {
		g := g
		wg.Add(1)
		go func() {
			defer wg.Done()
			<-start
			for round := 0; round < 3; round++ {
				// first-use initialisation races with use
				if fmt.Sprint(names.ToUnicode("A", g%2 == 0)) != "[65]" {
					errs <- "ToUnicode(A)"
				}
				if names.FromUnicode('A') != "A" {
					errs <- "FromUnicode(A)"
				}
				names.ToUnicode("a62", true)
				names.ToUnicode("f_f_i.alt", false)
				intp := postscript.NewInterpreter()
				intp.MaxOps = 10000
				intp.ExecuteString("StandardEncoding 65 /zz put systemdict /add {sub} put /CIDInit /ProcSet findresource /begincmap 1 put 1 2 3")
				if _, err := postscript.ReadCMap(bytes.NewReader(cmaps[g%len(cmaps)].Data)); err != nil {
					errs <- "ReadCMap: " + err.Error()
				}
				f, err := type1.Read(bytes.NewReader(fonts[g%len(fonts)].Data))
				if err != nil {
					errs <- "type1.Read: " + err.Error()
				} else {
					var b bytes.Buffer
					f.Write(&b, &type1.WriterOptions{Format: corpus.Formats[g%4]})
					f.WritePDF(&b)
					f.GlyphList()
					f.FontBBoxPDF()
				}
				corpus.SampleFont().Write(&bytes.Buffer{}, nil)
				m, err := afm.Read(bytes.NewReader(afms[g%len(afms)].Data))
				if err == nil {
					m.Write(&bytes.Buffer{})
					m.GlyphList()
				}
				buf := make([]byte, 7)
				r := pfb.Decode(bytes.NewReader(pfbs[g%len(pfbs)].Data))
				for {
					if _, err := r.Read(buf); err != nil {
						break
					}
				}
			}
		}()
	}
	close(start)
	wg.Wait()
	close(errs)
	bad := false
	for e := range errs {
		fmt.Println("unexpected result:", e)
		bad = true
	}
	if bad {
		os.Exit(3)
	}
	fmt.Println("free-running race pass finished: 16 goroutines x 3 rounds")
}
