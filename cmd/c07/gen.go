package main

import (
	"fmt"
	"strings"

	cm "verif/model/cmapmodel"
)

// letter is one block of a sequence before its entries are generated.
type letter struct {
	kind  cm.Kind
	count int
	pat   int // code length pattern: 0 = mixed 1-4, 1 = all one byte, 2 = all two bytes
	dst   int // destination variant of the kind (see numDst)
}

var patNames = [...]string{"mixed", "len1", "len2"}

func (l letter) String() string {
	s := fmt.Sprintf("%s(%d", l.kind, l.count)
	if l.count > 0 {
		s += "," + patNames[l.pat]
		if numDst(l.kind) > 1 {
			s += "," + dstName(l.kind, l.dst)
		}
	}
	return s + ")"
}

func seqString(seq []letter) string {
	var parts []string
	for _, l := range seq {
		parts = append(parts, l.String())
	}
	return "[" + strings.Join(parts, " → ") + "]"
}

// numDst: number of destination variants per kind.
func numDst(k cm.Kind) int {
	switch k {
	case cm.BfChar:
		return 3 // string, name, alternating
	case cm.BfRange:
		return 4 // string, array of names, array of strings, alternating string / names / mixed array
	}
	return 1
}

func dstName(k cm.Kind, d int) string {
	switch k {
	case cm.BfChar:
		return [...]string{"string", "name", "string|name"}[d]
	case cm.BfRange:
		return [...]string{"string", "names[]", "strings[]", "string|names[]|mixed[]"}[d]
	case cm.CodeSpaceRange:
		return "-"
	}
	return "integer"
}

// code is the source code of entry i of the block at position p.  Within a
// block the codes are distinct and not in sorted order; blocks at positions p
// and p+2 repeat first bytes, so tables fed by two blocks of one kind need a
// real merge and contain equal codes (patterns len1/len2) or codes that are
// prefixes of each other (mixed).
func code(p, i, pat int) []byte {
	n := 0
	switch pat {
	case 0:
		n = [4]int{2, 1, 4, 3}[(i+p)%4]
	case 1:
		n = 1
	case 2:
		n = 2
	}
	full := []byte{byte(0xC0 + 0x10*(p&1) + 0xBD*i), byte(0x11 * (i + 1)), byte(0x80 ^ (i * 5)), byte(i)}
	return full[:n]
}

// high returns the upper bound for lo: same length, last byte raised by 0, 1
// or 0x50 (clamped), so some ranges are single codes and some contain others.
func high(lo []byte, p, i int, small bool) []byte {
	hi := append([]byte{}, lo...)
	r := [3]int{0, 1, 0x50}[(i+p/2)%3]
	if small {
		r = (i + p/2) % 3
	}
	last := int(hi[len(hi)-1])
	if last+r > 0xFF {
		r = 0xFF - last
	}
	hi[len(hi)-1] = byte(last + r)
	return hi
}

func glyphName(p, i, j int) cm.Value {
	if (i+j)%3 == 2 {
		return cm.Name(fmt.Sprintf("uni%04X", 0x4E00+16*p+i+j))
	}
	if (i+j)%5 == 3 {
		// a name is a sequence of bytes, not of characters
		return cm.Name(fmt.Sprintf("g\xe9\xff%d.%d.\x80", p, i))
	}
	return cm.Name(fmt.Sprintf("g%d.%d.%d", p, i, j))
}

func uniString(p, i, j int) cm.Value {
	if (i+j)%2 == 1 {
		return cm.Str(0xD8, byte(p), 0xDC, byte(16*i+j)) // surrogate pair
	}
	return cm.Str(byte(p), byte(0x41+8*i+j))
}

// genBlock generates the entries of a block.
func genBlock(l letter, p int) cm.Block {
	b := cm.Block{Kind: l.kind, Declared: -1}
	for i := 0; i < l.count; i++ {
		var e cm.Entry
		lo := code(p, i, l.pat)
		e.Lo = cm.Str(lo...)
		smallRange := l.kind == cm.BfRange && l.dst != 0
		if l.kind.HasBounds() {
			e.Hi = cm.Str(high(lo, p, i, smallRange)...)
		}
		switch l.kind {
		case cm.CidChar, cm.CidRange, cm.NotdefChar, cm.NotdefRange:
			v := 1000*(p+1) + i
			if p == 0 && i == 1 {
				v = 0
			}
			// (integers are integers whatever their size: 65535, 2^31-1, 2^31, 2^32-1, 2^53+1 and beyond)
			if i >= 2 && i <= 8 {
				v = []int{65535, 2147483647, 2147483648, 3000000000 + p, 4294967295, 9007199254740993, 9223372036854775807}[i-2]
			} else if i == 0 && p%2 == 1 {
				v = []int{2147483648, 4294967296 + p, 9223372036854775807}[(p/2)%3]
			}
			e.Dst = cm.Int(v)
		case cm.BfChar:
			asName := l.dst == 1 || (l.dst == 2 && i%2 == 1)
			if asName {
				e.Dst = glyphName(p, i, 0)
			} else {
				e.Dst = uniString(p, i, 0)
			}
		case cm.BfRange:
			v := l.dst
			if v == 3 {
				v = [3]int{0, 1, 4}[i%3]
			}
			width := int(e.Hi.S[len(e.Hi.S)-1]) - int(e.Lo.S[len(e.Lo.S)-1]) + 1
			switch v {
			case 0:
				e.Dst = uniString(p, i, 0)
			default:
				var a []cm.Value
				for j := 0; j < width; j++ {
					if v == 1 || (v == 4 && j%2 == 0) {
						a = append(a, glyphName(p, i, j))
					} else {
						a = append(a, uniString(p, i, j))
					}
				}
				e.Dst = cm.Array(a...)
			}
		}
		b.Entries = append(b.Entries, e)
	}
	return b
}

// header variants
const numHeaders = 4

func baseCMap(hv int) cm.CMap {
	switch hv {
	case 1:
		return cm.CMap{Name: "A\xc4", Registry: "X", Ordering: "Identity", Supplement: 7, Type: 2, WMode: 1}
	case 2:
		return cm.CMap{Name: "Zed-UCS2", Registry: "Adobe", Ordering: "UCS", Supplement: 65535, Type: 0, WMode: 1}
	case 3:
		return cm.CMap{Name: "NoWMode-V", Registry: "Adobe", Ordering: "GB1", Supplement: 2, Type: 1, NoWMode: true}
	}
	return cm.CMap{Name: "Test-H", Registry: "Adobe", Ordering: "Japan1", Supplement: 0, Type: 1, WMode: 0}
}

// sequence index <-> list of letters over an alphabet of size a, depth <= d:
// index 0 is the empty sequence, then all of length 1, then length 2, …

func numSeqs(a, d int) int {
	n, pw := 0, 1
	for i := 0; i <= d; i++ {
		n += pw
		pw *= a
	}
	return n
}

func decodeSeq(idx, a int) []int {
	length, pw := 0, 1
	for idx >= pw {
		idx -= pw
		pw *= a
		length++
	}
	out := make([]int, length)
	for i := length - 1; i >= 0; i-- {
		out[i] = idx % a
		idx /= a
	}
	return out
}

// kcAlphabet: kinds x counts.
func kcAlphabet(counts []int) []letter {
	var a []letter
	for k := cm.Kind(0); k < cm.NumKinds; k++ {
		for _, n := range counts {
			a = append(a, letter{kind: k, count: n})
		}
	}
	return a
}

// fullAlphabet: kinds x counts x code length pattern x destination variant
// (count 0 has neither pattern nor destination).
func fullAlphabet(counts []int) []letter {
	var a []letter
	for k := cm.Kind(0); k < cm.NumKinds; k++ {
		for _, n := range counts {
			if n == 0 {
				a = append(a, letter{kind: k})
				continue
			}
			for pat := 0; pat < 3; pat++ {
				for d := 0; d < numDst(k); d++ {
					a = append(a, letter{kind: k, count: n, pat: pat, dst: d})
				}
			}
		}
	}
	return a
}

// ---------------------------------------------------------------- faults

const (
	fCount101 = iota
	fDeclaredMore
	fUnequal
	fReversed
	fWrongDst
	fWrongSrc
	fNoBeginCMap
	numFaultTypes
)

var faultNames = [...]string{"count-101", "declared-more-than-supplied", "bounds-unequal-length", "low-above-high", "wrong-destination-type", "source-not-a-string", "missing-begincmap"}

type fault struct {
	typ     int
	pos     int // block position
	entry   int
	variant int
}

// wrong destination values per kind: every type of the universe {integer,
// real, boolean, string, name, array, procedure} the kind does not take.
func wrongDsts(k cm.Kind) []cm.Value {
	universe := []cm.Value{cm.Int(7), cm.Real(1.5), cm.Bool(true), cm.Str(0, 0x41), cm.Name("A"), cm.Array(cm.Name("A")), cm.Proc(cm.Int(1))}
	var out []cm.Value
	for _, v := range universe {
		if !cm.DstAllowed(k, v.T) {
			out = append(out, v)
		}
	}
	return out
}

// faultsFor lists every single fault applicable to block pos of seq.
func faultsFor(seq []letter, pos int) []fault {
	l := seq[pos]
	var fs []fault
	fs = append(fs, fault{typ: fCount101, pos: pos})
	nv := 2
	if l.count > 0 {
		nv = 3
	}
	for v := 0; v < nv; v++ {
		fs = append(fs, fault{typ: fDeclaredMore, pos: pos, variant: v})
	}
	for e := 0; e < l.count; e++ {
		if l.kind.HasBounds() {
			for v := 0; v < 3; v++ {
				fs = append(fs, fault{typ: fUnequal, pos: pos, entry: e, variant: v})
			}
		}
		if l.kind.HasBounds() {
			for v := 0; v < 2; v++ {
				fs = append(fs, fault{typ: fReversed, pos: pos, entry: e, variant: v})
			}
		}
		if l.kind.HasDst() {
			for v := range wrongDsts(l.kind) {
				fs = append(fs, fault{typ: fWrongDst, pos: pos, entry: e, variant: v})
			}
		}
		nsrc := 2
		if l.kind.HasBounds() {
			nsrc = 4
		}
		for v := 0; v < nsrc; v++ {
			fs = append(fs, fault{typ: fWrongSrc, pos: pos, entry: e, variant: v})
		}
	}
	return fs
}

// applyFault changes block b (already generated for letter l at position p).
func applyFault(b *cm.Block, l letter, p int, f fault) string {
	switch f.typ {
	case fCount101:
		l.count = 101
		*b = genBlock(l, p)
		return "101 entries declared and supplied"
	case fDeclaredMore:
		switch f.variant {
		case 0:
			b.Declared = len(b.Entries) + 1
			return "declared count = entries + 1"
		case 1:
			b.Declared = len(b.Entries) + 3
			return "declared count = entries + 3"
		default:
			b.DropOperands = 1
			return "last operand of the last entry left out"
		}
	case fUnequal:
		e := &b.Entries[f.entry]
		switch f.variant {
		case 0:
			e.Hi = cm.Str(append(append([]byte{}, e.Hi.S...), 0x00)...)
			return fmt.Sprintf("entry %d: high bound one byte longer", f.entry)
		case 1:
			e.Hi = cm.Str(e.Hi.S[:len(e.Hi.S)-1]...)
			return fmt.Sprintf("entry %d: high bound one byte shorter", f.entry)
		default:
			// low bound longer; still low <= high byte-wise, so only the length test can object
			lo := append([]byte{}, e.Lo.S...)
			hi := append([]byte{}, e.Hi.S...)
			if string(lo) == string(hi) {
				n := len(lo) - 1
				if lo[n] == 0xFF {
					lo[n] = 0xFE
				} else {
					hi[n] = lo[n] + 1
				}
			}
			lo = append(lo, 0x00)
			e.Lo, e.Hi = cm.Str(lo...), cm.Str(hi...)
			return fmt.Sprintf("entry %d: low bound one byte longer", f.entry)
		}
	case fReversed:
		e := &b.Entries[f.entry]
		lo := append([]byte{}, e.Lo.S...)
		hi := append([]byte{}, e.Hi.S...)
		switch f.variant {
		case 0:
			// high = low - 1 in the last byte
			n := len(lo) - 1
			if lo[n] == 0 {
				lo[n] = 1
			}
			hi = append([]byte{}, lo...)
			hi[n] = lo[n] - 1
			e.Lo, e.Hi = cm.Str(lo...), cm.Str(hi...)
			return fmt.Sprintf("entry %d: high = low - 1 (last byte)", f.entry)
		default:
			// first byte decides, later bytes ascending
			if lo[0] == 0 {
				lo[0] = 1
			}
			hi[0] = lo[0] - 1
			for i := 1; i < len(hi); i++ {
				hi[i] = 0xFF
				lo[i] = 0x00
			}
			e.Lo, e.Hi = cm.Str(lo...), cm.Str(hi...)
			return fmt.Sprintf("entry %d: high below low in the first byte", f.entry)
		}
	case fWrongDst:
		v := wrongDsts(l.kind)[f.variant]
		b.Entries[f.entry].Dst = v
		return fmt.Sprintf("entry %d: destination of type %s", f.entry, v.T)
	case fWrongSrc:
		e := &b.Entries[f.entry]
		v := cm.Int(65)
		if f.variant%2 == 1 {
			v = cm.Name("A")
		}
		if f.variant < 2 {
			e.Lo = v
			return fmt.Sprintf("entry %d: source code / low bound of type %s", f.entry, v.T)
		}
		e.Hi = v
		return fmt.Sprintf("entry %d: high bound of type %s", f.entry, v.T)
	}
	panic("unknown fault")
}
