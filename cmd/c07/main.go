// C07 — the CMap reader returns exactly the mappings written in the file.
//
// Operation-sequence exploration on the real postscript.ReadCMap: a CMap body
// is a sequence of blocks over a small alphabet; every sequence up to a depth
// bound is written out as a resource file in the standard form (under layout
// decisions that are Choose/Deviate points), read with the library, and the
// returned dictionary is compared with the reference model
// verif/model/cmapmodel.  The per-block scratch buffers of the interpreter
// (cmapChars, cmapRanges, cmapCodeSpaceRanges) persist from block to block, so
// the enumeration is over ordered sequences of (kind, entry count) — every
// ordered pair and triple with shrinking and growing counts.
//
// What the oracle demands (and nothing more than property C07 states):
//
//   - valid file: no error; CMapName, CIDSystemInfo (Registry, Ordering,
//     Supplement), CMapType and WMode (when the file defines it) as written;
//     CodeMap is a *CMapInfo whose seven tables hold exactly the entries of the
//     file's blocks of that kind, source codes / bounds / destinations
//     unchanged, and UseCMap the referenced name.  Keys the file defines in
//     addition (CMapVersion, UIDOffset, XUID) are not compared.
//   - order: "sorted by source code" is read as byte-wise comparison of the code
//     strings (so <41> sorts before <4100>, which sorts before <42>);
//     code-space ranges by length first, then byte-wise by low bound.  Entries
//     with an equal sort key may come in any order (compared as a multiset):
//     the property does not demand a stable sort.
//   - the tables of one result do not share storage: overwriting every element
//     of one table leaves the other tables unchanged.
//   - fault variants (exactly the property's list, one at a time): a block
//     declaring 101 entries; a declared count larger than the entries supplied
//     (the operand stack is empty at every block of a file in the standard
//     form); bounds of unequal length (the four kinds that have bounds); low
//     bound above high bound (the four kinds that have bounds); a destination of
//     a type the kind does not take (cid*/notdef*: anything but integer;
//     bfchar: anything but string or name; bfrange: anything but string or
//     array); a source code / bound that is not a string; begincmap left out.
//     Each must give an error and no dictionary.  Also a file that never
//     reaches defineresource must give an error.
//   - deliberately NOT treated as faults, because the property does not say
//     what should happen: a declared count smaller than the entries supplied, a
//     begin… closed by the end… of another kind, an
//     array destination whose elements are not strings/names or whose length
//     differs from the range, overlapping or duplicate source codes, endcmap
//     twice, a block after endcmap.  Where such a case is explored
//     (endcmap twice, block after endcmap) only "an error XOR a dictionary" and
//     the absence of panics is demanded.
//   - several CMaps in one file: the one returned is the first by byte-wise
//     sorted name (documented in ReadCMap), with its own tables.
//
// Preconditions on generated inputs: names consist of regular characters;
// Registry/Ordering are literal strings without characters needing an escape;
// all code strings are written as hex strings with an even number of digits;
// ranges are at most 0x51 codes wide; array destinations have as many
// elements as the range has codes.
package main

import (
	"bytes"
	"fmt"
	"io"
	"strings"
	"time"

	"seehuhn.de/go/postscript"

	"verif/mc"
	"verif/env"
	cm "verif/model/cmapmodel"
	"verif/model/observe"
)

// ------------------------------------------------------------ observation

func toValue(o postscript.Object) cm.Value {
	switch o := o.(type) {
	case postscript.Integer:
		return cm.Int(int(o))
	case postscript.Real:
		return cm.Real(float64(o))
	case postscript.Boolean:
		return cm.Bool(bool(o))
	case postscript.String:
		return cm.Str(o...)
	case postscript.Name:
		return cm.Name(string(o))
	case postscript.Array:
		var a []cm.Value
		for _, e := range o {
			a = append(a, toValue(e))
		}
		return cm.Array(a...)
	case postscript.Procedure:
		var a []cm.Value
		for _, e := range o {
			a = append(a, toValue(e))
		}
		return cm.Proc(a...)
	case nil:
		return cm.Value{T: cm.TOther, N: "nil"}
	}
	return cm.Value{T: cm.TOther, N: fmt.Sprintf("%T", o)}
}

func observeTables(info *postscript.CMapInfo) cm.Tables {
	var t cm.Tables
	t.UseCMap = string(info.UseCMap)
	for _, r := range info.CodeSpaceRanges {
		t.T[cm.CodeSpaceRange] = append(t.T[cm.CodeSpaceRange], cm.Entry{Lo: cm.Str(r.Low...), Hi: cm.Str(r.High...)})
	}
	chars := func(k cm.Kind, l []postscript.CharMap) {
		for _, e := range l {
			t.T[k] = append(t.T[k], cm.Entry{Lo: cm.Str(e.Src...), Dst: toValue(e.Dst)})
		}
	}
	ranges := func(k cm.Kind, l []postscript.RangeMap) {
		for _, e := range l {
			t.T[k] = append(t.T[k], cm.Entry{Lo: cm.Str(e.Low...), Hi: cm.Str(e.High...), Dst: toValue(e.Dst)})
		}
	}
	chars(cm.CidChar, info.CidChars)
	ranges(cm.CidRange, info.CidRanges)
	chars(cm.BfChar, info.BfChars)
	ranges(cm.BfRange, info.BfRanges)
	chars(cm.NotdefChar, info.NotdefChars)
	ranges(cm.NotdefRange, info.NotdefRanges)
	return t
}

// aliasCheck overwrites every element of one table at a time and looks whether
// another table changed.  The tables are restored afterwards.
func aliasCheck(info *postscript.CMapInfo) (k1, k2 cm.Kind, found bool) {
	nonEmpty := 0
	before := observeTables(info)
	for k := range before.T {
		if len(before.T[k]) > 0 {
			nonEmpty++
		}
	}
	if nonEmpty < 2 {
		return 0, 0, false
	}
	dump := func(t cm.Tables, k cm.Kind) string {
		var sb strings.Builder
		for _, e := range t.T[k] {
			sb.WriteString(e.Key())
			sb.WriteByte(';')
		}
		return sb.String()
	}
	var ref [cm.NumKinds]string
	for k := cm.Kind(0); k < cm.NumKinds; k++ {
		ref[k] = dump(before, k)
	}
	sentinel := postscript.String("\xEE\xEE\xEE\xEE\xEE")
	for k := cm.Kind(0); k < cm.NumKinds; k++ {
		var restore func()
		switch k {
		case cm.CodeSpaceRange:
			s := info.CodeSpaceRanges
			save := append([]postscript.CodeSpaceRange(nil), s...)
			for i := range s {
				s[i] = postscript.CodeSpaceRange{Low: sentinel, High: sentinel}
			}
			restore = func() { copy(s, save) }
		case cm.CidChar, cm.BfChar, cm.NotdefChar:
			s := map[cm.Kind][]postscript.CharMap{cm.CidChar: info.CidChars, cm.BfChar: info.BfChars, cm.NotdefChar: info.NotdefChars}[k]
			save := append([]postscript.CharMap(nil), s...)
			for i := range s {
				s[i] = postscript.CharMap{Src: sentinel, Dst: postscript.Integer(-99)}
			}
			restore = func() { copy(s, save) }
		default:
			s := map[cm.Kind][]postscript.RangeMap{cm.CidRange: info.CidRanges, cm.BfRange: info.BfRanges, cm.NotdefRange: info.NotdefRanges}[k]
			save := append([]postscript.RangeMap(nil), s...)
			for i := range s {
				s[i] = postscript.RangeMap{Low: sentinel, High: sentinel, Dst: postscript.Integer(-99)}
			}
			restore = func() { copy(s, save) }
		}
		after := observeTables(info)
		restore()
		for j := cm.Kind(0); j < cm.NumKinds; j++ {
			if j != k && dump(after, j) != ref[j] {
				return k, j, true
			}
		}
	}
	return 0, 0, false
}

func errClass(err error) string {
	parts := strings.SplitN(err.Error(), ": ", 3)
	if len(parts) > 2 {
		parts = parts[:2]
	}
	s := strings.Join(parts, ": ")
	if len(s) > 60 {
		s = s[:60]
	}
	return s
}

func bucket(n int) string {
	switch {
	case n == 0:
		return "0"
	case n <= 3:
		return "1-3"
	case n <= 9:
		return "4-9"
	case n < 100:
		return "10-99"
	}
	return "100+"
}

// run reads data with the library and judges the result against the model.
// faultAt names the kind of the block carrying the fault (for the key).
func run(c *mc.Ctx, f cm.File, data []byte, desc, faultAt string) mc.Verdict {
	// the sample rendering leaves out the constant DSC header so that the blocks are visible
	render := func() string {
		shown := data
		if i := bytes.Index(data, []byte("%%EndComments")); i > 0 && len(data) > 500 {
			shown = data[i:]
		}
		return fmt.Sprintf("%s | file (%d bytes, from %%%%EndComments on): %q", desc, len(data), shown)
	}
	fail := func(key, detail string) mc.Verdict {
		v := mc.Fail(key, fmt.Sprintf("%s | %s | whole file: %q", detail, desc, data))
		v.Render = render()
		return v
	}
	pass := func(outcome string, nontrivial bool) mc.Verdict {
		v := mc.Pass(outcome, nontrivial)
		if c.Render() {
			v.Render = render()
		}
		return v
	}

	// a pure function of the file decides how it arrives: all at once from a
	// bytes.Reader, or with the final bytes delivered together with io.EOF
	var src io.Reader = bytes.NewReader(data)
	if len(data)%2 == 1 {
		src = &dataWithEOF{data: data}
	} else if len(data)%4 == 2 {
		// chunks of 1..64 bytes with an idle read (0, nil) between any two (io.Reader permits it)
		es := env.NewSource(data)
		es.Decide = func(call, want, remaining int) (int, bool) {
			if call%2 == 1 {
				return -1, false
			}
			return 1 + (call*7)%64, false
		}
		src = es
	}
	if len(data)%3 == 0 {
		// every third file has been read once before, and the caller has
		// overwritten everything that first call returned (codes, bounds,
		// destinations, names): what a call returns belongs to the caller
		if pre, err0 := postscript.ReadCMap(bytes.NewReader(data)); err0 == nil {
			observe.Scribble(pre)
		}
	}
	d, err := postscript.ReadCMap(src)
	c.Step()

	if err != nil && d != nil {
		return fail("C07:error-and-dictionary", fmt.Sprintf("ReadCMap returned both a dictionary and the error %v", err))
	}
	if err == nil && d == nil {
		return fail("C07:neither-error-nor-dictionary", "ReadCMap returned nil, nil")
	}

	class, reason := f.Status()
	switch class {
	case cm.Reject:
		if err == nil {
			return fail("C07:fault-accepted:"+reason+":"+faultAt, fmt.Sprintf("file with fault %q must be rejected with an error, but a dictionary was returned: %s", reason, describeDict(d)))
		}
		return pass("rejected/"+reason+"/"+strings.SplitN(errClass(err), ":", 2)[0], true)
	case cm.Unspecified:
		if err != nil {
			return pass("unspecified/"+reason+"/error", false)
		}
		return pass("unspecified/"+reason+"/dictionary", false)
	}

	if err != nil {
		return fail("C07:valid-file-rejected:"+errClass(err), fmt.Sprintf("valid CMap file rejected: %v", err))
	}
	m := f.CMaps[f.Returned()]

	// header
	if n, ok := d["CMapName"].(postscript.Name); !ok || string(n) != m.Name {
		key := "C07:header:CMapName"
		if len(f.CMaps) > 1 {
			key = "C07:multi:wrong-cmap-returned"
		}
		return fail(key, fmt.Sprintf("expected CMapName /%s, got %v", m.Name, d["CMapName"]))
	}
	si, ok := d["CIDSystemInfo"].(postscript.Dict)
	if !ok {
		return fail("C07:header:CIDSystemInfo", fmt.Sprintf("CIDSystemInfo is %T, expected a dictionary", d["CIDSystemInfo"]))
	}
	if r, ok := si["Registry"].(postscript.String); !ok || string(r) != m.Registry {
		return fail("C07:header:CIDSystemInfo", fmt.Sprintf("expected Registry (%s), got %v", m.Registry, si["Registry"]))
	}
	if r, ok := si["Ordering"].(postscript.String); !ok || string(r) != m.Ordering {
		return fail("C07:header:CIDSystemInfo", fmt.Sprintf("expected Ordering (%s), got %v", m.Ordering, si["Ordering"]))
	}
	if s, ok := si["Supplement"].(postscript.Integer); !ok || int(s) != m.Supplement {
		return fail("C07:header:CIDSystemInfo", fmt.Sprintf("expected Supplement %d, got %v", m.Supplement, si["Supplement"]))
	}
	if t, ok := d["CMapType"].(postscript.Integer); !ok || int(t) != m.Type {
		return fail("C07:header:CMapType", fmt.Sprintf("expected CMapType %d, got %v", m.Type, d["CMapType"]))
	}
	if !m.NoWMode {
		if w, ok := d["WMode"].(postscript.Integer); !ok || int(w) != m.WMode {
			return fail("C07:header:WMode", fmt.Sprintf("expected WMode %d, got %v", m.WMode, d["WMode"]))
		}
	}

	// code map
	info, ok := d["CodeMap"].(*postscript.CMapInfo)
	if !ok || info == nil {
		return fail("C07:no-codemap", fmt.Sprintf("CodeMap is %T, expected *CMapInfo", d["CodeMap"]))
	}
	want := m.Expected()
	got := observeTables(info)
	if mm := cm.Compare(want, got); mm != nil {
		return fail("C07:"+mm.Table+":"+mm.What, mm.Detail)
	}
	if k1, k2, found := aliasCheck(info); found {
		return fail("C07:alias:"+k1.String()+"-"+k2.String(), fmt.Sprintf("overwriting the elements of table %s changed table %s: the tables share storage", k1, k2))
	}
	return pass(fmt.Sprintf("valid/cmaps=%d/blocks=%d/entries=%s", len(f.CMaps), len(m.Blocks), bucket(want.Count())), want.Count() > 0)
}

func describeDict(d postscript.Dict) string {
	info, _ := d["CodeMap"].(*postscript.CMapInfo)
	if info == nil {
		return fmt.Sprintf("CMapName=%v, no CodeMap", d["CMapName"])
	}
	t := observeTables(info)
	var parts []string
	for k := cm.Kind(0); k < cm.NumKinds; k++ {
		if len(t.T[k]) > 0 {
			parts = append(parts, k.String()+"="+cm.Dump(t.T[k]))
		}
	}
	return fmt.Sprintf("CMapName=%v %s", d["CMapName"], strings.Join(parts, " "))
}

// ------------------------------------------------------------ families

// pick is a deviation point (default 0) or a free choice.
func pick(c *mc.Ctx, n int, free bool) int {
	if n <= 1 {
		return 0
	}
	if free {
		return c.Choose(n)
	}
	return c.Deviate(n)
}

func buildCMap(hv int, use bool, seq []letter) cm.CMap {
	m := baseCMap(hv)
	if use {
		m.UseCMap = "Base-H"
	}
	for p, l := range seq {
		m.Blocks = append(m.Blocks, genBlock(l, p))
	}
	return m
}

// seqBody: item = sequence over the (kind, count) alphabet; code length
// pattern and destination variant of each block, usecmap, header variant and
// separator style are deviation points.
func seqBody(alpha []letter, index []int) func(c *mc.Ctx, item int) mc.Verdict {
	return func(c *mc.Ctx, item int) mc.Verdict {
		if index != nil {
			item = index[item]
		}
		ids := decodeSeq(item, len(alpha))
		seq := make([]letter, len(ids))
		for p, id := range ids {
			seq[p] = alpha[id]
		}
		for p := range seq {
			if seq[p].count > 0 {
				seq[p].pat = c.Deviate(3)
				seq[p].dst = pick(c, numDst(seq[p].kind), false)
			}
		}
		use := c.Deviate(2) == 1
		hv := c.Deviate(numHeaders)
		l := cm.Layout{Sep: c.Deviate(cm.NumSep)}
		f := cm.File{CMaps: []cm.CMap{buildCMap(hv, use, seq)}}
		data := cm.Write(f, l)
		return run(c, f, data, fmt.Sprintf("blocks %s usecmap=%v header=%d layout{%s}", seqString(seq), use, hv, l), "")
	}
}

// fullBody: item = sequence over the full alphabet (kind x count x pattern x
// destination variant); usecmap and header variant are free choices.
func fullBody(alpha []letter) func(c *mc.Ctx, item int) mc.Verdict {
	return func(c *mc.Ctx, item int) mc.Verdict {
		ids := decodeSeq(item, len(alpha))
		seq := make([]letter, len(ids))
		for p, id := range ids {
			seq[p] = alpha[id]
		}
		use := c.Choose(2) == 1
		hv := c.Choose(numHeaders)
		f := cm.File{CMaps: []cm.CMap{buildCMap(hv, use, seq)}}
		data := cm.Write(f, cm.Layout{})
		return run(c, f, data, fmt.Sprintf("blocks %s usecmap=%v header=%d", seqString(seq), use, hv), "")
	}
}

// layoutBody: item = sequence over a (kind, count) alphabet; every layout
// dimension and one insertion at any token gap are deviation points.
func layoutBody(alpha []letter) func(c *mc.Ctx, item int) mc.Verdict {
	return func(c *mc.Ctx, item int) mc.Verdict {
		ids := decodeSeq(item, len(alpha))
		seq := make([]letter, len(ids))
		for p, id := range ids {
			seq[p] = alpha[id]
			if seq[p].kind == cm.BfRange {
				seq[p].dst = 3
			}
			if seq[p].kind == cm.BfChar {
				seq[p].dst = 2
			}
		}
		var l cm.Layout
		l.Sep = c.Deviate(cm.NumSep)
		l.Comments = c.Deviate(cm.NumComments)
		l.DSC = c.Deviate(cm.NumDSC)
		l.LowerHex = c.Deviate(2) == 1
		l.HexSpaces = c.Deviate(2) == 1
		l.BlockLine = c.Deviate(2) == 1
		l.UseFirst = c.Deviate(2) == 1
		l.HeaderEnd = c.Deviate(2) == 1
		f := cm.File{CMaps: []cm.CMap{buildCMap(0, true, seq)}}
		toks := cm.Tokens(f, l)
		ins := c.Deviate(1 + cm.NumIns*(len(toks)+1))
		desc := ""
		if ins > 0 {
			gap, kind := (ins-1)/cm.NumIns, (ins-1)%cm.NumIns
			toks = cm.Insert(toks, gap, kind)
			desc = fmt.Sprintf(" insert %s before token %d", cm.InsNames[kind], gap)
		}
		data := cm.Render(toks, l)
		return run(c, f, data, fmt.Sprintf("blocks %s layout{%s}%s", seqString(seq), l, desc), "")
	}
}

type faultItem struct {
	seq   int
	fault fault
}

func faultItems(alpha []letter, depth int) []faultItem {
	var items []faultItem
	n := numSeqs(len(alpha), depth)
	for s := 0; s < n; s++ {
		ids := decodeSeq(s, len(alpha))
		seq := make([]letter, len(ids))
		for p, id := range ids {
			seq[p] = alpha[id]
		}
		items = append(items, faultItem{seq: s, fault: fault{typ: fNoBeginCMap}})
		for p := range seq {
			for _, ft := range faultsFor(seq, p) {
				items = append(items, faultItem{seq: s, fault: ft})
			}
		}
	}
	return items
}

func faultCase(alpha []letter, it faultItem) (cm.File, string, string) {
	ids := decodeSeq(it.seq, len(alpha))
	seq := make([]letter, len(ids))
	for p, id := range ids {
		seq[p] = alpha[id]
	}
	m := buildCMap(0, false, seq)
	what, at := "", "file"
	if it.fault.typ == fNoBeginCMap {
		m.NoBeginCMap = true
		what = "begincmap left out"
	} else {
		p := it.fault.pos
		what = applyFault(&m.Blocks[p], seq[p], p, it.fault)
		at = seq[p].kind.String()
	}
	desc := fmt.Sprintf("blocks %s fault %s at block %d: %s", seqString(seq), faultNames[it.fault.typ], it.fault.pos, what)
	return cm.File{CMaps: []cm.CMap{m}}, desc, at
}

func faultBody(alpha []letter, items []faultItem) func(c *mc.Ctx, item int) mc.Verdict {
	return func(c *mc.Ctx, item int) mc.Verdict {
		f, desc, at := faultCase(alpha, items[item])
		if class, reason := f.Status(); class != cm.Reject {
			panic(fmt.Sprintf("harness: fault variant not classified as reject (%s %s): %s", class, reason, desc))
		}
		return run(c, f, cm.Write(f, cm.Layout{}), desc, at)
	}
}

// structureBody: departures in the frame around the blocks.
func structureBody(alpha []letter) func(c *mc.Ctx, item int) mc.Verdict {
	return func(c *mc.Ctx, item int) mc.Verdict {
		ids := decodeSeq(item, len(alpha))
		seq := make([]letter, len(ids))
		for p, id := range ids {
			seq[p] = alpha[id]
		}
		m := buildCMap(0, false, seq)
		what := ""
		switch c.Choose(4) {
		case 0:
			m.NoDefineResource = true
			what = "no defineresource"
		case 1:
			m.ExtraEndCMap = true
			what = "endcmap twice"
		case 2:
			k := cm.Kind(c.Choose(int(cm.NumKinds)))
			n := c.Choose(2)
			b := genBlock(letter{kind: k, count: n}, len(seq))
			m.BlockAfterEnd = &b
			what = fmt.Sprintf("block %s(%d) after endcmap", k, n)
		case 3:
			m.NoBeginCMap = true
			m.NoDefineResource = true
			what = "neither begincmap nor defineresource"
		}
		f := cm.File{CMaps: []cm.CMap{m}}
		return run(c, f, cm.Write(f, cm.Layout{}), fmt.Sprintf("blocks %s, %s", seqString(seq), what), "file")
	}
}

var multiNames = []string{"AB-H", "B-H", "a-H"} // byte-wise ascending

var perms3 = [][]int{{0, 1, 2}, {0, 2, 1}, {1, 0, 2}, {1, 2, 0}, {2, 0, 1}, {2, 1, 0}}

// multiBody: n CMaps with one block each in one file; item = the n letters.
func multiBody(alpha []letter, n int) func(c *mc.Ctx, item int) mc.Verdict {
	return func(c *mc.Ctx, item int) mc.Verdict {
		ids := make([]int, n)
		x := item
		for i := n - 1; i >= 0; i-- {
			ids[i] = x % len(alpha)
			x /= len(alpha)
		}
		var perm []int
		if n == 2 {
			perm = [][]int{{0, 1}, {1, 0}, {2, 0}, {1, 2}}[c.Choose(4)]
		} else {
			perm = perms3[c.Choose(len(perms3))]
		}
		shared := c.Choose(2) == 1
		f := cm.File{SharedProcSet: shared}
		var parts []string
		for i, id := range ids {
			l := alpha[id]
			m := baseCMap(i)
			m.Name = multiNames[perm[i]]
			if i == 1 {
				m.UseCMap = "Base-H"
			}
			m.Blocks = []cm.Block{genBlock(l, i)}
			f.CMaps = append(f.CMaps, m)
			parts = append(parts, fmt.Sprintf("/%s %s", m.Name, l))
		}
		return run(c, f, cm.Write(f, cm.Layout{}), fmt.Sprintf("CMaps in file order: %s shared-procset=%v", strings.Join(parts, ", "), shared), "")
	}
}

// sortCodes are source codes whose relative order is easy to get wrong: a code
// and the same code followed by zero bytes, neighbours around them, codes of
// every length 1..4.
var sortCodes = [][]byte{{0x41}, {0x41, 0x00}, {0x41, 0x00, 0x00}, {0x41, 0x00, 0x00, 0x00}, {0x40, 0xff}, {0x41, 0x01}, {0x42}, {0x00}, {0x00, 0x00}, {0xff}}

// sortBody: one block of one kind whose entries use every ordered pair and
// triple of distinct sort codes as source codes, in file order; the table must
// come back sorted by source code (byte-wise; code-space ranges by length first).
func sortBody(c *mc.Ctx, item int) mc.Verdict {
	n := len(sortCodes)
	kind := cm.Kind(item % 7)
	rest := item / 7
	ids := []int{rest % n, (rest / n) % n}
	third := rest / n / n // 0 = pair only
	if third > 0 {
		ids = append(ids, third-1)
	}
	for i := range ids {
		for j := range ids {
			if i != j && ids[i] == ids[j] {
				return mc.Pass("n/a:repeated-code", false)
			}
		}
	}
	m := baseCMap(0)
	b := cm.Block{Kind: kind, Declared: -1}
	for i, id := range ids {
		lo := cm.Str(sortCodes[id]...)
		e := cm.Entry{Lo: lo}
		if kind.HasBounds() {
			e.Hi = lo
		}
		switch kind {
		case cm.CidChar, cm.CidRange, cm.NotdefChar, cm.NotdefRange:
			e.Dst = cm.Int(100 + i)
		case cm.BfChar, cm.BfRange:
			e.Dst = cm.Str(0, byte(0x30+i))
		}
		b.Entries = append(b.Entries, e)
	}
	m.Blocks = []cm.Block{b}
	f := cm.File{CMaps: []cm.CMap{m}}
	data := cm.Write(f, cm.Layout{})
	var desc []string
	for _, id := range ids {
		desc = append(desc, fmt.Sprintf("<%x>", sortCodes[id]))
	}
	return run(c, f, data, fmt.Sprintf("one %v block with source codes %s in this file order", kind, strings.Join(desc, " ")), "")
}

// dataWithEOF delivers as much as fits and reports io.EOF together with the last bytes.
type dataWithEOF struct {
	data []byte
	pos  int
}

func (r *dataWithEOF) Read(p []byte) (int, error) {
	n := copy(p, r.data[r.pos:])
	r.pos += n
	if r.pos == len(r.data) {
		return n, io.EOF
	}
	return n, nil
}

// largeBody: files of the size of real CJK CMaps and beyond: nb full blocks of
// 100 entries each, of one kind or of all kinds in rotation, with four-byte
// source codes in descending file order (so that sorting has work to do).
var largeKinds = []string{"cidrange", "cidchar", "bfchar", "bfrange", "notdefrange", "all kinds in rotation"}

func largeBody(sizes []int) func(c *mc.Ctx, item int) mc.Verdict {
	return func(c *mc.Ctx, item int) mc.Verdict {
		nb := sizes[item%len(sizes)]
		ki := item / len(sizes)
		m := baseCMap(0)
		m.Blocks = append(m.Blocks, cm.Block{Kind: cm.CodeSpaceRange, Declared: -1, Entries: []cm.Entry{{Lo: cm.Str(0, 0, 0, 0), Hi: cm.Str(0xff, 0xff, 0xff, 0xff)}}})
		kinds := []cm.Kind{cm.CidRange, cm.CidChar, cm.BfChar, cm.BfRange, cm.NotdefRange}
		next := uint32(nb*100*4 + 16)
		for b := 0; b < nb; b++ {
			kind := kinds[b%len(kinds)]
			if ki < len(kinds) {
				kind = kinds[ki]
			}
			blk := cm.Block{Kind: kind, Declared: -1}
			for e := 0; e < 100; e++ {
				next -= 4
				lo := cm.Str(byte(next>>24), byte(next>>16), byte(next>>8), byte(next))
				en := cm.Entry{Lo: lo}
				if kind.HasBounds() {
					hi := next + 2
					en.Hi = cm.Str(byte(hi>>24), byte(hi>>16), byte(hi>>8), byte(hi))
				}
				switch kind {
				case cm.BfChar, cm.BfRange:
					en.Dst = cm.Str(byte(next>>8), byte(next))
				default:
					en.Dst = cm.Int(int(next % 60000))
				}
				blk.Entries = append(blk.Entries, en)
			}
			m.Blocks = append(m.Blocks, blk)
		}
		f := cm.File{CMaps: []cm.CMap{m}}
		data := cm.Write(f, cm.Layout{})
		v := run(c, f, data, fmt.Sprintf("%d full blocks of 100 entries, %s", nb, largeKinds[ki]), "")
		if len(v.Render) > 400 {
			v.Render = v.Render[:400] + "…"
		}
		if len(v.Detail) > 1500 {
			v.Detail = v.Detail[:1500] + "…"
		}
		return v
	}
}

// extremeRangeBody: ranges that touch or span the ends of the code space of
// every width: the full range <00..> <ff..>, the full range minus one code at
// either end, single codes at both ends, for every range-mapping kind and for
// code-space ranges.
func extremeRangeBody(c *mc.Ctx, item int) mc.Verdict {
	width := 1 + item%4
	shape := (item / 4) % 5
	kind := []cm.Kind{cm.CidRange, cm.BfRange, cm.NotdefRange, cm.CodeSpaceRange}[item/20]
	lo, hi := bytes.Repeat([]byte{0x00}, width), bytes.Repeat([]byte{0xff}, width)
	switch shape {
	case 1:
		lo[width-1] = 1
	case 2:
		hi[width-1] = 0xfe
	case 3:
		hi = append([]byte{}, lo...)
	case 4:
		lo = append([]byte{}, hi...)
	}
	m := baseCMap(0)
	if kind != cm.CodeSpaceRange {
		m.Blocks = append(m.Blocks, cm.Block{Kind: cm.CodeSpaceRange, Declared: -1, Entries: []cm.Entry{{Lo: cm.Str(bytes.Repeat([]byte{0}, width)...), Hi: cm.Str(bytes.Repeat([]byte{0xff}, width)...)}}})
	}
	e := cm.Entry{Lo: cm.Str(lo...), Hi: cm.Str(hi...)}
	switch kind {
	case cm.CidRange, cm.NotdefRange:
		e.Dst = cm.Int(1)
	case cm.BfRange:
		e.Dst = cm.Str(0, 0x41)
	}
	m.Blocks = append(m.Blocks, cm.Block{Kind: kind, Declared: -1, Entries: []cm.Entry{e}})
	f := cm.File{CMaps: []cm.CMap{m}}
	return run(c, f, cm.Write(f, cm.Layout{}), fmt.Sprintf("one %v entry <%x> <%x>", kind, lo, hi), "")
}

// stackBoundaryBody: a bfrange block whose last entry maps to an array of
// glyph names.  While the array is being collected the operand stack holds the
// earlier entries (3 objects each), the two bounds, the mark and the names: 3k+n
// objects for k entries and n names.  Up to the interpreter's limit of 500
// objects this is an ordinary valid file.
var stackTotals = []int{300, 497, 498, 499, 500}
var stackEntries = []int{1, 2, 50, 99, 100}

func stackBoundaryBody(c *mc.Ctx, item int) mc.Verdict {
	k := stackEntries[item%len(stackEntries)]
	total := stackTotals[item/len(stackEntries)]
	n := total - 3*k
	m := baseCMap(0)
	m.Blocks = append(m.Blocks, cm.Block{Kind: cm.CodeSpaceRange, Declared: -1, Entries: []cm.Entry{{Lo: cm.Str(0, 0), Hi: cm.Str(0xff, 0xff)}}})
	var es []cm.Entry
	for i := 0; i < k-1; i++ {
		es = append(es, cm.Entry{Lo: cm.Str(0x20, byte(2*i)), Hi: cm.Str(0x20, byte(2*i+1)), Dst: cm.Str(0, byte(i))})
	}
	var names []cm.Value
	for j := 0; j < n; j++ {
		names = append(names, cm.Name(fmt.Sprintf("g%d", j)))
	}
	lo := 0x4000
	hi := lo + n - 1
	es = append(es, cm.Entry{Lo: cm.Str(byte(lo>>8), byte(lo)), Hi: cm.Str(byte(hi>>8), byte(hi)), Dst: cm.Array(names...)})
	m.Blocks = append(m.Blocks, cm.Block{Kind: cm.BfRange, Declared: -1, Entries: es})
	f := cm.File{CMaps: []cm.CMap{m}}
	return run(c, f, cm.Write(f, cm.Layout{}), fmt.Sprintf("bfrange block with %d entries, the last one mapping to an array of %d names (%d objects on the operand stack)", k, n, total), "")
}

// duplicateBody: "its code map holds exactly the file's entries": an entry
// that is written twice, word for word, is two entries (in one block, in two
// blocks of the same kind, next to other entries).
var dupKinds = []cm.Kind{cm.CidChar, cm.CidRange, cm.BfChar, cm.BfRange, cm.NotdefChar, cm.NotdefRange}

func duplicateBody(c *mc.Ctx, item int) mc.Verdict {
	kind := dupKinds[item%len(dupKinds)]
	shape := item / len(dupKinds)
	mk := func(i int) cm.Entry {
		e := cm.Entry{Lo: cm.Str(0x30, byte(0x10*i))}
		if kind.HasBounds() {
			e.Hi = cm.Str(0x30, byte(0x10*i+5))
		}
		switch kind {
		case cm.CidChar, cm.CidRange, cm.NotdefChar, cm.NotdefRange:
			e.Dst = cm.Int(100 + i)
		case cm.BfChar:
			e.Dst = cm.Str(0, byte(0x41+i))
		case cm.BfRange:
			e.Dst = cm.Str(0, byte(0x41+i))
		}
		return e
	}
	m := baseCMap(0)
	m.Blocks = append(m.Blocks, cm.Block{Kind: cm.CodeSpaceRange, Declared: -1, Entries: []cm.Entry{{Lo: cm.Str(0, 0), Hi: cm.Str(0xff, 0xff)}}})
	var what string
	switch shape {
	case 0:
		what = "the same entry twice in one block"
		m.Blocks = append(m.Blocks, cm.Block{Kind: kind, Declared: -1, Entries: []cm.Entry{mk(1), mk(1)}})
	case 1:
		what = "the same entry in two blocks"
		m.Blocks = append(m.Blocks, cm.Block{Kind: kind, Declared: -1, Entries: []cm.Entry{mk(1)}}, cm.Block{Kind: kind, Declared: -1, Entries: []cm.Entry{mk(1)}})
	case 2:
		what = "the same entry three times among others"
		m.Blocks = append(m.Blocks, cm.Block{Kind: kind, Declared: -1, Entries: []cm.Entry{mk(2), mk(1), mk(3), mk(1)}}, cm.Block{Kind: kind, Declared: -1, Entries: []cm.Entry{mk(0), mk(1)}})
	default:
		what = "two entries with the same source and different destinations, and one repeated"
		e := mk(1)
		if kind == cm.BfChar || kind == cm.BfRange {
			e.Dst = cm.Str(0, 0x7a)
		} else {
			e.Dst = cm.Int(999)
		}
		m.Blocks = append(m.Blocks, cm.Block{Kind: kind, Declared: -1, Entries: []cm.Entry{mk(1), e, mk(1)}})
	}
	f := cm.File{CMaps: []cm.CMap{m}}
	return run(c, f, cm.Write(f, cm.Layout{}), fmt.Sprintf("%v: %s", kind, what), "")
}

// preambleBody: a standard-form CMap behind a long licence header (comment
// lines, DSC lines or blank lines): what comes before `begincmap` may be of
// any length.
var preambleSizes = []int{0, 1000, 3000, 4000, 4080, 4090, 4095, 4096, 4097, 4100, 4200, 5000, 8192, 8200, 20000, 70000}
var preambleKinds = []string{"comment lines", "DSC comment lines", "blank lines", "one long comment line"}

func preambleBody(c *mc.Ctx, item int) mc.Verdict {
	size := preambleSizes[item%len(preambleSizes)]
	kind := item / len(preambleSizes)
	m := baseCMap(0)
	m.Blocks = []cm.Block{
		{Kind: cm.CodeSpaceRange, Declared: -1, Entries: []cm.Entry{{Lo: cm.Str(0), Hi: cm.Str(0xff)}}},
		{Kind: cm.CidRange, Declared: -1, Entries: []cm.Entry{{Lo: cm.Str(0x20), Hi: cm.Str(0x7e), Dst: cm.Int(1)}}},
	}
	f := cm.File{CMaps: []cm.CMap{m}}
	body := cm.Write(f, cm.Layout{})
	var pre bytes.Buffer
	for pre.Len() < size {
		switch kind {
		case 0:
			pre.WriteString("% Copyright 1990-2024 Example Systems Incorporated. All rights reserved.\n")
		case 1:
			pre.WriteString("%%Copyright: Example Systems Incorporated, redistribution with this notice\n")
		case 2:
			pre.WriteString("\n \n")
		default:
			pre.WriteString("% " + strings.Repeat("x", max(1, size-3)) + "\n")
		}
	}
	data := append(pre.Bytes(), body...)
	v := run(c, f, data, fmt.Sprintf("a one-block CMap behind %d bytes of %s", pre.Len(), preambleKinds[kind]), "")
	if len(v.Render) > 300 {
		v.Render = v.Render[:300] + "…"
	}
	if len(v.Detail) > 1200 {
		v.Detail = v.Detail[:1200] + "…"
	}
	return v
}

func describeSeq(alpha []letter) func(int) string {
	return func(item int) string {
		ids := decodeSeq(item, len(alpha))
		seq := make([]letter, len(ids))
		for p, id := range ids {
			seq[p] = alpha[id]
		}
		return "blocks " + seqString(seq)
	}
}

func pow(a, n int) int {
	r := 1
	for ; n > 0; n-- {
		r *= a
	}
	return r
}

func main() {
	mc.Main(mc.Program{
		Property: "C07",
		Assumptions: []string{
			"'sorted by source code' means byte-wise comparison of the code strings (code-space ranges: length first); entries with equal sort key may come in any order",
			"the operand stack is empty at every block (standard form), so a declared count above the entries supplied cannot be satisfied from older operands",
			"the whole file is delivered by a bytes.Reader (read patterns are property C12's subject)",
			"code values, destinations and names are fixed functions of (block position, entry index): the reader's control flow depends on types, lengths and byte order of codes, all of which are varied, not on particular values",
			"not treated as faults (the property is silent): declared count below the entries supplied, mismatched begin/end kinds, array element types, overlapping codes",
		},
		TrustedBase: []string{"verif/model/cmapmodel writer (token list → bytes)", "bytes.Reader"},
		Families: func(tier string) []mc.Family {
			thorough := tier == "thorough"
			small := []int{0, 1, 2, 3}
			kc := kcAlphabet(small)
			budget := 60 * time.Second
			depth := 3
			if thorough {
				budget = 9 * time.Minute
				depth = 4
			}
			var fams []mc.Family

			if thorough {
				fams = append(fams, mc.Family{
					Name:   "block-sequences-2-deviations",
					Items:  numSeqs(len(kc), 3),
					MaxDev: 2,
					Body:   seqBody(kc, nil),
					Budget: budget,
					Rule: "item = every sequence of <= 3 blocks over 7 kinds x entry count {0,1,2,3}; the deviation points of the next family, <= 2 per execution (so the attributes of two blocks, or one block attribute and usecmap/header/separator style, vary together); " +
						"non-trivial = tables equal to a model with >= 1 entry",
					Describe: describeSeq(kc),
					CrashKey: func(int) string { return "C07:crash:block-sequences" },
				})
			}
			fams = append(fams, mc.Family{
				Name:   "block-sequences",
				Items:  numSeqs(len(kc), depth),
				MaxDev: 1,
				Body:   seqBody(kc, nil),
				Budget: budget,
				Rule: fmt.Sprintf("item = every sequence of <= %d blocks over the alphabet 7 kinds x entry count {0,1,2,3} (all ordered pairs/triples of kinds with growing and shrinking counts); "+
					"deviation points (<= 1 per execution): per block code length pattern {mixed 1-4, all 1, all 2} and destination variant (bfchar: string/name/alternating; bfrange: string/names[]/strings[]/alternating), usecmap present, 4 header variants, 6 separator styles; "+
					"non-trivial = file read without error and all seven tables compared equal to a model with >= 1 entry", depth),
				Describe: describeSeq(kc),
				CrashKey: func(int) string { return "C07:crash:block-sequences" },
			})

			if thorough {
				kc100 := kcAlphabet([]int{0, 1, 2, 3, 100})
				var with100 []int
				for s, n := 0, numSeqs(len(kc100), 3); s < n; s++ {
					for _, id := range decodeSeq(s, len(kc100)) {
						if kc100[id].count == 100 {
							with100 = append(with100, s)
							break
						}
					}
				}
				d100 := describeSeq(kc100)
				fams = append(fams, mc.Family{
					Name:   "block-sequences-with-100",
					Items:  len(with100),
					MaxDev: 1,
					Body:   seqBody(kc100, with100),
					Budget: budget,
					Rule: "item = every sequence of <= 3 blocks over 7 kinds x entry count {0,1,2,3,100} that contains a 100-entry block (the others are in the previous family); same deviation points; " +
						"non-trivial = file read without error and tables equal to a model with >= 1 entry",
					Describe: func(i int) string { return d100(with100[i]) },
					CrashKey: func(int) string { return "C07:crash:block-sequences" },
				})
			}

			fullCounts := small
			if thorough {
				fullCounts = []int{0, 1, 2, 3, 100}
			}
			full := fullAlphabet(fullCounts)
			fams = append(fams, mc.Family{
				Name:   "pairs-full-alphabet",
				Items:  numSeqs(len(full), 2),
				Body:   fullBody(full),
				Budget: budget,
				Rule: fmt.Sprintf("item = every sequence of <= 2 blocks over the full alphabet kind x count %v x code length pattern x destination variant (%d letters; count 0 has no pattern/destination); free choices: usecmap {absent, present} x 4 header variants; "+
					"non-trivial = tables equal to a model with >= 1 entry", fullCounts, len(full)),
				Describe: describeSeq(full),
				CrashKey: func(int) string { return "C07:crash:pairs-full-alphabet" },
			})

			layCounts, layDev := []int{0, 1, 3}, 1
			if thorough {
				layDev = 2
			}
			lay := kcAlphabet(layCounts)
			fams = append(fams, mc.Family{
				Name:   "layouts",
				Items:  numSeqs(len(lay), 2),
				MaxDev: layDev,
				Body:   layoutBody(lay),
				Budget: budget,
				Rule: fmt.Sprintf("item = every sequence of <= 2 blocks over 7 kinds x count %v (usecmap present, bf destinations alternating); deviation points (<= %d per execution): separator style (LF, CR, CRLF, single spaces, tabs/FF/NUL/blank lines, no white space where tokens delimit themselves), comments (none, trailing on every line, lines before every entry, lines containing delimiters), "+
					"%%%% lines (standard header, none, no comment at all, Key: value lines with %%%%+ continuation inside blocks, odd ones inside blocks), lower-case hex, white space inside hex strings, whole block on one line, usecmap right after begincmap, header definitions after the blocks, and one insertion (comment, %%%% line, white-space run) at any one token gap of the file; "+
					"non-trivial = tables equal to a model with >= 1 entry", layCounts, layDev),
				Describe: describeSeq(lay),
				CrashKey: func(int) string { return "C07:crash:layouts" },
			})

			fAlpha := kc
			if thorough {
				fAlpha = kcAlphabet([]int{0, 1, 2, 3, 100})
			}
			fitems := faultItems(fAlpha, 2)
			fams = append(fams, mc.Family{
				Name:   "single-faults",
				Items:  len(fitems),
				Body:   faultBody(fAlpha, fitems),
				Budget: budget,
				Rule: "item = (sequence of <= 2 blocks over the (kind,count) alphabet, one fault): begincmap left out (every sequence incl. the empty one); at every block position: 101 entries declared and supplied; declared count = entries+1, entries+3, last operand left out; " +
					"at every entry of that block: high bound longer / shorter / low bound longer (4 kinds with bounds); low > high in the last byte / first byte (3 range-mapping kinds); destination of each type in {integer, real, boolean, string, name, array, procedure} the kind does not take; source code / low / high bound an integer or a name; " +
					"non-trivial = an error and no dictionary were returned (every case)",
				Describe: func(i int) string { _, d, _ := faultCase(fAlpha, fitems[i]); return d },
				CrashKey: func(i int) string { return "C07:crash:fault:" + faultNames[fitems[i].fault.typ] },
			})

			fams = append(fams, mc.Family{
				Name:   "frame-departures",
				Items:  numSeqs(len(kc), 2),
				Body:   structureBody(kc),
				Budget: budget,
				Rule: "item = every sequence of <= 2 blocks over 7 kinds x count {0,1,2,3}; free choice: no defineresource (error demanded), endcmap twice, a block of each kind with 0/1 entries after endcmap (only 'error XOR dictionary' demanded), neither begincmap nor defineresource (error demanded); " +
					"non-trivial = error returned where one is demanded",
				Describe: describeSeq(kc),
				CrashKey: func(int) string { return "C07:crash:frame-departures" },
			})

			fams = append(fams, mc.Family{
				Name:     "two-cmaps-in-one-file",
				Items:    pow(len(kc), 2),
				Body:     multiBody(kc, 2),
				Budget:   budget,
				Rule:     "item = ordered pair of (kind,count) letters, one block per CMap; free choices: 4 assignments of the names AB-H < B-H < a-H (byte-wise) to file positions x one shared or one CIDInit begin/end per CMap; the dictionary returned must be the CMap with the smallest name, with its own tables although the scratch buffers were last used by the other CMap; non-trivial = tables equal to a model with >= 1 entry",
				CrashKey: func(int) string { return "C07:crash:multi" },
			})
			three := kcAlphabet([]int{1, 3})
			if thorough {
				three = kc
			}
			fams = append(fams, mc.Family{
				Name:     "three-cmaps-in-one-file",
				Items:    pow(len(three), 3),
				Body:     multiBody(three, 3),
				Budget:   budget,
				Rule:     fmt.Sprintf("item = ordered triple of letters over 7 kinds x count %v, one block per CMap; free choices: all 6 assignments of three names to file positions x shared/separate CIDInit begin; oracle as for two CMaps", map[bool][]int{false: {1, 3}, true: small}[thorough]),
				CrashKey: func(int) string { return "C07:crash:multi" },
			})
			fams = append(fams, mc.Family{
				Name:     "sort-order",
				Items:    7 * len(sortCodes) * len(sortCodes) * (len(sortCodes) + 1),
				Body:     sortBody,
				Budget:   budget,
				Rule:     fmt.Sprintf("item = (kind of 7, ordered pair or triple of distinct source codes from %x written in that file order): a code and the same code followed by 1..3 zero bytes, their byte-wise neighbours, codes of every length; the table must come back sorted by source code (code-space ranges by length, then code); non-trivial = distinct codes", sortCodes),
				CrashKey: func(int) string { return "C07:crash:sort-order" },
			})
			fams = append(fams, mc.Family{
				Name:     "ranges-at-the-ends-of-the-code-space",
				Items:    4 * 5 * 4,
				Body:     extremeRangeBody,
				Budget:   budget,
				Rule:     "item = code width 1..4 x range {full <00..> <ff..>, full minus the first code, full minus the last code, the first code alone, the last code alone} x kind {cidrange, bfrange, notdefrange, codespacerange}: each is a valid entry and must be returned unchanged; non-trivial = all",
				CrashKey: func(int) string { return "C07:crash:extreme-ranges" },
			})
			fams = append(fams, mc.Family{
				Name:     "repeated-entries",
				Items:    len(dupKinds) * 4,
				Body:     duplicateBody,
				Budget:   budget,
				Rule:     "item = kind of 6 mapping kinds x {the same entry twice in one block; in two blocks; three times among other entries in two blocks; two entries with one source and different destinations plus a repetition}: every entry of every block is in the table (compared as a multiset per source code, since the order among equal sources is not prescribed); non-trivial = all",
				CrashKey: func(int) string { return "C07:crash:repeated-entries" },
			})
			fams = append(fams, mc.Family{
				Name:     "operand-stack-boundary",
				Items:    len(stackTotals) * len(stackEntries),
				Body:     stackBoundaryBody,
				Budget:   budget,
				Rule:     fmt.Sprintf("item = a bfrange block with k in %v entries whose last entry maps to an array of n glyph names, n chosen so that 3k+n (the objects on the operand stack while the array is collected) is one of %v: valid files up to the documented limit of 500 objects, to be returned entry for entry; non-trivial = all", stackEntries, stackTotals),
				CrashKey: func(int) string { return "C07:crash:operand-stack-boundary" },
			})
			fams = append(fams, mc.Family{
				Name:   "long-preamble",
				Items:  len(preambleSizes) * len(preambleKinds),
				Body:   preambleBody,
				Budget: budget,
				Rule:   fmt.Sprintf("item = (size of what precedes the CMap in %v bytes) x (%v): a one-block CMap in standard form behind a header of that size; it must be read exactly as without the header; non-trivial = all", preambleSizes, preambleKinds),
				Describe: func(i int) string {
					return fmt.Sprintf("%d bytes of %s", preambleSizes[i%len(preambleSizes)], preambleKinds[i/len(preambleSizes)])
				},
				CrashKey: func(int) string { return "C07:crash:long-preamble" },
			})
			largeSizes := []int{1, 30, 300, 1000}
			if tier == "thorough" {
				largeSizes = append(largeSizes, 2500)
			}
			fams = append(fams, mc.Family{
				Name:   "large-cmaps",
				Items:  len(largeSizes) * len(largeKinds),
				Body:   largeBody(largeSizes),
				Budget: budget,
				Rule:   fmt.Sprintf("item = (number of full 100-entry blocks in %v) x (kind: %v): one CMap with a four-byte code space and that many blocks, source codes in descending file order; every entry must come back, sorted; non-trivial = all", largeSizes, largeKinds),
				Describe: func(i int) string {
					return fmt.Sprintf("%d blocks, %s", largeSizes[i%len(largeSizes)], largeKinds[i/len(largeSizes)])
				},
				CrashKey: func(int) string { return "C07:crash:large-cmaps" },
			})
			return fams
		},
	})
}
