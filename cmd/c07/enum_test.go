package main

import (
	"strings"
	"testing"

	cm "verif/model/cmapmodel"
)

func encodeSeq(ids []int, a int) int {
	idx, pw := 0, 1
	for i := 0; i < len(ids); i++ {
		idx += pw
		pw *= a
	}
	x := 0
	for _, id := range ids {
		x = x*a + id
	}
	return idx + x
}

func letterIndex(alpha []letter, k cm.Kind, n int) int {
	for i, l := range alpha {
		if l.kind == k && l.count == n {
			return i
		}
	}
	return -1
}

// The sequences named in the task must be items of the quick enumeration.
func TestEnumerationContains(t *testing.T) {
	kc := kcAlphabet([]int{0, 1, 2, 3})
	items := numSeqs(len(kc), 3)
	if items != 22765 {
		t.Fatalf("items = %d", items)
	}
	for _, want := range [][]letter{
		{{kind: cm.CidChar, count: 3}, {kind: cm.BfChar, count: 1}, {kind: cm.CidChar, count: 2}},
		{{kind: cm.CidRange, count: 2}, {kind: cm.NotdefRange, count: 3}},
		{{kind: cm.NotdefRange, count: 3}, {kind: cm.CidRange, count: 1}, {kind: cm.BfRange, count: 3}},
	} {
		var ids []int
		for _, l := range want {
			ids = append(ids, letterIndex(kc, l.kind, l.count))
		}
		idx := encodeSeq(ids, len(kc))
		if idx >= items {
			t.Fatalf("%v: index %d outside the %d items", want, idx, items)
		}
		back := decodeSeq(idx, len(kc))
		if len(back) != len(ids) {
			t.Fatalf("%v: decoded length %d", want, len(back))
		}
		for i := range ids {
			if back[i] != ids[i] {
				t.Fatalf("%v: decode(%d) = %v, want %v", want, idx, back, ids)
			}
		}
	}
}

// decodeSeq is a bijection between [0, numSeqs) and the sequences.
func TestDecodeBijective(t *testing.T) {
	const a, d = 5, 4
	seen := map[string]bool{}
	for i := 0; i < numSeqs(a, d); i++ {
		ids := decodeSeq(i, a)
		if len(ids) > d {
			t.Fatalf("index %d decodes to length %d", i, len(ids))
		}
		var sb strings.Builder
		for _, id := range ids {
			sb.WriteByte(byte('a' + id))
		}
		if seen[sb.String()] {
			t.Fatalf("sequence %q twice", sb.String())
		}
		seen[sb.String()] = true
		if encodeSeq(ids, a) != i {
			t.Fatalf("encode(decode(%d)) = %d", i, encodeSeq(ids, a))
		}
	}
}

// The model and the writer on a hand-written example.
func TestModelExample(t *testing.T) {
	m := cm.CMap{Name: "N", Registry: "R", Ordering: "O", Supplement: 1, Type: 1, UseCMap: "U", Blocks: []cm.Block{
		{Kind: cm.CidChar, Declared: -1, Entries: []cm.Entry{{Lo: cm.Str(0x42), Dst: cm.Int(2)}, {Lo: cm.Str(0x41, 0x00), Dst: cm.Int(1)}}},
		{Kind: cm.CodeSpaceRange, Declared: -1, Entries: []cm.Entry{{Lo: cm.Str(0x81, 0x40), Hi: cm.Str(0x9F, 0xFC)}, {Lo: cm.Str(0xA0), Hi: cm.Str(0xDF)}}},
		{Kind: cm.CidChar, Declared: -1, Entries: []cm.Entry{{Lo: cm.Str(0x41), Dst: cm.Int(3)}}},
	}}
	f := cm.File{CMaps: []cm.CMap{m}}
	if c, r := f.Status(); c != cm.Valid {
		t.Fatal(c, r)
	}
	tab := m.Expected()
	if got := cm.Dump(tab.T[cm.CidChar]); got != "{<41> - 3; <4100> - 1; <42> - 2}" {
		t.Error(got)
	}
	if got := cm.Dump(tab.T[cm.CodeSpaceRange]); got != "{<a0> <df> -; <8140> <9ffc> -}" {
		t.Error(got)
	}
	text := string(cm.Write(f, cm.Layout{DSC: cm.DSCNothing}))
	want := "/CIDInit /ProcSet findresource begin\n12 dict begin\nbegincmap\n" +
		"/CIDSystemInfo 3 dict dup begin\n/Registry (R) def\n/Ordering (O) def\n/Supplement 1 def\nend def\n" +
		"/CMapName /N def\n/CMapVersion 1.000 def\n/CMapType 1 def\n/UIDOffset 0 def\n/XUID [ 1 10 25343 ] def\n/WMode 0 def\n" +
		"/U usecmap\n" +
		"2 begincidchar\n<42> 2\n<4100> 1\nendcidchar\n" +
		"2 begincodespacerange\n<8140> <9FFC>\n<A0> <DF>\nendcodespacerange\n" +
		"1 begincidchar\n<41> 3\nendcidchar\n" +
		"endcmap\nCMapName currentdict /CMap defineresource pop\nend\nend\n"
	if text != want {
		t.Errorf("writer output:\n%s\nwant:\n%s", text, want)
	}
	min := string(cm.Write(f, cm.Layout{DSC: cm.DSCNothing, Sep: cm.SepMinimal}))
	if !strings.Contains(min, "2 begincidchar<42>2<4100>1 endcidchar 2 begincodespacerange<8140><9FFC><A0><DF>endcodespacerange") {
		t.Errorf("minimal layout: %s", min)
	}
	// every fault class is recognised by the model
	for _, b := range []struct {
		blk    cm.Block
		reason string
	}{
		{cm.Block{Kind: cm.CidChar, Declared: 101}, "count-over-100"},
		{cm.Block{Kind: cm.CidChar, Declared: 1}, "declared-more-than-supplied"},
		{cm.Block{Kind: cm.CidRange, Declared: -1, Entries: []cm.Entry{{Lo: cm.Str(1), Hi: cm.Str(1, 2), Dst: cm.Int(1)}}}, "bounds-of-unequal-length"},
		{cm.Block{Kind: cm.CidRange, Declared: -1, Entries: []cm.Entry{{Lo: cm.Str(2), Hi: cm.Str(1), Dst: cm.Int(1)}}}, "low-above-high"},
		{cm.Block{Kind: cm.BfRange, Declared: -1, Entries: []cm.Entry{{Lo: cm.Str(1), Hi: cm.Str(1), Dst: cm.Name("a")}}}, "wrong-destination-type"},
		{cm.Block{Kind: cm.BfChar, Declared: -1, Entries: []cm.Entry{{Lo: cm.Int(1), Dst: cm.Name("a")}}}, "source-not-a-string"},
	} {
		f := cm.File{CMaps: []cm.CMap{{Name: "N", Blocks: []cm.Block{b.blk}}}}
		if c, r := f.Status(); c != cm.Reject || r != b.reason {
			t.Errorf("%v: %s %s, want reject %s", b.blk, c, r, b.reason)
		}
	}
	// reversed code-space range: a reversed range like any other (rejected since fix 15a96e6)
	f = cm.File{CMaps: []cm.CMap{{Name: "N", Blocks: []cm.Block{{Kind: cm.CodeSpaceRange, Declared: -1, Entries: []cm.Entry{{Lo: cm.Str(2), Hi: cm.Str(1)}}}}}}}
	if c, _ := f.Status(); c != cm.Reject {
		t.Error("reversed code-space range classified as", c)
	}
}
