package main

// coldGlobals is the deep image of all package-level variables of the library
// packages taken before this process has made a single library call: the file
// name sorts first, so this initialiser runs before every other package-level
// initialiser of the check (some of which build their inputs with the library's
// own writers).  ensureBaseline compares it with the image after the benign
// warm-up: only variables that held nothing may differ.
var coldGlobals, coldEmpty = captureCold()

func captureCold() (string, map[string]bool) {
	g, _ := globalsImage()
	return g, emptyGlobals()
}
