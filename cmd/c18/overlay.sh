#!/bin/bash
# regenerates the sync-shim + globals overlay from /repo's working tree
# usage: overlay.sh <out.json> [rel=file ...]
set -e
here="$(cd "$(dirname "$0")/../.." && pwd)"
out="$1"; shift
export GOFLAGS=-mod=mod GOPROXY=off GOSUMDB=off GOTOOLCHAIN=local
if [ ! -x "$here/build/bin/instrument" ] || [ "$here/tools/instrument/main.go" -nt "$here/build/bin/instrument" ]; then
  (cd "$here/tools/instrument" && go build -o "$here/build/bin/instrument" .)
fi
args=()
for r in "$@"; do args+=(-replace "$r"); done
gen="$here/build/gen-c18"; report="$here/build/gen-c18-sites.json"
# a mutant run (tools/mutrun.sh) gets its own generated files: it may run next to the real check
case "$(basename "$out")" in *-mut-*) gen="$here/build/gen-$(basename "$out" .json)"; report="$gen-sites.json";; esac
"$here/build/bin/instrument" -mode sync,globals,pkgvars -out "$out" -gen "$gen" -rt "$here/overlay/zzverifrt.go.txt" -report "$report" "${args[@]}"
# add the reset shim for the lazily initialised name tables; if it no longer fits the
# package's internals use the do-nothing fallback (the check then reports shim_unavailable)
addshim() {
python3 - "$out" "$1" <<'PY'
import json,sys
o=json.load(open(sys.argv[1]))
o["Replace"]["/repo/type1/names/zz_verif_reset.go"]=sys.argv[2]
json.dump(o,open(sys.argv[1],"w"),indent=1)
PY
}
addshim "$here/cmd/c18/export_names.go.txt"
outabs="$(cd "$(dirname "$out")" && pwd)/$(basename "$out")"
if ! (cd /repo && go build -overlay "$outabs" ./type1/names/ 2>/dev/null); then
  addshim "$here/cmd/c18/export_names_fallback.go.txt"
fi
