package main

import (
	"fmt"
	"hash/fnv"
	"reflect"
	"sort"
	"strings"
)

// opaque reports whether values of type t are not looked into: types of a few
// standard packages whose values are immutable once built or carry only
// synchronisation state (regexp, text/template, embed, errors, time, sync, the
// sync shim).  Their identity (nil or not) still enters the image.  Everything
// else — including bytes.Buffer, strings.Builder, bufio and container types — is
// walked field by field, exported or not.
var opaquePkgs = map[string]bool{
	"regexp": true, "regexp/syntax": true, "text/template": true, "text/template/parse": true,
	"embed": true, "errors": true, "time": true, "sync": true, "sync/atomic": true, "reflect": true,
	"io/fs": true, "unicode": true,
}

func opaque(t reflect.Type) bool {
	if t.PkgPath() == "" {
		return false
	}
	return opaquePkgs[t.PkgPath()] || strings.HasSuffix(t.PkgPath(), "/zzverifrt")
}

// walker renders a deep, address-free image of a value and collects the
// addresses of the mutable heap nodes (maps, non-empty slices) it reaches.
type walker struct {
	sb      strings.Builder
	seenPtr map[uintptr]int
	nodes   map[uintptr]string // address -> path of first discovery
	path    []string
	limit   int
}

func newWalker() *walker {
	return &walker{seenPtr: map[uintptr]int{}, nodes: map[uintptr]string{}}
}

func (w *walker) p() string { return strings.Join(w.path, "") }

func (w *walker) walk(v reflect.Value, depth int) {
	if depth > 60 {
		w.sb.WriteString("…")
		return
	}
	if !v.IsValid() {
		w.sb.WriteString("invalid ")
		return
	}
	t := v.Type()
	if opaque(t) && v.Kind() != reflect.Interface {
		switch v.Kind() {
		case reflect.Ptr, reflect.Map, reflect.Slice, reflect.Func, reflect.Chan:
			fmt.Fprintf(&w.sb, "<%s nil=%v> ", t, v.IsNil())
		default:
			fmt.Fprintf(&w.sb, "<%s> ", t)
		}
		return
	}
	switch v.Kind() {
	case reflect.Bool:
		fmt.Fprintf(&w.sb, "%v ", v.Bool())
	case reflect.Int, reflect.Int8, reflect.Int16, reflect.Int32, reflect.Int64:
		fmt.Fprintf(&w.sb, "%d ", v.Int())
	case reflect.Uint, reflect.Uint8, reflect.Uint16, reflect.Uint32, reflect.Uint64, reflect.Uintptr:
		fmt.Fprintf(&w.sb, "%d ", v.Uint())
	case reflect.Float32, reflect.Float64:
		fmt.Fprintf(&w.sb, "%v ", v.Float())
	case reflect.String:
		fmt.Fprintf(&w.sb, "%q ", v.String())
	case reflect.Func:
		if v.IsNil() {
			w.sb.WriteString("func:nil ")
		} else {
			fmt.Fprintf(&w.sb, "func:%x ", v.Pointer()) // code pointers are fixed within a process
		}
	case reflect.Ptr:
		if v.IsNil() {
			w.sb.WriteString("nil ")
			return
		}
		addr := v.Pointer()
		if id, ok := w.seenPtr[addr]; ok {
			fmt.Fprintf(&w.sb, "^%d ", id)
			return
		}
		id := len(w.seenPtr)
		w.seenPtr[addr] = id
		fmt.Fprintf(&w.sb, "&%d", id)
		w.walk(v.Elem(), depth+1)
	case reflect.Interface:
		if v.IsNil() {
			w.sb.WriteString("nil ")
			return
		}
		w.walk(v.Elem(), depth+1)
	case reflect.Struct:
		w.sb.WriteString(t.Name() + "{")
		for i := 0; i < v.NumField(); i++ {
			w.sb.WriteString(t.Field(i).Name + ":")
			w.path = append(w.path, "."+t.Field(i).Name)
			w.walk(v.Field(i), depth+1)
			w.path = w.path[:len(w.path)-1]
		}
		w.sb.WriteString("} ")
	case reflect.Map:
		if v.IsNil() {
			w.sb.WriteString("nilmap ")
			return
		}
		addr := v.Pointer()
		if id, ok := w.seenPtr[addr]; ok {
			fmt.Fprintf(&w.sb, "^%d ", id)
			return
		}
		w.seenPtr[addr] = len(w.seenPtr)
		if _, ok := w.nodes[addr]; !ok {
			w.nodes[addr] = w.p()
		}
		type kv struct {
			k string
			v reflect.Value
		}
		var kvs []kv
		it := v.MapRange()
		for it.Next() {
			kw := &walker{seenPtr: w.seenPtr, nodes: w.nodes}
			kw.walk(it.Key(), depth+1)
			kvs = append(kvs, kv{kw.sb.String(), it.Value()})
		}
		sort.Slice(kvs, func(i, j int) bool { return kvs[i].k < kvs[j].k })
		w.sb.WriteString("map[")
		for _, e := range kvs {
			w.sb.WriteString(e.k + "=")
			w.path = append(w.path, "["+strings.TrimSpace(e.k)+"]")
			w.walk(e.v, depth+1)
			w.path = w.path[:len(w.path)-1]
		}
		w.sb.WriteString("] ")
	case reflect.Slice:
		if v.IsNil() {
			w.sb.WriteString("nilslice ")
			return
		}
		if v.Len() > 0 {
			addr := v.Pointer()
			if _, ok := w.nodes[addr]; !ok {
				w.nodes[addr] = w.p()
			}
		}
		fallthrough
	case reflect.Array:
		// a slice is rendered up to its capacity: storage behind the length is
		// where a reused scratch buffer keeps what the last user left in it
		full := v
		if v.Kind() == reflect.Slice && v.Cap() > v.Len() {
			full = v.Slice(0, v.Cap())
		}
		if t.Elem().Kind() == reflect.Uint8 && v.Kind() == reflect.Slice {
			fmt.Fprintf(&w.sb, "%x", full.Bytes()[:v.Len()])
			if full.Len() > v.Len() {
				fmt.Fprintf(&w.sb, "+cap:%x", full.Bytes()[v.Len():])
			}
			w.sb.WriteString(" ")
			return
		}
		w.sb.WriteString("[")
		for i := 0; i < full.Len(); i++ {
			if i == v.Len() {
				w.sb.WriteString("+cap: ")
			}
			w.path = append(w.path, fmt.Sprintf("[%d]", i))
			w.walk(full.Index(i), depth+1)
			w.path = w.path[:len(w.path)-1]
		}
		w.sb.WriteString("] ")
	case reflect.Chan, reflect.UnsafePointer:
		fmt.Fprintf(&w.sb, "<%s> ", t)
	default:
		fmt.Fprintf(&w.sb, "?%s ", v.Kind())
	}
}

func hashString(s string) string {
	h := fnv.New64a()
	h.Write([]byte(s))
	return fmt.Sprintf("%016x", h.Sum64())
}

// scribble overwrites everything that can be reached and written through v:
// slice elements (also those behind the length), map values (and one new key),
// exported struct fields, what pointers and interfaces lead to.  It is what a
// caller may legally do to a value the library handed over.
func scribble(v reflect.Value, seen map[uintptr]bool, depth int) {
	if !v.IsValid() || depth > 12 {
		return
	}
	switch v.Kind() {
	case reflect.Ptr:
		if v.IsNil() || seen[v.Pointer()] {
			return
		}
		seen[v.Pointer()] = true
		scribble(v.Elem(), seen, depth+1)
	case reflect.Interface:
		if !v.IsNil() {
			scribble(v.Elem(), seen, depth+1)
		}
	case reflect.Struct:
		if opaque(v.Type()) {
			return
		}
		for i := 0; i < v.NumField(); i++ {
			if v.Type().Field(i).IsExported() {
				scribble(v.Field(i), seen, depth+1)
			}
		}
	case reflect.Slice:
		if v.IsNil() || v.Cap() == 0 {
			return
		}
		full := v.Slice(0, v.Cap())
		if seen[full.Pointer()] {
			return
		}
		seen[full.Pointer()] = true
		for i := 0; i < full.Len(); i++ {
			scribble(full.Index(i), seen, depth+1)
		}
	case reflect.Array:
		for i := 0; i < v.Len(); i++ {
			scribble(v.Index(i), seen, depth+1)
		}
	case reflect.Map:
		if v.IsNil() || seen[v.Pointer()] {
			return
		}
		seen[v.Pointer()] = true
		it := v.MapRange()
		var keys []reflect.Value
		for it.Next() {
			keys = append(keys, it.Key())
			scribble(it.Value(), seen, depth+1) // what the value leads to
		}
		zero := reflect.Zero(v.Type().Elem())
		for _, k := range keys {
			func() {
				defer func() { recover() }()
				v.SetMapIndex(k, zero)
			}()
		}
		if v.Type().Key().Kind() == reflect.String {
			func() {
				defer func() { recover() }()
				v.SetMapIndex(reflect.ValueOf("scribbled").Convert(v.Type().Key()), zero)
			}()
		}
	default:
		if !v.CanSet() {
			return
		}
		switch v.Kind() {
		case reflect.String:
			v.SetString("scribbled")
		case reflect.Bool:
			v.SetBool(!v.Bool())
		case reflect.Int, reflect.Int8, reflect.Int16, reflect.Int32, reflect.Int64:
			v.SetInt(99)
		case reflect.Uint, reflect.Uint8, reflect.Uint16, reflect.Uint32, reflect.Uint64:
			v.SetUint(0x5a)
		case reflect.Float32, reflect.Float64:
			v.SetFloat(-99.5)
		}
	}
}

func scribbleAll(vals ...any) {
	seen := map[uintptr]bool{}
	for _, x := range vals {
		scribble(reflect.ValueOf(x), seen, 0)
	}
}
