// C18 — interpreter instances are isolated and the library is free of data races.
//
// Built with an overlay generated from /repo's working tree (tools/instrument
// -mode sync,globals): the "sync" import of every package that uses it is
// redirected to a scheduler-aware shim, every access to a field living next to
// a lock and every map access in such a package is hooked, and every package
// gains VerifGlobals() listing pointers to all its package-level variables.
//
//	G1 histories: explicit-state search whose state is a deep image of every
//	   package-level variable of the library plus the observable behaviour of a
//	   probe workload on a fresh interpreter; transitions = hostile programs run
//	   on throw-away interpreters (every container reachable from a fresh
//	   interpreter x every mutating operator, programs that fail half-way or hit
//	   the budget, hostile fonts/CMaps through the readers).  All sequences of
//	   <= 2 (thorough 3) hostile programs; invariant: the state never changes.
//	G2 no sharing: the mutable heap nodes (maps, slice storage) reachable from
//	   two fresh interpreters and from the package-level variables are pairwise
//	   disjoint, on fresh instances and after every history.
//	G3 lazy initialisation under all schedules: 2..3 goroutines, 1..2 calls each
//	   of the name-mapping functions, starting from uninitialised tables, all
//	   interleavings at lock operations with <= 2 (thorough 3) preemptions, with
//	   a vector-clock happens-before detector over all hooked accesses.
//	   Oracle: results equal sequential results, no unordered conflicting
//	   accesses, no deadlock.
//	G1' first use: the benign probe workload run for the first time in a process
//	   may only fill package-level variables that held nothing before (lazily
//	   built caches), and returns the same observation as on its second run.
//	G5 overlapping executions (overlap.go): two calls on distinct instances in two
//	   goroutines, interleaved at every Read call of their input readers.
package main

import (
	"bytes"
	"crypto/sha1"
	"errors"
	"fmt"
	"os"
	"os/exec"
	"reflect"
	"regexp"
	"sort"
	"strconv"
	"strings"
	"time"

	"seehuhn.de/go/postscript"
	"seehuhn.de/go/postscript/afm"
	"seehuhn.de/go/postscript/cid"
	"seehuhn.de/go/postscript/funit"
	"seehuhn.de/go/postscript/pfb"
	"seehuhn.de/go/postscript/psenc"
	"seehuhn.de/go/postscript/type1"
	"seehuhn.de/go/postscript/type1/names"

	"verif/env"
	"verif/mc"
	"verif/model/corpus"
	"verif/model/observe"
	"verif/model/pscmp"
)

var opTable = pscmp.NewOpTable()

func allGlobals() map[string]any {
	out := map[string]any{}
	add := func(pkg string, m map[string]any) {
		for k, v := range m {
			out[pkg+"."+k] = v
		}
	}
	add("postscript", postscript.VerifGlobals())
	add("afm", afm.VerifGlobals())
	add("cid", cid.VerifGlobals())
	add("funit", funit.VerifGlobals())
	add("pfb", pfb.VerifGlobals())
	add("psenc", psenc.VerifGlobals())
	add("type1", type1.VerifGlobals())
	add("names", names.VerifGlobals())
	return out
}

// globalsImage renders every package-level variable; nodes collects the
// mutable heap nodes reachable from them.
func globalsImage() (string, map[uintptr]string) {
	g := allGlobals()
	keys := make([]string, 0, len(g))
	for k := range g {
		keys = append(keys, k)
	}
	sort.Strings(keys)
	w := newWalker()
	for _, k := range keys {
		w.sb.WriteString("\n" + k + " = ")
		w.path = []string{k}
		w.walk(reflect.ValueOf(g[k]).Elem(), 0)
	}
	return w.sb.String(), w.nodes
}

func interpNodes(intp *postscript.Interpreter, label string) map[uintptr]string {
	w := newWalker()
	w.path = []string{label}
	w.walk(reflect.ValueOf(intp).Elem(), 0)
	return w.nodes
}

// warmUp loads the lazily filled tables, so that the baseline is taken with
// the caches full.
func warmUp() string {
	names.ToUnicode("A", true)
	names.ToUnicode("a62", true)
	names.FromUnicode('A')
	// the benign probe workload touches every reader, writer and look-up once, so
	// that any legitimately lazily initialised cache is full before the baseline
	return probe()
}

// emptyGlobals lists the package-level variables that hold nothing yet: zero
// scalars, nil or empty maps and slices, pointers to such values.
func emptyGlobals() map[string]bool {
	out := map[string]bool{}
	for k, p := range allGlobals() {
		if deepEmpty(reflect.ValueOf(p).Elem(), 0) {
			out[k] = true
		}
	}
	return out
}

func deepEmpty(v reflect.Value, depth int) bool {
	if depth > 8 {
		return false
	}
	if opaque(v.Type()) && v.Kind() != reflect.Interface {
		return v.Kind() == reflect.Struct || v.IsZero() // locks and once-flags carry no data
	}
	switch v.Kind() {
	case reflect.Ptr, reflect.Interface:
		return v.IsNil() || deepEmpty(v.Elem(), depth+1)
	case reflect.Map, reflect.Slice:
		return v.Len() == 0
	case reflect.Struct:
		for i := 0; i < v.NumField(); i++ {
			if !deepEmpty(v.Field(i), depth+1) {
				return false
			}
		}
		return true
	case reflect.Array:
		for i := 0; i < v.Len(); i++ {
			if !deepEmpty(v.Index(i), depth+1) {
				return false
			}
		}
		return true
	default:
		return v.IsZero()
	}
}

var ptrID = regexp.MustCompile(`[&^][0-9]+`)

// probe is the observable behaviour of the library on fresh instances.
func probe() string {
	var sb strings.Builder
	intp := postscript.NewInterpreter()
	sb.WriteString(pscmp.Canon(opTable, intp))
	err := intp.ExecuteString("1 2 add 3 mul [ 1 2 ] length StandardEncoding 65 get /CIDInit /ProcSet findresource /begincmap known errordict /typecheck known { 1 (a) add } exec")
	sb.WriteString(pscmp.Canon(opTable, intp) + fmt.Sprint(err))
	intp = postscript.NewInterpreter()
	err = intp.ExecuteString("/p { 2 3 add } bind def /add { mul } def p /q { 4 5 sub exch } bind def /sub 7 def 1 q /r { { 6 7 mul } exec } bind def r matrix 0 get << /a 1 >> << /b 2 >> eq")
	sb.WriteString(pscmp.Canon(opTable, intp) + fmt.Sprint(err))
	intp = postscript.NewInterpreter()
	intp.MaxOps = 60
	err = intp.ExecuteString("/k 0 def { /k k 1 add def } loop")
	fmt.Fprintf(&sb, "budget: %v is-sentinel=%v k=%v ", err, err == postscript.ErrExecutionLimitExceeded, intp.UserDict["k"])
	for _, in := range corpus.CMaps()[:2] {
		sb.WriteString(observe.Run("cmap", bytes.NewReader(in.Data)).Obs)
	}
	for _, in := range corpus.Fonts() {
		sb.WriteString(observe.Run("font", bytes.NewReader(in.Data)).Obs)
	}
	var b bytes.Buffer
	err = corpus.SampleFont().Write(&b, nil)
	fmt.Fprintf(&sb, "%x %v", b.Bytes(), err)
	b.Reset()
	l1, l2, err := corpus.SampleFont().WritePDF(&b)
	fmt.Fprintf(&sb, "%x %d %d %v", b.Bytes(), l1, l2, err)
	b.Reset()
	err = corpus.SampleFont().Write(&b, &type1.WriterOptions{})
	fmt.Fprintf(&sb, "%x %v", b.Bytes(), err)
	for _, format := range corpus.Formats {
		b.Reset()
		err = corpus.SampleFont().Write(&b, &type1.WriterOptions{Format: format})
		fmt.Fprintf(&sb, "%x %v", sha1.Sum(b.Bytes()), err)
	}
	b.Reset()
	err = corpus.SampleMetrics().Write(&b)
	fmt.Fprintf(&sb, "%x %v", b.Bytes(), err)
	sb.WriteString(observe.Run("afm", bytes.NewReader(corpus.AFMs()[1].Data)).Obs)
	sb.WriteString(observe.Run("pfb", bytes.NewReader(corpus.PFBs()[0].Data)).Obs)
	for _, n := range []string{"A", "f_f_i.alt", "a62", "uni00410042", "dalethatafpatah", "lamedholamdagesh_A", "lamedholamdagesh_B", "nosuchglyph"} {
		fmt.Fprintf(&sb, "%s=%v/%v ", n, names.ToUnicode(n, false), names.ToUnicode(n, true))
	}
	for _, r := range []rune{'A', 0x2026, 0x10FFFF, 0xFB01} {
		fmt.Fprintf(&sb, "%x=%s ", r, names.FromUnicode(r))
	}
	fmt.Fprintf(&sb, "%v %v", names.IsValid("A.b"), psenc.StandardEncoding[65])
	return sb.String()
}

// failAfter accepts a number of Write calls and fails all later ones.
type failAfter struct{ left int }

func (w *failAfter) Write(p []byte) (int, error) {
	if w.left <= 0 {
		return 0, errors.New("writer gave up")
	}
	w.left--
	return len(p), nil
}

// ---------------------------------------------------------------------------
// hostile programs

type hostile struct {
	name string
	run  func() (changedOwn bool)
}

func psHostile(name, prog string, maxOps int) hostile {
	return hostile{name, func() bool {
		intp := postscript.NewInterpreter()
		before := pscmp.Canon(opTable, intp)
		intp.MaxOps = maxOps
		intp.ExecuteString(prog) // errors are expected
		return pscmp.Canon(opTable, intp) != before
	}}
}

func hostilePrograms() []hostile {
	var hs []hostile
	containers := map[string]string{
		"systemdict":    "systemdict",
		"userdict":      "userdict",
		"errordict":     "errordict",
		"FontDirectory": "FontDirectory",
		"CIDInit":       "/CIDInit /ProcSet findresource",
		"internaldict":  "1183615869 internaldict",
	}
	cnames := []string{"systemdict", "userdict", "errordict", "FontDirectory", "CIDInit", "internaldict"}
	targets := map[string]string{"systemdict": "add", "userdict": "zz", "errordict": "typecheck", "FontDirectory": "F", "CIDInit": "begincmap", "internaldict": "zz"}
	for _, cn := range cnames {
		c, key := containers[cn], targets[cn]
		hs = append(hs,
			psHostile(cn+": put operator name", fmt.Sprintf("%s /%s 42 put", c, key), 0),
			psHostile(cn+": put procedure", fmt.Sprintf("%s /%s {pop pop 7} put", c, key), 0),
			psHostile(cn+": begin def end", fmt.Sprintf("%s begin /%s (x) def /extra 1 def end", c, key), 0),
			psHostile(cn+": copy into", fmt.Sprintf("<< /%s 1 /other 2 >> %s copy pop", key, c), 0),
			psHostile(cn+": store itself", fmt.Sprintf("%s /self %s put", c, c), 0),
		)
	}
	hs = append(hs,
		// what operators hand out belongs to the program: it overwrites every composite result
		psHostile("results of operators overwritten", "matrix dup 0 42 put 3 /bad put 4 array 0 7 put 3 string 0 65 put (lit) 0 66 put <1F> 0 16#7F put <41> 0 0 put <0041> 1 9 put [1 2 3] 1 /x put "+
			"2 dict /k 1 put << /a 1 >> /a 2 put currentdict /cd 1 put 1183615869 internaldict /i 1 put matrix 0 6 getinterval 5 (s) put", 0),
		psHostile("results of operators overwritten in a loop", "0 1 5 { matrix exch /m put } for 0 1 255 { 1 string dup 0 4 -1 roll put 0 0 put } for <00> 0 255 put <ff> 0 1 put /done true def", 0),
		psHostile("dictionaries compared", "/r << /a 1 >> << /b 2 >> eq def /s 1 dict 1 dict ne def /t userdict userdict eq def 5 { << /k 1 >> << /k 1 >> eq pop } repeat systemdict errordict ne pop", 0),
		psHostile("StandardEncoding: put", "StandardEncoding 65 /zz put", 0),
		psHostile("StandardEncoding: putinterval", "StandardEncoding 0 [/q /r /s] putinterval", 0),
		psHostile("StandardEncoding: copy into", "[/x /y] StandardEncoding copy pop", 0),
		psHostile("StandardEncoding: overwrite all", "0 1 255 {StandardEncoding exch /bad put} for", 0),
		psHostile("StandardEncoding: sub-interval put", "StandardEncoding 32 10 getinterval 0 /bad put", 0),
		psHostile("every operator redefined", "systemdict {pop systemdict exch 0 put} forall", 0),
		psHostile("every CIDInit entry redefined", "/CIDInit /ProcSet findresource dup {pop 1 index exch {} put} forall pop", 0),
		psHostile("every error handler replaced", "errordict {pop errordict exch {stop} put} forall", 0),
		psHostile("definefont", "/F 3 dict dup /FontType 1 put definefont pop", 0),
		psHostile("defineresource Font", "/R 2 dict /Font defineresource pop", 0),
		psHostile("defineresource ProcSet", "/CIDInit 1 dict /ProcSet defineresource pop", 0),
		psHostile("defineresource CIDFont", "/C 1 dict /CIDFont defineresource pop", 0),
		psHostile("cmap defined", "/CIDInit /ProcSet findresource begin 12 dict begin begincmap /CMapName /H def 1 begincodespacerange <00> <ff> endcodespacerange endcmap CMapName currentdict /CMap defineresource pop end end", 0),
		psHostile("cmap block left open", "/CIDInit /ProcSet findresource begin 12 dict begin begincmap 2 begincidchar <00> 1", 0),
		psHostile("bind after operators were replaced", "systemdict /add {sub} put systemdict /sub 7 put userdict /mul {pop} put /p {1 add 2 sub 3 mul exch} bind def {1 add} bind pop", 0),
		psHostile("bind systemdict procedures", "/p {add sub mul StandardEncoding} bind def /add 1 def p", 0),
		psHostile("fails half-way", "systemdict /sub 1 put StandardEncoding 1 /x put 1 (a) add systemdict /mul 2 put", 0),
		psHostile("hits the budget", "StandardEncoding 2 /y put userdict /k 1 put {} loop", 200),
		psHostile("stack and dict stack left full", "1 1 498 {} for 17 {1 dict begin} repeat systemdict /count 0 put", 0),
		psHostile("eexec then redefine", "currentfile eexec 00", 0),
		psHostile("array inside systemdict value", "systemdict /StandardEncoding get 3 /q put systemdict /FontDirectory get /g 1 put", 0),
	)
	// hostile inputs through the readers
	font := string(corpus.Fonts()[3].Data) // no-eexec container
	evilFont := strings.Replace(font, "/PaintType 0 def", "/PaintType 0 def\nStandardEncoding 65 /evil put\nsystemdict /definefont {pop pop} put\nsystemdict /add 7 put\nerrordict /typecheck {} put", 1)
	hs = append(hs, hostile{"type1.Read of a font that rewrites StandardEncoding and systemdict", func() bool {
		type1.Read(strings.NewReader(evilFont))
		return true
	}})
	evilFont2 := strings.Replace(font, "/PaintType 0 def", "/PaintType 0 def\n0 1 255 {StandardEncoding exch /evil put} for", 1)
	hs = append(hs, hostile{"type1.Read of a font that overwrites every StandardEncoding slot", func() bool {
		type1.Read(strings.NewReader(evilFont2))
		return true
	}})
	cm := string(corpus.CMaps()[0].Data)
	evilCMap := strings.Replace(cm, "begincmap", "currentdict /begincidrange {pop} put\n/CIDInit /ProcSet findresource /endcmap {} put\nsystemdict /def {pop pop} put\nbegincmap", 1)
	hs = append(hs, hostile{"ReadCMap of a file that rewrites the CIDInit procedure set", func() bool {
		postscript.ReadCMap(strings.NewReader(evilCMap))
		return true
	}})
	hs = append(hs, hostile{"afm.Read/Write and name look-ups", func() bool {
		m, _ := afm.Read(bytes.NewReader(corpus.AFMs()[1].Data))
		if m != nil {
			m.Glyphs["A"].WidthX = 1
			m.Encoding[65] = "evil"
			m.Write(&bytes.Buffer{})
		}
		names.ToUnicode("evil_name.x", true)
		names.FromUnicode(0x2026)
		return true
	}})
	hs = append(hs, hostile{"font written in every format and for PDF, options mutated afterwards", func() bool {
		f := corpus.SampleFont()
		f.WritePDF(&bytes.Buffer{})
		for _, format := range corpus.Formats {
			opt := &type1.WriterOptions{Format: format}
			f.Write(&bytes.Buffer{}, opt)
			opt.Format = 77
		}
		fw := env.NewFaultWriter()
		fw.Limit = 300
		f.WritePDF(fw)
		return true
	}})
	// errors and budget stops inside an eexec section, inside the readers, and
	// with results of the look-up functions overwritten by the caller: shared
	// error values and table entries must not be touched by any of it
	eexecProg := func(plain string) string {
		return "currentfile eexec\n" + string(corpus.Hex(corpus.Eexec([]byte(plain)))) + "\n"
	}
	hs = append(hs,
		hostile{"budget hit inside an eexec section", func() bool {
			intp := postscript.NewInterpreter()
			intp.MaxOps = 150
			err := intp.ExecuteString(eexecProg("/inside 1 def { } loop"))
			return err != nil
		}},
		hostile{"every kind of error inside an eexec section", func() bool {
			n := 0
			for _, body := range []string{"1 (a) add", "pop", "nosuchname", "[ 1 2", "1 0 idiv", "(abc) 7 get", "/x load", "500 { 1 } repeat 1", "exit", "1 dict dup /a 1 put 2 dict copy << /x", "-1 array", "16#zz"} {
				intp := postscript.NewInterpreter()
				if intp.ExecuteString(eexecProg("/inside 1 def "+body+" /after 2 def")) != nil {
					n++
				}
			}
			return n > 0
		}},
		hostile{"budget and nesting limits hit inside the readers", func() bool {
			loopFont := strings.Replace(font, "/PaintType 0 def", "/PaintType 0 def\n{ } loop", 1)
			_, err1 := type1.Read(strings.NewReader(loopFont))
			deepFont := strings.Replace(font, "/PaintType 0 def", "/PaintType 0 def\n/r {r} def r", 1)
			type1.Read(strings.NewReader(deepFont))
			_, err2 := postscript.ReadCMap(strings.NewReader(strings.Replace(cm, "begincmap", "begincmap { } loop", 1)))
			return err1 != nil && err2 != nil
		}},
		hostile{"results of the name look-ups overwritten and extended by the caller", func() bool {
			for _, n := range []string{"dalethatafpatah", "lamedholamdagesh", "lamedholamdagesh_A", "dalethatafpatah_B_C", "A", "a62", "f_f_i", "uni00410042", "u1F600", "Tcommaaccent", "finalkafqamats.alt"} {
				for _, ding := range []bool{false, true} {
					r := names.ToUnicode(n, ding)
					for i := range r {
						r[i] = 0xFFFD
					}
					if cap(r) > len(r) {
						r[:cap(r)][len(r)] = 'X'
					}
					_ = append(r, 'Y', 'Z')
				}
			}
			return true
		}},
	)
	// fonts with missing, short or wrongly typed entries, and everything the
	// readers fall back to in those cases, overwritten by the caller afterwards
	hs = append(hs, hostile{"fonts with missing or odd Encoding / FontMatrix / Private entries read, the results overwritten", func() bool {
		encStart := strings.Index(font, "/Encoding 256 array")
		encEnd := strings.Index(font, "readonly def\n") + len("readonly def\n")
		variants := []string{
			font[:encStart] + font[encEnd:],                                      // no Encoding at all
			font[:encStart] + "/Encoding 10 array def\n" + font[encEnd:],         // short array
			font[:encStart] + "/Encoding 5 def\n" + font[encEnd:],                // not an array
			font[:encStart] + "/Encoding StandardEncoding def\n" + font[encEnd:], // the standard one by name
			font[:encStart] + "/Encoding 256 array def\n" + font[encEnd:],        // all null
			strings.Replace(font, "/FontMatrix [0.001 0 0 0.001 0 0] def\n", "", 1),
			strings.Replace(font, "/FontMatrix [0.001 0 0 0.001 0 0] def\n", "/FontMatrix [0 0 0 0 0 0] def\n", 1),
			strings.Replace(font, "/BlueValues [-10 0 700 710] def\n", "", 1),
			strings.Replace(font, "/FontInfo 11 dict dup begin", "/FontInfoX 11 dict dup begin", 1),
		}
		for _, v := range variants {
			if f, err := type1.Read(strings.NewReader(v)); err == nil {
				f.Write(&bytes.Buffer{}, &type1.WriterOptions{})
				scribbleAll(f.GlyphList(), f.BuiltinEncoding())
				scribbleAll(f)
			}
		}
		return true
	}})
	// everything the library hands to its caller is the caller's: results of every
	// reader, of the query and look-up functions, and the exported state of an
	// interpreter are overwritten through the Go API (reflection walk over slices
	// up to their capacity, maps, exported fields)
	hs = append(hs, hostile{"results of all readers, queries and look-ups and an interpreter's exported state overwritten by the caller", func() bool {
		for _, in := range append(corpus.Fonts(), corpus.FontsT1gen()...) {
			if f, err := type1.Read(bytes.NewReader(in.Data)); err == nil {
				scribbleAll(f.GlyphList(), f.BuiltinEncoding(), f.WidthsMapPDF())
				scribbleAll(f)
			}
		}
		for _, in := range corpus.CMaps() {
			if d, err := postscript.ReadCMap(bytes.NewReader(in.Data)); err == nil {
				scribbleAll(d)
			}
		}
		for _, in := range corpus.AFMs() {
			if m, err := afm.Read(bytes.NewReader(in.Data)); err == nil {
				scribbleAll(m.GlyphList())
				scribbleAll(m)
			}
		}
		for _, n := range []string{"A", "dalethatafpatah", "lamedholamdagesh_A", "a62", "uni00410042", "f_f_i.alt"} {
			scribbleAll(names.ToUnicode(n, false), names.ToUnicode(n, true))
		}
		intp := postscript.NewInterpreter()
		intp.ExecuteString("/CIDInit /ProcSet findresource begin 12 dict begin begincmap /CMapName /H def 1 begincodespacerange <00> <ff> endcodespacerange 1 begincidrange <00> <ff> 0 endcidrange endcmap CMapName currentdict /CMap defineresource pop end end /F 3 dict dup /FontType 1 put definefont StandardEncoding errordict")
		before := pscmp.Canon(opTable, intp)
		scribbleAll(intp)
		return pscmp.Canon(opTable, intp) != before
	}})
	// inputs that differ from everything the probe workload reads: whatever a
	// reader or writer keeps in package-level scratch storage is left in a
	// different state than after the probe
	hs = append(hs, hostile{"fonts and metrics whose encoding IS the library's exported table, written and queried", func() bool {
		// a caller may hand the library its own exported tables back: psenc.StandardEncoding[:]
		// as the Encoding of a font that has only a few of the glyphs
		f := holeFont(false)
		f.Encoding = psenc.StandardEncoding[:]
		for _, format := range corpus.Formats {
			f.Write(&bytes.Buffer{}, &type1.WriterOptions{Format: format})
		}
		f.Write(&bytes.Buffer{}, &type1.WriterOptions{})
		f.WritePDF(&bytes.Buffer{})
		f.GlyphList()
		f.BuiltinEncoding()
		m := corpus.SampleMetrics()
		m.Encoding = psenc.StandardEncoding[:]
		m.Write(&bytes.Buffer{})
		m.GlyphList()
		return true
	}})
	hs = append(hs, hostile{"readers and writers on inputs the probe never sees", func() bool {
		t1 := corpus.FontsT1gen()
		for _, in := range []corpus.Input{t1[0], t1[len(t1)/2], t1[len(t1)-1]} {
			if f, err := type1.Read(bytes.NewReader(in.Data)); err == nil {
				f.Write(&bytes.Buffer{}, &type1.WriterOptions{})
				f.WritePDF(&bytes.Buffer{})
			}
		}
		cms := corpus.CMaps()
		postscript.ReadCMap(bytes.NewReader(cms[len(cms)-1].Data))
		postscript.ReadCMap(bytes.NewReader(cms[2].Data))
		if m, err := afm.Read(bytes.NewReader(corpus.AFMs()[0].Data)); err == nil {
			m.Write(&bytes.Buffer{})
		}
		pf := corpus.PFBs()
		observe.Run("pfb", bytes.NewReader(pf[len(pf)-1].Data))
		intp := postscript.NewInterpreter()
		intp.ExecuteString("/zzz (some other string \\(nested\\) \\101) def <7a7a7a> 16#7f 1.5e3 [/a /b] {pop} forall <~87cURD]i,\"Ebo80~> pop")
		for _, n := range []string{"zzz", "Q_u.alt", "uni0041", "u1F600", "a100"} {
			names.ToUnicode(n, false)
			names.ToUnicode(n, true)
		}
		names.FromUnicode(0x1F600)
		names.FromUnicode('z')
		return true
	}})
	hs = append(hs, hostile{"writes that fail half-way: a writer that gives up after k calls, a font that cannot be written", func() bool {
		// whatever a writer had prepared when it gave up (buffers, partly filled
		// tables) is not seen by the next write
		for _, format := range append([]type1.FileFormat{0}, corpus.Formats...) {
			bad := corpus.SampleFont()
			bad.Glyphs["bad glyph name"] = bad.Glyphs["A"]
			bad.Write(&bytes.Buffer{}, &type1.WriterOptions{Format: format})
			bad = corpus.SampleFont()
			bad.FontName = "not a name"
			bad.Write(&bytes.Buffer{}, &type1.WriterOptions{Format: format})
			// (the failed writes come last: nothing successful tidies up after them)
			for _, k := range []int{30, 9, 5, 2, 1, 0} {
				corpus.SampleFont().Write(&failAfter{left: k}, &type1.WriterOptions{Format: format})
			}
		}
		for _, k := range []int{0, 1, 3, 8, 20} {
			corpus.SampleFont().WritePDF(&failAfter{left: k})
			corpus.SampleMetrics().Write(&failAfter{left: k})
		}
		return true
	}})
	hs = append(hs, hostile{"font read, mutated and written", func() bool {
		f, err := type1.Read(bytes.NewReader(corpus.Fonts()[0].Data))
		if err == nil {
			f.Encoding[65] = "evil"
			f.Glyphs["A"].Cmds = nil
			f.Private.BlueValues[0] = 99
			f.FontInfo.FontMatrix[0] = 5
			f.Write(&bytes.Buffer{}, &type1.WriterOptions{})
		}
		return true
	}})
	return hs
}

var baseline struct {
	done    bool
	globals string
	probe   string
	// firstProbe is the probe workload's observation on its very first run in
	// this process; benignChange lists initialised package-level variables that
	// the warm-up changed.
	firstProbe   string
	benignChange []string
	// empty: the variables that hold nothing in the baseline image
	empty map[string]bool
}

func ensureBaseline() {
	if baseline.done {
		return
	}
	// Package-level state may legitimately change during first use only where it
	// is a lazily filled cache: a variable that held its zero value before.
	zero0, g0 := coldEmpty, coldGlobals // taken before the first library call of this process (aaa_cold.go)
	baseline.firstProbe = warmUp()
	baseline.globals, _ = globalsImage()
	l0, l1 := strings.Split(g0, "\n"), strings.Split(baseline.globals, "\n")
	for i := 0; i < len(l0) && i < len(l1); i++ {
		// pointer numbering is global to the image: compare without it
		if ptrID.ReplaceAllString(l0[i], "&") == ptrID.ReplaceAllString(l1[i], "&") {
			continue
		}
		name := l0[i]
		if j := strings.Index(name, " = "); j > 0 {
			name = name[:j]
		}
		if !zero0[name] {
			baseline.benignChange = append(baseline.benignChange, name+": "+firstDiff(l0[i], l1[i]))
		}
	}
	baseline.probe = probe()
	baseline.globals, _ = globalsImage()
	baseline.empty = emptyGlobals()
	baseline.done = true
}

func firstDiff(a, b string) string {
	n := 0
	for n < len(a) && n < len(b) && a[n] == b[n] {
		n++
	}
	lo := max(0, n-100)
	clip := func(s string) string {
		if len(s) > 260 {
			return s[:260]
		}
		return s
	}
	return fmt.Sprintf("at byte %d: …%q  vs  …%q", n, clip(a[lo:]), clip(b[lo:]))
}

func disjoint(sets ...map[uintptr]string) string {
	for i := 0; i < len(sets); i++ {
		for j := i + 1; j < len(sets); j++ {
			for addr, p := range sets[i] {
				if q, ok := sets[j][addr]; ok {
					return fmt.Sprintf("%s and %s are the same mutable object", p, q)
				}
			}
		}
	}
	return ""
}

func historiesFamily(length int, budget time.Duration) mc.Family {
	hs := hostilePrograms()
	n := len(hs)
	total := 0
	for l, p := 0, 1; l <= length; l++ {
		total += p
		p *= n
	}
	decode := func(item int) []int {
		for l, p := 0, 1; ; l++ {
			if item < p {
				seq := make([]int, l)
				for i := range seq {
					seq[i] = item % n
					item /= n
				}
				return seq
			}
			item -= p
			p *= n
		}
	}
	return mc.Family{
		Name: "histories-of-hostile-programs", Items: total, Budget: budget,
		Rule: fmt.Sprintf("explicit-state search: state = deep image of all package-level variables of the 8 library packages (VerifGlobals, generated from the typed AST) + probe workload on fresh instances (canonical state of a fresh interpreter before and after a program, 2 CMap reads, 4 font reads, font and metrics writes, AFM read, PFB decode, name look-ups); transitions = %d hostile programs (each container reachable from a fresh interpreter x put/def/copy/self-reference, StandardEncoding put/putinterval/copy/overwrite, every operator / CIDInit entry / error handler redefined, definefont/defineresource, failing half-way, hitting the budget, hostile fonts/CMaps through the readers, results of readers mutated); all sequences of 0..%d programs; invariant: exactly one state; also G2: mutable nodes of two fresh interpreters and of the globals pairwise disjoint; non-trivial = history of >= 1 program, each verified to change its own interpreter", n, length),
		Body: func(c *mc.Ctx, item int) mc.Verdict {
			ensureBaseline()
			seq := decode(item)
			var namesRun []string
			for _, h := range seq {
				changed := hs[h].run()
				c.Step()
				if !changed {
					return mc.Fail("C18:harness:vacuous-hostile-program", hs[h].name+" did not change its own interpreter")
				}
				namesRun = append(namesRun, hs[h].name)
			}
			desc := "history [" + strings.Join(namesRun, " ; ") + "]"
			last := "none"
			if len(seq) > 0 {
				last = hs[seq[len(seq)-1]].name
			}
			if len(baseline.benignChange) > 0 {
				return mc.Fail("C18:G1:package-state-changed-by-first-use:"+strings.SplitN(baseline.benignChange[0], ":", 2)[0], "the first run of the benign probe workload changed an initialised package-level variable: "+strings.Join(baseline.benignChange, " ; "))
			}
			if baseline.firstProbe != baseline.probe {
				return mc.Fail("C18:G1:first-use-behaves-differently", "the benign probe workload gives different results on its first and on its second run in a process: "+firstDiff(baseline.firstProbe, baseline.probe))
			}
			g, gnodes := globalsImage()
			if g != baseline.globals {
				// A variable that held nothing at the baseline and holds something now
				// is a cache filled on first use of a feature the warm-up did not touch:
				// allowed once (whether that first use is properly synchronised is the
				// cold-start family's question); from then on it belongs to the baseline.
				lb, lg := strings.Split(baseline.globals, "\n"), strings.Split(g, "\n")
				benign := len(lb) == len(lg)
				for i := 0; benign && i < len(lb); i++ {
					if ptrID.ReplaceAllString(lb[i], "&") == ptrID.ReplaceAllString(lg[i], "&") {
						continue
					}
					name := lb[i]
					if j := strings.Index(name, " = "); j > 0 {
						name = name[:j]
					}
					if !baseline.empty[name] {
						benign = false
					}
				}
				if !benign {
					v := mc.Fail("C18:G1:package-state-changed:"+varName(g, baseline.globals), desc+": a package-level variable changed: "+firstDiff(g, baseline.globals))
					v.Render = desc
					return v
				}
				baseline.globals = g
				baseline.empty = emptyGlobals()
			}
			p := probe()
			if p != baseline.probe {
				v := mc.Fail("C18:G1:fresh-instance-behaves-differently:after "+last, desc+": probe workload differs: "+firstDiff(p, baseline.probe))
				v.Render = desc
				return v
			}
			a, b := postscript.NewInterpreter(), postscript.NewInterpreter()
			if d := disjoint(interpNodes(a, "interpreter#1"), interpNodes(b, "interpreter#2"), gnodes); d != "" {
				v := mc.Fail("C18:G2:shared-mutable-object", desc+": "+d)
				v.Render = desc
				return v
			}
			v := mc.Pass(fmt.Sprintf("history-%d", len(seq)), len(seq) > 0)
			if c.Render() {
				v.Render = desc + " → state unchanged, instances disjoint"
			}
			return v
		},
		Describe: func(item int) string {
			var ns []string
			for _, h := range decode(item) {
				ns = append(ns, hs[h].name)
			}
			return strings.Join(ns, " ; ")
		},
		CrashKey: func(item int) string { return "C18:crash:history" },
	}
}

// varName extracts the name of the first package-level variable whose image differs.
func varName(a, b string) string {
	la, lb := strings.Split(a, "\n"), strings.Split(b, "\n")
	for i := 0; i < len(la) && i < len(lb); i++ {
		if la[i] != lb[i] {
			if j := strings.Index(la[i], " = "); j > 0 {
				return la[i][:j]
			}
		}
	}
	return "?"
}

// ---------------------------------------------------------------------------
// G3

type nameOp struct {
	name string
	run  func() string
}

var nameOps = []nameOp{
	{"ToUnicode(A)", func() string { return fmt.Sprint(names.ToUnicode("A", false)) }},
	{"ToUnicode(a62,dingbats)", func() string { return fmt.Sprint(names.ToUnicode("a62", true)) }},
	{"FromUnicode(A)", func() string { return names.FromUnicode('A') }},
	{"ToUnicode(dalethatafpatah)", func() string { return fmt.Sprint(names.ToUnicode("dalethatafpatah", false)) }},
	{"ToUnicode(f_f_i.alt)", func() string { return fmt.Sprint(names.ToUnicode("f_f_i.alt", false)) }},
}

// scenarios: nOps = how many of nameOps are used (quick 4, thorough all).
func scenarios(nOps int) [][][]int {
	var lists [][]int
	for a := 0; a < nOps; a++ {
		lists = append(lists, []int{a})
	}
	for a := 0; a < nOps; a++ {
		for b := 0; b < nOps; b++ {
			lists = append(lists, []int{a, b})
		}
	}
	var out [][][]int
	for _, x := range lists {
		for _, y := range lists {
			out = append(out, [][]int{x, y})
		}
	}
	for a := 0; a < nOps; a++ {
		for b := 0; b < nOps; b++ {
			for d := 0; d < nOps; d++ {
				out = append(out, [][]int{{a}, {b}, {d}})
			}
		}
	}
	return out
}

var seqResults map[int]string

func lazyInitFamily(preempt, nOps int, budget time.Duration) mc.Family {
	sc := scenarios(nOps)
	return mc.Family{
		Name: "lazy-init-schedules", Items: len(sc), MaxDev: preempt, Budget: budget,
		Rule: fmt.Sprintf("%d scenarios: 2 goroutines with 1..2 calls each and 3 goroutines with 1 call each, calls from the first "+fmt.Sprint(nOps)+" of {ToUnicode(A), ToUnicode(a62, dingbats), FromUnicode(A), ToUnicode(dalethatafpatah), ToUnicode(f_f_i.alt)}, tables reset to uninitialised before every execution; every interleaving at lock operations with <= %d preemptions (cooperative scheduler over the sync shim); vector-clock happens-before detection over all hooked field and map accesses (sites: build/gen-c18-sites.json); non-trivial = at least one context switch between goroutines happened", len(sc), preempt),
		Body: func(c *mc.Ctx, item int) mc.Verdict {
			if seqResults == nil {
				seqResults = map[int]string{}
				for i, op := range nameOps {
					names.VerifReset()
					seqResults[i] = op.run()
				}
			}
			names.VerifReset()
			if !names.VerifResetAvailable {
				return mc.Pass("shim_unavailable:tables-cannot-be-reset", false)
			}
			plan := sc[item]
			results := make([][]string, len(plan))
			var bodies []func()
			for ti, ops := range plan {
				ti, ops := ti, ops
				bodies = append(bodies, func() {
					for _, o := range ops {
						results[ti] = append(results[ti], nameOps[o].run())
					}
				})
			}
			s := newSched(c, bodies)
			s.run()
			c.Steps(s.steps)
			var desc []string
			for ti, ops := range plan {
				var ns []string
				for _, o := range ops {
					ns = append(ns, nameOps[o].name)
				}
				desc = append(desc, fmt.Sprintf("T%d:%s", ti, strings.Join(ns, ",")))
			}
			d := strings.Join(desc, " | ")
			fail := func(key, detail string) mc.Verdict {
				v := mc.Fail(key, d+": "+detail+" (schedule "+strings.Join(s.trace, " ")+")")
				v.Render = d + " schedule " + strings.Join(s.trace, " ")
				return v
			}
			if s.failure != "" {
				return fail("C18:G3:"+strings.SplitN(s.failure, ":", 2)[0], s.failure)
			}
			for _, t := range s.threads {
				if t.panicV != "" {
					return fail("C18:G3:panic", t.panicV)
				}
			}
			if len(s.races) > 0 {
				return fail("C18:G3:data-race", sortedRaces(s.races))
			}
			for ti, ops := range plan {
				for k, o := range ops {
					if k >= len(results[ti]) || results[ti][k] != seqResults[o] {
						return fail("C18:G3:wrong-result:"+nameOps[o].name, fmt.Sprintf("thread %d call %d returned %v, sequential result %s", ti, k, results[ti], seqResults[o]))
					}
				}
			}
			switches := 0
			last := -1
			for _, tr := range s.trace {
				id := int(tr[1] - '0')
				if last >= 0 && id != last {
					switches++
				}
				last = id
			}
			v := mc.Pass(fmt.Sprintf("%d-threads", len(plan)), c.DevUsed() > 0 || len(plan) > 1)
			if c.Render() {
				v.Render = d + " schedule " + strings.Join(s.trace, " ") + " → sequential results, no race"
			}
			return v
		},
		Describe: func(item int) string { return fmt.Sprint(sc[item]) },
		CrashKey: func(item int) string { return "C18:crash:lazy-init" },
	}
}

// raceFamily runs the separately built free-running -race binary (G4).
func raceFamily() mc.Family {
	return mc.Family{
		Name: "free-running-race-detector-pass", Items: 1, Supporting: true,
		Note: "supporting evidence only (sampling by the Go scheduler): 16 goroutines x 3 rounds of name look-ups from cold tables, interpreter runs that rewrite system objects, CMap/Type 1/AFM reads, all writers and PFB decoding on distinct instances, built with -race and without the cooperative scheduler",
		Rule: "one free-running execution under the Go race detector",
		Body: func(c *mc.Ctx, item int) mc.Verdict {
			bin := os.Getenv("VERIF_ROOT") + "/build/bin/c18race"
			if b := os.Getenv("VERIF_RACE_BIN"); b != "" {
				bin = b // tools/mutrun.sh: the pass built from a changed copy of the library
			}
			if _, err := os.Stat(bin); err != nil {
				return mc.Pass("race-binary-not-built", false)
			}
			cmd := exec.Command(bin)
			cmd.Env = append(os.Environ(), "GORACE=halt_on_error=1 exitcode=66", "GOMAXPROCS=8")
			out, err := cmd.CombinedOutput()
			c.Step()
			if err != nil {
				s := string(out)
				if len(s) > 3000 {
					s = s[:3000]
				}
				if strings.Contains(s, "DATA RACE") {
					return mc.Fail("C18:G4:race-detector", s)
				}
				return mc.Fail("C18:G4:free-running-pass-failed", err.Error()+": "+s)
			}
			v := mc.Pass("no-race-reported", true)
			v.Render = strings.TrimSpace(string(out))
			return v
		},
	}
}

// firstInProcessFamily: whatever the library sets up on first use must not be
// taken from the instance that happens to come first.  Each item is a child
// process whose very first library call is one hostile program (or history
// operation); the probe that follows must read exactly as in a child process
// that runs nothing before it.
func firstInProcessFamily(budget time.Duration) mc.Family {
	hs := hostilePrograms()
	var ref string
	run := func(h int) (string, error) {
		exe, err := os.Executable()
		if err != nil {
			return "", err
		}
		out, err := exec.Command(exe, "-hostilefirst", strconv.Itoa(h)).Output()
		return string(out), err
	}
	return mc.Family{
		Name: "hostile-program-first-in-a-fresh-process", Items: len(hs), Budget: budget,
		Rule: fmt.Sprintf("item = one of the %d hostile programs / histories, run as the very first library call of a child process (`c18 -hostilefirst i`), followed by the probe: the probe's observations (hash) must equal those of a child process that runs only the probe; non-trivial = all", len(hs)),
		Body: func(c *mc.Ctx, item int) mc.Verdict {
			if ref == "" {
				r, err := run(-1)
				if err != nil {
					return mc.Fail("C18:harness:first-in-process-reference", err.Error())
				}
				ref = r
			}
			got, err := run(item)
			c.Step()
			what := "hostile program `" + hs[item].name + "` as the first library call of a process, then the probe"
			if err != nil {
				return mc.Fail("C18:G7:child-died", what+": "+err.Error())
			}
			if got != ref {
				v := mc.Fail("C18:G7:probe-differs-after-hostile-first-use", what+": the probe reads differently from a process that runs only the probe ("+strings.TrimSpace(got)+" / "+strings.TrimSpace(ref)+")")
				v.Render = what
				return v
			}
			return mc.Pass("probe-unchanged", true)
		},
		Describe: func(i int) string { return hs[i].name },
	}
}

// argumentsFamily: what a caller passes in may be shared between goroutines (one
// options value, one font, one metrics value used by several writers at once);
// that is only safe if the functions do not write to their arguments.  Every
// argument is dumped before and after the call.
func argumentsFamily(budget time.Duration) mc.Family {
	type call struct {
		name string
		run  func() (before, after string)
	}
	var calls []call
	for _, format := range append([]type1.FileFormat{0}, corpus.Formats...) {
		format := format
		calls = append(calls, call{fmt.Sprintf("Font.Write with &WriterOptions{Format: %d}", format), func() (string, string) {
			f, opt := corpus.SampleFont(), &type1.WriterOptions{Format: format}
			before := observe.Dump(f) + observe.Dump(opt)
			f.Write(&bytes.Buffer{}, opt)
			return before, observe.Dump(f) + observe.Dump(opt)
		}})
	}
	calls = append(calls,
		call{"Font.Write of a font whose encoding is the exported standard table", func() (string, string) {
			f := holeFont(false)
			f.Encoding = psenc.StandardEncoding[:]
			before := observe.Dump(f) + fmt.Sprint(psenc.StandardEncoding)
			f.Write(&bytes.Buffer{}, &type1.WriterOptions{})
			f.WritePDF(&bytes.Buffer{})
			return before, observe.Dump(f) + fmt.Sprint(psenc.StandardEncoding)
		}},
		call{"Font.WritePDF and the query methods", func() (string, string) {
			f := corpus.SampleFont()
			before := observe.Dump(f)
			f.WritePDF(&bytes.Buffer{})
			f.GlyphList()
			f.FontBBox()
			f.FontBBoxPDF()
			f.WidthsMapPDF()
			f.BuiltinEncoding()
			return before, observe.Dump(f)
		}},
		call{"Metrics.Write and the query methods", func() (string, string) {
			m := corpus.SampleMetrics()
			before := observe.Dump(m)
			m.Write(&bytes.Buffer{})
			m.GlyphList()
			m.FontBBoxPDF()
			m.GlyphWidthPDF("A")
			return before, observe.Dump(m)
		}},
		call{"Metrics.Write of metrics whose kerning pairs are in no particular order", func() (string, string) {
			m := corpus.SampleMetrics()
			m.Kern = append(m.Kern, &afm.KernPair{Left: "V", Right: "A", Adjust: -80}, &afm.KernPair{Left: "T", Right: "o", Adjust: -70},
				&afm.KernPair{Left: "A", Right: "V", Adjust: -60}, &afm.KernPair{Left: "A", Right: "T", Adjust: -50}, &afm.KernPair{Left: "A", Right: "V", Adjust: -40})
			for i, j := 0, len(m.Kern)-1; i < j; i, j = i+1, j-1 {
				m.Kern[i], m.Kern[j] = m.Kern[j], m.Kern[i]
			}
			before := observe.Dump(m)
			m.Write(&bytes.Buffer{})
			m.GlyphList()
			return before, observe.Dump(m)
		}},
		call{"Font.Write of a font whose encoding names the glyphs in reverse order", func() (string, string) {
			f := corpus.SampleFont()
			enc := make([]string, 256)
			for i := range enc {
				enc[i] = ".notdef"
			}
			for i, name := range f.GlyphList() {
				if i < 256 {
					enc[255-i] = name
				}
			}
			f.Encoding = enc
			before := observe.Dump(f)
			f.Write(&bytes.Buffer{}, &type1.WriterOptions{})
			f.WritePDF(&bytes.Buffer{})
			f.GlyphList()
			return before, observe.Dump(f)
		}},
		call{"readers given a byte slice", func() (string, string) {
			data := append([]byte{}, corpus.Fonts()[0].Data...)
			cm := append([]byte{}, corpus.CMaps()[0].Data...)
			before := string(data) + string(cm)
			type1.Read(bytes.NewReader(data))
			postscript.ReadCMap(bytes.NewReader(cm))
			return before, string(data) + string(cm)
		}},
	)
	return mc.Family{
		Name: "arguments-are-not-written-to", Items: len(calls), Budget: budget,
		Rule: fmt.Sprintf("%d calls (Font.Write with a caller's options value in every format incl. the zero value, WritePDF, the query methods, Metrics.Write, the readers): everything reachable from the arguments is dumped before and after the call and must be unchanged (a value that is only read may be shared by any number of goroutines); non-trivial = all", len(calls)),
		Body: func(c *mc.Ctx, item int) mc.Verdict {
			before, after := calls[item].run()
			c.Step()
			if before != after {
				v := mc.Fail("C18:arguments:written-to", calls[item].name+": the call changed a value passed to it: "+firstDiff(before, after))
				v.Render = calls[item].name
				return v
			}
			return mc.Pass("unchanged", true)
		},
		Describe: func(i int) string { return calls[i].name },
	}
}

func hostileFirstChild(args []string) {
	h, _ := strconv.Atoi(args[0])
	if h >= 0 {
		func() {
			defer func() { recover() }()
			hostilePrograms()[h].run()
		}()
	}
	fmt.Printf("%x\n", sha1.Sum([]byte(probe())))
}

func main() {
	if len(os.Args) > 1 && os.Args[1] == "-coldpair" {
		coldChild(os.Args[2:])
		return
	}
	if len(os.Args) > 1 && os.Args[1] == "-hostilefirst" {
		hostileFirstChild(os.Args[2:])
		return
	}
	mc.Main(mc.Program{
		Property: "C18",
		Assumptions: []string{
			"the scheduler sees lock operations and hooked field/map accesses of packages that import sync; Go's memory model below that level is not modelled",
			"'any number of goroutines' is explored for 2..3 goroutines and argued for N by G1/G2 (no shared mutable state outside the one lock)",
			"values of types defined outside the repository (text/template, regexp, embed.FS, errors) are opaque to the state image",
			"the lazily filled glyph-name tables are caches: the baseline is taken after a warm-up that loads all of them",
		},
		TrustedBase: []string{"tools/instrument (sync shim, access hooks, VerifGlobals)", "go build -overlay", "reflection-based state image (cmd/c18/deep.go)"},
		Families: func(tier string) []mc.Family {
			budget := 90 * time.Second
			length, preempt, nOps := 2, 2, 4
			if tier == "thorough" {
				budget = 25 * time.Minute
				length, preempt, nOps = 3, 3, len(nameOps)
			}
			return []mc.Family{historiesFamily(length, budget), lazyInitFamily(preempt, nOps, budget), overlapFamily(preempt, tier == "thorough", budget), coldFamily(budget), firstInProcessFamily(budget), argumentsFamily(budget), raceFamily()}
		},
	})
}
