package main

import (
	"fmt"
	"io"
	"strings"
	"time"

	"seehuhn.de/go/postscript"

	"verif/mc"
	"verif/model/corpus"
	"verif/model/observe"
	"verif/model/pscmp"
)

// G5 overlapping executions: two library calls on distinct instances run in two
// goroutines; the input of each arrives through a reader that hands control to
// the explorer before and after every delivery, so every interleaving of the
// two executions at Read-call granularity (<= N preemptions) is explored, from
// a clean process state and after histories that exercised eexec, the font
// reader and the CMap reader.  Oracle: each call returns exactly what it
// returns when it runs alone.

// yieldReader delivers data in chunks; s == nil means free-running.
type yieldReader struct {
	s     *sched
	data  []byte
	pos   int
	chunk int
}

func (r *yieldReader) Read(p []byte) (int, error) {
	if r.s != nil {
		r.s.Yield() // the caller is blocked in Read, nothing delivered yet
	}
	if r.pos >= len(r.data) {
		return 0, io.EOF
	}
	n := min(len(p), r.chunk)
	n = copy(p[:n], r.data[r.pos:])
	r.pos += n
	if r.s != nil {
		r.s.Yield() // data is in the caller's buffer, the caller has not seen it yet
	}
	return n, nil
}

type overlapWork struct {
	name  string
	data  []byte
	chunk int
	run   func(r io.Reader) string
}

func overlapWorks() []overlapWork {
	raw := func(r io.Reader) string {
		intp := postscript.NewInterpreter()
		err := intp.Execute(r)
		return pscmp.Canon(opTable, intp) + fmt.Sprint(" err=", err)
	}
	font := func(r io.Reader) string { return observe.Run("font", r).Obs }
	cmap := func(r io.Reader) string { return observe.Run("cmap", r).Obs }
	var eexecTiny, eexecHex []byte
	for _, in := range corpus.Programs() {
		switch in.Name {
		case "eexec-hex-tiny":
			eexecTiny = in.Data
		case "eexec-hex":
			eexecHex = in.Data
		}
	}
	ws := []overlapWork{
		{"program A", []byte("/who (A) def /val 1111 def /arr [1 2 3 (abc) /nm] def\n"), 9, raw},
		{"program B", []byte("/who (B) def /val 2222 def <48656c6c6f> /s exch def 7 8 mul\n"), 7, raw},
		{"eexec program (tiny)", eexecTiny, 24, raw},
		{"eexec program", eexecHex, 64, raw},
		{"type1.Read(pfa)", corpus.Fonts()[0].Data, 700, font},
		{"type1.Read(noeexec)", corpus.Fonts()[3].Data, 900, font},
		{"ReadCMap", corpus.CMaps()[0].Data, 200, cmap},
	}
	return ws
}

func overlapFamily(preempt int, budget time.Duration) mc.Family {
	ws := overlapWorks()
	for _, w := range ws {
		if len(w.data) == 0 {
			panic("overlap: missing corpus input for " + w.name)
		}
	}
	type hist struct {
		name string
		run  func()
	}
	hists := []hist{
		{"no history", func() {}},
		{"one eexec program", func() { ws[2].run(&yieldReader{data: ws[2].data, chunk: 512}) }},
		{"two eexec programs and a font", func() {
			ws[2].run(&yieldReader{data: ws[2].data, chunk: 512})
			ws[3].run(&yieldReader{data: ws[3].data, chunk: 3})
			ws[4].run(&yieldReader{data: ws[4].data, chunk: 512})
		}},
		{"font, CMap and a failing program", func() {
			ws[5].run(&yieldReader{data: ws[5].data, chunk: 512})
			ws[6].run(&yieldReader{data: ws[6].data, chunk: 512})
			ws[0].run(strings.NewReader("1 (a) add"))
		}},
	}
	type pair struct{ a, b int }
	var pairs []pair
	for a := range ws {
		for b := a; b < len(ws); b++ {
			pairs = append(pairs, pair{a, b})
		}
	}
	var solo []string
	return mc.Family{
		Name: "overlapping-executions", Items: len(pairs) * len(hists), MaxDev: preempt, Budget: budget,
		Rule: fmt.Sprintf("%d unordered pairs (incl. twice the same) of calls {2 raw programs, 2 eexec programs, type1.Read of a PFA and of a clear-text font, ReadCMap} on distinct instances in 2 goroutines x %d histories {none, one eexec program, two eexec programs and a font, font + CMap + failing program}; each input arrives in chunks through a reader that is a scheduling point before and after every delivery; every interleaving with <= %d preemptions (first thread free); oracle: both results equal the results of the same calls running alone; the sync shim's Pool is a deterministic LIFO (a legal sync.Pool); non-trivial = at least one preemption or both threads ran", len(pairs), len(hists), preempt),
		Body: func(c *mc.Ctx, item int) mc.Verdict {
			if solo == nil {
				for _, w := range ws {
					solo = append(solo, w.run(&yieldReader{data: w.data, chunk: w.chunk}))
				}
			}
			pr, h := pairs[item%len(pairs)], hists[item/len(pairs)]
			h.run()
			idx := []int{pr.a, pr.b}
			results := make([]string, 2)
			var s *sched
			var bodies []func()
			for ti := range idx {
				ti := ti
				bodies = append(bodies, func() {
					w := ws[idx[ti]]
					results[ti] = w.run(&yieldReader{s: s, data: w.data, chunk: w.chunk})
				})
			}
			s = newSched(c, bodies)
			s.run()
			c.Steps(s.steps)
			d := fmt.Sprintf("after %s: T0:%s | T1:%s", h.name, ws[pr.a].name, ws[pr.b].name)
			fail := func(key, detail string) mc.Verdict {
				v := mc.Fail(key, d+": "+detail+" (schedule "+strings.Join(s.trace, " ")+")")
				v.Render = d + " schedule " + strings.Join(s.trace, " ")
				return v
			}
			if s.failure != "" {
				return fail("C18:G5:"+strings.SplitN(s.failure, ":", 2)[0], s.failure)
			}
			for _, t := range s.threads {
				if t.panicV != "" {
					return fail("C18:G5:panic", t.panicV)
				}
			}
			if len(s.races) > 0 {
				return fail("C18:G5:data-race", sortedRaces(s.races))
			}
			for ti, wi := range idx {
				if results[ti] != solo[wi] {
					return fail("C18:G5:overlapping-executions-interfere", fmt.Sprintf("thread %d (%s) returned a different result than when running alone: %s", ti, ws[wi].name, firstDiff(results[ti], solo[wi])))
				}
			}
			v := mc.Pass("both-equal-solo", true)
			if c.Render() {
				v.Render = d + " schedule " + strings.Join(s.trace, " ") + " → both results equal the solo results"
			}
			return v
		},
		Describe: func(item int) string {
			pr := pairs[item%len(pairs)]
			return fmt.Sprintf("%s | %s after %s", ws[pr.a].name, ws[pr.b].name, hists[item/len(pairs)].name)
		},
		CrashKey: func(item int) string { return "C18:crash:overlap" },
	}
}
