package main

import (
	"bytes"
	"fmt"
	"io"
	"strings"
	"time"

	"seehuhn.de/go/postscript"
	"seehuhn.de/go/postscript/type1"
	"seehuhn.de/go/postscript/type1/names"

	"verif/mc"
	"verif/model/corpus"
	"verif/model/observe"
	"verif/model/pscmp"
)

// G5 overlapping executions: two library calls on distinct instances run in two
// goroutines; the input of each arrives through a reader that hands control to
// the explorer before and after every delivery, so every interleaving of the
// two executions at Read-call granularity (<= N preemptions) is explored, from
// a clean process state and after histories that exercised eexec, the font
// reader and the CMap reader.  Oracle: each call returns exactly what it
// returns when it runs alone.

// yieldReader delivers data in chunks; yield == nil means free-running.
type yieldReader struct {
	yield func()
	data  []byte
	pos   int
	chunk int
}

func (r *yieldReader) Read(p []byte) (int, error) {
	if r.yield != nil {
		r.yield() // the caller is blocked in Read, nothing delivered yet
	}
	if r.pos >= len(r.data) {
		return 0, io.EOF
	}
	n := min(len(p), r.chunk)
	n = copy(p[:n], r.data[r.pos:])
	r.pos += n
	if r.yield != nil {
		r.yield() // data is in the caller's buffer, the caller has not seen it yet
	}
	return n, nil
}

// yieldWriter collects output; every `every`-th Write call is a scheduling
// point before and after the bytes are taken.
type yieldWriter struct {
	yield func()
	every int
	calls int
	buf   []byte
}

func (w *yieldWriter) Write(p []byte) (int, error) {
	w.calls++
	// the first calls (the clear-text head of a font, the header of a metrics
	// file) are all scheduling points, later ones every `every`-th
	at := w.yield != nil && (w.calls <= 6 || w.calls%w.every == 0)
	if at {
		w.yield()
	}
	w.buf = append(w.buf, p...)
	if at {
		w.yield()
	}
	return len(p), nil
}

type overlapWork struct {
	name  string
	data  []byte // input of a reading call (nil for writers and look-ups)
	chunk int
	run   func(r io.Reader, yield func()) string
}

func (w overlapWork) call(yield func()) string {
	return w.run(&yieldReader{yield: yield, data: w.data, chunk: w.chunk}, yield)
}

func overlapWorks() []overlapWork {
	raw := func(r io.Reader, _ func()) string {
		intp := postscript.NewInterpreter()
		err := intp.Execute(r)
		return pscmp.Canon(opTable, intp) + fmt.Sprint(" err=", err)
	}
	kind := func(k string) func(io.Reader, func()) string {
		return func(r io.Reader, _ func()) string { return observe.Run(k, r).Obs }
	}
	font, cmap := kind("font"), kind("cmap")
	maybe := func(yield func()) {
		if yield != nil {
			yield()
		}
	}
	fontWriter := func(format type1.FileFormat, every int) func(io.Reader, func()) string {
		return func(_ io.Reader, yield func()) string {
			w := &yieldWriter{yield: yield, every: every}
			err := corpus.SampleFont().Write(w, &type1.WriterOptions{Format: format})
			return fmt.Sprintf("%x err=%v", w.buf, err)
		}
	}
	var eexecTiny, eexecHex []byte
	for _, in := range corpus.Programs() {
		switch in.Name {
		case "eexec-hex-tiny":
			eexecTiny = in.Data
		case "eexec-hex":
			eexecHex = in.Data
		}
	}
	ws := []overlapWork{
		{"program A", []byte("/who (A) def /val 1111 def /arr [1 2 3 (abc) /nm] def\n"), 9, raw},
		{"program B", []byte("/who (B) def /val 2222 def <48656c6c6f> /s exch def 7 8 mul << /a 1 >> << /b 2 >> eq 1 dict 1 dict ne\n"), 7, raw},
		{"eexec program (tiny)", eexecTiny, 24, raw},
		{"eexec program", eexecHex, 64, raw},
		{"type1.Read(pfa)", corpus.Fonts()[0].Data, 700, font},
		{"type1.Read(noeexec)", corpus.Fonts()[3].Data, 900, font},
		{"ReadCMap", corpus.CMaps()[0].Data, 200, cmap},
		// a creation date in the reader's fourth layout (the list of layouts is package state)
		{"type1.Read(noeexec, date in the Adobe layout)", withDate(corpus.Fonts()[3].Data, "Mon Jan 2 15:04:05 2006"), 900, font},
		// from here on: writers, the other readers and the name tables
		{"Font.Write(pfa, default options)", nil, 0, func(_ io.Reader, yield func()) string {
			w := &yieldWriter{yield: yield, every: 12}
			err := corpus.SampleFont().Write(w, nil)
			return fmt.Sprintf("%x err=%v", w.buf, err)
		}},
		{"Font.Write(pfb)", nil, 0, fontWriter(type1.FormatPFB, 12)},
		{"Font.Write(noeexec)", nil, 0, fontWriter(type1.FormatNoEExec, 12)},
		// two fonts whose glyph sets differ where a standard encoding has a hole:
		// B exists but its standard code is unassigned / only A exists
		{"Font.Write(A and B, code of B unassigned)", nil, 0, func(_ io.Reader, yield func()) string {
			w := &yieldWriter{yield: yield, every: 12}
			err := holeFont(true).Write(w, &type1.WriterOptions{Format: type1.FormatNoEExec})
			return fmt.Sprintf("%x err=%v", w.buf, err)
		}},
		{"Font.Write(A only, standard encoding)", nil, 0, func(_ io.Reader, yield func()) string {
			w := &yieldWriter{yield: yield, every: 12}
			err := holeFont(false).Write(w, &type1.WriterOptions{Format: type1.FormatNoEExec})
			return fmt.Sprintf("%x err=%v", w.buf, err)
		}},
		// outlines with fractional coordinates (the encoder's quotient search)
		{"Font.Write(fractional outlines)", nil, 0, func(_ io.Reader, yield func()) string {
			f := holeFont(true)
			k := 0.0
			for _, nm := range []string{"A", "B"} {
				g := f.NewGlyph(nm, 500.5)
				g.MoveTo(0.1+k, 0.25)
				g.LineTo(100.37+k, 1.0/3)
				g.CurveTo(120.5, 30.125+k, 90.0625, 200.2, 50.7+k, 300.9)
				g.ClosePath()
				k += 0.13
			}
			w := &yieldWriter{yield: yield, every: 12}
			err := f.Write(w, &type1.WriterOptions{Format: type1.FormatPFA})
			return fmt.Sprintf("%x err=%v", w.buf, err)
		}},
		{"Font.WritePDF", nil, 0, func(_ io.Reader, yield func()) string {
			w := &yieldWriter{yield: yield, every: 12}
			l1, l2, err := corpus.SampleFont().WritePDF(w)
			return fmt.Sprintf("%x %d %d err=%v", w.buf, l1, l2, err)
		}},
		{"Metrics.Write", nil, 0, func(_ io.Reader, yield func()) string {
			w := &yieldWriter{yield: yield, every: 6}
			err := corpus.SampleMetrics().Write(w)
			return fmt.Sprintf("%x err=%v", w.buf, err)
		}},
		{"afm.Read", corpus.AFMs()[1].Data, 300, kind("afm")},
		{"pfb decoding", corpus.PFBs()[0].Data, 40, kind("pfb")},
		// segment headers that arrive in pieces (whatever a decoder keeps between two reads is its own)
		{"pfb decoding (short segments, 3 bytes at a time)", []byte{0x80, 1, 3, 0, 0, 0, 'a', 'b', 'c', 0x80, 2, 2, 0, 0, 0, 0x12, 0xef, 0x80, 1, 1, 0, 0, 0, 'z', 0x80, 3}, 3, kind("pfb")},
		{"name look-ups", nil, 0, func(_ io.Reader, yield func()) string {
			var sb strings.Builder
			for _, n := range []string{"A", "f_f_i.alt", "a62", "uni00410042", "dalethatafpatah"} {
				maybe(yield)
				fmt.Fprintf(&sb, "%s=%v/%v ", n, names.ToUnicode(n, false), names.ToUnicode(n, true))
			}
			for _, r := range []rune{'A', 0x2026, 0xFB01} {
				maybe(yield)
				fmt.Fprintf(&sb, "%x=%s ", r, names.FromUnicode(r))
			}
			return sb.String()
		}},
	}
	return ws
}

// withDate gives a clear-text font file a %%CreationDate comment of its own.
func withDate(font []byte, date string) []byte {
	lines := bytes.SplitAfter(font, []byte("\n"))
	var out []byte
	done := false
	for i, l := range lines {
		if bytes.HasPrefix(l, []byte("%%CreationDate:")) {
			continue
		}
		out = append(out, l...)
		if i == 0 && !done {
			out = append(out, []byte("%%CreationDate: "+date+"\n")...)
			done = true
		}
	}
	return out
}

// holeFont: standard names at their standard codes; with B the font has a
// glyph B whose standard code 66 is left unassigned, so the encoding is not
// the standard one.
func holeFont(withB bool) *type1.Font {
	f := corpus.SampleFont()
	f.Glyphs = map[string]*type1.Glyph{}
	enc := make([]string, 256)
	for i := range enc {
		enc[i] = ".notdef"
	}
	names := []string{".notdef", "A"}
	if withB {
		names = append(names, "B")
	}
	for k, nm := range names {
		g := f.NewGlyph(nm, float64(500+10*k))
		g.MoveTo(0, 0)
		g.LineTo(float64(100+k), 0)
		g.LineTo(50, 300)
		g.ClosePath()
	}
	enc[65] = "A"
	f.Encoding = enc
	return f
}

func overlapFamily(preempt int, allHist bool, budget time.Duration) mc.Family {
	ws := overlapWorks()
	const nReaders = 7 // the first seven are the interpreter-based readers
	for _, w := range ws[:nReaders] {
		if len(w.data) == 0 {
			panic("overlap: missing corpus input for " + w.name)
		}
	}
	type hist struct {
		name string
		run  func()
	}
	hists := []hist{
		{"no history", func() {}},
		{"one eexec program", func() { ws[2].run(&yieldReader{data: ws[2].data, chunk: 512}, nil) }},
		{"two eexec programs and a font", func() {
			ws[2].run(&yieldReader{data: ws[2].data, chunk: 512}, nil)
			ws[3].run(&yieldReader{data: ws[3].data, chunk: 3}, nil)
			ws[4].run(&yieldReader{data: ws[4].data, chunk: 512}, nil)
		}},
		{"font, CMap and a failing program", func() {
			ws[5].run(&yieldReader{data: ws[5].data, chunk: 512}, nil)
			ws[6].run(&yieldReader{data: ws[6].data, chunk: 512}, nil)
			ws[0].run(strings.NewReader("1 (a) add"), nil)
		}},
		{"every writer and the remaining readers", func() {
			for _, w := range ws[nReaders:] {
				w.call(nil)
			}
		}},
	}
	// items: reader pairs after every history; pairs involving a writer, another
	// reader or the name tables from a clean state, after the eexec history and
	// after the writer history
	type pair struct{ a, b, h int }
	var pairs []pair
	for a := range ws {
		for b := a; b < len(ws); b++ {
			for h := range hists {
				if b >= nReaders && (h == 1 || h == 3) && !allHist {
					continue
				}
				pairs = append(pairs, pair{a, b, h})
			}
		}
	}
	var solo []string
	return mc.Family{
		Name: "overlapping-executions", Items: len(pairs), MaxDev: preempt, Budget: budget,
		Rule: fmt.Sprintf("%d items = unordered pairs (incl. twice the same) of %d calls {2 raw programs, 2 eexec programs, type1.Read of a PFA and of a clear-text font, ReadCMap | Font.Write with default options / PFB / clear text, two fonts that differ at a hole of the standard encoding, a font with fractional outlines, Font.WritePDF, Metrics.Write, afm.Read, PFB decoding (a font in chunks of 40 bytes; short segments in chunks of 3 bytes, so that segment headers arrive in pieces), 8 name look-ups} on distinct instances in 2 goroutines x histories {none, one eexec program, two eexec programs and a font, font + CMap + failing program, every writer and the remaining readers} (pairs of the first seven after every history, the others after three of them%s); inputs arrive in chunks through readers, output leaves through writers (every 6th/12th call), look-ups are separated by explicit points: each is a scheduling point before and after the data moves; every interleaving with <= %d preemptions (first thread free); oracle: both results equal the results of the same calls running alone, and no two accesses to a package-level variable of the library, a lock-guarded field or a map in a package with locks, one of them a write, are unordered by happens-before (vector clocks over every hooked access; hooks generated from the typed AST: build/gen-c18-sites.json); the sync shim's Pool is a deterministic LIFO (a legal sync.Pool); non-trivial = every execution (both threads run)", len(pairs), len(ws), map[bool]string{true: "; thorough: all five", false: ""}[allHist], preempt),
		Body: func(c *mc.Ctx, item int) mc.Verdict {
			if solo == nil {
				for _, w := range ws {
					solo = append(solo, w.call(nil))
				}
			}
			pr := pairs[item]
			h := hists[pr.h]
			h.run()
			idx := []int{pr.a, pr.b}
			results := make([]string, 2)
			var s *sched
			var bodies []func()
			for ti := range idx {
				ti := ti
				bodies = append(bodies, func() {
					w := ws[idx[ti]]
					results[ti] = w.call(s.Yield)
				})
			}
			s = newSched(c, bodies)
			s.run()
			c.Steps(s.steps)
			d := fmt.Sprintf("after %s: T0:%s | T1:%s", h.name, ws[pr.a].name, ws[pr.b].name)
			fail := func(key, detail string) mc.Verdict {
				v := mc.Fail(key, d+": "+detail+" (schedule "+strings.Join(s.trace, " ")+")")
				v.Render = d + " schedule " + strings.Join(s.trace, " ")
				return v
			}
			if s.failure != "" {
				return fail("C18:G5:"+strings.SplitN(s.failure, ":", 2)[0], s.failure)
			}
			for _, t := range s.threads {
				if t.panicV != "" {
					return fail("C18:G5:panic", t.panicV)
				}
			}
			if len(s.races) > 0 {
				return fail("C18:G5:data-race", sortedRaces(s.races))
			}
			for ti, wi := range idx {
				if results[ti] != solo[wi] {
					return fail("C18:G5:overlapping-executions-interfere", fmt.Sprintf("thread %d (%s) returned a different result than when running alone: %s", ti, ws[wi].name, firstDiff(results[ti], solo[wi])))
				}
			}
			v := mc.Pass("both-equal-solo", true)
			if c.Render() {
				v.Render = d + " schedule " + strings.Join(s.trace, " ") + " → both results equal the solo results"
			}
			return v
		},
		Describe: func(item int) string {
			pr := pairs[item]
			return fmt.Sprintf("%s | %s after %s", ws[pr.a].name, ws[pr.b].name, hists[pr.h].name)
		},
		CrashKey: func(item int) string { return "C18:crash:overlap" },
	}
}
