package main

import (
	"encoding/json"
	"fmt"
	"os"
	"os/exec"
	"strconv"
	"strings"
	"time"

	"verif/mc"
)

// G6 cold start: whatever the library builds on first use (tables, compiled
// patterns, templates) is built under concurrency in the worst case — two
// goroutines making the same first call at the same time.  A long-lived worker
// process is warm after its first execution, so every item of this family runs
// in a child process of its own that has made no library call before the
// scenario starts: two threads under the cooperative scheduler with the
// vector-clock detector over every hooked access (all package-level variables,
// lock-guarded fields, maps of packages with locks).  Happens-before detection
// does not depend on the schedule as long as both accesses happen, so two
// schedules per pair (either thread first, the other preempting at its first
// scheduling point) are enough.

type coldReport struct {
	Races   []string `json:"races"`
	Failure string   `json:"failure"`
	Panics  []string `json:"panics"`
	Differ  string   `json:"differ"`
	Steps   int      `json:"steps"`
}

// script is a fixed chooser: the listed picks first, then always 0.
type script struct {
	picks []int
	pos   int
}

func (s *script) next(n int) int {
	if s.pos < len(s.picks) {
		k := s.picks[s.pos]
		s.pos++
		if k < n {
			return k
		}
	}
	return 0
}
func (s *script) Choose(n int) int  { return s.next(n) }
func (s *script) Deviate(n int) int { return s.next(n) }
func (s *script) Render() bool      { return true }

func coldWorks() []overlapWork {
	ws := overlapWorks()
	ws = append(ws, overlapWork{"program with every lexical form", []byte("16#FF 8#17 add 2#101 add 1.5e3 -.5 <48 65> <~87cURD]i,\"Ebo80~> (s\\n\\051) /n {1 2} [3] << /k 1 >> pop pop pop pop pop pop pop pop pop\n%%Title: t\n%%+ more\n36#ZZ 9223372036854775808 pop pop pop\n"), 11, ws[0].run})
	return ws
}

func coldChild(args []string) {
	a, _ := strconv.Atoi(args[0])
	b, _ := strconv.Atoi(args[1])
	first, _ := strconv.Atoi(args[2])
	ws := coldWorks()
	idx := []int{a, b}
	results := make([]string, 2)
	var s *sched
	var bodies []func()
	for ti := range idx {
		ti := ti
		bodies = append(bodies, func() {
			results[ti] = ws[idx[ti]].call(s.Yield)
		})
	}
	// first pick: which thread starts; second pick: preempt at its first point
	s = newSched(&script{picks: []int{first, 1}}, bodies)
	s.run()
	rep := coldReport{Races: s.races, Failure: s.failure, Steps: s.steps}
	for _, t := range s.threads {
		if t.panicV != "" {
			rep.Panics = append(rep.Panics, t.panicV)
		}
	}
	// after the concurrent first use: the same calls alone must agree
	for ti, wi := range idx {
		if solo := ws[wi].call(nil); solo != results[ti] {
			rep.Differ = fmt.Sprintf("thread %d (%s): %s", ti, ws[wi].name, firstDiff(results[ti], solo))
		}
	}
	json.NewEncoder(os.Stdout).Encode(rep)
}

func coldFamily(budget time.Duration) mc.Family {
	ws := coldWorks()
	type pair struct{ a, b, first int }
	var pairs []pair
	for a := range ws {
		for first := 0; first < 2; first++ {
			pairs = append(pairs, pair{a, a, first})
		}
	}
	// every call next to a program with every lexical form, and writers next to readers
	last := len(ws) - 1
	for a := 0; a < last; a++ {
		pairs = append(pairs, pair{a, last, 0}, pair{a, last, 1})
	}
	var names []string
	for _, w := range ws {
		names = append(names, w.name)
	}
	return mc.Family{
		Name: "cold-start-races", Items: len(pairs), Budget: budget,
		Rule: fmt.Sprintf("%d items, each in a child process of its own that has made no library call before: two goroutines make the same first call (%d calls: %s), or a call next to a program with every lexical form, x which thread starts; cooperative scheduler with scheduling points in the readers and writers, vector-clock happens-before detection over every hooked access (package-level variables, lock-guarded fields, maps); oracle: no unordered conflicting accesses, no deadlock, no panic, and both results equal the results of the same calls made alone afterwards; non-trivial = all", len(pairs), len(ws), strings.Join(names, ", ")),
		Body: func(c *mc.Ctx, item int) mc.Verdict {
			p := pairs[item]
			exe, err := os.Executable()
			if err != nil {
				return mc.Fail("C18:harness:cold-child", err.Error())
			}
			cmd := exec.Command(exe, "-coldpair", strconv.Itoa(p.a), strconv.Itoa(p.b), strconv.Itoa(p.first))
			cmd.Env = append(os.Environ(), "GOMAXPROCS=2")
			out, err := cmd.Output()
			c.Step()
			d := fmt.Sprintf("cold process: T0:%s | T1:%s, T%d starts", ws[p.a].name, ws[p.b].name, p.first)
			if err != nil {
				msg := err.Error()
				if ee, ok := err.(*exec.ExitError); ok {
					msg += ": " + firstLines(string(ee.Stderr), 12)
				}
				v := mc.Fail("C18:G6:cold-child-died", d+": "+msg)
				v.Render = d
				return v
			}
			var rep coldReport
			if err := json.Unmarshal(out, &rep); err != nil {
				return mc.Fail("C18:harness:cold-child", d+": unreadable report: "+err.Error()+": "+firstLines(string(out), 5))
			}
			c.Steps(rep.Steps)
			fail := func(key, detail string) mc.Verdict {
				v := mc.Fail(key, d+": "+detail)
				v.Render = d
				return v
			}
			switch {
			case rep.Failure != "":
				return fail("C18:G6:"+strings.SplitN(rep.Failure, ":", 2)[0], rep.Failure)
			case len(rep.Panics) > 0:
				return fail("C18:G6:panic", rep.Panics[0])
			case len(rep.Races) > 0:
				return fail("C18:G6:data-race-on-first-use", sortedRaces(rep.Races))
			case rep.Differ != "":
				return fail("C18:G6:first-use-under-concurrency-differs", rep.Differ)
			}
			v := mc.Pass("cold-pair-ok", true)
			if c.Render() {
				v.Render = d + " → no race, results as alone"
			}
			return v
		},
		Describe: func(item int) string { return fmt.Sprintf("%s | %s", ws[pairs[item].a].name, ws[pairs[item].b].name) },
		CrashKey: func(item int) string { return "C18:crash:cold" },
	}
}
