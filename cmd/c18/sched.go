package main

import (
	"fmt"
	"runtime/debug"
	"sort"
	"strings"

	"seehuhn.de/go/postscript/zzverifrt"
)

// sched is a cooperative scheduler for real goroutines: exactly one logical
// thread runs at a time; at every lock operation the running thread hands
// control back and the explorer decides who continues.  A vector-clock
// happens-before detector observes every hooked access, so an access pair that
// is not ordered by lock hand-overs is reported in whatever interleaving it
// occurs.
// chooser is what the scheduler needs from the explorer (*mc.Ctx), or from a
// fixed script in a cold-start child process.
type chooser interface {
	Choose(n int) int
	Deviate(n int) int
	Render() bool
}

type sched struct {
	c       chooser
	threads []*thread
	cur     int
	owner   map[*zzverifrt.Mutex]int
	lockVC  map[*zzverifrt.Mutex][]int
	vars    map[uintptr]*varState
	races   []string
	trace   []string
	events  chan event
	failure string
	steps   int
}

type thread struct {
	id      int
	resume  chan struct{}
	vc      []int
	done    bool
	started bool
	want    *zzverifrt.Mutex // lock the thread is waiting to acquire
	body    func()
	panicV  string
}

type event struct {
	thread int
	kind   string // lock | unlock-done | done
	m      *zzverifrt.Mutex
}

type varState struct {
	wThread, wClock int
	wSite           string
	reads           []int // per-thread clock of the last read
	rSite           []string
}

func newSched(c chooser, bodies []func()) *sched {
	s := &sched{c: c, owner: map[*zzverifrt.Mutex]int{}, lockVC: map[*zzverifrt.Mutex][]int{}, vars: map[uintptr]*varState{}, events: make(chan event)}
	n := len(bodies)
	for i, b := range bodies {
		t := &thread{id: i, resume: make(chan struct{}), vc: make([]int, n), body: b}
		t.vc[i] = 1
		s.threads = append(s.threads, t)
	}
	return s
}

// --- called from the running thread -----------------------------------------

func (s *sched) Lock(m *zzverifrt.Mutex) {
	t := s.threads[s.cur]
	t.want = m
	s.events <- event{t.id, "lock", m}
	<-t.resume // granted: the scheduler has recorded ownership
}

func (s *sched) Unlock(m *zzverifrt.Mutex) {
	t := s.threads[s.cur]
	if own, ok := s.owner[m]; !ok || own != t.id {
		s.failure = fmt.Sprintf("thread %d unlocks a mutex it does not hold", t.id)
	}
	delete(s.owner, m)
	s.lockVC[m] = append([]int(nil), t.vc...)
	t.vc[t.id]++
	s.events <- event{t.id, "unlock-done", m}
	<-t.resume
}

// Yield is a pure scheduling point (used by the harness readers).
func (s *sched) Yield() {
	t := s.threads[s.cur]
	s.events <- event{t.id, "yield", nil}
	<-t.resume
}

func (s *sched) Access(addr uintptr, write bool, site string) {
	t := s.threads[s.cur]
	v := s.vars[addr]
	if v == nil {
		v = &varState{wThread: -1, reads: make([]int, len(s.threads)), rSite: make([]string, len(s.threads))}
		s.vars[addr] = v
	}
	// a conflicting earlier access must happen-before this one
	if v.wThread >= 0 && v.wThread != t.id && v.wClock > t.vc[v.wThread] {
		s.race(fmt.Sprintf("%s by thread %d at %s is not ordered after the write by thread %d at %s", rw(write), t.id, site, v.wThread, v.wSite))
	}
	if write {
		for o, rc := range v.reads {
			if o != t.id && rc > t.vc[o] {
				s.race(fmt.Sprintf("write by thread %d at %s is not ordered after the read by thread %d at %s", t.id, site, o, v.rSite[o]))
			}
		}
		v.wThread, v.wClock, v.wSite = t.id, t.vc[t.id], site
	} else {
		v.reads[t.id] = t.vc[t.id]
		v.rSite[t.id] = site
	}
}

func rw(w bool) string {
	if w {
		return "write"
	}
	return "read"
}

func (s *sched) race(msg string) {
	if len(s.races) < 5 {
		s.races = append(s.races, msg)
	}
}

// --- scheduler loop (main goroutine) -----------------------------------------

func (s *sched) enabled() []int {
	var en []int
	add := func(i int) {
		t := s.threads[i]
		if t.done {
			return
		}
		if t.want != nil {
			if _, held := s.owner[t.want]; held {
				return
			}
		}
		en = append(en, i)
	}
	// canonical order: the running thread first if still enabled, then ascending ids
	add(s.cur)
	for i := range s.threads {
		if i != s.cur {
			add(i)
		}
	}
	return en
}

func (s *sched) run() {
	zzverifrt.Sched = s
	defer func() { zzverifrt.Sched = nil }()
	for _, t := range s.threads {
		t := t
		go func() {
			<-t.resume
			defer func() {
				if r := recover(); r != nil {
					t.panicV = fmt.Sprint(r) + "\n" + firstLines(string(debug.Stack()), 12)
				}
				t.done = true
				s.events <- event{t.id, "done", nil}
			}()
			t.body()
		}()
	}
	s.cur = 0
	first := true
	for {
		en := s.enabled()
		if len(en) == 0 {
			allDone := true
			for _, t := range s.threads {
				if !t.done {
					allDone = false
				}
			}
			if !allDone {
				s.failure = "deadlock: no enabled thread: " + strings.Join(s.trace, " ")
				// leak the blocked goroutines: the execution is over
			}
			return
		}
		var pick int
		curEnabled := en[0] == s.cur && !s.threads[s.cur].done
		switch {
		case first:
			pick = s.c.Choose(len(en)) // free choice of the first thread
			first = false
		case curEnabled:
			pick = s.c.Deviate(len(en)) // switching away from a runnable thread is a preemption
		default:
			pick = s.c.Choose(len(en))
		}
		id := en[pick]
		s.cur = id
		t := s.threads[id]
		if t.want != nil {
			// grant the lock: acquire edge
			m := t.want
			s.owner[m] = id
			if lv := s.lockVC[m]; lv != nil {
				for i := range t.vc {
					if lv[i] > t.vc[i] {
						t.vc[i] = lv[i]
					}
				}
			}
			t.want = nil
			if s.c.Render() {
				s.trace = append(s.trace, fmt.Sprintf("T%d:lock", id))
			}
		} else if s.c.Render() {
			s.trace = append(s.trace, fmt.Sprintf("T%d", id))
		}
		s.steps++
		t.resume <- struct{}{}
		<-s.events // the thread runs until its next scheduling point
		if s.steps > 100000 {
			s.failure = "livelock: more than 100000 scheduling steps"
			return
		}
	}
}

func firstLines(s string, n int) string {
	l := strings.Split(s, "\n")
	if len(l) > n {
		l = l[:n]
	}
	return strings.Join(l, "\n")
}

func sortedRaces(r []string) string {
	r = append([]string(nil), r...)
	sort.Strings(r)
	return strings.Join(r, "; ")
}
