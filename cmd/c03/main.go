// C03 — procedures, name lookup and control flow follow PostScript semantics.
//
// Decided by bounded-exhaustive enumeration of program SHAPES run on the real
// interpreter and on the reference machine (verif/model/psmodel):
//
//  1. shapes: every program with at most K statements (quick 3, thorough 4; a
//     reduced alphabet one size larger) built from atoms (pushes, pop/add/dup,
//     exit, stop, a variable, a procedure name, rebinding of both) and
//     constructs (exec, if, ifelse, for x3, forall x2, loop, repeat x2, a
//     procedure literal, define-and-call, bind exec, dict begin..end, load exec)
//     nested to depth 3 (thorough 4); the path through the choice tree IS the
//     program;
//  2. literal-positions: every way of running a body x bodies of length 1..3
//     with a procedure literal in every position (first, middle, last);
//  3. dictstack: every dictionary-stack depth 2..20 with a name defined at each
//     single level or pair of levels, probed by execution, load, where, known;
//     begin at the limit, end below the base; operator names shadowed before
//     and after bind.
//
// Oracle: final operand stack, dictionary stack and reachable dictionaries
// equal to the reference (pscmp); error names equal (invalidexit for a stray
// exit, no error for stop).  Tolerances: model/psmodel/RESTRICTIONS.md.
package main

import (
	"fmt"
	"strings"
	"time"

	"seehuhn.de/go/postscript"

	"verif/mc"
	"verif/model/eexecref"
	"verif/model/pscmp"
	"verif/model/psrun"
)

var opTable = pscmp.NewOpTable()

const preamble = `/v 7 def /f {10 add} def`

type atom struct{ text, kind string }

var atoms = []atom{
	{"1", "push"}, {"2", "push"}, {"pop", "op"}, {"add", "op"}, {"dup", "op"},
	{"exit", "exit"}, {"stop", "stop"}, {"v", "var"}, {"f", "call"},
	{"/v 8 def", "rebind"}, {"/f {20} def", "rebind"}, {"/k", "push"}, {"count", "op"},
	// rebinding without def: the value stored under a name changes through put
	{"currentdict /v 9 put", "rebind-put"}, {"userdict /f {30} put", "rebind-put"},
}

// a construct is text with %s slots for bodies
type construct struct {
	parts []string // len = bodies+1
	kind  string
}

var constructs = []construct{
	{[]string{"{", "} exec"}, "exec"},
	{[]string{"true {", "} if"}, "if"},
	{[]string{"false {", "} if"}, "if"},
	{[]string{"true {", "} {", "} ifelse"}, "ifelse"},
	{[]string{"false {", "} {", "} ifelse"}, "ifelse"},
	{[]string{"0 1 2 {", "} for"}, "for"},
	{[]string{"2 -1 1 {", "} for"}, "for"},
	{[]string{"1 1 0 {", "} for"}, "for"},
	{[]string{"[5 6] {", "} forall"}, "forall"},
	{[]string{"(a\xe9) {", "} forall"}, "forall"}, // a byte >= 0x80: strings are byte sequences
	{[]string{"{", "} loop"}, "loop"},
	{[]string{"2 {", "} repeat"}, "repeat"},
	{[]string{"0 {", "} repeat"}, "repeat"},
	{[]string{"{", "}"}, "lit"},
	{[]string{"/g {", "} def g"}, "defcall"},
	{[]string{"{", "} bind exec"}, "bind"},
	{[]string{"3 dict begin ", " end"}, "dict"},
	{[]string{"/g {", "} def /g load exec"}, "load"},
}

// reduced alphabets for the largest size
var smallAtoms = []int{0, 2, 5, 6, 7, 8}                   // 1 pop exit stop v f
var smallConstructs = []int{0, 1, 3, 5, 8, 10, 11, 13, 14} // exec if ifelse for forall loop repeat lit defcall

type gen struct {
	c         *mc.Ctx
	forced    []int // leading choices fixed by the item (sharding)
	invalid   bool
	remaining int
	sb        strings.Builder
	kinds     map[string]bool
	atoms     []int
	cons      []int
}

// body emits statements until END is chosen or the size budget is used up.
func (g *gen) body(depth int) {
	for g.remaining > 0 {
		n := 1 + len(g.atoms)
		if depth > 0 {
			n += len(g.cons)
		}
		var k int
		if len(g.forced) > 0 {
			k = g.forced[0]
			g.forced = g.forced[1:]
			if k >= n {
				g.invalid = true
				return
			}
		} else {
			k = g.c.Choose(n)
		}
		if k == 0 {
			return
		}
		k--
		g.remaining--
		if k < len(g.atoms) {
			a := atoms[g.atoms[k]]
			g.sb.WriteString(a.text)
			g.sb.WriteByte(' ')
			g.kinds[a.kind] = true
			continue
		}
		con := constructs[g.cons[k-len(g.atoms)]]
		g.kinds[con.kind] = true
		for i, p := range con.parts {
			g.sb.WriteString(p)
			if i < len(con.parts)-1 {
				g.body(depth - 1)
			}
		}
		g.sb.WriteByte(' ')
	}
}

func allIdx(n int) []int {
	r := make([]int, n)
	for i := range r {
		r[i] = i
	}
	return r
}

func judge(c *mc.Ctx, family, prog string, kinds map[string]bool) mc.Verdict {
	return judgeBudget(c, family, prog, kinds, 3000, 1200)
}

func judgeBudget(c *mc.Ctx, family, prog string, kinds map[string]bool, implOps, modelSteps int) mc.Verdict {
	pr := psrun.NewPairBudget(opTable, implOps, modelSteps)
	if r := pr.Step(preamble); !r.OK || r.Skipped {
		return mc.Fail("C03:harness:preamble", r.Detail)
	}
	r := pr.Step(prog)
	c.Step()
	if !r.OK {
		var ks []string
		for _, k := range []string{"exec", "if", "ifelse", "for", "forall", "loop", "repeat", "lit", "defcall", "bind", "dict", "load", "exit", "stop", "rebind", "call", "var"} {
			if kinds[k] {
				ks = append(ks, k)
			}
		}
		v := mc.Fail(fmt.Sprintf("C03:%s:%s:{%s}", family, r.Class, strings.Join(ks, ",")), fmt.Sprintf("program `%s` (after `%s`): %s", prog, preamble, r.Detail))
		v.Render = prog
		return v
	}
	v := mc.Pass(r.Outcome, !r.Skipped)
	if c.Render() {
		v.Render = prog + " → " + r.Outcome + " stack [" + pscmp.ShowStack(pr.I.Stack) + "]"
	}
	return v
}

func shapesFamily(name string, size, depth int, at, co []int, budget time.Duration) mc.Family {
	// item = the first two choices (to shard evenly); the rest by DFS
	m := 1 + len(at) + len(co)
	return mc.Family{
		Name:   name,
		Items:  m * m,
		Budget: budget,
		Rule: fmt.Sprintf("every program with <= %d statements over %d atoms and %d constructs nested to depth <= %d (item = the first two generator choices, the rest of the program is the path through the choice tree); non-trivial = the reference defines the outcome (final state compared, or prescribed error name)",
			size, len(at), len(co), depth),
		Body: func(c *mc.Ctx, item int) mc.Verdict {
			g := &gen{c: c, remaining: size, kinds: map[string]bool{}, atoms: at, cons: co, forced: []int{item / m, item % m}}
			g.body(depth)
			if g.invalid || (len(g.forced) > 0 && !(len(g.forced) == 1 && g.forced[0] == 0)) {
				// the forced choices do not denote a program (or denote one already
				// produced by another item)
				return mc.Pass("no-program-for-item", false)
			}
			return judge(c, "shapes", g.sb.String(), g.kinds)
		},
		Describe: func(item int) string {
			return fmt.Sprintf("programs whose first two generator choices are %d,%d", item/m, item%m)
		},
		CrashKey: func(item int) string { return "C03:crash:shapes" },
	}
}

// ---------------------------------------------------------------------------

var runners = []struct{ pre, post, kind string }{
	{"{", "} exec", "exec"},
	{"true {", "} if", "if"},
	{"true {", "} {99} ifelse", "ifelse"},
	{"false {99} {", "} ifelse", "ifelse"},
	{"1 1 2 {pop ", "} for", "for"},
	{"[5] {pop ", "} forall", "forall"},
	{"{", " exit} loop", "loop"},
	{"2 {", "} repeat", "repeat"},
	{"/g {", "} def g", "defcall"},
	{"{", "} bind exec", "bind"},
	{"/g {", "} def /g load exec", "load"},
	{"{{", "} exec} exec", "exec"},
}

var slots = []string{"7", "{8}", "{8 {9}}", "dup", "{}"}

func positionsFamily(budget time.Duration) mc.Family {
	var progs []string
	var kinds []string
	for _, r := range runners {
		for n := 1; n <= 3; n++ {
			total := 1
			for i := 0; i < n; i++ {
				total *= len(slots)
			}
			for idx := 0; idx < total; idx++ {
				x := idx
				parts := make([]string, n)
				hasLit := false
				for i := range parts {
					parts[i] = slots[x%len(slots)]
					if strings.HasPrefix(parts[i], "{") {
						hasLit = true
					}
					x /= len(slots)
				}
				if !hasLit {
					continue
				}
				for _, tail := range []string{"", " exec", " count"} {
					progs = append(progs, "3 "+r.pre+strings.Join(parts, " ")+r.post+tail)
					kinds = append(kinds, r.kind)
				}
			}
		}
	}
	return mc.Family{
		Name:   "literal-positions",
		Items:  len(progs),
		Budget: budget,
		Rule:   fmt.Sprintf("%d ways of running a body x every body of length 1..3 over %v containing at least one procedure literal (so the literal stands first, in the middle and last) x 3 continuations; non-trivial = reference defines the outcome", len(runners), slots),
		Body: func(c *mc.Ctx, item int) mc.Verdict {
			return judge(c, "positions", progs[item], map[string]bool{kinds[item]: true, "lit": true})
		},
	}
}

// loopOperandsFamily: the numeric operands of for and repeat and the container of
// forall, each over a small complete grid, with bodies that end the loop, let
// it run, or use the loop variable.
func loopOperandsFamily(budget time.Duration) mc.Family {
	nums := []string{"-1", "0", "1", "2", "3", "0.5", "-0.5", "1.5"}
	bodies := []string{"", "exit", "pop", "pop exit", "dup", "count 6 ge {exit} if", "{exit} loop", "pop 1 {exit} repeat"}
	var progs, kinds []string
	for _, i := range nums {
		for _, st := range nums {
			for _, l := range nums {
				for _, b := range bodies {
					progs = append(progs, fmt.Sprintf("%s %s %s {%s} for count", i, st, l, b))
					kinds = append(kinds, "for")
				}
			}
		}
	}
	// control variables at the ends of the integer range: the loop ends when
	// the next value would lie beyond the limit, also when it cannot be represented
	ends := []string{"9223372036854775807", "9223372036854775806", "9223372036854775805", "-9223372036854775808", "-9223372036854775807", "-9223372036854775806"}
	for _, i := range ends {
		for _, st := range []string{"1", "2", "3", "-1", "-2", "-3", "9223372036854775807", "-9223372036854775808", "4611686018427387904"} {
			for _, l := range ends {
				for _, b := range []string{"", "pop", "count 6 ge {exit} if"} {
					progs = append(progs, fmt.Sprintf("%s %s %s {%s} for count", i, st, l, b))
					kinds = append(kinds, "for")
				}
			}
		}
	}
	for _, n := range []string{"-1", "0", "1", "2", "3", "7", "0.5", "(a)", "true"} {
		for _, b := range bodies {
			progs = append(progs, fmt.Sprintf("9 %s {%s} repeat count", n, b))
			kinds = append(kinds, "repeat")
		}
	}
	for _, cont := range []string{"[]", "[4]", "[4 5]", "[4 5 6]", "[[1] {2} (x)]", "()", "(a)", "(ab\xe9)", "<< >>", "<< /a 1 >>", "1 dict", "3 string", "2 array", "{1 2}", "5", "/nm"} {
		for _, b := range bodies {
			progs = append(progs, fmt.Sprintf("9 %s {%s} forall count", cont, b))
			kinds = append(kinds, "forall")
		}
	}
	return mc.Family{
		Name: "loop-operands", Items: len(progs), Budget: budget,
		Rule: fmt.Sprintf("`i s l {body} for` for every (i, s, l) in %v^3 (incl. increment 0 and reals) and for 6 x 9 x 6 triples at the two ends of the integer range (the control variable would overflow), `9 n {body} repeat` for 9 counts incl. negative and non-integers, `9 c {body} forall` for 16 containers (arrays, strings with a byte >= 0x80, dictionaries with <= 1 entry, procedures, non-containers), each with %d bodies (empty, exit, pop, pop exit, dup, exit when the stack holds 6, an inner loop that exits, an inner repeat that exits); programs that do not end within the reference's step budget are skipped; non-trivial = the reference defines the outcome", nums, len(bodies)),
		Body: func(c *mc.Ctx, item int) mc.Verdict {
			return judge(c, "loop-operands", progs[item], map[string]bool{kinds[item]: true})
		},
		Describe: func(item int) string { return progs[item] },
		CrashKey: func(item int) string { return "C03:crash:loop-operands" },
	}
}

// repetitionFamily: control flow keeps working however often it has been used
// in one interpreter: every stack-neutral body is run N times by repeat, by for
// and by N separate Execute calls on the same interpreter, for N around and
// beyond every small limit of the interpreter (100 execution levels, 20
// dictionaries), and then once more with a deep nest.
func repetitionFamily(budget time.Duration) mc.Family {
	bodies := []string{
		"{exit} loop", "1 {exit} repeat", "0 1 5 {pop exit} for", "[1 2] {pop exit} forall", "{ {exit} loop } exec",
		"/g {{exit} loop} def g", "f pop", "{1 pop} exec", "true {1 pop} if", "false {1} {2} ifelse pop", "1 dict begin end",
		"{ { { {exit} loop } exec } exec } exec", "v pop", "/w {v} def w pop", "{ {1 exit 2} loop pop } exec", "2 {{exit} loop} repeat",
		"{{{{{{{{{{1}exec}exec}exec}exec}exec}exec}exec}exec}exec}exec pop",
		// names are looked up when they are executed, every time: a body that
		// redefines an operator it uses, and a shared body run before and after
		"5 3 add pop /add {sub} def", "/bb {5 3 add pop} def bb /add {sub} def bb", "v f pop /f {pop 2} def",
	}
	counts := []int{19, 20, 21, 99, 100, 101, 102, 150, 400}
	tail := " { { { {7} exec } exec } exec } exec f 5 3 add count"
	modes := []string{"repeat", "for", "calls"}
	n := len(bodies) * len(counts) * len(modes)
	return mc.Family{
		Name: "repetition", Items: n, Budget: budget,
		Rule: fmt.Sprintf("%d stack-neutral bodies (loops left by exit at every nesting, calls, conditionals, begin/end, ten-deep exec) x N in %v x {`N {body} repeat`, `1 1 N {pop body} for`, N consecutive Execute calls of the body on one interpreter}, followed by a four-deep nest and a call; library and reference compared after every call; non-trivial = the reference defines the outcome", len(bodies), counts),
		Body: func(c *mc.Ctx, item int) mc.Verdict {
			body := bodies[item%len(bodies)]
			cnt := counts[(item/len(bodies))%len(counts)]
			mode := modes[item/len(bodies)/len(counts)]
			kinds := map[string]bool{"exit": strings.Contains(body, "exit"), mode: true}
			switch mode {
			case "repeat":
				return judgeBudget(c, "repetition", fmt.Sprintf("%d {%s} repeat%s", cnt, body, tail), kinds, 60000, 60000)
			case "for":
				return judgeBudget(c, "repetition", fmt.Sprintf("1 1 %d {pop %s} for%s", cnt, body, tail), kinds, 60000, 60000)
			}
			pr := psrun.NewPairBudget(opTable, 60000, 60000)
			if r := pr.Step(preamble); !r.OK || r.Skipped {
				return mc.Fail("C03:harness:preamble", r.Detail)
			}
			for k := 0; k <= cnt; k++ {
				prog := body
				if k == cnt {
					prog = tail
				}
				r := pr.Step(prog)
				c.Step()
				if !r.OK {
					v := mc.Fail(fmt.Sprintf("C03:repetition:%s:{calls}", r.Class), fmt.Sprintf("call %d of %d on one interpreter, program `%s` (after `%s`): %s", k+1, cnt+1, prog, preamble, r.Detail))
					v.Render = fmt.Sprintf("%d x `%s`", cnt, body)
					return v
				}
				if r.Skipped {
					return mc.Pass("skipped", false)
				}
			}
			return mc.Pass("calls-ok", true)
		},
		Describe: func(item int) string {
			return fmt.Sprintf("%s x %d (%s)", bodies[item%len(bodies)], counts[(item/len(bodies))%len(counts)], modes[item/len(bodies)/len(counts)])
		},
		CrashKey: func(item int) string { return "C03:crash:repetition" },
	}
}

// nestedForallFamily: forall inside forall (inside forall) over every mix of
// arrays, strings and dictionaries, incl. the same dictionary at two levels.
// The bodies only count and add, so the result does not depend on the order in
// which a dictionary is enumerated and is known in closed form (the reference
// machine leaves dictionary enumeration undefined, so it is not asked).
func nestedForallFamily(budget time.Duration) mc.Family {
	type cont struct {
		text, drop, add string
		n, sum          int
	}
	conts := []cont{
		{"[1 2]", "pop", "add", 2, 3},
		{"[1 2 3]", "pop", "add", 3, 6},
		{"(ab)", "pop", "add", 2, 97 + 98},
		{"<< /a 1 /b 2 >>", "pop pop", "exch pop add", 2, 3},
		{"<< /c 3 /d 4 /e 5 >>", "pop pop", "exch pop add", 3, 12},
		{"dd", "pop pop", "exch pop add", 2, 15},
		{"<< >>", "pop pop", "exch pop add", 0, 0},
	}
	const pre = "/dd << /p 7 /q 8 >> def 0 "
	type prog struct {
		text string
		want int
	}
	var progs []prog
	b2i := func(b bool) int {
		if b {
			return 1
		}
		return 0
	}
	for _, o := range conts {
		for _, i := range conts {
			progs = append(progs,
				// count the inner iterations
				prog{fmt.Sprintf("%s%s {%s %s {%s 1 add} forall} forall", pre, o.text, o.drop, i.text, i.drop), o.n * i.n},
				// add the inner values
				prog{fmt.Sprintf("%s%s {%s %s {%s} forall} forall", pre, o.text, o.drop, i.text, i.add), o.n * i.sum},
				// leave the inner loop at once
				prog{fmt.Sprintf("%s%s {%s %s {%s 1 add exit} forall} forall", pre, o.text, o.drop, i.text, i.drop), o.n * b2i(i.n > 0)},
				// leave the outer loop after one inner run
				prog{fmt.Sprintf("%s%s {%s %s {%s 1 add} forall exit} forall", pre, o.text, o.drop, i.text, i.drop), b2i(o.n > 0) * i.n},
				// the outer loop's operands stay on the stack while the inner loop runs
				prog{fmt.Sprintf("%s%s {%s {%s 100 add} forall %s} forall", pre, o.text, i.text, i.drop, o.add), o.sum + 100*i.n*o.n},
			)
			for _, m := range conts {
				progs = append(progs, prog{fmt.Sprintf("%s%s {%s %s {%s %s {%s 1 add} forall} forall} forall", pre, o.text, o.drop, m.text, m.drop, i.text, i.drop), o.n * m.n * i.n})
			}
		}
	}
	return mc.Family{
		Name: "nested-forall", Items: len(progs), Budget: budget,
		Rule: fmt.Sprintf("%d programs: forall over X inside forall over Y (and a third level) for all X, Y, Z from 2 arrays, a string, 3 dictionary literals (one empty) and a named dictionary (also the same dictionary at several levels); bodies count iterations, add the values, leave the inner or the outer loop, or keep the outer operands on the stack during the inner loop: the result is independent of dictionary order and compared with its closed form; non-trivial = all", len(progs)),
		Body: func(c *mc.Ctx, item int) mc.Verdict {
			p := progs[item]
			intp := postscript.NewInterpreter()
			intp.MaxOps = 100000
			err := intp.ExecuteString(p.text)
			c.Step()
			got := pscmp.ShowStack(intp.Stack)
			if err != nil || len(intp.Stack) != 1 || intp.Stack[0] != postscript.Integer(p.want) {
				v := mc.Fail("C03:nested-forall:wrong-result", fmt.Sprintf("program `%s`: error %v, operand stack [%s], expected [%d]", p.text, err, got, p.want))
				v.Render = p.text
				return v
			}
			v := mc.Pass("nested-forall-ok", true)
			if c.Render() {
				v.Render = p.text + " → " + got
			}
			return v
		},
		Describe: func(item int) string { return progs[item].text },
		CrashKey: func(item int) string { return "C03:crash:nested-forall" },
	}
}

// tailCallsFamily: (1) a procedure name that stands last in a body replaces the
// finished body (a tail call): loops built that way run any number of rounds
// without nesting; a name that does not stand last returns to its caller.
// (2) `exit` is not an error: it leaves the innermost loop also when the
// program has installed its own handlers in errordict.
func tailCallsFamily(budget time.Duration) mc.Family {
	type prog struct{ text, want string }
	var progs []prog
	for _, n := range []int{1, 2, 10, 49, 50, 51, 97, 98, 99, 100, 101, 150, 300, 1000, 5000} {
		progs = append(progs,
			prog{fmt.Sprintf("/n 0 def /f { /n n 1 add def n %d eq {exit} if f } def { f } loop n", n), fmt.Sprint(n)},
			prog{fmt.Sprintf("/n 0 def /g { /n n 1 add def } def /f { g n %d eq {exit} if f } def { f } loop n", n), fmt.Sprint(n)},
			prog{fmt.Sprintf("/n 0 def /f { /n n 1 add def n %d eq {stop} if g } def /g { f } def f", n), ""},
			prog{fmt.Sprintf("/g { 1 add } def /f { g g g } def 0 %d { f } repeat", n), fmt.Sprint(3 * n)},
			prog{fmt.Sprintf("/g { 1 add } def /f { g } def /h { f } def 0 1 1 %d { pop h } for", n), fmt.Sprint(n)},
		)
		if n <= 45 {
			// through if / ifelse every round nests (the limit is C11's business): small counts only
			progs = append(progs,
				prog{fmt.Sprintf("/f { dup %d ne { 1 add f } if } def 0 f", n), fmt.Sprint(n)},
				prog{fmt.Sprintf("/f { dup %d eq { } { 1 add f } ifelse } def 0 f", n), fmt.Sprint(n)},
			)
		}
	}
	handlers := []string{"",
		"errordict /invalidexit { (caught) } put ",
		"errordict /invalidexit { pop } put errordict /undefined { (caught) } put errordict /stackunderflow { (caught) } put ",
		"errordict /handleerror { (caught) } put errordict /invalidexit { stop } put ",
		"errordict /invalidexit { exit } put ",
		"errordict begin /invalidexit { (caught) } def end ",
	}
	loops := []prog{
		{"0 1 1 10 { add dup 6 eq {exit} if } for", "6"},
		{"{ (a) exit (b) } loop", "(a)"},
		{"5 { 1 exit 2 } repeat", "1"},
		{"[7 8 9] { exit } forall", "7"},
		{"(xyz) { exit } forall", "120"},
		{"<< /k 4 >> { exit } forall", "/k 4"},
		{"1 1 3 { { exit } loop } for", "1 2 3"},
		{"{ { { exit } loop exit } loop exit } loop 5", "5"},
		{"{ true { exit } if 1 } loop 2", "2"},
		{"{ false { 1 } { exit } ifelse 1 } loop 3", "3"},
		{"{ { exit } exec 1 } loop 4", "4"},
		{"/e { exit } def { e 1 } loop 5", "5"},
		{"/e { exit } def { { e } exec 1 } loop 6", "6"},
		{"3 { { exit } loop 7 } repeat", "7 7 7"},
	}
	// a name bound to the null object (or to a file) is bound: it hides older
	// definitions further down the dictionary stack like any other value
	nul := "-null/file-"
	progs = append(progs,
		prog{"/v 1 def 1 dict begin /v 1 array 0 get def v end", nul},
		prog{"/v 1 def 1 dict begin /v 1 array 0 get def /v load end", nul},
		prog{"/v 1 def 1 dict begin /v 1 array 0 get def { v } exec end v", nul + " 1"},
		prog{"/v 1 def 1 dict begin /v 1 array 0 get def { v } bind exec end", nul},
		prog{"/v 1 array 0 get def v /v load", nul + " " + nul},
		prog{"/f currentfile def f", nul},
		prog{"/v 1 def 2 dict begin /v 2 def 1 dict begin /v 1 array 0 get def 0 1 2 { pop v } for end v end v", nul + " " + nul + " " + nul + " 2 1"},
	)
	// a procedure is an array that is read while it runs: an element stored
	// into it before execution gets there is the element that is executed,
	// also when it is the last one
	progs = append(progs,
		prog{"/p { /p load 6 99 put 1 2 } def p", "1 99"},
		prog{"/p { /p load 5 77 put 1 2 } def p", "77 2"},
		prog{"/p { /p load 6 99 put 1 2 } def p p", "1 99 1 99"},
		prog{"/b { pop /b load 6 (x) put (y) } def 1 1 2 /b load for", "(x) (x)"},
		prog{"/p { /p load 6 { 5 } put 1 2 } def p", "1 {5}"},
		prog{"/p { /p load 8 /q load put 1 2 q } def /q { 3 } def /q { 4 } def p", "1 2 {4}"},
		prog{"/p { /p load 8 /add load put 1 2 3 } def p", "3"},
	)
	// forall reads the container while it walks over it (arrays and strings
	// are shared, writable objects): what the body stores into a slot
	// that has not been visited yet is what the later round receives, also
	// through a sub-interval that shares the storage and from an inner loop
	progs = append(progs,
		prog{"/a [1 2 3] def a { a 2 99 put } forall", "1 2 99"},
		prog{"/a [1 1 1 1] def /i 0 def a { /i i 1 add def i 4 ne { a i i 1 add put } if } forall", "1 2 3 4"},
		prog{"/a [5 6 7 8] def a 1 3 getinterval { a 3 0 put } forall", "6 7 0"},
		prog{"/a [5 6 7 8] def a { a 1 3 getinterval 2 0 put } forall", "5 6 7 0"},
		prog{"/a [1 2 3] def a { a 0 99 put } forall a 0 get", "1 2 3 99"},
		prog{"/s (abc) def s { s 2 65 put } forall", "97 98 65"},
		prog{"/s (abcd) def s 1 3 getinterval { s 3 48 put } forall", "98 99 48"},
		prog{"/a [1 2 3] def a { 2 { a 2 7 put } repeat } forall", "1 2 7"},
		prog{"/a [1 2 3] def /b [4 5] def a { b { pop a 2 8 put } forall } forall", "1 2 8"},
		prog{"/a [1 2 3] def a { a 1 [4 5] putinterval } forall", "1 4 5"},
	)
	// bind looks at every element of the body it is given, whatever the body
	// begins with: a body that already starts with an operator (bound before in
	// another context, put together by hand, changed since) still has its other
	// operator names replaced, also in nested bodies
	progs = append(progs,
		prog{"/p [ /pop load {add} ] cvx bind def /add {mul} def 5 3 9 p exec", "8"},
		prog{"/p { pop 0 } bind def /p load 1 {add} 0 get put /p load bind pop /add {mul} def 5 3 9 p", "8"},
		prog{"1 dict begin /add {sub} def userdict /p {pop add} bind put end /p load bind pop /add {mul} def 5 3 9 p", "8"},
		prog{"1 dict begin /add {sub} def userdict /p {pop {add}} bind put end /p load bind pop /add {mul} def 5 3 9 p exec", "8"},
		prog{"1 dict begin /add {sub} def userdict /p {pop add} bind put end /add {mul} def 5 3 9 p", "15"},
	)
	// a name whose value is an executable name is resolved again, at the time it is executed
	progs = append(progs,
		prog{"/plus {add} 0 get def 1 2 plus", "3"},
		prog{"/f { 5 } def /g {f} 0 get def g /f { 6 } def g", "5 6"},
		prog{"/e {exit} 0 get def { 1 e 2 } loop", "1"},
		prog{"/a {b} 0 get def /b {c} 0 get def /c { 9 } def a {a} exec", "9 9"},
		prog{"/s {stop} 0 get def 1 s 2", "1"},
	)
	// exit and stop keep their meaning inside an error handler installed by the program
	progs = append(progs,
		prog{"/n 0 def errordict /rangecheck { exit } put mark 3 { 1 1 5 { pop /n n 1 add def (abc) 7 get } for /n n 100 add def } repeat cleartomark n", "303"},
		prog{"/n 0 def errordict /typecheck { exit } put mark { /n n 1 add def 1 (a) add } loop cleartomark n", "1"},
		prog{"errordict /typecheck { stop } put mark 1 (a) add 5", "-mark- 1 (a)"},
		prog{"errordict /stackunderflow { exit } put 1 2 5 { pop } repeat 7", "7"},
	)
	// `stop` ends the program it is in, not the interpreter: the next Execute call runs normally;
	// `bind` looks at the procedure as it is now, whatever an earlier bind has seen
	progs = append(progs,
		prog{"1 stop 2 ¦ 3 4 add", "1 7"},
		prog{"/a 1 def { { stop } exec } exec 9 ¦ a a add ¦ a", "2 1"},
		prog{"5 { stop } repeat ¦ exit", "ERROR invalidexit"},
		prog{"stop ¦ { 1 exit 2 } loop stop 3 ¦ 4", "1 4"},
		prog{"/p { 1 2 q } def /p load bind pop /q { add } def /p load 2 /add load put /p load bind pop /add { mul } def p", "3"},
		prog{"/q { sub } def /p { 7 3 q } bind def /q /add load def /p load bind pop /q { mul } def p", "10"},
	)
	for _, h := range handlers {
		for _, l := range loops {
			progs = append(progs, prog{h + l.text, l.want})
		}
	}
	return mc.Family{
		Name: "tail-calls-and-exit-handlers", Items: len(progs), Budget: budget,
		Rule: fmt.Sprintf("%d programs with a closed-form result: loops made of a procedure that calls itself (directly, through a second procedure, through a helper that returns first) as the last element of its body, for 1..5000 rounds (such a call replaces the finished body and does not nest); names that stand last in a body called 3n times; recursion through if / ifelse for <= 45 rounds; %d loops left by exit (every loop operator, exit inside if / ifelse / exec / a named procedure, nested loops) x %d sets of handlers installed in errordict by the program (none; invalidexit; invalidexit + others; handleerror; a handler that itself exits): exit is not an error and never reaches a handler; 7 programs in which a name is bound to the null object or to a file and hides an older definition; 7 procedures that store into their own body ahead of the point of execution (the last element included); 5 names whose value is an executable name (resolved again when executed); 4 error handlers installed by the program that exit or stop; 4 sequences of Execute calls on one interpreter in which an earlier program ended by stop; 2 procedures bound twice with a change in between; non-trivial = all", len(progs), len(loops), len(handlers)),
		Body: func(c *mc.Ctx, item int) mc.Verdict {
			p := progs[item]
			intp := postscript.NewInterpreter()
			intp.MaxOps = 1000000
			var err error
			// " ¦ " separates consecutive Execute calls on the same interpreter (only the last one's error counts)
			for _, piece := range strings.Split(p.text, " ¦ ") {
				err = intp.ExecuteString(piece)
			}
			c.Step()
			got := pscmp.ShowStack(intp.Stack)
			if strings.HasPrefix(p.want, "ERROR ") {
				if err == nil || !strings.Contains(err.Error(), strings.TrimPrefix(p.want, "ERROR ")) {
					v := mc.Fail("C03:tail-calls-and-exit-handlers:wrong-result", fmt.Sprintf("program `%s`: error %v, expected %s", p.text, err, p.want))
					v.Render = p.text
					return v
				}
				return mc.Pass("ok", true)
			}
			if err != nil || got != p.want {
				v := mc.Fail("C03:tail-calls-and-exit-handlers:wrong-result", fmt.Sprintf("program `%s`: error %v, operand stack [%s], expected [%s]", p.text, err, clipS(got), p.want))
				v.Render = p.text
				return v
			}
			v := mc.Pass("ok", true)
			if c.Render() {
				v.Render = p.text + " → " + got
			}
			return v
		},
		Describe: func(item int) string { return progs[item].text },
		CrashKey: func(item int) string { return "C03:crash:tail-calls-and-exit-handlers" },
	}
}

func clipS(s string) string {
	if len(s) > 200 {
		return s[:200] + "…"
	}
	return s
}

// stopInsideEexecFamily: `stop` ends the program — also when it is executed
// inside an eexec-encrypted section and more text follows the section.
func stopInsideEexecFamily(budget time.Duration) mc.Family {
	bodies := []string{"stop", "{stop} exec", "1 {stop} repeat", "{ {stop} loop } exec", "true {stop} if", "/p {stop} def p", "0 1 3 {pop stop} for", "[1 2] {pop stop} forall", "exit", "1 (a) add"}
	forms := []string{"hex", "binary"}
	return mc.Family{
		Name: "stop-inside-eexec", Items: len(bodies) * len(forms), Budget: budget,
		Rule: fmt.Sprintf("%d bodies (stop directly, in a procedure, in every kind of loop, in a conditional; for contrast exit outside a loop and an error) inside an eexec section (hex, binary), followed by clear text `/c 3 def 42`: after stop the program has ended without error, nothing after the stop has run (c undefined, 42 not pushed, /after undefined); non-trivial = all", len(bodies)),
		Body: func(c *mc.Ctx, item int) mc.Verdict {
			body := bodies[item%len(bodies)]
			binary := item/len(bodies) == 1
			plain := []byte("/before 1 def " + body + " /after 2 def mark currentfile closefile\n")
			enc := eexecref.New().Encrypt(nil, append([]byte{0, 0, 0, 0}, plain...))
			prog := "/start 0 def currentfile eexec\n"
			if binary {
				prog += string(enc) + "\n"
			} else {
				prog += string(eexecref.Armour(enc, 0)) + "\n"
			}
			prog += strings.Repeat("0", 64) + "\ncleartomark /c 3 def 42\n"
			intp := postscript.NewInterpreter()
			err := intp.ExecuteString(prog)
			c.Step()
			what := fmt.Sprintf("`%s` inside a %s eexec section, followed by `/c 3 def 42`", body, forms[item/len(bodies)])
			fail := func(detail string) mc.Verdict {
				v := mc.Fail("C03:stop-inside-eexec", what+": "+detail)
				v.Render = what
				return v
			}
			_, hasC := intp.UserDict["c"]
			_, hasAfter := intp.SystemDict["after"]
			_, hasAfterU := intp.UserDict["after"]
			_, hasBefore := intp.SystemDict["before"]
			if !hasBefore {
				return fail("the section did not run at all (/before undefined)")
			}
			switch {
			case strings.Contains(body, "stop"):
				if err != nil {
					return fail("stop is not an error, got " + err.Error())
				}
				if hasC || hasAfter || hasAfterU || len(intp.Stack) != 0 {
					return fail(fmt.Sprintf("the program went on after stop: c defined=%v, after defined=%v, operand stack [%s]", hasC, hasAfter || hasAfterU, pscmp.ShowStack(intp.Stack)))
				}
			default:
				if err == nil {
					return fail("expected an error")
				}
				if hasC {
					return fail("the program went on after the error")
				}
			}
			return mc.Pass("ended-at-stop", true)
		},
		Describe: func(item int) string { return bodies[item%len(bodies)] },
		CrashKey: func(item int) string { return "C03:crash:stop-inside-eexec" },
	}
}

func dictstackFamily(budget time.Duration) mc.Family {
	var progs []string
	probes := []string{"q", "/q load", "/q where {/q get} {-1} ifelse", "currentdict /q known", "/q where {pop 1} {0} ifelse count"}
	build := func(n int, defs map[int]int) string {
		// n dictionaries on the stack in total (systemdict, userdict, n-2 more)
		var sb strings.Builder
		for lvl := 0; lvl < n; lvl++ {
			switch {
			case lvl == 0:
				if v, ok := defs[0]; ok {
					fmt.Fprintf(&sb, "systemdict /q %d put ", v)
				}
			case lvl == 1:
				if v, ok := defs[1]; ok {
					fmt.Fprintf(&sb, "userdict /q %d put ", v)
				}
			default:
				sb.WriteString("2 dict begin ")
				if v, ok := defs[lvl]; ok {
					fmt.Fprintf(&sb, "/q %d def ", v)
				}
			}
		}
		return sb.String()
	}
	for n := 2; n <= 20; n++ {
		for i := -1; i < n; i++ {
			for j := i; j < n; j++ {
				if i == -1 && j != -1 {
					continue
				}
				defs := map[int]int{}
				if i >= 0 {
					defs[i] = 100 + i
				}
				if j >= 0 && j != i {
					defs[j] = 100 + j
				}
				base := build(n, defs)
				for _, p := range probes {
					progs = append(progs, base+p)
				}
			}
		}
		// limits
		base := build(n, nil)
		progs = append(progs, base+"1 dict begin 1 dict begin")
		progs = append(progs, base+strings.Repeat("end ", n-2)+"end")
		progs = append(progs, base+strings.Repeat("end ", n-2)+"count")
	}
	// operator shadowing and bind
	progs = append(progs,
		"/add {sub} def 5 3 add",
		"/p {add} def /add {sub} def 5 3 p",
		"/p {add} bind def /add {sub} def 5 3 p",
		"/p {{add} exec} bind def /add {sub} def 5 3 p",
		"/p {/add} bind def p",
		"/p {/add load} bind def p 1 2 3 -1 roll exec",
		"/add {sub} def /p {add} bind def 5 3 p",
		"/w 5 def /p {w} bind def /w 6 def p",
		"2 dict begin /add {mul} def /p {add} bind def end 5 3 p",
		"/p {1 {2 {add} exec} exec} bind def /add {sub} def p",
		"/x 1 def x pop currentdict /x 2 put x", "/x 1 def x userdict /x 2 put x", "userdict /add {sub} put 5 3 add",
		"/p {x} def /x 1 def p userdict /x 2 put p", "/n 3 def {n 0 eq {exit} if userdict /n n 1 sub put 7} loop",
		"2 dict begin /x 1 def x currentdict /x 5 put x end", "/x 1 def 2 dict begin x currentdict /x 5 put x end x",
		"/d 2 dict def d begin /x 1 def x end d /x 9 put d begin x end", "/x 1 def x << /x 3 >> userdict copy pop x",
		"{exit} exec 5", "5 {stop} exec 6", "{1 exit 2} loop 3", "{{exit} loop 4 exit} loop 5",
		"1 1 3 {dup 2 eq {exit} if} for 9", "[1 2 3] {dup 2 eq {exit} if} forall 9", "3 {1 exit 2} repeat 9",
		"3 {1 stop 2} repeat 9", "{stop} loop 9", "1 1 3 {stop} for 9", "exit", "stop 5", "1 {exit} if", "true {exit} if 5",
		"2 {2 {7 exit 8} repeat 9} repeat", "0 1 1 {pop {exit} loop 5} for 6", "(ab) {pop 2 {exit} repeat 5} forall",
	)
	return mc.Family{
		Name:   "dictstack-and-binding",
		Items:  len(progs),
		Budget: budget,
		Rule:   "every dictionary-stack depth 2..20 x name defined at no level, each single level and each pair of levels x 5 probes (execute, load, where+get, known in currentdict, where) plus begin at every depth up to the limit, end down to and below the base, operator names shadowed before/after bind, exit/stop in every loop operator; non-trivial = reference defines the outcome",
		Body: func(c *mc.Ctx, item int) mc.Verdict {
			return judge(c, "dictstack", progs[item], map[string]bool{"dict": true})
		},
	}
}

func main() {
	mc.Main(mc.Program{
		Property: "C03",
		Assumptions: []string{
			"the reference machine psmodel is a faithful reading of the PLRM for the supported subset; documented restrictions: model/psmodel/RESTRICTIONS.md",
			"programs that do not terminate within the reference's step budget are skipped (property C11 covers budgets)",
		},
		TrustedBase: []string{"verif/model/psmodel", "verif/model/pscmp"},
		Families: func(tier string) []mc.Family {
			budget := 50 * time.Second
			size, depth := 3, 3
			if tier == "thorough" {
				budget = 30 * time.Minute
				size, depth = 4, 4
			}
			return []mc.Family{
				shapesFamily("shapes", size, depth, allIdx(len(atoms)), allIdx(len(constructs)), budget),
				shapesFamily("shapes-reduced-alphabet", size+1, depth, smallAtoms, smallConstructs, budget),
				positionsFamily(budget),
				dictstackFamily(budget),
				loopOperandsFamily(budget),
				repetitionFamily(budget),
				nestedForallFamily(budget),
				stopInsideEexecFamily(budget),
				tailCallsFamily(budget),
			}
		},
	})
}
