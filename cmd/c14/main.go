// C14 — PFB decoding reproduces the segment contents for every read pattern.
//
// Explicit-state exploration of decoder x caller x source on the real
// pfb.Decode: the stream is the item; the caller's buffer sizes are free
// choices; the source's short reads are deviations.
package main

import (
	"bufio"
	"bytes"
	"errors"
	"fmt"
	"io"
	"reflect"
	"strings"
	"time"

	"seehuhn.de/go/postscript/pfb"

	"verif/env"
	"verif/mc"
)

type seg struct {
	typ int
	n   int
}

type stream struct {
	segs   []seg
	ending int
}

const (
	endMarker = iota
	endNone
	endGarbage
	endBadMarker
	endBadType4
	endBadType0
	endTruncated
	numEndings
)

var endingNames = []string{"marker", "eof-after-segment", "marker+garbage", "bad-marker-header", "type4-header", "type0-header", "last-segment-truncated"}

var segLens = []int{0, 1, 2, 3, 5}

func segAlphabet(lens []int) []seg {
	var a []seg
	for _, t := range []int{1, 2} {
		for _, n := range lens {
			a = append(a, seg{t, n})
		}
	}
	return a
}

// enumerate all streams with <= maxSegs segments.
func allStreams(maxSegs int, lens []int) []stream {
	alpha := segAlphabet(lens)
	var out []stream
	var rec func(cur []seg)
	rec = func(cur []seg) {
		for e := 0; e < numEndings; e++ {
			if e == endTruncated && (len(cur) == 0 || cur[len(cur)-1].n == 0) {
				continue
			}
			out = append(out, stream{segs: append([]seg(nil), cur...), ending: e})
		}
		if len(cur) == maxSegs {
			return
		}
		for _, s := range alpha {
			rec(append(cur, s))
		}
	}
	rec(nil)
	return out
}

func payloadByte(i int) byte { return byte(i*37 + 0xA3) }

const hexdigits = "0123456789abcdef"

// build returns the stream bytes, the expected decoder output and the expected
// final condition.
func (s stream) build() (data []byte, want []byte, final string) {
	ctr := 0
	for i, sg := range s.segs {
		n := sg.n
		data = append(data, 0x80, byte(sg.typ), byte(n), byte(n>>8), byte(n>>16), byte(n>>24))
		cut := 0
		if s.ending == endTruncated && i == len(s.segs)-1 {
			cut = 1
		}
		for j := 0; j < n-cut; j++ {
			b := payloadByte(ctr)
			ctr++
			data = append(data, b)
			if sg.typ == 1 {
				want = append(want, b)
			} else {
				want = append(want, hexdigits[b>>4], hexdigits[b&15])
			}
		}
	}
	switch s.ending {
	case endMarker:
		data = append(data, 0x80, 3)
		final = "eof"
	case endNone:
		final = "eof"
	case endGarbage:
		data = append(data, 0x80, 3)
		data = append(data, []byte("\x80\x01garbage after the end marker")...)
		final = "eof"
	case endBadMarker:
		data = append(data, 0x81, 1, 2, 0, 0, 0, 'x', 'y')
		final = "invalid"
	case endBadType4:
		data = append(data, 0x80, 4, 2, 0, 0, 0, 'x', 'y')
		final = "invalid"
	case endBadType0:
		data = append(data, 0x80, 0, 2, 0, 0, 0, 'x', 'y')
		final = "invalid"
	case endTruncated:
		if s.segs[len(s.segs)-1].typ == 2 {
			final = "error-not-eof"
		} else {
			final = "any"
		}
	}
	return
}

func (s stream) String() string {
	var parts []string
	for _, sg := range s.segs {
		t := "text"
		if sg.typ == 2 {
			t = "bin"
		}
		parts = append(parts, fmt.Sprintf("%s%d", t, sg.n))
	}
	return "[" + strings.Join(parts, " ") + "] ending=" + endingNames[s.ending]
}

var callerSizes = []int{1, 2, 3, 4, 7, 0}

// decoderState dumps the integer-like fields of the decoder by reflection so
// that the explicit-state key follows whatever state the implementation keeps.
func decoderState(r io.Reader) string {
	v := reflect.ValueOf(r)
	for v.Kind() == reflect.Ptr || v.Kind() == reflect.Interface {
		v = v.Elem()
	}
	if v.Kind() != reflect.Struct {
		return "?"
	}
	var sb strings.Builder
	for i := 0; i < v.NumField(); i++ {
		f := v.Field(i)
		switch f.Kind() {
		case reflect.Int, reflect.Int8, reflect.Int16, reflect.Int32, reflect.Int64:
			fmt.Fprintf(&sb, "%d,", f.Int())
		case reflect.Uint, reflect.Uint8, reflect.Uint16, reflect.Uint32, reflect.Uint64:
			fmt.Fprintf(&sb, "%d,", f.Uint())
		case reflect.Bool:
			fmt.Fprintf(&sb, "%v,", f.Bool())
		case reflect.Slice, reflect.Array:
			if f.Type().Elem().Kind() == reflect.Uint8 {
				fmt.Fprintf(&sb, "%x,", f.Bytes())
			}
		}
	}
	return sb.String()
}

func streamBody(streams []stream) func(c *mc.Ctx, item int) mc.Verdict {
	return func(c *mc.Ctx, item int) mc.Verdict {
		st := streams[item]
		data, want, final := st.build()
		src := env.NewSource(data)
		src.Decide = func(call, req, remaining int) (int, bool) {
			switch c.Deviate(4) {
			case 1:
				return 1, false
			case 2:
				return 2, false
			case 3:
				return req, true // everything asked for, EOF together with the last bytes
			}
			return req, false
		}
		dec := pfb.Decode(src)
		var got []byte
		var trace []string
		lastZero := false
		render := func() string {
			return fmt.Sprintf("stream %s bytes=%x caller/source trace: %s", st, data, strings.Join(trace, " "))
		}
		fail := func(kind, detail string) mc.Verdict {
			v := mc.Fail("C14:"+kind+":"+endingNames[st.ending], detail+" | "+render())
			v.Render = render()
			return v
		}
		for step := 0; step < 400; step++ {
			var key bytes.Buffer
			fmt.Fprintf(&key, "%s|%d|%d|%v", decoderState(dec), src.Pos, len(got), lastZero)
			if c.Visit(key.Bytes(), 0) {
				v := mc.Pass("pruned-known-state", false)
				return v
			}
			nsz := len(callerSizes)
			if lastZero {
				nsz--
			}
			size := callerSizes[c.Choose(nsz)]
			lastZero = size == 0
			buf := make([]byte, size)
			n, err := dec.Read(buf)
			c.Step()
			if c.Render() {
				trace = append(trace, fmt.Sprintf("Read(%d)=%d,%v", size, n, err))
			}
			if n < 0 || n > size {
				return fail("bad-count", fmt.Sprintf("Read(%d) returned n=%d", size, n))
			}
			got = append(got, buf[:n]...)
			if !bytes.HasPrefix(want, got) {
				return fail("wrong-output", fmt.Sprintf("output %q is not a prefix of expected %q", got, want))
			}
			if err == nil {
				if n < size {
					return fail("short-read", fmt.Sprintf("Read(%d) returned %d bytes with nil error before the stream ended", size, n))
				}
				continue
			}
			// stream ended: classify
			class := "error"
			if err == io.EOF {
				class = "eof"
			} else if errors.Is(err, pfb.ErrInvalidPFB) {
				class = "invalid"
			}
			switch final {
			case "eof":
				if class != "eof" {
					return fail("unexpected-error", fmt.Sprintf("well-formed stream ended with %v after %q", err, got))
				}
				if !bytes.Equal(got, want) {
					return fail("lost-output", fmt.Sprintf("EOF after %q, expected %q", got, want))
				}
				// EOF must be sticky
				n2, err2 := dec.Read(make([]byte, 3))
				c.Step()
				if n2 != 0 || err2 != io.EOF {
					return fail("eof-not-sticky", fmt.Sprintf("Read after EOF returned %d,%v", n2, err2))
				}
			case "invalid":
				if class != "invalid" {
					return fail("bad-header-not-rejected", fmt.Sprintf("header error expected, got %v after %q", err, got))
				}
				if !bytes.Equal(got, want) {
					return fail("lost-output", fmt.Sprintf("invalid-PFB after %q, expected all of %q first", got, want))
				}
			case "error-not-eof":
				if class == "eof" {
					return fail("truncated-binary-clean-eof", fmt.Sprintf("binary segment shorter than declared ended with clean io.EOF after %q", got))
				}
			case "any":
			}
			v := mc.Pass(endingNames[st.ending]+"/"+class, len(want) > 0)
			if c.Render() {
				v.Render = render()
			}
			return v
		}
		return fail("no-termination", "400 reads without EOF or error")
	}
}

// headerBody: all 2^16 values of the first two header bytes.
func headerBody(c *mc.Ctx, item int) mc.Verdict {
	b0, b1 := byte(item>>8), byte(item)
	lens := []uint32{0, 1, 3, 0x01000000, 0xffffffff}
	l := lens[c.Choose(len(lens))]
	payload := []byte("abc")
	data := []byte{b0, b1, byte(l), byte(l >> 8), byte(l >> 16), byte(l >> 24)}
	data = append(data, payload...)
	size := []int{1, 2, 8}[c.Choose(3)]
	dec := pfb.Decode(env.NewSource(data))
	buf := make([]byte, size)
	n, err := dec.Read(buf)
	c.Step()
	rendered := fmt.Sprintf("header %02x %02x len=%d payload=abc Read(%d) = %d,%v %q", b0, b1, l, size, n, err, buf[:max(n, 0)])
	fail := func(kind, d string) mc.Verdict {
		v := mc.Fail("C14:header:"+kind, d+" | "+rendered)
		v.Render = rendered
		return v
	}
	valid := b0 == 0x80 && b1 >= 1 && b1 <= 3
	var v mc.Verdict
	switch {
	case !valid:
		if !errors.Is(err, pfb.ErrInvalidPFB) || n != 0 {
			return fail("not-rejected", "wrong marker byte or unknown type must give ErrInvalidPFB and no data")
		}
		v = mc.Pass("invalid-header", true)
	case b1 == 3:
		if err != io.EOF || n != 0 {
			return fail("end-marker", "end marker must give io.EOF")
		}
		v = mc.Pass("end-marker", true)
	default:
		avail := int(min(uint32(3), l))
		var want []byte
		if b1 == 1 {
			want = payload[:avail]
		} else {
			for _, b := range payload[:avail] {
				want = append(want, hexdigits[b>>4], hexdigits[b&15])
			}
		}
		if n > len(want) || !bytes.Equal(buf[:n], want[:n]) {
			return fail("wrong-output", fmt.Sprintf("expected prefix of %q", want))
		}
		if errors.Is(err, pfb.ErrInvalidPFB) {
			return fail("valid-rejected", "valid header rejected")
		}
		if l == 0 {
			// next header is 'abc' -> unexpected EOF or invalid; nothing to check beyond no data
			if n != 0 {
				return fail("wrong-output", "empty segment produced data")
			}
		} else if err == nil && n < size && n < len(want) {
			return fail("short-read", "buffer not filled although data remained")
		}
		v = mc.Pass(fmt.Sprintf("valid-type%d", b1), true)
	}
	if c.Render() {
		v.Render = rendered
	}
	return v
}

// manySegmentsBody: streams of many short segments (hundreds of headers, among
// them hundreds of empty text and binary segments), read with small and large
// caller buffers from a source that delivers normally, one byte at a time, or
// answers every other call with an empty read (0, nil).
var manyCounts = []int{50, 99, 100, 101, 102, 150, 300, 1000}
var manyPatterns = []string{"empty text", "empty binary", "empty text and binary in turn", "one-byte text", "one-byte binary", "empty and one-byte in turn"}
var manyBufs = []int{1, 3, 7, 64, 4096}

func manySegmentsBody(c *mc.Ctx, item int) mc.Verdict {
	k := manyCounts[item%len(manyCounts)]
	pat := (item / len(manyCounts)) % len(manyPatterns)
	bufSize := manyBufs[(item/len(manyCounts)/len(manyPatterns))%len(manyBufs)]
	mode := item / len(manyCounts) / len(manyPatterns) / len(manyBufs) // 0 full, 1 one byte, 2 empty reads in between
	var st stream
	for i := 0; i < k; i++ {
		switch pat {
		case 0:
			st.segs = append(st.segs, seg{1, 0})
		case 1:
			st.segs = append(st.segs, seg{2, 0})
		case 2:
			st.segs = append(st.segs, seg{1 + i%2, 0})
		case 3:
			st.segs = append(st.segs, seg{1, 1})
		case 4:
			st.segs = append(st.segs, seg{2, 1})
		default:
			st.segs = append(st.segs, seg{1 + i%2, (i / 2) % 2})
		}
	}
	st.segs = append(st.segs, seg{1, 40}, seg{1, 5}, seg{2, 3})
	st.ending = endMarker
	data, want, _ := st.build()
	src := env.NewSource(data)
	src.Decide = func(call, req, remaining int) (int, bool) {
		switch mode {
		case 1:
			return 1, false
		case 2:
			if call%2 == 0 {
				return -1, false // (0, nil)
			}
		}
		return req, false
	}
	r := pfb.Decode(src)
	var got []byte
	buf := make([]byte, bufSize)
	var err error
	for steps := 0; steps < 10*len(want)+10*k+1000; steps++ {
		var n int
		n, err = r.Read(buf)
		got = append(got, buf[:n]...)
		if err != nil {
			break
		}
		if n < len(buf) && len(got) < len(want) {
			// "always filling the caller's buffer unless the stream ends": also when the source idles
			what := fmt.Sprintf("%d segments (%s) followed by text5, bin3 and the end marker; caller buffer %d; source mode %d", k, manyPatterns[pat], bufSize, mode)
			v := mc.Fail("C14:many-segments:short-read", fmt.Sprintf("%s: Read returned %d of %d bytes without an error at output offset %d of %d", what, n, len(buf), len(got)-n, len(want)))
			v.Render = what
			return v
		}
	}
	c.Steps(src.Calls)
	what := fmt.Sprintf("%d segments (%s) followed by text5, bin3 and the end marker; caller buffer %d; source mode %d", k, manyPatterns[pat], bufSize, mode)
	if err != io.EOF {
		v := mc.Fail("C14:many-segments:error", fmt.Sprintf("%s: ended with %v after %d of %d output bytes", what, err, len(got), len(want)))
		v.Render = what
		return v
	}
	if !bytes.Equal(got, want) {
		v := mc.Fail("C14:many-segments:wrong-output", fmt.Sprintf("%s: output %q, expected %q", what, got, want))
		v.Render = what
		return v
	}
	return mc.Pass("many-segments-ok", true)
}

// trailingBody: whatever follows the end marker (a final newline, CR LF, padding,
// more bytes) is not part of the stream: 0..8 bytes of four kinds behind the
// marker, for a few streams, caller buffers and source behaviours.
var trailKinds = []string{"line feeds", "CR LF pairs", "zero bytes", "bytes starting with 0x80"}
var trailStreams = [][]seg{{}, {{1, 3}}, {{2, 2}}, {{1, 1}, {2, 1}}, {{2, 0}, {1, 0}}}

func trailingBody(c *mc.Ctx, item int) mc.Verdict {
	k := item % 9
	kind := (item / 9) % len(trailKinds)
	st := stream{segs: trailStreams[(item/9/len(trailKinds))%len(trailStreams)], ending: endMarker}
	bufSize := manyBufs[(item/9/len(trailKinds)/len(trailStreams))%len(manyBufs)]
	mode := item / 9 / len(trailKinds) / len(trailStreams) / len(manyBufs)
	data, want, _ := st.build()
	for i := 0; i < k; i++ {
		switch kind {
		case 0:
			data = append(data, '\n')
		case 1:
			data = append(data, "\r\n"[i%2])
		case 2:
			data = append(data, 0)
		default:
			data = append(data, []byte{0x80, 1, 2, 0, 0, 0, 'x', 'y'}[i])
		}
	}
	src := env.NewSource(data)
	src.Decide = func(call, req, remaining int) (int, bool) {
		switch mode {
		case 1:
			return 1, false
		case 2:
			return req, true // EOF together with the last bytes
		}
		return req, false
	}
	r := pfb.Decode(src)
	var got []byte
	buf := make([]byte, bufSize)
	var err error
	for steps := 0; steps < 1000; steps++ {
		var n int
		n, err = r.Read(buf)
		got = append(got, buf[:n]...)
		if err != nil {
			break
		}
	}
	c.Steps(src.Calls)
	what := fmt.Sprintf("%s, end marker, then %d %s; caller buffer %d; source mode %d", st.String(), k, trailKinds[kind], bufSize, mode)
	if err != io.EOF {
		v := mc.Fail("C14:after-end-marker:error", fmt.Sprintf("%s: ended with %v after %d of %d output bytes", what, err, len(got), len(want)))
		v.Render = what
		return v
	}
	if !bytes.Equal(got, want) {
		v := mc.Fail("C14:after-end-marker:wrong-output", fmt.Sprintf("%s: output %q, expected %q", what, got, want))
		v.Render = what
		return v
	}
	return mc.Pass("trailing-bytes-ignored", true)
}

// payloadBody: what a segment contains has no influence on how it is decoded.
// item = (type, four leading payload bytes from classes that mean something
// elsewhere in the format, caller buffer size).
var payloadClasses = []byte{'a', 'F', '1', 'g', 0x80, 0x03, 0x00, '\n'}
var payloadBufs = []int{1, 6, 7, 8, 16, 600}

func payloadBody(c *mc.Ctx, item int) mc.Verdict {
	nc := len(payloadClasses)
	typ := 1 + item%2
	p := item / 2
	var lead [4]byte
	for i := range lead {
		lead[i] = payloadClasses[p%nc]
		p /= nc
	}
	bufSize := payloadBufs[p%len(payloadBufs)]
	extra := c.Choose(3) // 0, 3 or 300 further payload bytes
	payload := append([]byte{}, lead[:]...)
	for i := 0; i < []int{0, 3, 300}[extra]; i++ {
		payload = append(payload, payloadByte(i))
	}
	n := len(payload)
	// the text before the segment may end in the operator that, in a font, announces encrypted data
	lead1 := []string{"AB", "eexec", "currentfile eexec", "dup /Private 8 dict dup begin currentfile eexec\r"}[c.Choose(4)]
	data := append([]byte{0x80, 1, byte(len(lead1)), 0, 0, 0}, lead1...)
	data = append(data, 0x80, byte(typ), byte(n), byte(n>>8), 0, 0)
	data = append(data, payload...)
	data = append(data, 0x80, 1, 1, 0, 0, 0, 'C', 0x80, 3)
	want := []byte(lead1)
	for _, b := range payload {
		if typ == 1 {
			want = append(want, b)
		} else {
			want = append(want, hexdigits[b>>4], hexdigits[b&15])
		}
	}
	want = append(want, 'C')
	r := pfb.Decode(bytes.NewReader(data))
	var got []byte
	buf := make([]byte, bufSize)
	var err error
	for steps := 0; steps < 5000; steps++ {
		var k int
		k, err = r.Read(buf)
		got = append(got, buf[:k]...)
		if err != nil {
			break
		}
	}
	c.Step()
	what := fmt.Sprintf("text %q, %s segment starting with %q (%d bytes), text C, end marker; caller buffer %d", lead1, []string{"", "text", "binary"}[typ], lead[:], n, bufSize)
	if err != io.EOF || !bytes.Equal(got, want) {
		v := mc.Fail("C14:payload-values:wrong-output", fmt.Sprintf("%s: ended with %v, output %q, expected %q", what, err, clipB(got), clipB(want)))
		v.Render = what
		return v
	}
	v := mc.Pass("decoded-whatever-the-payload", true)
	if c.Render() {
		v.Render = what + " → as expected"
	}
	return v
}

func clipB(b []byte) []byte {
	if len(b) > 80 {
		return b[:80]
	}
	return b
}

// bigBufferBody: "always filling the caller's buffer unless the stream ends",
// for buffers larger than any internal chunk size.
var bigBufs = []int{4096, 32767, 32768, 32769, 40000, 65536, 65537, 100000, 1 << 20}
var bigSegs = []int{1000, 70000, 300000}

func bigBufferBody(c *mc.Ctx, item int) mc.Verdict {
	bufSize := bigBufs[item%len(bigBufs)]
	n := bigSegs[(item/len(bigBufs))%len(bigSegs)]
	typ := 1 + item/len(bigBufs)/len(bigSegs)
	data := []byte{0x80, 1, 2, 0, 0, 0, 'A', 'B', 0x80, byte(typ), byte(n), byte(n >> 8), byte(n >> 16), 0}
	want := []byte("AB")
	for i := 0; i < n; i++ {
		b := payloadByte(i)
		data = append(data, b)
		if typ == 1 {
			want = append(want, b)
		} else {
			want = append(want, hexdigits[b>>4], hexdigits[b&15])
		}
	}
	data = append(data, 0x80, 1, 1, 0, 0, 0, 'C', 0x80, 3)
	want = append(want, 'C')
	r := pfb.Decode(bytes.NewReader(data))
	var got []byte
	buf := make([]byte, bufSize)
	what := fmt.Sprintf("text AB, %s segment of %d bytes, text C, end marker; caller buffer %d", []string{"", "text", "binary"}[typ], n, bufSize)
	for steps := 0; steps < 5000; steps++ {
		k, err := r.Read(buf)
		got = append(got, buf[:k]...)
		c.Step()
		if err == nil && k < bufSize && len(got) < len(want) {
			v := mc.Fail("C14:big-buffer:short-read", fmt.Sprintf("%s: Read returned %d bytes without an error at offset %d of %d: the buffer was not filled although the stream has not ended", what, k, len(got)-k, len(want)))
			v.Render = what
			return v
		}
		if err != nil {
			if err != io.EOF || !bytes.Equal(got, want) {
				v := mc.Fail("C14:big-buffer:wrong-output", fmt.Sprintf("%s: ended with %v after %d of %d bytes", what, err, len(got), len(want)))
				v.Render = what
				return v
			}
			break
		}
	}
	return mc.Pass("filled", true)
}

// giantBufferBody: a caller's buffer may be larger than anything a 32-bit
// quantity holds (only address space is needed for it: the pages are never
// touched).  What a Read asks of the underlying reader is bounded by what is
// left of the segment, whatever the size of the buffer.
var giantBufs = []int64{1<<32 - 1, 1 << 32, 1<<32 + 7, 1 << 33, 1<<33 + 2}

func giantBufferBody(c *mc.Ctx, item int) mc.Verdict {
	size := giantBufs[item%len(giantBufs)]
	first := item / len(giantBufs) // 0: the giant buffer is used for every Read, 1: after one small Read
	data := []byte{0x80, 1, 2, 0, 0, 0, 'A', 'B', 0x80, 2, 3, 0, 0, 0, 0x01, 0xab, 0xff, 0x80, 1, 1, 0, 0, 0, 'C', 0x80, 2, 1, 0, 0, 0, 0x5a, 0x80, 3}
	want := []byte("AB01abffC5a")
	r := pfb.Decode(bytes.NewReader(data))
	buf := make([]byte, size)
	var got []byte
	what := fmt.Sprintf("text AB, binary 01 ab ff, text C, binary 5a, end marker; caller buffer of %d bytes", size)
	if first == 1 {
		k, _ := r.Read(buf[:1])
		got = append(got, buf[:k]...)
		what += " after a Read of one byte"
	}
	for steps := 0; steps < 50; steps++ {
		k, err := r.Read(buf)
		c.Step()
		if k > len(want)+8 {
			v := mc.Fail("C14:giant-buffer:wrong-output", fmt.Sprintf("%s: one Read returned %d bytes, the whole output has %d", what, k, len(want)))
			v.Render = what
			return v
		}
		got = append(got, buf[:k]...)
		if err != nil {
			if err != io.EOF || !bytes.Equal(got, want) {
				v := mc.Fail("C14:giant-buffer:wrong-output", fmt.Sprintf("%s: ended with %v, output %q, expected %q", what, err, got, want))
				v.Render = what
				return v
			}
			return mc.Pass("exact", true)
		}
	}
	v := mc.Fail("C14:giant-buffer:no-end", what+": no end of stream after 50 reads")
	v.Render = what
	return v
}

// hugeBody: a segment may be as long as its 32-bit length field says.  The data
// comes from a synthetic source (nothing of that size is kept in memory); the
// decoder's output is counted and its tail compared.
type synthSource struct {
	head  []byte // header of the huge segment
	n     int64  // payload bytes still to deliver
	tail  []byte // what follows the huge segment
	phase int
}

func (s *synthSource) Read(p []byte) (int, error) {
	switch {
	case len(s.head) > 0:
		k := copy(p, s.head)
		s.head = s.head[k:]
		return k, nil
	case s.n > 0:
		k := int64(len(p))
		if k > s.n {
			k = s.n
		}
		for i := int64(0); i < k; i++ {
			p[i] = 'x'
		}
		s.n -= k
		return int(k), nil
	case len(s.tail) > 0:
		k := copy(p, s.tail)
		s.tail = s.tail[k:]
		return k, nil
	}
	return 0, io.EOF
}

var hugeLens = []int64{1<<31 - 1, 1 << 31, 1<<31 + 1, 1<<32 - 1}

func hugeBody(c *mc.Ctx, item int) mc.Verdict {
	n := hugeLens[item]
	src := &synthSource{head: []byte{0x80, 1, byte(n), byte(n >> 8), byte(n >> 16), byte(n >> 24)}, n: n,
		tail: []byte{0x80, 1, 3, 0, 0, 0, 'E', 'N', 'D', 0x80, 2, 1, 0, 0, 0, 0xAB, 0x80, 3}}
	r := pfb.Decode(src)
	buf := make([]byte, 1<<20)
	var total int64
	var last []byte
	var err error
	for {
		var k int
		k, err = r.Read(buf)
		total += int64(k)
		last = append(last, buf[:k]...)
		if len(last) > 16 {
			last = last[len(last)-16:]
		}
		if err != nil {
			break
		}
	}
	c.Step()
	what := fmt.Sprintf("text segment of %d bytes followed by the text segment END, the binary segment AB and the end marker", n)
	if err != io.EOF || total != n+3+2 || !bytes.HasSuffix(last, []byte("xENDab")) {
		v := mc.Fail("C14:huge-segment:wrong-output", fmt.Sprintf("%s: %d bytes of output ending in %q, error %v; expected %d bytes ending in \"xENDab\" and io.EOF", what, total, last, err, n+5))
		v.Render = what
		return v
	}
	return mc.Pass("decoded", true)
}

// consumersBody: the decoder is an io.Reader, and most callers consume it
// through the helpers of package io, which look for optional interfaces
// (io.WriterTo) before they fall back to Read.  Whatever path they take, the
// result is the one the Read calls define: the segment contents, and an error
// exactly where reading gives one.
var consumerNames = []string{"io.ReadAll", "io.Copy to a plain writer", "io.Copy from a bufio.Reader around the decoder", "WriteTo called directly (if the decoder has one)", "io.CopyBuffer with a 3-byte buffer", "io.Copy to a bytes.Buffer"}

type plainWriter struct{ buf []byte }

func (w *plainWriter) Write(p []byte) (int, error) { w.buf = append(w.buf, p...); return len(p), nil }

func consumersBody(streams []stream) func(c *mc.Ctx, item int) mc.Verdict {
	return func(c *mc.Ctx, item int) mc.Verdict {
		st := streams[item]
		data, want, final := st.build()
		consumer := c.Choose(len(consumerNames))
		mode := c.Choose(3)
		src := env.NewSource(data)
		src.Decide = func(call, req, remaining int) (int, bool) {
			switch mode {
			case 1:
				return 1, false
			case 2:
				return req, true // EOF together with the last bytes
			}
			return req, false
		}
		r := pfb.Decode(src)
		var got []byte
		var err error
		switch consumer {
		case 0:
			got, err = io.ReadAll(r)
		case 1:
			w := &plainWriter{}
			_, err = io.Copy(w, r)
			got = w.buf
		case 2:
			w := &plainWriter{}
			_, err = io.Copy(w, bufio.NewReaderSize(r, 16))
			got = w.buf
		case 3:
			w := &plainWriter{}
			if wt, ok := r.(io.WriterTo); ok {
				_, err = wt.WriteTo(w)
				got = w.buf
			} else {
				got, err = io.ReadAll(r)
			}
		case 4:
			w := &plainWriter{}
			_, err = io.CopyBuffer(w, struct{ io.Reader }{r}, make([]byte, 3))
			if wt, ok := r.(io.WriterTo); ok && len(w.buf) == 0 && err == nil {
				_, err = wt.WriteTo(w)
			}
			got = w.buf
		default:
			w := &bytes.Buffer{}
			_, err = io.Copy(w, r)
			got = w.Bytes()
		}
		c.Steps(src.Calls + 1)
		what := fmt.Sprintf("%s consumed through %s; source mode %d", st.String(), consumerNames[consumer], mode)
		fail := func(class, detail string) mc.Verdict {
			v := mc.Fail("C14:consumer:"+class, what+": "+detail)
			v.Render = what
			return v
		}
		switch final {
		case "eof":
			if err != nil {
				return fail("error-on-well-formed-stream", fmt.Sprintf("error %v", err))
			}
			if !bytes.Equal(got, want) {
				return fail("wrong-output", fmt.Sprintf("output %q, expected %q", got, want))
			}
		case "invalid", "error-not-eof":
			if err == nil {
				return fail("error-lost", fmt.Sprintf("no error (output %q); reading the stream with Read calls ends with an error (%s)", got, final))
			}
			if !bytes.HasPrefix(want, got) {
				return fail("wrong-output", fmt.Sprintf("output %q is not a prefix of %q", got, want))
			}
		default:
			if !bytes.HasPrefix(want, got) {
				return fail("wrong-output", fmt.Sprintf("output %q is not a prefix of %q", got, want))
			}
		}
		return mc.Pass(final, len(want) > 0)
	}
}

func main() {
	mc.Main(mc.Program{
		Property: "C14",
		// address space for the caller buffers of 4 and 8 GiB of the family
		// caller-buffers-beyond-32-bits (their pages are never touched)
		MemLimitKB: 24 << 20,
		Assumptions: []string{
			"source readers return (0, nil) only in the many-short-segments family (permitted by io.Reader; never twice in a row)",
			"io.EOF is a clean end of stream, not an error, for the purposes of 'gives an error'",
			"in the stream families payload bytes are a fixed pseudo-random sequence; that the decoder's control flow does not depend on payload values is checked by the family payload-values",
		},
		TrustedBase: []string{"io.ReadFull", "reflection-based dump of the decoder's scalar fields as state key"},
		Families: func(tier string) []mc.Family {
			maxSegs, dev := 3, 2
			lens := segLens
			budget := 45 * time.Second
			if tier == "thorough" {
				lens = []int{0, 1, 2, 3, 5, 8}
				budget = 15 * time.Minute
			}
			streamFamily := func(name string, maxSegs, dev int, lens []int) mc.Family {
				streams := allStreams(maxSegs, lens)
				return mc.Family{
					Name:   name,
					Items:  len(streams),
					MaxDev: dev,
					Body:   streamBody(streams),
					Budget: budget,
					Rule: fmt.Sprintf("item = one PFB stream: every sequence of <= %d segments with type in {text,binary} and length in %v, x 7 endings (end marker, EOF after complete segment, marker+garbage, wrong marker byte, type 4, type 0, last segment cut short); "+
						"explicit-state search: caller buffer size for each Read chosen freely from {1,2,3,4,7,0}; each source Read may deviate (1 byte, 2 bytes, data+EOF together), <= %d deviations per execution; state key = decoder fields (reflection) + bytes consumed + bytes delivered; "+
						"non-trivial = execution reached the end of a stream with non-empty expected output", maxSegs, lens, dev),
					Describe: func(i int) string { return streams[i].String() },
					CrashKey: func(i int) string { return "C14:crash:" + endingNames[streams[i].ending] },
				}
			}
			fams := []mc.Family{streamFamily("streams-x-caller-x-source", maxSegs, dev, lens)}
			if tier == "thorough" {
				// the product "4 segments x 6 lengths x 3 deviations" (154,576 streams) needs
				// hours; the two faces of it that fit the budget are explored completely
				fams = []mc.Family{
					streamFamily("streams-x-caller-x-source", 3, 3, lens),
					streamFamily("streams-of-4-segments", 4, 2, []int{0, 1, 3}),
				}
			}
			cs := allStreams(3, segLens)
			fams = append(fams, mc.Family{
				Name: "consumed-through-the-helpers-of-package-io", Items: len(cs), Body: consumersBody(cs), Budget: budget,
				Rule:     fmt.Sprintf("item = one PFB stream (every sequence of <= 3 segments x lengths %v x 7 endings); choices: consumer of %d (io.ReadAll, io.Copy to a plain writer and to a bytes.Buffer, io.Copy from a bufio.Reader around the decoder, the decoder's own WriteTo if it has one, io.CopyBuffer with a 3-byte buffer) x source {full reads, one byte per read, EOF together with the last bytes}: the output is the segment contents (a prefix of them when the stream is broken) and an error is returned exactly for the streams whose Read sequence ends in one (cut-short binary segment, invalid header); non-trivial = non-empty expected output", segLens, len(consumerNames)),
				Describe: func(i int) string { return cs[i].String() },
			})
			fams = append(fams, mc.Family{
				Name:     "caller-buffers-beyond-32-bits",
				Items:    len(giantBufs) * 2,
				Body:     giantBufferBody,
				Budget:   budget,
				Rule:     fmt.Sprintf("item = caller buffer of %v bytes (address space only) x {used from the start, after a Read of one byte}: a stream of two text and two binary segments of 1-3 bytes; the output must be exact, no Read may hand out what lies behind the segment; non-trivial = all", giantBufs),
				CrashKey: func(int) string { return "C14:crash:giant-buffer" },
			})
			fams = append(fams, mc.Family{
				Name:   "many-short-segments",
				Items:  len(manyCounts) * len(manyPatterns) * len(manyBufs) * 3,
				Body:   manySegmentsBody,
				Budget: budget,
				Rule:   fmt.Sprintf("item = number of leading segments %v x pattern %q x caller buffer %v x source {full reads, one byte per read, every other call an empty read (0, nil)}: the leading segments are followed by a 40-byte and a 5-byte text segment, a 3-byte binary segment and the end marker; the output must be exactly the segment contents, every Read before the end must fill the buffer, and the stream ends with io.EOF; non-trivial = all", manyCounts, manyPatterns, manyBufs),
			})
			fams = append(fams, mc.Family{
				Name:   "bytes-after-the-end-marker",
				Items:  9 * len(trailKinds) * len(trailStreams) * len(manyBufs) * 3,
				Body:   trailingBody,
				Budget: budget,
				Rule:   fmt.Sprintf("item = 0..8 bytes behind the end marker x kind %q x 5 streams (none, text3, bin2, text1+bin1, two empty segments) x caller buffer %v x source {full reads, one byte per read, io.EOF together with the last bytes}: the output is the segment contents and ends with io.EOF whatever follows the marker; non-trivial = all", trailKinds, manyBufs),
			})
			fams = append(fams, mc.Family{
				Name:   "payload-values",
				Items:  2 * 8 * 8 * 8 * 8 * len(payloadBufs),
				Body:   payloadBody,
				Budget: budget,
				Rule:   fmt.Sprintf("item = segment type {text, binary} x the first four payload bytes from %q (hexadecimal digits of both cases, a non-hexadecimal letter, the marker byte, the end-marker type, NUL, line feed) x caller buffer %v; choices = 0, 3 or 300 further payload bytes, and the text of the preceding segment (AB, or ending in `eexec` with and without a line end); between two text segments, before the end marker; output must be the verbatim / hexadecimal contents: the decoding does not depend on what the payload looks like; non-trivial = all", payloadClasses, payloadBufs),
			})
			fams = append(fams, mc.Family{
				Name:   "large-caller-buffers",
				Items:  len(bigBufs) * len(bigSegs) * 2,
				Body:   bigBufferBody,
				Budget: budget,
				Rule:   fmt.Sprintf("item = caller buffer %v x a segment of %v bytes x {text, binary}: every Read before the end of the stream must fill the buffer completely, the output must be exact; non-trivial = all", bigBufs, bigSegs),
			})
			fams = append(fams, mc.Family{
				Name:   "segments-as-long-as-the-length-field-allows",
				Items:  len(hugeLens),
				Body:   hugeBody,
				Budget: budget,
				Rule:   fmt.Sprintf("item = a text segment of %v bytes streamed from a synthetic source, followed by two small segments and the end marker; caller buffer 1 MiB: the number of output bytes and the end of the output must be exact; non-trivial = all", hugeLens),
			})
			return append(fams,
				mc.Family{
					Name:   "first-two-header-bytes",
					Items:  65536,
					Body:   headerBody,
					Budget: budget,
					Rule:   "item = each of the 2^16 values of the first two header bytes x 5 declared lengths (0,1,3,2^24,2^32-1) x 3 caller buffer sizes; non-trivial = all (every case has a distinct header/length/size)",
				})
		},
	})
}
