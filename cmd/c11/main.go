// C11 — operation budget, resource limits and the %! start check are enforced.
//
// Decided by cut-point enumeration on the real interpreter (black box: what
// counts as one "operation" is the library's own definition, no model of the
// counter is used):
//
//  1. budget-cut-points: for every program P of a corpus (all program shapes
//     with <= 3 statements over the C03 alphabet plus hand-shaped recursion
//     programs) ops(P) is measured by an unbudgeted run, then P is run with
//     EVERY budget N in 1..ops(P)+2.  N >= ops(P): identical final state,
//     identical NumOps, identical error.  N < ops(P): the error IS
//     ErrExecutionLimitExceeded (identity) and NumOps <= N+1.  Programs that do
//     not finish within the harness cap are run with budgets only (every N in
//     1..64 and powers of two up to the cap).
//  2. runaway-growth: recursion/growth shapes run WITHOUT a budget must end
//     with the corresponding PostScript error (stackoverflow,
//     dictstackoverflow, execstackoverflow, limitcheck) — never a dead worker —
//     and the operand stack, dictionary stack stay bounded.
//  3. start-check: all 65,536 two-byte prefixes, 0- and 1-byte inputs, and a
//     later Execute on the same interpreter with a non-%! start.
package main

import (
	"fmt"
	"strings"
	"time"

	"seehuhn.de/go/postscript"

	"verif/mc"
	"verif/model/eexecref"
	"verif/model/pscmp"
)

var opTable = pscmp.NewOpTable()

const harnessCap = 3000

// ---------------------------------------------------------------------------
// corpus: program shapes (same grammar as C03, reduced) + hand-shaped programs

var atoms = []string{"1", "pop", "dup", "add", "exit", "stop", "v", "f", "/v 8 def", "count"}

var constructs = [][]string{
	{"{", "} exec"},
	{"true {", "} if"},
	{"false {", "} {", "} ifelse"},
	{"0 1 2 {", "} for"},
	{"[5 6] {", "} forall"},
	{"(ab) {", "} forall"},
	{"{", "} loop"},
	{"2 {", "} repeat"},
	{"{", "}"},
	{"/g {", "} def g"},
	{"{", "} bind exec"},
	{"3 dict begin ", " end"},
	{"1 (a) ", " add"},                            // an error after the body
	{"errordict /typecheck {", "} put 1 (a) add"}, // body as error handler
}

const preamble = "/v 7 def /f {10 add} def "

func genPrograms(size, depth int, atoms []string, constructs [][]string) []string {
	var out []string
	var body func(remaining, depth int, emit func(text string, remaining int))
	body = func(remaining, depth int, emit func(string, int)) {
		emit("", remaining)
		if remaining == 0 {
			return
		}
		for _, a := range atoms {
			body(remaining-1, depth, func(rest string, r int) { emit(a+" "+rest, r) })
		}
		if depth > 0 {
			for _, con := range constructs {
				con := con
				// fill the construct's bodies left to right
				var fill func(i int, acc string, r int)
				fill = func(i int, acc string, r int) {
					if i == len(con)-1 {
						acc += con[i] + " "
						body(r, depth, func(rest string, r2 int) { emit(acc+rest, r2) })
						return
					}
					body(r, depth-1, func(inner string, r2 int) {
						fill(i+1, acc+con[i]+inner, r2)
					})
				}
				fill(0, "", remaining-1)
			}
		}
	}
	seen := map[string]bool{}
	body(size, depth, func(text string, _ int) {
		if !seen[text] {
			seen[text] = true
			out = append(out, text)
		}
	})
	return out
}

// eexecShaped: programs whose tail is an (hex) eexec section that needs few or
// no operations of its own - nothing at all, a comment, a procedure literal - so
// that for some budget N the eexec operator is exactly the N-th operation and
// nothing countable follows: such a program ends as it does without a budget.
var eexecShaped = func() []string {
	var out []string
	for _, pre := range []string{"", "1 2 add pop ", "/x 7 def x pop "} {
		for _, plain := range []string{"", "\n", "% nothing to do\n", "{ 1 2 add }\n", "{ 1 2 add } mark currentfile closefile\n", "mark currentfile closefile\n", "/y { 3 } def\n", "1 2 add\n"} {
			cipher := eexecref.New().Encrypt(nil, append([]byte{0, 0, 0, 0}, plain...))
			prog := pre + "currentfile eexec\n" + string(eexecref.Armour(cipher, eexecref.HexLower)) + "\n"
			if strings.Contains(plain, "closefile") {
				prog += "00000000 cleartomark % after the section\n"
			}
			out = append(out, prog)
		}
	}
	return out
}()

var handShaped = []string{
	"/r {r} def r",                                       // tail self-call: legitimate infinite loop
	"/r {r 1} def r",                                     // non-tail self-call through a name
	"/b {a 1} def /a {b} 0 get def a",                    // the same through an alias (a name whose value is an executable name)
	"/r {1 r} def r",                                     // tail self-call that pushes
	"/r {{r} exec} def r",                                // recursion through exec
	"/r {true {r} if} def r",                             // recursion through if
	"/r {0 1 0 {pop r} for} def r",                       // recursion through for
	"/r {[1] {pop r} forall} def r",                      // recursion through forall
	"/p 1 array def p 0 {p 0 get exec} put p 0 get exec", // procedure stored in a container reachable from itself
	"{1} loop", "{1 dict begin} loop", "{} loop", "{dup} loop", "1 {dup} loop", "{count} loop",
	"{{1} exec} loop", "0 1 1000000 {} for", "0 0 1 {} for", "0 0 1 {pop} for", "1000000 {1} repeat", "1000000 {} repeat",
	// loops announced for many rounds and left early: what counts is what is executed
	"0 1000 { 1 add dup 3 eq { exit } if } repeat", "50 { pop } repeat", "1000000 { exit } repeat 5", "100000 { stop } repeat",
	"0 1 1000000 { 2 eq { exit } if } for 6", "0 1 1000000 { pop pop } for", "65536 array { pop exit } forall 7", "4096 string { 1 (a) add } forall",
	// every round of a loop is an operation and meets the operand stack limit, also when the body is empty
	"600 array {} forall", "100 array {} forall 7", "3 { 200 array {} forall } repeat", "[ 1 2 3 ] {} forall [ 4 5 ] {} forall", "65536 string {} forall", "300 array { } forall 300 array { } forall",
	// operators whose work depends on a size: each still counts as one operation
	"65536 string pop 1 2 add pop", "65536 array pop 1 2 add pop", "65536 dict pop 1 2 add pop",
	"1024 string 1023 get pop 1", "4096 array 0 4096 getinterval length", "2000 array dup 0 1000 array putinterval length 1 add",
	"65536 string dup copy length", "3 {4096 string pop} repeat 7", "60000 array 59999 1 put 1 1 add", "1023 string pop 1025 string pop 1",
	"errordict /stackunderflow {pop} put pop",
	"errordict /undefined {foo} put foo",
	"errordict /typecheck {1 (a) add} put 1 (a) add",
	"errordict /typecheck {errordict /typecheck get exec} put 1 (a) add",
	"errordict /interrupt {1 2 3} put {} loop",
	"errordict /interrupt {{} loop} put {} loop",
	"1 2 add { 3 } exec", "true {1 2 add {3 4 add} exec} if", "0 1 3 {true {dup {pop} exec} if} for",
	"/a 3 array def a 0 a put a 0 get 0 get length",
	"[1 2 3] {[4 5] {add} forall} forall",
	"9223372036854775806 1 9223372036854775807 {pop} for",
	"mark 1 2 3 ] {dup} forall count",
}

// ---------------------------------------------------------------------------

type runResult struct {
	err    error
	numOps int
	state  string
	stack  int
	dstack int
	// after the budget error: what three further calls on the same interpreter did
	later string
}

func run(prog string, maxOps int) runResult {
	intp := postscript.NewInterpreter()
	if err := intp.ExecuteString(preamble); err != nil {
		panic("preamble: " + err.Error())
	}
	intp.NumOps = 0
	intp.MaxOps = maxOps
	err := intp.ExecuteString(prog)
	return runResult{err: err, numOps: intp.NumOps, state: pscmp.Canon(opTable, intp), stack: len(intp.Stack), dstack: len(intp.DictStack)}
}

func errStr(err error) string {
	if err == nil {
		return "<nil>"
	}
	return err.Error()
}

func kindOf(prog string) string {
	var ks []string
	for _, k := range []string{"exec", "if", "ifelse", "for", "forall", "loop", "repeat", "def g", "bind", "begin", "errordict", "stop", "exit"} {
		if strings.Contains(prog, k) {
			ks = append(ks, strings.ReplaceAll(k, " ", ""))
		}
	}
	return strings.Join(ks, ",")
}

var memo struct {
	item   int
	prog   string
	probe  runResult
	ref    runResult
	hasRef bool
}

func budgetBody(progs []string) func(c *mc.Ctx, item int) mc.Verdict {
	return func(c *mc.Ctx, item int) mc.Verdict {
		prog := progs[item]
		// the probe and the unbudgeted reference depend on the item only:
		// memoised (a pure function of prog) across the budgets of one item
		if memo.item != item || memo.prog != prog {
			memo.item, memo.prog = item, prog
			memo.probe = run(prog, harnessCap)
			memo.hasRef = false
			c.Step()
		}
		probe := memo.probe
		fail := func(class, detail string) mc.Verdict {
			v := mc.Fail("C11:budget:"+class+":{"+kindOf(prog)+"}", fmt.Sprintf("program `%s%s`: %s", preamble, prog, detail))
			v.Render = prog
			return v
		}
		finite := probe.err != postscript.ErrExecutionLimitExceeded
		var n int
		var ref runResult
		if finite {
			if !memo.hasRef {
				memo.ref = run(prog, 0) // the state reached with no budget
				memo.hasRef = true
				c.Step()
			}
			ref = memo.ref
			if ref.numOps != probe.numOps || ref.state != probe.state || errStr(ref.err) != errStr(probe.err) {
				return fail("cap-run-differs", fmt.Sprintf("run with budget %d (not exhausted): NumOps=%d err=%s; run without budget: NumOps=%d err=%s; states equal=%v", harnessCap, probe.numOps, errStr(probe.err), ref.numOps, errStr(ref.err), ref.state == probe.state))
			}
			n = 1 + c.Choose(ref.numOps+2)
		} else {
			// no unbudgeted reference exists: budgets 1..64 and powers of two
			ns := []int{}
			for i := 1; i <= 64; i++ {
				ns = append(ns, i)
			}
			for i := 128; i < harnessCap; i *= 2 {
				ns = append(ns, i, i+1)
			}
			n = ns[c.Choose(len(ns))]
		}
		r := run(prog, n)
		c.Step()
		if r.stack > 1100 || r.dstack > 20 {
			return fail("unbounded-growth", fmt.Sprintf("budget %d: operand stack %d, dictionary stack %d", n, r.stack, r.dstack))
		}
		if finite && n >= ref.numOps {
			if r.err == postscript.ErrExecutionLimitExceeded && ref.err != postscript.ErrExecutionLimitExceeded {
				return fail("budget-error-although-enough", fmt.Sprintf("needs %d operations, budget %d, yet the budget error was returned (NumOps=%d)", ref.numOps, n, r.numOps))
			}
			if r.numOps != ref.numOps || errStr(r.err) != errStr(ref.err) || r.state != ref.state {
				return fail("differs-from-unbudgeted", fmt.Sprintf("needs %d operations, budget %d: NumOps=%d err=%s, unbudgeted: NumOps=%d err=%s, states equal=%v", ref.numOps, n, r.numOps, errStr(r.err), ref.numOps, errStr(ref.err), r.state == ref.state))
			}
			v := mc.Pass("enough-budget", true)
			if c.Render() {
				v.Render = fmt.Sprintf("`%s` ops=%d budget=%d → same state, err=%s", prog, ref.numOps, n, errStr(r.err))
			}
			return v
		}
		// budget too small (or program does not end)
		if r.err != postscript.ErrExecutionLimitExceeded {
			return fail("no-budget-error", fmt.Sprintf("budget %d is smaller than the %s operations needed, but the run ended with err=%s NumOps=%d", n, opsStr(finite, ref.numOps), errStr(r.err), r.numOps))
		}
		if r.numOps > n+1 {
			return fail("counted-past-N+1", fmt.Sprintf("budget %d: NumOps=%d after the budget error (must not exceed N+1)", n, r.numOps))
		}
		if r.numOps <= n {
			return fail("budget-error-too-early", fmt.Sprintf("budget %d: budget error with NumOps=%d", n, r.numOps))
		}
		out := "cut"
		if !finite {
			out = "cut-nonterminating"
		}
		v := mc.Pass(out, true)
		if c.Render() {
			v.Render = fmt.Sprintf("`%s` ops=%s budget=%d → budget error, NumOps=%d", prog, opsStr(finite, ref.numOps), n, r.numOps)
		}
		return v
	}
}

func opsStr(finite bool, n int) string {
	if finite {
		return fmt.Sprint(n)
	}
	return fmt.Sprintf(">%d", harnessCap)
}

// ---------------------------------------------------------------------------
// the budget counts across consecutive Execute calls on one interpreter

// boundaries returns the byte offsets after which prog may be cut (after a
// token, outside string literals; inside unfinished procedure bodies is fine).
func boundaries(prog string) []int {
	var out []int
	depth := 0
	for i := 0; i < len(prog); i++ {
		switch prog[i] {
		case '(':
			depth++
		case ')':
			depth--
		case ' ':
			if depth == 0 && i > 0 && prog[i-1] != ' ' {
				out = append(out, i)
			}
		}
	}
	return out
}

func runPieces(pieces []string, maxOps int) runResult {
	intp := postscript.NewInterpreter()
	if err := intp.ExecuteString(preamble); err != nil {
		panic("preamble: " + err.Error())
	}
	intp.NumOps = 0
	intp.MaxOps = maxOps
	var err error
	for _, p := range pieces {
		err = intp.ExecuteString(p)
		if err != nil {
			break
		}
	}
	res := runResult{err: err, numOps: intp.NumOps, state: pscmp.Canon(opTable, intp), stack: len(intp.Stack), dstack: len(intp.DictStack)}
	if err == postscript.ErrExecutionLimitExceeded {
		// the budget stays used up: every further call fails, and the counter
		// stays where it is ("never counting past N+1")
		for _, p := range []string{"1", "1 2 add pop", "v"} {
			e := intp.ExecuteString(p)
			if e != postscript.ErrExecutionLimitExceeded || intp.NumOps != res.numOps {
				res.later = fmt.Sprintf("a further call `%s` returned err=%v with NumOps=%d (the budget error left NumOps=%d, MaxOps=%d)", p, e, intp.NumOps, res.numOps, maxOps)
				break
			}
		}
	}
	return res
}

func acrossCallsBody(progs []string) func(c *mc.Ctx, item int) mc.Verdict {
	return func(c *mc.Ctx, item int) mc.Verdict {
		prog := progs[item]
		bs := boundaries(prog)
		if len(bs) == 0 {
			return mc.Pass("n/a:single-token", false)
		}
		if strings.Contains(prog, "stop") {
			// stop ends one Execute call, not the following ones: not equivalent by definition
			return mc.Pass("n/a:contains-stop", false)
		}
		if memo.item != item || memo.prog != "across:"+prog {
			memo.item, memo.prog = item, "across:"+prog
			memo.probe = run(prog, harnessCap)
		}
		if memo.probe.err == postscript.ErrExecutionLimitExceeded {
			return mc.Pass("n/a:non-terminating", false)
		}
		if memo.probe.err != nil {
			// a program that ends in an error cannot be continued by a second call
			return mc.Pass("n/a:ends-in-error", false)
		}
		cut := bs[c.Choose(len(bs))]
		n := 1 + c.Choose(memo.probe.numOps+2)
		one := run(prog, n)
		two := runPieces([]string{prog[:cut], prog[cut:]}, n)
		c.Steps(2)
		if two.later != "" {
			v := mc.Fail("C11:budget-across-calls:counting-continues-after-the-budget-error", fmt.Sprintf("program `%s%s` fed as `%s` + `%s` with budget %d: %s", preamble, prog, prog[:cut], prog[cut:], n, two.later))
			v.Render = prog
			return v
		}
		if one.numOps != two.numOps || errStr(one.err) != errStr(two.err) || (one.err == postscript.ErrExecutionLimitExceeded) != (two.err == postscript.ErrExecutionLimitExceeded) || one.state != two.state {
			v := mc.Fail("C11:budget-across-calls:{"+kindOf(prog)+"}", fmt.Sprintf("program `%s%s` with budget %d (it needs %d operations): in one call NumOps=%d err=%s; fed as `%s` + `%s` in two calls NumOps=%d err=%s; states equal=%v",
				preamble, prog, n, memo.probe.numOps, one.numOps, errStr(one.err), prog[:cut], prog[cut:], two.numOps, errStr(two.err), one.state == two.state))
			v.Render = prog
			return v
		}
		v := mc.Pass("same-as-one-call", true)
		if c.Render() {
			v.Render = fmt.Sprintf("`%s` | `%s` budget %d → NumOps=%d err=%s, as in one call", prog[:cut], prog[cut:], n, two.numOps, errStr(two.err))
		}
		return v
	}
}

// ---------------------------------------------------------------------------
// the budget is whatever MaxOps says when an operation is about to be executed

// budgetChangeBody: MaxOps set, changed or cleared between Execute calls on one
// interpreter.  Two pieces with n1 and n2 operations (measured without budget)
// and budgets b1, b2 in force during the first and the second call: the first
// call must fail iff b1 > 0 and n1 > b1; otherwise the second must fail iff
// b2 > 0 and n1+n2 > b2, with the counter at max(b2, n1)+1.
func budgetChangeBody(progs []string) func(c *mc.Ctx, item int) mc.Verdict {
	return func(c *mc.Ctx, item int) mc.Verdict {
		prog := progs[item]
		cuts := boundaries(prog)
		if len(cuts) == 0 {
			return mc.Pass("no-boundary", false)
		}
		cut := cuts[c.Choose(len(cuts))]
		p1, p2 := prog[:cut], prog[cut:]
		// (a capped probe run first: programs that do not terminate are not used here)
		probe := postscript.NewInterpreter()
		probe.MaxOps = harnessCap
		if err := probe.ExecuteString(prog); err != nil {
			return mc.Pass("program-fails-or-does-not-terminate", false)
		}
		ref := postscript.NewInterpreter()
		ref.MaxOps = 2 * harnessCap // never reached: the whole program needs at most harnessCap
		if err := ref.ExecuteString(p1); err != nil {
			return mc.Pass("first-piece-fails-unbudgeted", false)
		}
		n1 := ref.NumOps
		if err := ref.ExecuteString(p2); err != nil {
			return mc.Pass("second-piece-fails-unbudgeted", false)
		}
		n2 := ref.NumOps - n1
		want := pscmp.Canon(opTable, ref)
		// budgets around the interesting points
		pool := []int{0, 1, n1 - 1, n1, n1 + 1, n1 + n2 - 1, n1 + n2, n1 + n2 + 1}
		b1, b2 := pool[c.Choose(len(pool))], pool[c.Choose(len(pool))]
		if b1 < 0 || b2 < 0 {
			return mc.Pass("n/a", false)
		}
		intp := postscript.NewInterpreter()
		intp.MaxOps = b1
		err1 := intp.ExecuteString(p1)
		c.Step()
		desc := fmt.Sprintf("`%s` then `%s` (%d + %d operations), MaxOps %d for the first call, %d for the second", p1, p2, n1, n2, b1, b2)
		fail := func(class, detail string) mc.Verdict {
			v := mc.Fail("C11:budget-changed-between-calls:"+class, desc+": "+detail)
			v.Render = desc
			return v
		}
		if b1 > 0 && n1 > b1 {
			if err1 != postscript.ErrExecutionLimitExceeded || intp.NumOps > b1+1 {
				return fail("first-call", fmt.Sprintf("first call: %s, NumOps %d", errStr(err1), intp.NumOps))
			}
			return mc.Pass("first-call-stopped", true)
		}
		if err1 != nil {
			return fail("first-call", "first call failed: "+errStr(err1))
		}
		intp.MaxOps = b2
		err2 := intp.ExecuteString(p2)
		c.Step()
		if b2 > 0 && n1+n2 > b2 {
			if n2 == 0 {
				return mc.Pass("n/a:empty-second-piece", false)
			}
			if err2 != postscript.ErrExecutionLimitExceeded {
				return fail("not-stopped", fmt.Sprintf("second call: %s, NumOps %d (the budget in force says stop)", errStr(err2), intp.NumOps))
			}
			if limit := max(b2, n1) + 1; intp.NumOps > limit {
				return fail("counted-past-N+1", fmt.Sprintf("NumOps %d after the budget error, at most %d expected", intp.NumOps, limit))
			}
			return mc.Pass("second-call-stopped", true)
		}
		if err2 != nil {
			return fail("stopped-without-reason", fmt.Sprintf("second call: %s although the budget in force (%d) allows %d operations", errStr(err2), b2, n1+n2))
		}
		if got := pscmp.Canon(opTable, intp); got != want || intp.NumOps != n1+n2 {
			return fail("state-differs", fmt.Sprintf("final state or NumOps (%d) differs from the unbudgeted run (%d)", intp.NumOps, n1+n2))
		}
		return mc.Pass("ran-to-the-end", true)
	}
}

// ---------------------------------------------------------------------------
// runaway growth inside other contexts

// The limits hold wherever the growing code runs: at top level (family above),
// inside a user-installed error handler, inside procedures run by forall / a
// name / bind / exec, with an extra dictionary open, and inside an eexec
// section.  A generous budget is only a safety net: ending by budget means the
// limit was not enforced.
var growthContexts = []struct{ name, pre, post string }{
	{"error handler (typecheck)", "errordict /typecheck { ", " } put 1 (a) add"},
	{"error handler (undefined)", "errordict /undefined { ", " } put nosuchname"},
	{"error handler (stackunderflow)", "errordict /stackunderflow { ", " } put pop"},
	{"error handler (rangecheck)", "errordict /rangecheck { ", " } put (abc) 7 get"},
	{"forall body", "[1] { pop ", " } forall"},
	{"named procedure", "/q { ", " } def q"},
	{"bound procedure", "{ ", " } bind exec"},
	{"extra dictionary", "1 dict begin ", " end"},
	{"handler installed through begin/def", "errordict begin /typecheck { ", " } def end 1 (a) add"},
	{"handler inside handler", "errordict /typecheck { nosuchname } put errordict /undefined { ", " } put 1 (a) add"},
}

// historyLimitsBody: the limits hold for an interpreter with a history.  The
// growth shapes run after k earlier Execute calls whose programs end in ways
// that leave the dictionary stack to be put back by something other than
// `end` (a dictionary opened in clear text and closed inside an eexec section,
// as every Type 1 font does; a section that leaves dictionaries open; `stop`
// and errors below open dictionaries).
func hexSection(plain string) string {
	cipher := eexecref.New().Encrypt(nil, append([]byte{0, 0, 0, 0}, plain...))
	return "currentfile eexec\n" + string(eexecref.Armour(cipher, eexecref.HexLower)) + "\n"
}

var historyPreludes = []struct{ name, prog string }{
	{"dictionary opened in clear text, closed inside an eexec section", "3 dict begin /a 1 def " + hexSection("/b 2 def end mark currentfile closefile\n")},
	{"two dictionaries opened in clear text, closed inside an eexec section", "1 dict begin 1 dict begin " + hexSection("end end mark currentfile closefile\n")},
	{"dictionary opened inside an eexec section and left open", hexSection("1 dict begin /c 3 def mark currentfile closefile\n") + " cleartomark"},
	{"section that opens and closes its own dictionary", hexSection("1 dict begin /c 3 def end mark currentfile closefile\n") + " cleartomark"},
	{"stop below two open dictionaries, closed afterwards", "1 dict begin 1 dict begin { stop } exec"},
	{"error below an open dictionary", "1 dict begin 1 (a) add"},
	{"begin and end in balance", "5 { 1 dict begin } repeat 5 { end } repeat"},
	{"end at the bottom of the dictionary stack", "end"},
}

var historyCounts = []int{1, 2, 7, 40}

func historyLimitsBody(cases []growth) func(c *mc.Ctx, item int) mc.Verdict {
	return func(c *mc.Ctx, item int) mc.Verdict {
		gc := cases[item%len(cases)]
		pl := historyPreludes[(item/len(cases))%len(historyPreludes)]
		k := historyCounts[item/len(cases)/len(historyPreludes)]
		intp := postscript.NewInterpreter()
		intp.MaxOps = 3_000_000
		for i := 0; i < k; i++ {
			intp.ExecuteString(pl.prog)
			// the caller tidies up between programs, as far as `end` lets it
			for j := 0; j < 25; j++ {
				if intp.ExecuteString("end") != nil {
					break
				}
			}
			intp.Stack = intp.Stack[:0]
		}
		c.Steps(k)
		base := len(intp.DictStack)
		intp.NumOps = 0
		err := intp.ExecuteString(gc.prog)
		c.Step()
		name := pscmp.ErrName(err)
		fail := func(class, detail string) mc.Verdict {
			v := mc.Fail("C11:limits-after-a-history:"+class, fmt.Sprintf("%d x (%s), then program `%s`: %s", k, pl.name, gc.prog, detail))
			v.Render = fmt.Sprintf("%d x %s, then %s", k, pl.name, gc.prog)
			return v
		}
		if base > 2 {
			return fail("dictionaries-left-that-end-cannot-remove", fmt.Sprintf("the dictionary stack holds %d entries after the caller executed `end` until it failed", base))
		}
		if len(intp.Stack) > 1100 || len(intp.DictStack) > 20 {
			return fail("unbounded", fmt.Sprintf("operand stack %d, dictionary stack %d, ended with %q", len(intp.Stack), len(intp.DictStack), errStr(err)))
		}
		if err == postscript.ErrExecutionLimitExceeded {
			return fail("limit-not-enforced", fmt.Sprintf("ran until the safety budget of 3,000,000 operations (operand stack %d, dictionary stack %d) instead of ending with one of %q", len(intp.Stack), len(intp.DictStack), gc.want))
		}
		// the same program on a fresh interpreter ends the same way, with the same depths
		fresh := postscript.NewInterpreter()
		fresh.MaxOps = 3_000_000
		ferr := fresh.ExecuteString(gc.prog)
		if pscmp.ErrName(ferr) != name || len(fresh.DictStack) != len(intp.DictStack) || len(fresh.Stack) != len(intp.Stack) {
			return fail("limit-depends-on-what-ran-before", fmt.Sprintf("ended with %q, operand stack %d, dictionary stack %d; on a fresh interpreter %q, %d, %d", errStr(err), len(intp.Stack), len(intp.DictStack), errStr(ferr), len(fresh.Stack), len(fresh.DictStack)))
		}
		v := mc.Pass("cutoff:"+name, true)
		if c.Render() {
			v.Render = fmt.Sprintf("%d x %s, then %s → %s", k, pl.name, gc.prog, errStr(err))
		}
		return v
	}
}

func contextGrowthBody(cases []growth) func(c *mc.Ctx, item int) mc.Verdict {
	return func(c *mc.Ctx, item int) mc.Verdict {
		gc := cases[item%len(cases)]
		ctx := growthContexts[item/len(cases)]
		prog := ctx.pre + gc.prog + ctx.post
		intp := postscript.NewInterpreter()
		intp.MaxOps = 3_000_000
		err := intp.ExecuteString(prog)
		c.Step()
		name := pscmp.ErrName(err)
		fail := func(class, detail string) mc.Verdict {
			v := mc.Fail("C11:growth-in-context:"+class, fmt.Sprintf("program `%s` (%s): %s", prog, ctx.name, detail))
			v.Render = prog
			return v
		}
		if len(intp.Stack) > 1100 || len(intp.DictStack) > 20 {
			return fail("unbounded", fmt.Sprintf("operand stack %d, dictionary stack %d, ended with %q", len(intp.Stack), len(intp.DictStack), errStr(err)))
		}
		if err == postscript.ErrExecutionLimitExceeded {
			return fail("limit-not-enforced", fmt.Sprintf("ran until the safety budget of 3,000,000 operations (operand stack %d, dictionary stack %d) instead of ending with one of %q", len(intp.Stack), len(intp.DictStack), gc.want))
		}
		v := mc.Pass("cutoff:"+name, true)
		if c.Render() {
			v.Render = prog + " → " + errStr(err)
		}
		return v
	}
}

// ---------------------------------------------------------------------------
// runaway growth, unbudgeted

type growth struct {
	prog string
	want []string // acceptable error names
}

func nest(n int, open, close, core string) string {
	return strings.Repeat(open, n) + core + strings.Repeat(close, n)
}

func growthCases() []growth {
	g := []growth{
		{"{1} loop", []string{"stackoverflow"}},
		{"{dup} loop", []string{"stackunderflow"}},
		{"1 {dup} loop", []string{"stackoverflow"}},
		{"{count} loop", []string{"stackoverflow"}},
		{"{mark} loop", []string{"stackoverflow"}},
		{"{[} loop", []string{"stackoverflow"}},
		{"{(abc)} loop", []string{"stackoverflow"}},
		{"{65536 string} loop", []string{"stackoverflow"}},
		{"{10 dict} loop", []string{"stackoverflow"}},
		{"{{}} loop", []string{"stackoverflow"}},
		{"1 {dup 2 copy} loop", []string{"stackoverflow"}},
		{"1 {count copy} loop", []string{"stackoverflow"}},
		{"1 1 {1 index} loop", []string{"stackoverflow"}},
		{"0 1 1000000 {} for", []string{"stackoverflow"}},
		{"1000000 {1} repeat", []string{"stackoverflow"}},
		// recursion in which every level first completes a call that ends in a call by name
		{"/g {} def /h {g} def /f {h f 1} def f", []string{"execstackoverflow"}},
		{"/g {} def /h {g} def /k {h} def /f {k k f pop} def f", []string{"execstackoverflow"}},
		{"/g {1 pop} def /h {true {g} if g} def /f {h {f} exec 1} def f", []string{"execstackoverflow"}},
		// a loop with an empty body pushes its operands all the same
		{"600 array {} forall", []string{"stackoverflow"}},
		{"3 { 200 array {} forall } repeat", []string{"stackoverflow"}},
		{"65536 string {} forall", []string{"stackoverflow"}},
		{"0 1 1000 { } for", []string{"stackoverflow"}},
		{"300 array { } forall 300 array { } forall", []string{"stackoverflow"}},
		{"/a 499 array def a {} forall a {} forall", []string{"stackoverflow"}},
		{"{1 dict begin} loop", []string{"dictstackoverflow"}},
		{"{userdict begin} loop", []string{"dictstackoverflow"}},
		{"{currentdict begin} loop", []string{"dictstackoverflow"}},
		{"0 1 100 {pop 1 dict begin} for", []string{"dictstackoverflow"}},
		{"/r {r 1} def r", []string{"execstackoverflow"}},
		{"/r {r pop} def r", []string{"execstackoverflow"}},
		{"/r {1 r} def r", []string{"stackoverflow"}},
		{"/r {{r} exec 1} def r", []string{"execstackoverflow"}},
		{"/r {{r} exec} def r", []string{"execstackoverflow"}},
		{"/r {true {r} if 1} def r", []string{"execstackoverflow"}},
		{"/r {true {r} {} ifelse 1} def r", []string{"execstackoverflow"}},
		{"/r {0 1 0 {pop r} for} def r", []string{"execstackoverflow"}},
		{"/r {[1] {pop r} forall} def r", []string{"execstackoverflow"}},
		{"/r {1 {r} repeat} def r", []string{"execstackoverflow"}},
		{"/r {{r exit} loop} def r", []string{"execstackoverflow"}},
		{"/r {/r load exec 1} def r", []string{"execstackoverflow"}},
		{"/r {s 1} def /s {r 1} def r", []string{"execstackoverflow"}},
		{"/r {3 dict begin r end} def r", []string{"execstackoverflow", "dictstackoverflow"}},
		// recursion through a name whose value is another executable name
		{"/b {a 1} def /a {b} 0 get def a", []string{"execstackoverflow"}},
		{"/b {a 1} def /a {b} 0 get def b", []string{"execstackoverflow"}},
		{"/c {a 1} def /b {c} 0 get def /a {b} 0 get def a", []string{"execstackoverflow"}},
		{"/b {{a} exec 1} def /a {b} 0 get def a", []string{"execstackoverflow"}},
		{"/b {a pop} def /a {b} 0 get def 1 a", []string{"execstackoverflow", "stackunderflow"}},
		{"/r {r 1} def /s {r} 0 get def s", []string{"execstackoverflow"}},
		{"/p 1 array def p 0 {p 0 get exec 1} put p 0 get exec", []string{"execstackoverflow"}},
		{"errordict /undefined {foo 1} put foo", []string{"undefined", "execstackoverflow"}},
		{"errordict /typecheck {1 (a) add 1} put 1 (a) add", []string{"typecheck", "execstackoverflow"}},
		{"errordict /stackunderflow {pop 1} put pop", []string{"stackunderflow", "execstackoverflow"}},
		{"65537 array", []string{"limitcheck"}}, {"65537 string", []string{"limitcheck"}}, {"65537 dict", []string{"limitcheck"}},
		{"1000000000 array", []string{"limitcheck"}}, {"1000000000000 string", []string{"limitcheck"}}, {"9223372036854775807 dict", []string{"limitcheck"}},
		{"9223372036854775807 array", []string{"limitcheck"}}, {"9223372036854775807 string", []string{"limitcheck"}},
		{"65536 array length", nil}, {"65536 string length", nil}, {"65536 dict length", nil},
	}
	// nesting chains of every depth: either fine or execstackoverflow, never a crash
	for n := 1; n <= 130; n++ {
		g = append(g,
			// (a long procedure text is collected on the operand stack, so deep
			// chains may legitimately end with stackoverflow before they run)
			growth{nest(n, "{", "} exec ", "1 "), []string{"", "execstackoverflow", "stackoverflow"}},
			growth{nest(n, "true {", "} if ", "1 "), []string{"", "execstackoverflow", "stackoverflow"}},
			growth{nest(n, "1 {", "} repeat ", "1 "), []string{"", "execstackoverflow", "stackoverflow"}},
			growth{nest(n, "0 1 0 {pop ", "} for ", "1 "), []string{"", "execstackoverflow", "stackoverflow"}},
		)
		// chains of named procedures p1 -> p2 -> ... -> pn
		var sb strings.Builder
		for i := 1; i <= n; i++ {
			if i < n {
				fmt.Fprintf(&sb, "/p%d {p%d 1 pop} def ", i, i+1)
			} else {
				fmt.Fprintf(&sb, "/p%d {7} def ", i)
			}
		}
		sb.WriteString("p1")
		g = append(g, growth{sb.String(), []string{"", "execstackoverflow"}})
	}
	// operand stack filled from the program text itself: executed literals,
	// tokens collected for a procedure body (terminated or not, nested, with
	// operands below) and for an array; around the limit either outcome is
	// accepted, well below it the program must run, well above it must be cut off
	for _, n := range []int{100, 400, 499, 500, 501, 502, 600, 5000, 100000} {
		want := []string{"", "stackoverflow"}
		if n <= 400 {
			want = []string{""}
		}
		if n >= 600 {
			want = []string{"stackoverflow"}
		}
		ones := strings.Repeat("1 ", n)
		for _, form := range []string{"%s", "{%s} pop", "[%s] pop", "{%s", "[%s", "{ {%s} } pop", "1 2 {%s", "{ 1 [%s"} {
			g = append(g, growth{fmt.Sprintf(form, ones), want})
		}
	}
	return g
}

func growthBody(cases []growth) func(c *mc.Ctx, item int) mc.Verdict {
	return func(c *mc.Ctx, item int) mc.Verdict {
		gc := cases[item]
		intp := postscript.NewInterpreter()
		err := intp.ExecuteString(gc.prog) // no budget
		c.Step()
		name := pscmp.ErrName(err)
		short := gc.prog
		if len(short) > 120 {
			short = short[:120] + "…"
		}
		fail := func(class, detail string) mc.Verdict {
			v := mc.Fail("C11:growth:"+class, fmt.Sprintf("program `%s` without budget: %s", short, detail))
			v.Render = short
			return v
		}
		if len(intp.Stack) > 1100 || len(intp.DictStack) > 20 {
			return fail("unbounded", fmt.Sprintf("operand stack %d, dictionary stack %d", len(intp.Stack), len(intp.DictStack)))
		}
		if gc.want == nil {
			if err != nil {
				return fail("limit-too-low", "size 65536 must be accepted, got "+err.Error())
			}
		} else {
			ok := false
			for _, w := range gc.want {
				if w == name {
					ok = true
				}
			}
			if !ok {
				return fail("wrong-cutoff:"+gc.want[len(gc.want)-1], fmt.Sprintf("ended with %q, expected one of %q", errStr(err), gc.want))
			}
		}
		v := mc.Pass("cutoff:"+name, true)
		if c.Render() {
			v.Render = short + " → " + errStr(err)
		}
		return v
	}
}

// ---------------------------------------------------------------------------

// startPrefixes: every string of 1..3 bytes over the bytes a scanner treats as
// white space (and a comment line) that may precede a `%!` which is then not at
// the start of the input.
var startPrefixes = func() []string {
	alpha := []string{" ", "\t", "\n", "\r", "\f", "\x00"}
	out := []string{"% c\n", "\xef\xbb\xbf", "\x04", "\x1b%-12345X"}
	for _, a := range alpha {
		out = append(out, a)
		for _, b := range alpha {
			out = append(out, a+b)
			for _, cc := range alpha {
				out = append(out, a+b+cc)
			}
		}
	}
	return out
}()

func startBody(c *mc.Ctx, item int) mc.Verdict {
	var input string
	switch {
	case item < 65536:
		input = string([]byte{byte(item >> 8), byte(item)}) + "\n7 "
	case item == 65536:
		input = ""
	case item < 65537+256:
		input = string([]byte{byte(item - 65537)})
	default:
		// `%!` behind 1..3 bytes that a scanner would skip: the input does not
		// BEGIN with %!
		input = startPrefixes[item-65537-256] + "%!PS\n7 "
	}
	fail := func(class, detail string) mc.Verdict {
		v := mc.Fail("C11:start:"+class, fmt.Sprintf("input %q: %s", input, detail))
		v.Render = fmt.Sprintf("%q", input)
		return v
	}
	intp := postscript.NewInterpreter()
	intp.CheckStart = true
	err := intp.ExecuteString(input)
	c.Step()
	isPS := strings.HasPrefix(input, "%!")
	if !isPS {
		if err != postscript.ErrNoPostScript {
			return fail("not-rejected", fmt.Sprintf("expected ErrNoPostScript, got %s", errStr(err)))
		}
		if len(intp.Stack) != 0 || intp.NumOps != 0 || len(intp.DSC) != 0 {
			return fail("executed-before-check", fmt.Sprintf("stack depth %d, NumOps %d after rejection", len(intp.Stack), intp.NumOps))
		}
		// the check stays armed: a rejected input has not "passed" it, so further
		// inputs without a proper start are rejected as well ...
		for _, again := range []string{input, "9 ", "\n%!PS\n9 "} {
			if e := intp.ExecuteString(again); e != postscript.ErrNoPostScript || len(intp.Stack) != 0 || intp.NumOps != 0 {
				return fail("not-rejected-after-a-rejection", fmt.Sprintf("after the rejection a further call with %q: err=%s, stack depth %d, NumOps %d (CheckStart=%v)", again, errStr(e), len(intp.Stack), intp.NumOps, intp.CheckStart))
			}
		}
		// ... and a later call with a proper start is accepted
		err2 := intp.ExecuteString("%!\n8")
		if err2 != nil || len(intp.Stack) != 1 {
			return fail("rejected-after-failed-check", fmt.Sprintf("second call with %%! start: err=%s stack=%d", errStr(err2), len(intp.Stack)))
		}
		return mc.Pass("rejected", true)
	}
	if err != nil {
		return fail("valid-start-rejected", errStr(err))
	}
	if len(intp.Stack) != 1 || intp.Stack[0] != postscript.Integer(7) {
		return fail("wrong-execution", "expected stack [7], got ["+pscmp.ShowStack(intp.Stack)+"]")
	}
	// once passed, the check is not repeated — also when the call that passed
	// it ended with an error or hit the budget afterwards
	mode := c.Choose(7)
	if mode >= 5 {
		// the check is passed by the two bytes, whether or not the input goes on to
		// execute anything, and whatever the caller does to the operation counter
		intp = postscript.NewInterpreter()
		intp.CheckStart = true
		first := "%!PS-Adobe-3.0\n%%Title: nothing is executed here\n% just comments\n"
		if mode == 6 {
			first = input
		}
		if err := intp.ExecuteString(first); err != nil {
			return fail("valid-start-rejected", "first call: "+errStr(err))
		}
		intp.NumOps = 0 // (a caller who gives every call its own budget)
		err2 := intp.ExecuteString("8")
		c.Step()
		if err2 != nil {
			return fail("check-repeated", fmt.Sprintf("first call %q passed the start check (NumOps then set back to 0); the next call `8` failed: %s", first, errStr(err2)))
		}
		return mc.Pass("accepted-then-unchecked", true)
	}
	if mode >= 3 {
		intp = postscript.NewInterpreter()
		intp.CheckStart = true
		if mode == 4 {
			intp.MaxOps = 3
		}
		first := input + "1 2 add pop pop pop 9"
		if err := intp.ExecuteString(first); err == nil || err == postscript.ErrNoPostScript {
			return fail("wrong-execution", fmt.Sprintf("first call %q should fail after the check: %s", first, errStr(err)))
		}
		intp.MaxOps = 0
		err2 := intp.ExecuteString("8")
		c.Step()
		if err2 == postscript.ErrNoPostScript {
			return fail("check-repeated", "the first call passed the start check and then failed; the next call was checked again")
		}
		if err2 != nil {
			return fail("check-repeated", "second call failed: "+errStr(err2))
		}
		return mc.Pass("accepted-then-error", true)
	}
	second := []string{"8", "", "(x"}[mode]
	err2 := intp.ExecuteString(second)
	c.Step()
	switch mode {
	case 0:
		if err2 != nil || len(intp.Stack) != 2 {
			return fail("check-repeated", fmt.Sprintf("second call `8`: err=%s", errStr(err2)))
		}
	case 1:
		if err2 != nil {
			return fail("check-repeated", fmt.Sprintf("second call with empty input: err=%s", errStr(err2)))
		}
	case 2:
		if err2 == postscript.ErrNoPostScript {
			return fail("check-repeated", "second call reported ErrNoPostScript")
		}
	}
	v := mc.Pass("accepted", true)
	if c.Render() {
		v.Render = fmt.Sprintf("%q then %q", input, second)
	}
	return v
}

// ---------------------------------------------------------------------------
// execution nesting is counted across an eexec section

// eexecDepthBody: a non-tail recursion counts its rounds in an array and is
// cut off by execstackoverflow.  Started k procedure levels deep it gets
// 100-k levels less a constant; started from inside an eexec section that was
// itself entered k levels deep it must get the same number less a constant
// that does not depend on k (the section is run by a nested scanner, which
// must not give the recursion a fresh allowance).
var eexecDepths = []int{0, 1, 2, 5, 10, 30, 50, 80, 90}

func eexecDepthRun(k int, through bool) (int, error) {
	const pre = "/d 1 array def d 0 0 put /f { d 0 d 0 get 1 add put f 0 pop } def "
	inner := "f"
	var tail []byte
	if through {
		inner = "currentfile eexec"
		ci := eexecref.New()
		cipher := ci.Encrypt(nil, []byte("\x00\x00\x00\x00f mark currentfile closefile\n"))
		tail = append([]byte("\n"), eexecref.Armour(cipher, eexecref.HexLower)...)
		tail = append(tail, "\ncleartomark"...)
	}
	// (everything is inside the procedure g, so that the cipher text follows the token that runs eexec)
	prog := pre + "/g { " + strings.Repeat("{ ", k) + inner + strings.Repeat(" 0 pop } exec", k) + " 0 pop } def g"
	intp := postscript.NewInterpreter()
	err := intp.Execute(strings.NewReader(prog + string(tail)))
	arr, ok := intp.UserDict["d"].(postscript.Array)
	if !ok || len(arr) != 1 {
		return -1, fmt.Errorf("counter lost (%v)", err)
	}
	n, _ := arr[0].(postscript.Integer)
	return int(n), err
}

// what ran (and returned) before has no influence on how deep the next recursion may go
var depthPreludes = []string{
	"/g {} def /h {g} def 300 {h} repeat",
	"/g {} def /h {g} def /k {h} def 0 1 150 {pop k} for h h h",
	"/h {1 pop} def 200 {{h} exec} repeat",
	"/u {u2} def /u2 {1 (a) add} def 30 { {u} stopped pop } repeat",
}

func preludeDepthRun(prelude string) (int, error) {
	intp := postscript.NewInterpreter()
	intp.ExecuteString(prelude) // (errors of the prelude are its own business)
	intp.Stack = intp.Stack[:0]
	err := intp.ExecuteString("/d 1 array def d 0 0 put /f { d 0 d 0 get 1 add put f 0 pop } def /g { f 0 pop } def g") // (the shape eexecDepthRun(0, false) runs)
	arr, ok := intp.UserDict["d"].(postscript.Array)
	if !ok || len(arr) != 1 {
		return -1, fmt.Errorf("counter lost (%v)", err)
	}
	n, _ := arr[0].(postscript.Integer)
	return int(n), err
}

func eexecDepthBody(c *mc.Ctx, item int) mc.Verdict {
	if item >= len(eexecDepths) {
		prelude := depthPreludes[item-len(eexecDepths)]
		a0, _ := eexecDepthRun(0, false)
		n, err := preludeDepthRun(prelude)
		c.Steps(2)
		what := fmt.Sprintf("after the program `%s` (a separate Execute call) a counting recursion runs %d rounds (%v); in a fresh interpreter %d", prelude, n, err, a0)
		if err == nil || !strings.Contains(err.Error(), "execstackoverflow") || n != a0 {
			v := mc.Fail("C11:eexec-depth:nesting-limit-depends-on-what-ran-before", what)
			v.Render = what
			return v
		}
		return mc.Pass("same-depth-after-prelude", true)
	}
	k := eexecDepths[item]
	a0, _ := eexecDepthRun(0, false)
	b0, _ := eexecDepthRun(0, true)
	a, errA := eexecDepthRun(k, false)
	b, errB := eexecDepthRun(k, true)
	c.Steps(4)
	what := fmt.Sprintf("recursion started %d procedure levels deep: %d rounds directly (%v), %d rounds from inside an eexec section (%v); at level 0: %d and %d", k, a, errA, b, errB, a0, b0)
	for _, e := range []error{errA, errB} {
		if e == nil || !strings.Contains(e.Error(), "execstackoverflow") {
			v := mc.Fail("C11:eexec-depth:not-cut-off", what)
			v.Render = what
			return v
		}
	}
	if a != a0-k || b-a != b0-a0 || a <= 0 || b <= 0 {
		v := mc.Fail("C11:eexec-depth:fresh-allowance-inside-the-section", what+": the nesting limit must be the same total depth in both cases")
		v.Render = what
		return v
	}
	v := mc.Pass("same-total-depth", true)
	if c.Render() {
		v.Render = what
	}
	return v
}

func main() {
	mc.Main(mc.Program{
		Property: "C11",
		Assumptions: []string{
			"what counts as one operation is the library's own definition (NumOps); the check is black-box about the counter",
			"a bounded overshoot of the operand stack (one operator such as copy/index may add up to 2x before the next check) is not 'growing without bound'; the harness accepts up to 1100 entries",
			"unbudgeted runs are made only for shapes in which every round grows the operand stack, the dictionary stack or the execution nesting",
		},
		TrustedBase: []string{"pscmp.Canon (canonical state string with storage identity)"},
		Families: func(tier string) []mc.Family {
			budget := 50 * time.Second
			size := 3
			if tier == "thorough" {
				budget = 12 * time.Minute
				size = 4
			}
			_ = size
			smallAtoms := []string{"1", "pop", "exit", "stop", "f", "count"}
			smallCons := [][]string{constructs[0], constructs[1], constructs[3], constructs[4], constructs[6], constructs[7], constructs[9], constructs[13]}
			progs := append(append([]string{}, handShaped...), eexecShaped...)
			seen := map[string]bool{}
			for _, p := range append(genPrograms(size-1, 2, atoms, constructs), genPrograms(size, 2, smallAtoms, smallCons)...) {
				if !seen[p] {
					seen[p] = true
					progs = append(progs, p)
				}
			}
			gc := growthCases()
			// the hand-written shapes (everything before the generated nesting chains)
			var coreGrowth []growth
			for _, g := range gc {
				if strings.HasPrefix(g.prog, "{1 } exec") {
					break
				}
				coreGrowth = append(coreGrowth, g)
			}
			small2 := genPrograms(2, 2, atoms, constructs)
			return []mc.Family{
				{
					Name: "budget-cut-points", Items: len(progs), Body: budgetBody(progs), Budget: budget,
					Rule:     fmt.Sprintf("%d programs (every shape with <= %d statements over %d atoms and %d constructs, and with <= %d statements over a reduced alphabet of %d atoms and %d constructs, nested to depth 2, plus %d hand-shaped recursion/handler programs and %d programs ending in an eexec section that needs no or few operations of its own) x EVERY budget N in 1..ops(P)+2 (non-terminating programs: N in 1..64 and powers of two below %d); non-trivial = every case (distinct program x budget)", len(progs), size-1, len(atoms), len(constructs), size, len(smallAtoms), len(smallCons), len(handShaped), len(eexecShaped), harnessCap),
					Describe: func(i int) string { return progs[i] },
					CrashKey: func(i int) string { return "C11:crash:budget:{" + kindOf(progs[i]) + "}" },
					// one execution takes microseconds to milliseconds (the largest budget is
					// harnessCap operations): no progress for 15 s is a budget that never trips
					HangSeconds: 15,
				},
				{
					Name: "budget-across-execute-calls", Items: len(small2), Body: acrossCallsBody(small2), Budget: budget,
					Rule: fmt.Sprintf("%d terminating programs (shapes with <= 2 statements) x every cut after a token (also inside an unfinished procedure body) x every budget N in 1..ops+2: the two pieces fed in consecutive Execute calls to one interpreter must give the same error identity, the same cumulative NumOps and the same state as the single call with the same budget; after a budget error three further calls on the same interpreter must fail with the same error and leave NumOps at N+1; non-trivial = every comparison", len(small2)),
				},
				{
					Name: "budget-changed-between-calls", Items: len(small2), Body: budgetChangeBody(small2), Budget: budget,
					Rule: fmt.Sprintf("%d terminating programs x every cut after a token x MaxOps in force during the first and during the second Execute call, each from {0 (none), 1, n1-1, n1, n1+1, n1+n2-1, n1+n2, n1+n2+1} (n1, n2 = operations of the pieces): the budget that counts is the one in force when an operation is about to run, set before, between or cleared between the calls; non-trivial = every comparison", len(small2)),
				},
				{
					Name: "runaway-growth-in-contexts", Items: len(coreGrowth) * len(growthContexts), Body: contextGrowthBody(coreGrowth), Budget: budget,
					Rule:     fmt.Sprintf("the %d hand-written growth shapes (operand stack, dictionary stack, recursion through names/procedures/aliases/handlers, oversized requests) x %d contexts (inside a user-installed handler for typecheck / undefined / stackunderflow / rangecheck, a handler installed with begin/def, a handler entered from another handler, a forall body, a named procedure, a bound procedure, an extra open dictionary), run with a safety budget of 3,000,000 operations: the run must end before the budget does, with operand stack <= 1100 and dictionary stack <= 20; non-trivial = all", len(coreGrowth), len(growthContexts)),
					CrashKey: func(i int) string { return "C11:crash:growth-in-context:" + coreGrowth[i%len(coreGrowth)].prog },
				},
				{
					Name: "limits-after-a-history", Items: len(coreGrowth) * len(historyPreludes) * len(historyCounts), Body: historyLimitsBody(coreGrowth), Budget: budget,
					Rule:     fmt.Sprintf("the %d hand-written growth shapes on an interpreter that has run one of %d preludes k times, k in %v (a dictionary opened in clear text and closed inside an eexec section, as in every Type 1 font; two of them; a section that leaves a dictionary open; a section with its own dictionary; `stop` and an error below open dictionaries; begin / end in balance; `end` at the bottom), the caller executing `end` until it fails and clearing the operand stack after each: afterwards the dictionary stack is back at its two permanent entries, the growth shape ends before the safety budget with operand stack <= 1100 and dictionary stack <= 20, and it ends with the same error and the same depths as on a fresh interpreter; non-trivial = all", len(coreGrowth), len(historyPreludes), historyCounts),
					CrashKey: func(i int) string { return "C11:crash:limits-after-a-history:" + coreGrowth[i%len(coreGrowth)].prog },
				},
				{
					Name: "runaway-growth-unbudgeted", Items: len(gc), Body: growthBody(gc), Budget: budget,
					Rule:     "growth/recursion shapes run with NO budget: loops that push, begin in loops, self-calls through names/exec/if/ifelse/for/forall/repeat/loop/load, mutual recursion, a procedure reachable from itself through a container, failing and recursing error handlers, oversized array/string/dict requests, nesting chains of depth 1..130 for 5 constructs, program text that fills the operand stack; each must end with the corresponding error and bounded stacks; non-trivial = every case",
					Describe: func(i int) string { return gc[i].prog },
					CrashKey: func(i int) string {
						p := gc[i].prog
						if len(p) > 60 {
							p = p[:60]
						}
						return "C11:crash:growth:" + p
					},
					HangSeconds: 60,
				},
				{
					Name: "nesting-limit-across-an-eexec-section", Items: len(eexecDepths) + len(depthPreludes), Body: eexecDepthBody, Budget: budget,
					Rule: fmt.Sprintf("a counting non-tail recursion started k in %v procedure levels deep, once directly and once from inside a (hex) eexec section entered at that depth: both are cut off by execstackoverflow, the direct one after (rounds at level 0) - k rounds, the one inside the section after the same total depth (constant offset to the direct one for every k); plus %d programs (hundreds of completed calls that end in calls by name, loops, failing calls) after which, in a later Execute call, the recursion gets exactly as many rounds as in a fresh interpreter; non-trivial = all", eexecDepths, len(depthPreludes)),
				},
				{
					Name: "start-check", Items: 65536 + 1 + 256 + len(startPrefixes), Body: startBody, Budget: budget,
					Rule: "CheckStart=true with every two-byte prefix (65,536) followed by a newline and a token, the empty input, every one-byte input, and `%!PS` behind every string of 1..3 white-space bytes, a comment line, a byte-order mark, ^D and a printer job header; x 5 continuations on the same interpreter once the check has passed (incl. a first input of comments only, and NumOps set back to 0 by the caller); after a rejection three more inputs without a proper start must be rejected too, then one with `%!` accepted; non-trivial = every case",
				},
			}
		},
	})
}
