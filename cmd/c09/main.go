// C09 — writing a font and reading it back returns the same font in all four
// file formats.
//
// Decided by bounded-exhaustive enumeration: every font of the families in
// verif/model/t1fonts (DomainC09) x {PFA, PFB, binary, no-eexec}; the real
// Font.Write followed by the real type1.Read; deep comparison of the result
// with a pristine copy of the source.
//
// Oracle = the statement of C09, nothing more:
//
//   - same glyph set; outlines exact for integer coordinates (a coordinate
//     counts as integer while every coordinate of the glyph on that axis up to
//     it is an integer: the writer encodes deltas, so one fractional point makes
//     the following deltas fractional), within 0.005 otherwise;
//   - advance widths (integers in this domain, horizontal and vertical), stem
//     hints: exact;
//   - the same glyph name at each of the 256 codes;
//   - FontName and the six FontInfo strings byte for byte;
//   - ItalicAngle, isFixedPitch, underline position/thickness, FontMatrix,
//     private values: exact;
//   - creation time: equal to the second as an instant (zone names need not
//     survive), zero time stays zero.
//
// Tolerances / documented restrictions the property leaves open (each is a
// behaviour the library documents in its source, none hides a difference in
// what the font says):
//
//   - an encoding entry naming a glyph the font does not have is read back as
//     .notdef (read.go: "for i, name := range encoding"); both sides are
//     compared after this substitution, so the full StandardEncoding on a
//     3-glyph font equals its restriction to those glyphs;
//   - a font without .notdef comes back with an added, empty .notdef
//     (read.go "TODO(voss): remove?"; NumGlyphs/GlyphList treat .notdef as
//     implicitly present); the added glyph must have no outline and no hints,
//     its width is not compared;
//   - BlueValues/OtherBlues: absent == empty.
//
// Preconditions on generated fonts (the C09 domain): integer advance widths;
// names of one or more regular characters; every contour is moveto, segments,
// closepath; stem arrays of even length; finite numbers; coordinates and their
// differences inside the 32-bit range; encodings nil or 256 entries; creation
// years 1..9999 (the date layout has four year digits).
package main

import (
	"bytes"
	"fmt"
	"io"
	"strings"
	"testing/iotest"
	"time"

	"seehuhn.de/go/postscript/psenc"
	"seehuhn.de/go/postscript/type1"

	"verif/mc"
	"verif/model/t1fonts"
	"verif/model/t1raw"
)

var formats = []type1.FileFormat{type1.FormatPFA, type1.FormatPFB, type1.FormatBinary, type1.FormatNoEExec}
var formatNames = []string{"PFA", "PFB", "binary", "no-eexec"}

const tol = 0.005

func hasLineBreak(s string) bool { return strings.ContainsAny(s, "\n\r\f") }

func shadowingGlyph(f *type1.Font) string {
	for _, n := range t1fonts.VocabularyNames {
		if _, ok := f.Glyphs[n]; ok {
			return n
		}
	}
	return ""
}

// subsetOfStandard: every entry is the StandardEncoding name or .notdef, and
// at least one code whose standard glyph exists in the font is left
// unassigned.  This is exactly the input class of the known defect
// "written as /Encoding StandardEncoding def".
func subsetOfStandard(f *type1.Font) (omitted []int, ok bool) {
	if len(f.Encoding) != 256 {
		return nil, false
	}
	for c, n := range f.Encoding {
		std := psenc.StandardEncoding[c]
		if n != std && n != ".notdef" {
			return nil, false
		}
		if n == ".notdef" && std != ".notdef" {
			if _, has := f.Glyphs[std]; has {
				omitted = append(omitted, c)
			}
		}
	}
	return omitted, len(omitted) > 0
}

// classify turns one difference into a finding key.  The narrow keys are
// predicates on the input and on the precise shape of the difference.
func classify(src, got *type1.Font, d t1fonts.Diff) (key string, narrow bool) {
	switch d.Class {
	case "encoding":
		if omitted, ok := subsetOfStandard(src); ok && got.Encoding != nil {
			e1 := t1fonts.EffectiveEncoding(src.Encoding, src.Glyphs)
			e2 := t1fonts.EffectiveEncoding(got.Encoding, got.Glyphs)
			om := map[int]bool{}
			for _, c := range omitted {
				om[c] = true
			}
			only := true
			for c := range e1 {
				if e1[c] != e2[c] && !(om[c] && e2[c] == psenc.StandardEncoding[c]) {
					only = false
				}
			}
			if only {
				return "C09:encoding:subset-of-StandardEncoding-written-as-StandardEncoding", true
			}
		}
	case "creation-date":
		name, _ := src.CreationDate.Zone()
		if name == "" && !src.CreationDate.IsZero() && got.CreationDate.IsZero() {
			return "C09:creation-date:unnamed-zone-lost", true
		}
	}
	if hasLineBreak(src.Version) {
		return "C09:version-line-break-in-header-comment", true
	}
	return "C09:" + d.Class, false
}

// sloppyFont says `/Encoding StandardEncoding def` and then stores into that array.
var sloppyFont = t1raw.Build(t1raw.FontSpec{EncLenIV: 4,
	Top:    "StandardEncoding 39 /quotesingle put StandardEncoding 65 /Alpha put StandardEncoding 66 /.notdef put\n",
	Glyphs: map[string][]byte{".notdef": {139, 248, 136, 13, 14}, "A": {139, 248, 136, 13, 14}},
	Order:  []string{".notdef", "A"}})

func body(fams []t1fonts.Family, famIdx int) func(c *mc.Ctx, item int) mc.Verdict {
	fam := fams[famIdx]
	return func(c *mc.Ctx, item int) mc.Verdict {
		src := fam.Build(item)
		pristine := fam.Build(item)
		fi := c.Choose(len(formats))
		render := func() string {
			return fmt.Sprintf("family %s item %d format %s: %s", fam.Name, item, formatNames[fi], t1fonts.Dump(pristine))
		}
		fail := func(key, detail string) mc.Verdict {
			v := mc.Fail(key, detail+" | "+render())
			v.Render = render()
			return v
		}
		var buf bytes.Buffer
		err := src.Write(&buf, &type1.WriterOptions{Format: formats[fi]})
		c.Step()
		if err != nil {
			return fail("C09:write-error", "Write: "+err.Error())
		}
		// writing is an observation: the font handed to Write is what it was before
		if after, before := t1fonts.Dump(src), t1fonts.Dump(pristine); after != before {
			return fail("C09:write-changed-the-font", "the font value differs after Write: "+after)
		}
		// How the written bytes reach the reader, and what the process read before,
		// are pure functions of the item: from the start of a seekable reader; from
		// the middle of one (the font embedded in a larger file); after another font
		// that stores into StandardEncoding in place has been read.
		var rd io.Reader = bytes.NewReader(buf.Bytes())
		switch item % 8 {
		case 3:
			header := []byte("container header 16")
			rs := bytes.NewReader(append(append([]byte{}, header...), buf.Bytes()...))
			rs.Seek(int64(len(header)), io.SeekStart)
			rd = rs
		case 5:
			type1.Read(bytes.NewReader(sloppyFont))
		case 6:
			// a source that hands the file over in small pieces (a pipe, a network connection, a buffered reader near its block boundary)
			rd = iotest.HalfReader(struct{ io.Reader }{bytes.NewReader(buf.Bytes())})
		case 7:
			rd = iotest.OneByteReader(bytes.NewReader(buf.Bytes()))
		}
		got, err := type1.Read(rd)
		c.Step()
		if err != nil {
			switch {
			case hasLineBreak(pristine.Version):
				return fail("C09:version-line-break-in-header-comment", fmt.Sprintf("Version %q is copied into the %%! header comment; Read of the written file fails: %v", pristine.Version, err))
			case shadowingGlyph(pristine) != "":
				return fail("C09:glyph-name-shadows-font-program-operator", fmt.Sprintf("glyph named %q: Read of the written file fails: %v", shadowingGlyph(pristine), err))
			}
			return fail("C09:read-error", "Read of the written file fails: "+err.Error())
		}
		diffs := t1fonts.Compare(pristine, got, tol)
		if len(diffs) > 0 {
			var firstKey, firstDetail string
			for i, d := range diffs {
				key, narrow := classify(pristine, got, d)
				if i == 0 {
					firstKey, firstDetail = key, d.Detail
				}
				if !narrow {
					return fail(key, d.Detail)
				}
			}
			return fail(firstKey, firstDetail)
		}
		// The same font value, edited in place and written again (one item in four,
		// chosen by a pure function of the item): the second file describes the
		// edited font, whatever the first write may have remembered.
		if item%4 == 0 {
			t1fonts.EditInPlace(src)
			t1fonts.EditInPlace(pristine)
			buf.Reset()
			if err := src.Write(&buf, &type1.WriterOptions{Format: formats[fi]}); err != nil {
				return fail("C09:write-error", "second Write after an in-place edit: "+err.Error())
			}
			got2, err := type1.Read(bytes.NewReader(buf.Bytes()))
			c.Steps(2)
			if err != nil {
				if shadowingGlyph(pristine) == "" && !hasLineBreak(pristine.Version) {
					return fail("C09:rewrite-after-edit:read-error", "Read of the file written after an in-place edit fails: "+err.Error())
				}
			} else if diffs := t1fonts.Compare(pristine, got2, tol); len(diffs) > 0 {
				return fail("C09:rewrite-after-edit:"+diffs[0].Class, "after editing the font in place (every coordinate +3, every stem edge +1) and writing it again: "+diffs[0].Detail)
			}
		}
		compared := 0
		for n := range pristine.Glyphs {
			if _, ok := got.Glyphs[n]; ok {
				compared++
			}
		}
		v := mc.Pass(fam.Name+"/"+formatNames[fi], buf.Len() > 0 && (compared > 0 || len(pristine.Glyphs) == 0))
		if c.Render() {
			v.Render = render()
		}
		return v
	}
}

func main() {
	mc.Main(mc.Program{
		Property: "C09",
		Assumptions: []string{
			"domain: integer advance widths, regular-character names of length >= 1, well-formed contours, even-length stem arrays, finite numbers, 32-bit coordinate deltas, encodings nil or 256 entries, creation years 1..9999",
			"encoding entries naming glyphs the font does not have are compared as .notdef (documented reader behaviour)",
			"a source font without .notdef may come back with an added empty .notdef (documented reader behaviour)",
			"time zones are fixed zones (no tz database lookups); zone names need not survive, instants must",
		},
		TrustedBase: []string{"bytes.Buffer", "time.Time.Unix", "verif/model/t1fonts comparer"},
		Explanation: "Each execution writes one generated font in one format with Font.Write and reads it with type1.Read; the comparison covers every field of type1.Font.",
		Families: func(tier string) []mc.Family {
			fams := t1fonts.Families(tier, t1fonts.DomainC09)
			budget := 50 * time.Second
			if tier == "thorough" {
				budget = 11 * time.Minute
			}
			var out []mc.Family
			for i, f := range fams {
				f := f
				out = append(out, mc.Family{
					Name:   f.Name,
					Items:  f.N,
					Body:   body(fams, i),
					Budget: budget,
					Rule:   "item = one font: " + f.Rule + "; free choice = file format {PFA, PFB, binary, no-eexec}; non-trivial = bytes were written, Read succeeded and every source glyph was found and compared",
					Describe: func(item int) string {
						return fmt.Sprintf("family %s item %d: %s", f.Name, item, t1fonts.Dump(f.Build(item)))
					},
					CrashKey: func(item int) string { return "C09:crash:" + f.Name },
				})
			}
			return out
		},
	})
}
