// C06 — the Type 1 reader recovers exactly the font a conforming file describes.
//
// Decided by bounded-exhaustive enumeration of (model font x serialisation):
// every model font of t1model.C06Fonts() is written down by the independent
// producer verif/model/t1gen (never the library's writer) under every
// combination of at most MaxDev deviations from the plain style, the bytes
// are read with the real type1.Read, and the result is compared field by
// field with the model.
//
// Oracle = the model font itself (the generator's ground truth):
//   - command lists in absolute coordinates: equality when all numbers of the
//     glyph are integers or small dyadic fractions (every float sum exact),
//     otherwise |difference| <= 1e-9;
//   - advance widths (WidthX, WidthY), same rule;
//   - stems as absolute edges (side bearing + operand, + width), exact;
//   - all 256 encoding slots, codes of absent glyphs -> ".notdef";
//   - FontName, the six FontInfo strings byte-exact, ItalicAngle, isFixedPitch,
//     UnderlinePosition/Thickness, FontMatrix: exact;
//   - Private: BlueValues, OtherBlues, StdHW, StdVW, and BlueScale 0.039625,
//     BlueShift 7, BlueFuzz 1, ForceBold false when the entry is absent;
//   - creation date: same instant and same UTC offset, zero time when the
//     file has no %%CreationDate.
//
// Preconditions on generated files (so that the expected value is unique; all
// follow the Type 1 book or DESIGN.md sections 6/10):
//   - every contour ends with an explicit closepath (the book demands it);
//   - a .notdef glyph is always present (the book demands it);
//   - hint operands and side bearings are integers whenever a glyph has hints
//     (type1.Glyph stores stem edges as 16-bit integers);
//   - hstem3/vstem3 are never mixed with hstem/vstem of the same direction;
//   - hint replacement re-declares the same set of stems (the Font type has a
//     single stem list per glyph; an interpreter with and one without hint
//     replacement then agree, the book allows othersubr 3 to answer 3);
//   - seac: accent's side bearing = composite's = base's, composite's width =
//     base's (book: "the hsbw of the composite must be the same as the base
//     character's"), the accent has no hints, and base and accent sit at
//     their StandardEncoding codes in the font's own encoding vector (book:
//     "must be in the same positions in the font's encoding vector as in
//     StandardEncoding"), so the lookup through either vector is the same;
//   - flex only for curve pairs meeting the book's geometric conditions, with
//     integer coordinates;
//   - closefile is followed by exactly one line-end character inside the
//     encrypted part, then 512 zeros and cleartomark;
//   - BlueValues/OtherBlues/BlueShift/BlueFuzz are integers, numbers are
//     finite decimal literals, names consist of regular characters.
package main

import (
	"bytes"
	"fmt"
	"io"
	"sort"
	"strings"
	"testing/iotest"
	"time"

	"seehuhn.de/go/postscript/type1"

	"verif/mc"
	"verif/model/t1gen"
	"verif/model/t1model"
)

const (
	keyFlexAfterLine = "C06:flex-after-line:spurious-closepath"
	keySeacClosepath = "C06:seac:accent-closepath-dropped"
	keyBoth          = "C06:flex-after-line:spurious-closepath+seac:accent-closepath-dropped"
)

// flexAfterLineSites returns, per glyph, the indexes in the correct command
// list of the first curve of every flex that directly follows a line segment.
func flexAfterLineSites(m *t1model.Font, o *t1gen.Options) map[string][]int {
	sites := map[string][]int{}
	for _, g := range m.Glyphs {
		gopt := o.Glyph[g.Name]
		if gopt == nil || len(gopt.Flex) == 0 {
			continue
		}
		l := t1gen.Layout(g)
		for k, pi := range l.FlexAt {
			if gopt.Flex[pi] && l.FlexAfter[k] == 'L' {
				// path command pi of contour ci is command pi+ci of the list
				// (each earlier contour contributes one closepath)
				sites[g.Name] = append(sites[g.Name], pi+l.FlexCont[k])
			}
		}
	}
	return sites
}

func hasComposite(m *t1model.Font) bool {
	for _, g := range m.Glyphs {
		if g.Comp != nil {
			return true
		}
	}
	return false
}

func nontrivialFont(m *t1model.Font) bool {
	for _, g := range m.Glyphs {
		if len(g.Contours) > 0 || g.Comp != nil {
			return true
		}
	}
	return false
}

func hexdump(b []byte, max int) string {
	if len(b) > max {
		return fmt.Sprintf("%x… (%d bytes)", b[:max], len(b))
	}
	return fmt.Sprintf("%x", b)
}

// body explores one model font.  The model fonts are built once per process
// and only read afterwards (Drive, Generate and Expected do not modify them).
func body(items []t1model.Item, sc t1gen.Scope) func(c *mc.Ctx, item int) mc.Verdict {
	return bodyWith(items, sc, 0)
}

// bodyWith: with containers > 0 the item number also fixes the container
// (item = font x container) and every other decision is the default.
func bodyWith(items []t1model.Item, sc t1gen.Scope, containers int) func(c *mc.Ctx, item int) mc.Verdict {
	return func(c *mc.Ctx, item int) mc.Verdict {
		var ch t1gen.Chooser = c
		if containers > 0 {
			ch = &pick{first: item % containers}
			item /= containers
		}
		m := items[item].Font
		opt := t1gen.Drive(ch, m, sc)
		data, err := t1gen.Generate(m, opt)
		if err != nil {
			panic("harness: generator refused its own options: " + err.Error())
		}
		render := func() string {
			return fmt.Sprintf("%s || %s || file=%s", m.Describe(), opt, hexdump(data, 3000))
		}
		fail := func(key, detail string) mc.Verdict {
			v := mc.Fail(key, detail+" || "+m.Describe()+" || "+opt.String())
			v.Render = render()
			return v
		}
		// how the file reaches the reader is a pure function of the file: from the
		// start of a seekable reader, from the middle of one (the font embedded in
		// a larger file, the reader positioned at its first byte), or through a
		// plain reader that hands over the last bytes together with io.EOF
		var src io.Reader = bytes.NewReader(data)
		switch len(data) % 3 {
		case 1:
			junk := bytes.Repeat([]byte("%!junk before the font\n"), 1+len(data)%5)
			rs := bytes.NewReader(append(junk, data...))
			rs.Seek(int64(len(junk)), io.SeekStart)
			src = rs
		case 2:
			src = iotest.DataErrReader(struct{ io.Reader }{bytes.NewReader(data)})
		}
		f, err := type1.Read(src)
		c.Step()
		if err != nil {
			return fail("C06:read-error", "type1.Read failed on a conforming file: "+err.Error())
		}
		diffs := m.Expected().Compare(f)
		if len(diffs) > 0 {
			// Is this exactly one of the known defects?  The prediction must
			// match in every field.
			sites := flexAfterLineSites(m, opt)
			comp := hasComposite(m)
			type cand struct {
				key string
				qk  *t1model.Quirks
			}
			var cands []cand
			if len(sites) > 0 {
				cands = append(cands, cand{keyFlexAfterLine, &t1model.Quirks{ExtraClosepathBefore: sites}})
			}
			if comp {
				cands = append(cands, cand{keySeacClosepath, &t1model.Quirks{SeacDropAccentClosepath: true}})
			}
			if len(sites) > 0 && comp {
				cands = append(cands, cand{keyBoth, &t1model.Quirks{ExtraClosepathBefore: sites, SeacDropAccentClosepath: true}})
			}
			for _, cd := range cands {
				if len(m.ExpectedWith(cd.qk).Compare(f)) == 0 {
					return fail(cd.key, "differs from the model exactly as this defect predicts: "+diffs[0].String())
				}
			}
			var parts []string
			for i, d := range diffs {
				if i == 4 {
					parts = append(parts, fmt.Sprintf("… %d more", len(diffs)-4))
					break
				}
				parts = append(parts, d.String())
			}
			return fail("C06:"+diffs[0].Field, strings.Join(parts, "; "))
		}
		feat := opt.Features()
		outcome := "ok/" + t1gen.ContainerName(opt.Container) + fmt.Sprintf("/lenIV%d", opt.LenIV)
		if len(feat) > 0 {
			outcome += "/" + feat[0]
		}
		v := mc.Pass(outcome, nontrivialFont(m))
		if c.Render() {
			v.Render = render()
		}
		return v
	}
}

// largeFonts: fonts whose size is in the number of glyphs and path segments, not
// in their variety: the reader's bounds on the work a font may cost count
// operators, and a font of a few megabytes made of ordinary glyphs is far below
// them however many operands its commands carry.
func largeFonts() []t1model.Item {
	mk := func(label string, glyphs, segs int, curves bool) t1model.Item {
		gs := []*t1model.Glyph{{Name: ".notdef", Sbx: t1model.I(0), Sby: t1model.I(0), WidthX: t1model.I(250), WidthY: t1model.I(0)}}
		for i := 0; i < glyphs; i++ {
			g := &t1model.Glyph{Name: fmt.Sprintf("g%04d", i), Sbx: t1model.I(0), Sby: t1model.I(0), WidthX: t1model.I(int64(500 + i%7)), WidthY: t1model.I(0)}
			c := t1model.Contour{Start: t1model.P(0, int64(i%50))}
			x, y := int64(0), int64(i%50)
			for k := 0; k < segs; k++ {
				d := int64(1)
				if k%2 == 1 {
					d = -1
				}
				if curves {
					c.Segs = append(c.Segs, t1model.C(x+1, y+int64(k%3), x+2, y+d, x+3+int64(i%2), y+d))
					x, y = x+3+int64(i%2), y+d
				} else {
					c.Segs = append(c.Segs, t1model.L(x+1+int64(k%4), y+d))
					x, y = x+1+int64(k%4), y+d
				}
			}
			g.Contours = []t1model.Contour{c}
			gs = append(gs, g)
		}
		return t1model.Item{Font: t1model.NewFont(label, gs...), Group: t1model.GroupMulti}
	}
	return []t1model.Item{
		mk("large: 3 glyphs of 9000 curves", 3, 9000, true),
		mk("large: 70 glyphs of 9000 curves (630,000 operators, 4.4 million charstring tokens)", 70, 9000, true),
		mk("large: 2000 glyphs of 40 lines", 2000, 40, false),
		mk("large: 9000 glyphs of 160 lines (1.5 million operators, 4.4 million charstring tokens)", 9000, 160, false),
	}
}

// pick answers the first Deviate with a fixed value and every later one with 0.
type pick struct {
	first int
	used  bool
}

func (p *pick) Deviate(n int) int {
	if !p.used {
		p.used = true
		if p.first < n {
			return p.first
		}
	}
	return 0
}

type pickCtx struct {
	*mc.Ctx
	p *pick
}

func (p pickCtx) Deviate(n int) int { return p.p.Deviate(n) }

// altCount is the number of single deviations of a font under a scope.
type counter struct{ n int }

func (c *counter) Deviate(n int) int { c.n += n - 1; return 0 }

func alternatives(m *t1model.Font, sc t1gen.Scope) int {
	c := &counter{}
	t1gen.Drive(c, m, sc)
	return c.n
}

func main() {
	all := t1model.C06Fonts()
	mc.Main(mc.Program{
		Property: "C06",
		Assumptions: []string{
			"generated files satisfy the preconditions listed at the top of cmd/c06/main.go (explicit closepath, .notdef present, integer hints, no stem/stem3 mixing, seac restrictions of the Type 1 book and DESIGN.md section 10, one line end after closefile)",
			"coordinates compare exactly for integer/dyadic glyphs and within 1e-9 otherwise",
			"hint replacement subroutines re-declare the glyph's own stems, so interpreters with and without hint replacement agree",
			"the creation date is compared as instant plus UTC offset; the zone abbreviation is not compared",
		},
		TrustedBase: []string{
			"verif/model/t1gen (independent producer written from the Type 1 book) and verif/model/t1model (model, comparer)",
			"Go time package (weekday computation, time.Date)",
		},
		Explanation: "Each execution = one (model font, serialisation) pair: t1gen writes the file, type1.Read reads it, every field is compared with the model.",
		Families: func(tier string) []mc.Family {
			var outline, comp, multi, dict []t1model.Item
			for _, it := range all {
				switch it.Group {
				case t1model.GroupOutline:
					outline = append(outline, it)
				case t1model.GroupComposite:
					comp = append(comp, it)
				case t1model.GroupMulti:
					multi = append(multi, it)
				default:
					dict = append(dict, it)
				}
			}
			full := t1gen.Scope{Global: true, Glyph: true, Flex: true, Forms: true, Numbers: true}
			flexOnly := t1gen.Scope{Global: true, Glyph: true, Flex: true}
			global := t1gen.Scope{Global: true, Glyph: true}
			describe := func(items []t1model.Item) func(int) string {
				return func(i int) string { return items[i].Font.Describe() }
			}
			large := largeFonts()
			budget := 50 * time.Second
			multiScope, multiScopeText := flexOnly, "global and per-glyph decisions plus flex at every legal position (the per-command form and number decisions of every outline are explored in single-glyph-fonts; thorough explores them here as well)"
			if tier == "thorough" {
				budget = 3 * time.Minute
				multiScope, multiScopeText = full, "all decisions"
			}
			decisions := "decisions (each a Deviate, default = plain style PFA/lenIV 4/RD ND NP/compact forms/no subrs): container {pfa,binary,pfb,noeexec,pfb-split,binary-with-hex-digit-start}, lenIV {4,0,1,7}, -| |- | names, encoding form x3, date layout, line end {LF,CR,CRLF}, string form x3, hex case, dense Adobe style; " +
				"per glyph: subr factoring {none,contour,tail,nested,operator-only}, hint replacement, dotsection, sbw form, vstem-first; per path command with a choice: h/v vs r form; per operand-carrying command: number form {shortest,5-byte,div}; flex at every legal position"
			fams := []mc.Family{
				{
					Name: "single-glyph-fonts", Items: len(outline), MaxDev: 2, Budget: budget,
					Body:     body(outline, full),
					Describe: describe(outline),
					CrashKey: func(int) string { return "C06:crash:single-glyph-fonts" },
					Rule: fmt.Sprintf("item = one of %d model fonts: .notdef + one glyph for each of 16 outlines x 6 hint configurations (metrics kind cycling over 4) and 16 outlines x 2 further metrics kinds; "+
						decisions+"; all executions with <= 2 deviations; non-trivial = Read succeeded, all fields equal the model and the font has at least one outline", len(outline)),
				},
				{
					Name: "composite-fonts", Items: len(comp), MaxDev: 2, Budget: budget,
					Body:     body(comp, multiScope),
					Describe: describe(comp),
					CrashKey: func(int) string { return "C06:crash:composite-fonts" },
					Rule:     fmt.Sprintf("item = one of %d model fonts with 1-2 seac composites (4 base outlines x hints none/both x StandardEncoding or a custom encoding keeping the components at their standard codes; every third font has a second accent and a fractional displacement); "+multiScopeText+"; <= 2 deviations; non-trivial as above (on the unrepaired tree every execution of this family ends in one of the known seac findings)", len(comp)),
				},
				{
					Name: "multi-glyph-fonts", Items: len(multi), MaxDev: 2, Budget: budget,
					Body:     body(multi, multiScope),
					Describe: describe(multi),
					CrashKey: func(int) string { return "C06:crash:multi-glyph-fonts" },
					Rule:     fmt.Sprintf("item = one of %d model fonts with two glyphs (all ordered pairs from 8 outlines) or three glyphs (16 triples) besides .notdef; "+multiScopeText+"; <= 2 deviations; non-trivial as above", len(multi)),
				},
				{
					Name: "dictionary-fonts", Items: len(dict), MaxDev: 2, Budget: budget,
					Body:     body(dict, global),
					Describe: describe(dict),
					CrashKey: func(int) string { return "C06:crash:dictionary-fonts" },
					Rule: fmt.Sprintf("item = one of %d model fonts varying the dictionaries: %d interesting byte strings x 6 FontInfo fields, Private values present/absent/default/non-default, custom encodings, 8 creation dates, FontInfo numbers, FontMatrix, font name; "+
						"global and per-glyph decisions (no per-command decisions), <= 2 deviations (thorough: 3); non-trivial as above", len(dict), len(t1model.InterestingStrings)),
				},
				{
					Name: "large-fonts", Items: len(large) * t1gen.NumContainers, Budget: budget, HangSeconds: 300,
					Body: bodyWith(large, t1gen.Scope{Global: true}, t1gen.NumContainers),
					Describe: func(i int) string {
						return large[i/t1gen.NumContainers].Font.Describe() + " / " + t1gen.ContainerName(i%t1gen.NumContainers)
					},
					CrashKey: func(int) string { return "C06:crash:large-fonts" },
					Rule:     fmt.Sprintf("item = one of %d fonts made of many ordinary glyphs (3 and 70 glyphs of 9000 curves each, 2000 glyphs of 40 lines, 9000 glyphs of 160 lines: files of up to 9 MB, up to 1.5 million charstring operators and 4.4 million charstring tokens) x %d containers, every other decision the default; read and compared field by field like every other font; non-trivial as above", len(large), t1gen.NumContainers),
				},
			}
			if tier == "thorough" {
				fams[3].MaxDev = 3
				// triple deviations for the smallest outline fonts
				type sized struct{ idx, alts int }
				var ss []sized
				pool := append(append([]t1model.Item{}, outline...), comp...)
				for i, it := range pool {
					ss = append(ss, sized{i, alternatives(it.Font, full)})
				}
				sort.SliceStable(ss, func(a, b int) bool { return ss[a].alts < ss[b].alts })
				var small []t1model.Item
				total := 0
				for _, s := range ss {
					cost := s.alts * s.alts * s.alts / 6
					if total+cost > 1_200_000 {
						break
					}
					total += cost
					small = append(small, pool[s.idx])
				}
				smallBody := body(small, full)
				fams = append(fams, mc.Family{
					Name: "smallest-fonts-triple", Items: len(small), MaxDev: 3, Budget: 4 * time.Minute,
					Body:     smallBody,
					Describe: describe(small),
					CrashKey: func(int) string { return "C06:crash:smallest-fonts-triple" },
					Rule:     fmt.Sprintf("the %d single-glyph/composite fonts with the fewest alternatives, all decisions, <= 3 deviations", len(small)),
				})
			}
			return fams
		},
	})
}
