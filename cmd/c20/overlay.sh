#!/bin/bash
# usage: overlay.sh <out.json>
# Writes the build overlay for the C20 check: the export shim is added to
# package type1 and cmd/c20/shim.go is replaced by the variant that calls it.
# If that does not compile (an internal name changed), an empty overlay is
# written: the check then runs on the public API only and reports
# shim_unavailable.
out="$1"
dir="$(cd "$(dirname "$0")" && pwd)"
root="$(cd "$dir/../.." && pwd)"
export GOFLAGS=-mod=mod GOPROXY=off GOSUMDB=off GOTOOLCHAIN=local
case "$out" in /*) ;; *) out="$PWD/$out";; esac
mkdir -p "$(dirname "$out")"
tmp="$out.try"
cat > "$tmp" <<JSON
{"Replace": {"/repo/type1/zz_verif_export.go": "$dir/export_type1.go.txt", "$dir/shim.go": "$dir/shim_on.go.txt"}}
JSON
cd "$root" || exit 1
if go build -overlay "$tmp" -o /dev/null ./cmd/c20 >"$out.trylog" 2>&1; then
  mv "$tmp" "$out"
else
  echo "export shim does not compile; falling back to the public API" >&2
  cat "$out.trylog" >&2
  echo '{"Replace": {}}' > "$out"
  rm -f "$tmp"
fi
exit 0
