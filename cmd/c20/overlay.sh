#!/bin/bash
# usage: overlay.sh <out.json> [<repo-relative-path>=<replacement-file> ...]
# Writes the build overlay for the C20 check: the export shim is added to
# package type1 and cmd/c20/shim.go is replaced by the variant that calls it.
# If that does not compile against the tree being checked (an internal name
# changed), an overlay without the shim is written: the check then runs on the
# public API only and reports shim_unavailable.  Extra arguments (as given by
# tools/mutrun.sh) are file replacements of the tree being checked; they take
# part in the trial compilation and are copied into the overlay.
out="$1"; shift
dir="$(cd "$(dirname "$0")" && pwd)"
root="$(cd "$dir/../.." && pwd)"
export GOFLAGS=-mod=mod GOPROXY=off GOSUMDB=off GOTOOLCHAIN=local
case "$out" in /*) ;; *) out="$PWD/$out";; esac
mkdir -p "$(dirname "$out")"
tmp="$out.try"
python3 - "$tmp" "$out.noshim" "$dir" "$@" <<'PY'
import json, os, sys
tmp, noshim, d = sys.argv[1:4]
extra = {}
for a in sys.argv[4:]:
    rel, f = a.split("=", 1)
    extra["/repo/" + rel] = os.path.abspath(f)
withshim = dict(extra)
withshim["/repo/type1/zz_verif_export.go"] = d + "/export_type1.go.txt"
withshim[d + "/shim.go"] = d + "/shim_on.go.txt"
json.dump({"Replace": withshim}, open(tmp, "w"), indent=1)
json.dump({"Replace": extra}, open(noshim, "w"), indent=1)
PY
cd "$root" || exit 1
if go build -overlay "$tmp" -o /dev/null ./cmd/c20 >"$out.trylog" 2>&1; then
  mv "$tmp" "$out"; rm -f "$out.noshim"
else
  echo "export shim does not compile; falling back to the public API" >&2
  cat "$out.trylog" >&2
  mv "$out.noshim" "$out"; rm -f "$tmp"
fi
rm -f "$out.trylog"
exit 0
