// C20 — charstring numbers are exact for integers and drift-free for
// fractions.
//
// Decided by bounded-exhaustive enumeration of the real encoder
// (type1.appendInt, appendNumber, Glyph.encodeCharString, reached through an
// export shim added by `go build -overlay`, and through the public
// Font.Write) against verif/model/numref, a reading of the Type 1 book's
// number encodings with exact rational arithmetic, and against the library's
// own decoder.
//
//	(a) integers: every value of the tier's set is encoded; the bytes must be
//	    the 1-byte form for -107..107, the two 2-byte forms for 108..1131 and
//	    -1131..-108, the 5-byte form otherwise, and must decode to the same
//	    integer under numref and under the library's decoder.
//	    quick: -70,000..70,000, every format boundary +-3, every power of two
//	    (both signs) +-3, the int32 limits; thorough: all 2^32 values.
//	    The quick set is also pushed through the public path: paths whose
//	    deltas sweep the values (move, h/v/r lines, rrcurve), advance widths
//	    (hsbw and sbw) and stem hints, Write in each format -> Read (exact)
//	    and -> independent decoder (exact, formats proper).
//	(b) fractions: x = p/q (1 <= q <= 400, |x| < 4) and +-(k + p/q) for k at
//	    the format boundaries and powers of ten up to 10^6: the value written
//	    (an integer or `p q div`) differs from x by at most 1/214.
//	(c) drift: paths over an alphabet of 12 deltas x {move, line, curve}; all
//	    paths up to a length exhaustively, an explicit-state search over
//	    distinct error states (requested minus reconstructed position), and
//	    fixed paths of 10,000 equal segments: every absolute coordinate the
//	    decoder reconstructs is within 1/214 of the requested one.
//
// Oracle tolerances, and why they are not looser than the statement:
//
//   - integers: none (exact equality, exact format);
//   - fractions and drift: the statement's bound 1/214 is checked in exact
//     rational arithmetic between the float64 that was requested and the exact
//     value of what was written (numref), plus a float64 representation
//     allowance fltSlack(x) = 4 ulp(x): the encoder computes x*q, p/q - x and
//     the tracked position in float64, so at a value within rounding error of
//     an exact tie k + 1/214 the written value can exceed the bound by that
//     rounding error (measured maximum on this tree: see evidence outcomes
//     "max-excess"; it is below 2^-50 |x|).  4 ulp(10^6) = 4.7e-10, five
//     orders of magnitude below the drift a missing position tracking causes
//     (1/214 per segment);
//   - drift: the same bound with an allowance of (4 + 3n) ulp(2^17) for a
//     path of n segments (float64 additions in the encoder's position
//     tracking; 3e-10 for n = 9, 4.4e-7 for n = 10,000);
//   - the library decoder's float64 result is compared with numref's exact
//     value to within 2^-40 relative (one float64 division); coordinates the
//     library's float64 decoder / Read reconstruct are compared with the
//     requested ones with an allowance of 1e-6 (its own float64 additions).
//
// Preconditions: |x| < 10^6 for fractions; deltas and widths inside the
// 32-bit range; finite values.
package main

import (
	"bytes"
	"fmt"
	"math"
	"math/big"
	"sort"
	"strings"
	"time"

	"seehuhn.de/go/postscript/funit"
	"seehuhn.de/go/postscript/type1"

	"verif/mc"
	"verif/model/numref"
	"verif/model/t1dec"
	"verif/model/t1fonts"
)

// ---------------------------------------------------------------------------
// value sets

// quickInts: -70000..70000, format boundaries +-3, powers of two +-3 of both
// signs, int32 limits.  Sorted, without duplicates.
func quickInts() []int32 {
	seen := map[int64]bool{}
	add := func(v int64) {
		if v >= math.MinInt32 && v <= math.MaxInt32 {
			seen[v] = true
		}
	}
	for v := int64(-70000); v <= 70000; v++ {
		add(v)
	}
	for _, v := range specialInts() {
		add(int64(v))
	}
	out := make([]int32, 0, len(seen))
	for v := range seen {
		out = append(out, int32(v))
	}
	sort.Slice(out, func(i, j int) bool { return out[i] < out[j] })
	return out
}

// specialInts: boundaries and powers of two +-3.
func specialInts() []int32 {
	seen := map[int64]bool{}
	add := func(v int64) {
		for d := int64(-3); d <= 3; d++ {
			w := v + d
			if w >= math.MinInt32 && w <= math.MaxInt32 {
				seen[w] = true
			}
		}
	}
	for _, b := range []int64{0, 107, 108, 1131, 1132, -107, -108, -1131, -1132, 139, 246, 247, 250, 251, 254, 255, 256, 32767, -32768, 65535, 65536, math.MaxInt32, math.MinInt32} {
		add(b)
	}
	for e := 0; e <= 31; e++ {
		add(int64(1) << e)
		add(-(int64(1) << e))
	}
	out := make([]int32, 0, len(seen))
	for v := range seen {
		out = append(out, int32(v))
	}
	sort.Slice(out, func(i, j int) bool { return out[i] < out[j] })
	return out
}

// ---------------------------------------------------------------------------
// (a) integers through the shim

var fmtShort = map[numref.Format]string{numref.Format1: "1", numref.Format2Pos: "2+", numref.Format2Neg: "2-", numref.Format5: "5"}

// checkInts verifies a run of integers; next(i) yields value i.
func checkInts(c *mc.Ctx, n int, next func(i int) int32, what string) mc.Verdict {
	if !shimAvailable {
		return mc.Pass("shim_unavailable", false)
	}
	var seen [5]bool
	const batch = 64
	vals := make([]int32, 0, batch)
	code := make([]byte, 0, 8+batch*6)
	flush := func() *mc.Verdict {
		if len(vals) == 0 {
			return nil
		}
		// library decoder: 0 0 hsbw, then "a b rmoveto" per pair, endchar
		code = code[:0]
		code = append(code, 139, 139, 13)
		for i := 0; i < len(vals); i += 2 {
			code = shimAppendInt(code, vals[i])
			b := int32(0)
			if i+1 < len(vals) {
				b = vals[i+1]
			}
			code = shimAppendInt(code, b)
			code = append(code, 21)
		}
		code = append(code, 14)
		g, err := shimDecode(code)
		if err != nil {
			v := mc.Fail("C20:int:library-decoder-rejects", fmt.Sprintf("%s: library decoder rejects the encoding of %v: %v", what, vals, err))
			return &v
		}
		if len(g.Cmds) != (len(vals)+1)/2 {
			v := mc.Fail("C20:int:library-decodes-other-value", fmt.Sprintf("%s: %d rmoveto written, %d commands decoded", what, (len(vals)+1)/2, len(g.Cmds)))
			return &v
		}
		px, py := 0.0, 0.0
		for i := 0; i < len(vals); i += 2 {
			cmd := g.Cmds[i/2]
			dx, dy := cmd.Args[0]-px, cmd.Args[1]-py
			px, py = cmd.Args[0], cmd.Args[1]
			b := int32(0)
			if i+1 < len(vals) {
				b = vals[i+1]
			}
			if dx != float64(vals[i]) || dy != float64(b) {
				bad, got := vals[i], dx
				if dx == float64(vals[i]) {
					bad, got = b, dy
				}
				v := mc.Fail("C20:int:library-decodes-other-value", fmt.Sprintf("%s: integer %d is written as % x and decoded by the library as %v", what, bad, shimAppendInt(nil, bad), got))
				return &v
			}
		}
		vals = vals[:0]
		return nil
	}
	var nb [8]byte
	for i := 0; i < n; i++ {
		x := next(i)
		b := shimAppendInt(nb[:0], x)
		val, used, f := numref.DecodeNumber(b)
		want := numref.ProperFormat(int64(x))
		if used != len(b) || used == 0 {
			return mc.Fail("C20:int:not-a-number-encoding", fmt.Sprintf("%s: integer %d is written as % x, which is not one complete Type 1 number", what, x, b))
		}
		if f != want {
			return mc.Fail("C20:int:wrong-format", fmt.Sprintf("%s: integer %d is written as % x (%s form), its range calls for the %s form", what, x, b, f, want))
		}
		if val != int64(x) {
			return mc.Fail("C20:int:decodes-to-other-value", fmt.Sprintf("%s: integer %d is written as % x, which decodes to %d", what, x, b, val))
		}
		seen[f] = true
		vals = append(vals, x)
		if len(vals) == batch {
			if v := flush(); v != nil {
				return *v
			}
		}
	}
	if v := flush(); v != nil {
		return *v
	}
	c.Steps(2 * n)
	var fs []string
	for f := numref.Format1; f <= numref.Format5; f++ {
		if seen[f] {
			fs = append(fs, fmtShort[f])
		}
	}
	v := mc.Pass("formats:"+strings.Join(fs, ","), n > 0)
	if c.Render() {
		v.Render = fmt.Sprintf("%s: %d integers starting at %d", what, n, next(0))
	}
	return v
}

// ---------------------------------------------------------------------------
// public path helpers

var formats = []type1.FileFormat{type1.FormatPFA, type1.FormatPFB, type1.FormatBinary, type1.FormatNoEExec}
var formatNames = []string{"PFA", "PFB", "binary", "no-eexec"}

func fontWith(g *type1.Glyph) *type1.Font {
	f := t1fonts.Base()
	f.Glyphs = map[string]*type1.Glyph{".notdef": {WidthX: 500}, "sweep": g}
	f.Encoding = t1fonts.CustomEncoding(map[int]string{65: "sweep"})
	return f
}

// sweepGlyph: per value v one contour  M(+v,0) L(0,+v) L(+v,+v) C(+v..., 6 deltas v) Z
func sweepGlyph(vals []int32) *type1.Glyph {
	g := &type1.Glyph{WidthX: 600}
	x, y := 0.0, 0.0
	for _, vi := range vals {
		v := float64(vi)
		x += v
		g.MoveTo(x, y)
		y += v
		g.LineTo(x, y)
		x += v
		y += v
		g.LineTo(x, y)
		g.CurveTo(x+v, y+v, x+2*v, y+2*v, x+3*v, y+3*v)
		x += 3 * v
		y += 3 * v
		g.ClosePath()
	}
	return g
}

func cloneGlyph(g *type1.Glyph) *type1.Glyph {
	h := &type1.Glyph{WidthX: g.WidthX, WidthY: g.WidthY}
	h.HStem = append([]funit.Int16(nil), g.HStem...)
	h.VStem = append([]funit.Int16(nil), g.VStem...)
	for _, c := range g.Cmds {
		h.Cmds = append(h.Cmds, type1.GlyphOp{Op: c.Op, Args: append([]float64(nil), c.Args...)})
	}
	return h
}

// publicRoundTrip writes the font, reads it with the library (exact
// comparison) and with the independent decoder (exact comparison, proper
// number formats).
func publicRoundTrip(c *mc.Ctx, src *type1.Font, fi int, what string) *mc.Verdict {
	pristine := fontWith(cloneGlyph(src.Glyphs["sweep"]))
	var buf bytes.Buffer
	if err := src.Write(&buf, &type1.WriterOptions{Format: formats[fi]}); err != nil {
		v := mc.Fail("C20:public:write-error", what+": "+err.Error())
		return &v
	}
	c.Step()
	got, err := type1.Read(bytes.NewReader(buf.Bytes()))
	c.Step()
	if err != nil {
		v := mc.Fail("C20:public:read-error", what+": Read of the written font: "+err.Error())
		return &v
	}
	for _, d := range t1fonts.Compare(pristine, got, 0) {
		if d.Class == "outline" || d.Class == "width" || d.Class == "stems" || d.Class == "glyph-set" {
			v := mc.Fail("C20:public:read-back:"+d.Class, what+" format "+formatNames[fi]+": "+clip(d.Detail, 1500))
			return &v
		}
	}
	dec, derr := t1dec.Decode(buf.Bytes(), false)
	c.Step()
	if derr != nil {
		v := mc.Fail("C20:public:independent-decoder:"+derr.Class, what+": "+derr.Msg)
		return &v
	}
	for _, d := range t1fonts.CompareDecoded(pristine, dec) {
		if d.Class == "outline" || d.Class == "width" || d.Class == "stems" || d.Class == "glyph-set" || d.Class == "sidebearing" {
			v := mc.Fail("C20:public:independent-decoder:"+d.Class, what+" format "+formatNames[fi]+": "+clip(d.Detail, 1500))
			return &v
		}
	}
	for _, t := range dec.Glyphs["sweep"].Tokens {
		if t.IsNum && t.Format != numref.ProperFormat(t.Num) {
			v := mc.Fail("C20:int:wrong-format", fmt.Sprintf("%s format %s: the written charstring holds %d in the %s form, its range calls for the %s form", what, formatNames[fi], t.Num, t.Format, numref.ProperFormat(t.Num)))
			return &v
		}
	}
	return nil
}

func clip(s string, n int) string {
	if len(s) > n {
		return s[:n] + "…"
	}
	return s
}

// ---------------------------------------------------------------------------
// (b) fractions

// encodeValue returns the bytes the encoder writes for one coordinate delta x.
func encodeValue(x float64) ([]byte, error) {
	if shimAvailable {
		b, _ := shimAppendNumber(nil, x)
		return b, nil
	}
	g := &type1.Glyph{WidthX: 0}
	g.MoveTo(x, 0)
	code, err := encodeGlyph(g)
	if err != nil {
		return nil, err
	}
	// 0 0 hsbw <value> hmoveto endchar
	if len(code) < 5 || !bytes.Equal(code[:3], []byte{139, 139, 13}) || code[len(code)-2] != 22 || code[len(code)-1] != 14 {
		return nil, fmt.Errorf("unexpected charstring % x for a single horizontal moveto", code)
	}
	return code[3 : len(code)-2], nil
}

// encodeGlyph returns the plain charstring of g.
func encodeGlyph(g *type1.Glyph) ([]byte, error) {
	if shimAvailable {
		return shimEncode(g, int32(math.Round(g.WidthX)), int32(math.Round(g.WidthY))), nil
	}
	f := fontWith(g)
	var buf bytes.Buffer
	if err := f.Write(&buf, &type1.WriterOptions{Format: type1.FormatNoEExec}); err != nil {
		return nil, err
	}
	dec, derr := t1dec.Decode(buf.Bytes(), false)
	if derr != nil {
		return nil, derr
	}
	return dec.Glyphs["sweep"].Code, nil
}

// fltSlack is the float64 representation allowance: 4 ulp(x).
func fltSlack(x float64) *big.Rat {
	ax := math.Abs(x)
	if ax < 1 {
		ax = 1
	}
	_, e := math.Frexp(ax) // ax = m * 2^e, 0.5 <= m < 1  =>  ulp = 2^(e-53)
	r := new(big.Rat).SetFrac(big.NewInt(4), new(big.Int).Lsh(big.NewInt(1), uint(53-e)))
	if e > 53 {
		r = new(big.Rat).SetInt(new(big.Int).Lsh(big.NewInt(4), uint(e-53)))
	}
	return r
}

var fracKs = []int64{0, 10, 100, 106, 107, 108, 1000, 1130, 1131, 1132, 10000, 100000, 999999}

type excess struct {
	max float64
	at  float64
}

func checkFraction(x float64, ex *excess) *mc.Verdict {
	b, err := encodeValue(x)
	if err != nil {
		v := mc.Fail("C20:frac:encode-error", fmt.Sprintf("x = %v: %v", x, err))
		return &v
	}
	val, toks, ok := numref.ReadValue(b)
	if !ok {
		v := mc.Fail("C20:frac:not-a-value", fmt.Sprintf("x = %v is written as % x (%v), which is neither one integer nor `p q div`", x, b, toks))
		return &v
	}
	for _, t := range toks {
		if t.IsNum && t.Format != numref.ProperFormat(t.Num) {
			v := mc.Fail("C20:int:wrong-format", fmt.Sprintf("x = %v: %d written in the %s form, its range calls for the %s form", x, t.Num, t.Format, numref.ProperFormat(t.Num)))
			return &v
		}
	}
	xr := numref.FromFloat(x)
	d := numref.AbsDiff(val, xr)
	if x == math.Trunc(x) {
		if d.Sign() != 0 {
			v := mc.Fail("C20:frac:integer-not-exact", fmt.Sprintf("integer-valued x = %v is written as %v = %s", x, toks, val.RatString()))
			return &v
		}
	} else if d.Cmp(numref.Bound) > 0 {
		over := new(big.Rat).Sub(d, numref.Bound)
		if over.Cmp(fltSlack(x)) > 0 {
			df, _ := d.Float64()
			v := mc.Fail("C20:frac:error-exceeds-1/214", fmt.Sprintf("x = %v is written as %v = %s; |written - x| = %.9g > 1/214 = %.9g", x, toks, val.RatString(), df, 1.0/214))
			return &v
		}
		of, _ := over.Float64()
		if of > ex.max {
			ex.max, ex.at = of, x
		}
	}
	if shimAvailable {
		code := append([]byte{139, 139, 13}, b...)
		code = append(code, 22, 14)
		g, err := shimDecode(code)
		if err != nil || len(g.Cmds) != 1 {
			v := mc.Fail("C20:frac:library-decoder-rejects", fmt.Sprintf("x = %v written as % x: library decoder: %v", x, b, err))
			return &v
		}
		lib := g.Cmds[0].Args[0]
		vf, _ := val.Float64()
		if math.Abs(lib-vf) > math.Ldexp(math.Max(1, math.Abs(vf)), -40) {
			v := mc.Fail("C20:frac:library-decodes-other-value", fmt.Sprintf("x = %v is written as %v = %s, the library decodes %v", x, toks, val.RatString(), lib))
			return &v
		}
	}
	return nil
}

func fractionBody(qMax int) func(c *mc.Ctx, item int) mc.Verdict {
	return func(c *mc.Ctx, item int) mc.Verdict {
		q := item%qMax + 1
		k := fracKs[item/qMax]
		var ex excess
		n := 0
		if k == 0 {
			for p := -4*q + 1; p < 4*q; p++ {
				x := float64(p) / float64(q)
				if v := checkFraction(x, &ex); v != nil {
					return *v
				}
				n++
			}
		} else {
			for p := 1; p < q; p++ {
				for _, s := range []float64{1, -1} {
					x := s * (float64(k) + float64(p)/float64(q))
					if v := checkFraction(x, &ex); v != nil {
						return *v
					}
					n++
				}
			}
		}
		c.Steps(n)
		out := "within-1/214"
		if ex.max > 0 {
			out = fmt.Sprintf("within-1/214-plus-float-rounding(max-excess<=2^%d)", int(math.Ceil(math.Log2(ex.max))))
		}
		if !shimAvailable {
			out += ";shim_unavailable"
		}
		v := mc.Pass(out, n > 0)
		if c.Render() {
			v.Render = fmt.Sprintf("q=%d k=%d: %d values, largest excess over 1/214: %g at x=%v", q, k, n, ex.max, ex.at)
		}
		return v
	}
}

// ---------------------------------------------------------------------------
// (c) drift

type delta struct{ dx, dy *big.Rat }

var deltas = []delta{
	{numref.R(1, 3), numref.R(0, 1)},
	{numref.R(0, 1), numref.R(1, 3)},
	{numref.R(1, 7), numref.R(-1, 7)},
	{numref.R(1, 200), numref.R(0, 1)},
	{numref.R(0, 1), numref.R(1, 200)},
	{numref.R(1, 200), numref.R(1, 200)},
	{numref.R(1, 1), numref.R(0, 1)},
	{numref.R(0, 1), numref.R(-1, 1)},
	{numref.R(-2, 3), numref.R(1, 7)},
	{numref.R(3, 1), numref.R(1, 200)},
	{numref.R(-1, 7), numref.R(1, 1)},
	{numref.R(-1, 200), numref.R(-1, 3)},
}

var kindNames = []string{"move", "line", "curve"}

const numLetters = 36 // 12 deltas x 3 kinds

func letterName(l int) string {
	d := deltas[l%12]
	return fmt.Sprintf("%s(%s,%s)", kindNames[l/12], d.dx.RatString(), d.dy.RatString())
}

// pathBuilder accumulates the requested path in exact rationals and as the
// float64 glyph that is handed to the library.
type pathBuilder struct {
	x, y *big.Rat
	g    *type1.Glyph
	want []float64 // requested coordinates in order (the float64 handed over)
}

func newPath() *pathBuilder {
	return &pathBuilder{x: new(big.Rat), y: new(big.Rat), g: &type1.Glyph{WidthX: 500}}
}

func (p *pathBuilder) advance(dx, dy *big.Rat) (float64, float64) {
	p.x = new(big.Rat).Add(p.x, dx)
	p.y = new(big.Rat).Add(p.y, dy)
	fx, _ := p.x.Float64()
	fy, _ := p.y.Float64()
	p.want = append(p.want, fx, fy)
	return fx, fy
}

func (p *pathBuilder) add(letter int) {
	d := deltas[letter%12]
	switch letter / 12 {
	case 0:
		x, y := p.advance(d.dx, d.dy)
		p.g.MoveTo(x, y)
	case 1:
		x, y := p.advance(d.dx, d.dy)
		p.g.LineTo(x, y)
	case 2:
		x1, y1 := p.advance(d.dx, d.dy)
		x2, y2 := p.advance(d.dy, d.dx)
		x3, y3 := p.advance(d.dy, d.dx)
		p.g.CurveTo(x1, y1, x2, y2, x3, y3)
	}
}

// driftSlack is the float64 allowance for a path of n segments whose
// positions stay below 2^17: the encoder tracks the reconstructed position by
// float64 additions (up to 6 per segment, each rounding by at most half an
// ulp), the exact reconstruction does not round.  (4 + 3n) ulp(2^17): 3e-10
// for 9 segments, 4.4e-7 for 10,000 - against a bound of 4.7e-3.
func driftSlack(n int) *big.Rat {
	r := fltSlack(131071) // 4 ulp
	f := big.NewRat(int64(4+3*n), 4)
	return r.Mul(r, f)
}

type driftResult struct {
	errX, errY *big.Rat // requested - reconstructed at the end of the path
	maxErr     float64
}

// checkPath encodes the path, reconstructs it exactly and checks every
// coordinate.
func checkPath(p *pathBuilder, what func() string) (*driftResult, *mc.Verdict) {
	code, err := encodeGlyph(p.g)
	if err != nil {
		v := mc.Fail("C20:drift:encode-error", what()+": "+err.Error())
		return nil, &v
	}
	g, derr := t1dec.Interpret(code, nil)
	if derr != nil {
		v := mc.Fail("C20:drift:independent-decoder:"+derr.Class, what()+": "+derr.Msg)
		return nil, &v
	}
	for _, t := range g.Tokens {
		if t.IsNum && t.Format != numref.ProperFormat(t.Num) {
			v := mc.Fail("C20:int:wrong-format", fmt.Sprintf("%s: %d written in the %s form, its range calls for the %s form", what(), t.Num, t.Format, numref.ProperFormat(t.Num)))
			return nil, &v
		}
	}
	var got []*big.Rat
	for _, c := range g.Cmds {
		got = append(got, c.Args...)
	}
	if len(got) != len(p.want) {
		v := mc.Fail("C20:drift:command-mismatch", fmt.Sprintf("%s: %d coordinates requested, %d decoded", what(), len(p.want), len(got)))
		return nil, &v
	}
	res := &driftResult{errX: new(big.Rat), errY: new(big.Rat)}
	limit := new(big.Rat).Add(numref.Bound, driftSlack(len(p.g.Cmds)))
	for i, w := range p.want {
		e := new(big.Rat).Sub(numref.FromFloat(w), got[i])
		ae := new(big.Rat).Abs(e)
		if ae.Cmp(limit) > 0 {
			ef, _ := ae.Float64()
			gf, _ := got[i].Float64()
			v := mc.Fail("C20:drift:position-off-by-more-than-1/214", fmt.Sprintf("%s: coordinate %d (%s of point %d) requested %v, reconstructed %s = %.9g, off by %.6g > 1/214 = %.6g",
				what(), i, []string{"x", "y"}[i%2], i/2, w, clip(got[i].RatString(), 60), gf, ef, 1.0/214))
			return nil, &v
		}
		if ef, _ := ae.Float64(); ef > res.maxErr {
			res.maxErr = ef
		}
		if i%2 == 0 {
			res.errX = e
		} else {
			res.errY = e
		}
	}
	if shimAvailable {
		lg, err := shimDecode(code)
		if err != nil {
			v := mc.Fail("C20:drift:library-decoder-rejects", what()+": "+err.Error())
			return nil, &v
		}
		i := 0
		for _, c := range lg.Cmds {
			for _, a := range c.Args {
				if i < len(p.want) && math.Abs(a-p.want[i]) > 1.0/214+1e-6 {
					v := mc.Fail("C20:drift:library-decoder-position-off", fmt.Sprintf("%s: coordinate %d requested %v, library decoder reconstructs %v", what(), i, p.want[i], a))
					return nil, &v
				}
				i++
			}
		}
		if i != len(p.want) {
			v := mc.Fail("C20:drift:command-mismatch", fmt.Sprintf("%s: %d coordinates requested, library decoder yields %d", what(), len(p.want), i))
			return nil, &v
		}
	}
	return res, nil
}

// farBody: "the writer tracks the position the decoder will reconstruct" also
// far from the origin, where one unit in the last place of a float64 is
// 5e-7: ten thousand curves after a moveto to the edge of the 32-bit range.
// The decoder adds the three deltas of a curve one after the other; the writer
// has to round in the same places, or the two positions part by up to an ulp
// per curve, all in the same direction for suitable deltas.  (The exact
// reconstruction of the other drift families assumes positions below 2^17 and
// is not used here; the reference is the library's own decoder.)
var farStarts = [][2]float64{{2147483647, 0}, {-2147483648, 5}, {1073741824, -1073741824}, {16777216, 16777216}, {0, 2147483647}} // integers: a fractional delta of this size is outside the property (|x| < 10^6)
var farCurves = [][6]float64{
	{1.0 / 3, 1, 1.0 / 3, 1, 1.0 / 3, -2},
	{0.1, 0.7, 0.2, -0.3, 0.7, -0.4},
	{-1.0 / 3, 1.0 / 7, -1.0 / 3, 1.0 / 7, -1.0 / 3, -2.0 / 7},
	{0, 1.0 / 3, 2.0 / 3, 1.0 / 3, 1.0 / 3, 0}, // vhcurveto
	{1.0 / 3, 0, 1.0 / 3, 2.0 / 3, 0, 1.0 / 3}, // hvcurveto
}

func farBody(c *mc.Ctx, item int) mc.Verdict {
	st := farStarts[item%len(farStarts)]
	cv := farCurves[item/len(farStarts)]
	what := fmt.Sprintf("moveto (%v, %v) followed by 10000 curves with the deltas %v", st[0], st[1], cv)
	if !shimAvailable {
		return mc.Pass("n/a:needs-the-charstring-decoder-shim (a charstring of this length does not fit a PostScript string)", false)
	}
	g := &type1.Glyph{WidthX: 500}
	x, y := st[0], st[1]
	g.MoveTo(x, y)
	want := []float64{x, y}
	for i := 0; i < 10000; i++ {
		x1, y1 := x+cv[0], y+cv[1]
		x2, y2 := x1+cv[2], y1+cv[3]
		x3, y3 := x2+cv[4], y2+cv[5]
		g.CurveTo(x1, y1, x2, y2, x3, y3)
		want = append(want, x1, y1, x2, y2, x3, y3)
		x, y = x3, y3
	}
	code, err := encodeGlyph(g)
	if err != nil {
		return mc.Fail("C20:drift:encode-error", what+": "+err.Error())
	}
	lg, err := shimDecode(code)
	c.Steps(2)
	if err != nil {
		return mc.Fail("C20:drift:library-decoder-rejects", what+": "+err.Error())
	}
	i, worst := 0, 0.0
	for _, cmd := range lg.Cmds {
		for _, a := range cmd.Args {
			if i < len(want) {
				d := math.Abs(a - want[i])
				if d > worst {
					worst = d
				}
				if d > 1.0/214+1e-6 {
					v := mc.Fail("C20:drift:far-from-origin", fmt.Sprintf("%s: coordinate %d (point %d) requested %v, the decoder reconstructs %v: off by %.6g > 1/214 = %.6g", what, i, i/2, want[i], a, d, 1.0/214))
					v.Render = what
					return v
				}
			}
			i++
		}
	}
	if i != len(want) {
		return mc.Fail("C20:drift:command-mismatch", fmt.Sprintf("%s: %d coordinates requested, the decoder yields %d", what, len(want), i))
	}
	v := mc.Pass(errClass(worst), true)
	if c.Render() {
		v.Render = fmt.Sprintf("%s: worst deviation %.3g", what, worst)
	}
	return v
}

func errClass(m float64) string {
	switch {
	case m == 0:
		return "exact"
	case m < 1e-9:
		return "max-err<1e-9"
	case m <= 1.0/428:
		return "max-err<=1/428"
	case m <= 1.0/214:
		return "max-err<=1/214"
	}
	return "max-err<=1/214+float-rounding"
}

// exhaustive: items = first two letters, the remaining letters are choices.
func exhaustiveBody(length int) func(c *mc.Ctx, item int) mc.Verdict {
	return func(c *mc.Ctx, item int) mc.Verdict {
		letters := []int{item % numLetters, item / numLetters}
		for len(letters) < length {
			letters = append(letters, c.Choose(numLetters))
		}
		p := newPath()
		for _, l := range letters {
			p.add(l)
		}
		what := func() string { return "path " + pathName(letters) }
		res, v := checkPath(p, what)
		if v != nil {
			v.Render = what()
			return *v
		}
		c.Steps(len(letters))
		out := mc.Pass(errClass(res.maxErr)+shimNote(), true)
		if c.Render() {
			out.Render = what()
		}
		return out
	}
}

func shimNote() string {
	if shimAvailable {
		return ""
	}
	return ";shim_unavailable"
}

func pathName(letters []int) string {
	var s []string
	for _, l := range letters {
		s = append(s, letterName(l))
	}
	return strings.Join(s, " ")
}

func sameInts(a, b []int) bool {
	if len(a) != len(b) {
		return false
	}
	for i := range a {
		if a[i] != b[i] {
			return false
		}
	}
	return true
}

// quantise an error to 2^-40 for the state key.
func quant(e *big.Rat) int64 {
	f, _ := e.Float64()
	return int64(math.Round(f * (1 << 40)))
}

// stateBody: explicit-state search.  item = first letter; after every
// segment the error state (requested - reconstructed, quantised to 2^-40) is
// registered; a state already expanded with at least as much remaining depth
// is not expanded again.
func stateBody(depth int) func(c *mc.Ctx, item int) mc.Verdict {
	// memo holds the results for the prefixes of the path checked last.  The
	// depth-first explorer re-runs the body once per leaf and replays the
	// common prefix each time; a prefix's result is a pure function of its
	// letters, so it is computed once and looked up afterwards (no verdict
	// depends on the cache: a miss recomputes the same value).
	var memoLetters []int
	var memoRes []*driftResult
	return func(c *mc.Ctx, item int) mc.Verdict {
		letters := []int{item}
		for {
			what := func() string { return "path " + pathName(letters) }
			d := len(letters)
			var res *driftResult
			if d <= len(memoLetters) && sameInts(memoLetters[:d], letters) {
				res = memoRes[d-1]
			} else {
				p := newPath()
				for _, l := range letters {
					p.add(l)
				}
				var v *mc.Verdict
				res, v = checkPath(p, what)
				if v != nil {
					v.Render = what()
					return *v
				}
				c.Step()
				if d-1 <= len(memoLetters) && sameInts(memoLetters[:d-1], letters[:d-1]) {
					memoLetters = append(memoLetters[:d-1], letters[d-1])
					memoRes = append(memoRes[:d-1], res)
				} else {
					memoLetters, memoRes = nil, nil
				}
			}
			key := fmt.Sprintf("%d,%d", quant(res.errX), quant(res.errY))
			if c.Visit([]byte(key), depth-len(letters)) {
				return mc.Pass("pruned-known-error-state"+shimNote(), false)
			}
			if len(letters) >= depth {
				out := mc.Pass("depth-bound-reached:"+errClass(res.maxErr)+shimNote(), true)
				if c.Render() {
					out.Render = what()
				}
				return out
			}
			letters = append(letters, c.Choose(numLetters))
		}
	}
}

// longBody: n equal segments.  item = letter*4 + format.  The shim path
// (encoder -> exact reconstruction, library decoder) runs on the full path for
// format index 0; the public path Write -> Read / independent decoder runs in
// every format, on the full path if its charstring fits a PostScript string
// (65535 bytes, an architectural limit of the file format), otherwise on the
// longest prefix that does.
func longBody(n int) func(c *mc.Ctx, item int) mc.Verdict {
	build := func(letter, m int) *pathBuilder {
		p := newPath()
		if letter/12 != 0 {
			p.g.MoveTo(0, 0)
			p.want = append(p.want, 0, 0)
		}
		for i := 0; i < m; i++ {
			p.add(letter)
		}
		return p
	}
	return func(c *mc.Ctx, item int) mc.Verdict {
		letter, fi := item/len(formats), item%len(formats)
		what := func() string { return fmt.Sprintf("%d x %s, format %s", n, letterName(letter), formatNames[fi]) }
		full := n
		if !shimAvailable {
			// without the shim the charstring can only be obtained from a
			// written font, so the 64 KB limit applies to the exact check too
			c100, err := encodeGlyph(build(letter, 100).g)
			if err != nil {
				return mc.Fail("C20:drift:encode-error", what()+": "+err.Error())
			}
			full = min(n, 100*64000/len(c100))
		}
		p := build(letter, full)
		code, err := encodeGlyph(p.g)
		if err != nil {
			return mc.Fail("C20:drift:encode-error", what()+": "+err.Error())
		}
		class := "exact-path-only"
		maxErr := 0.0
		if fi == 0 {
			res, v := checkPath(p, what)
			if v != nil {
				v.Render = what()
				return *v
			}
			c.Steps(full)
			maxErr = res.maxErr
			class = errClass(maxErr)
		}
		m := full
		if len(code) > 65000 {
			m = full * 64000 / len(code)
			p = build(letter, m)
		}
		// public path: Write -> Read, every coordinate within the bound
		f := fontWith(cloneGlyph(p.g))
		var buf bytes.Buffer
		if err := f.Write(&buf, &type1.WriterOptions{Format: formats[fi]}); err != nil {
			return mc.Fail("C20:public:write-error", what()+": "+err.Error())
		}
		got, err := type1.Read(bytes.NewReader(buf.Bytes()))
		if err != nil {
			return mc.Fail("C20:public:read-error", fmt.Sprintf("%s (%d segments written): %v", what(), m, err))
		}
		c.Steps(2)
		i := 0
		for _, cmd := range got.Glyphs["sweep"].Cmds {
			for _, a := range cmd.Args {
				if i < len(p.want) && math.Abs(a-p.want[i]) > 1.0/214+1e-6 {
					return mc.Fail("C20:drift:read-back-position-off", fmt.Sprintf("%s: coordinate %d requested %v, Read returns %v (off by %.6g)", what(), i, p.want[i], a, math.Abs(a-p.want[i])))
				}
				i++
			}
		}
		if i != len(p.want) {
			return mc.Fail("C20:drift:command-mismatch", fmt.Sprintf("%s: %d coordinates requested, Read returns %d", what(), len(p.want), i))
		}
		dec, derr := t1dec.Decode(buf.Bytes(), false)
		if derr != nil {
			return mc.Fail("C20:public:independent-decoder:"+derr.Class, what()+": "+derr.Msg)
		}
		if s := t1fonts.CompareOutlineDecoded(p.g.Cmds, dec.Glyphs["sweep"].Cmds, new(big.Rat).Add(numref.Bound, driftSlack(len(p.g.Cmds)))); s != "" {
			return mc.Fail("C20:drift:position-off-by-more-than-1/214", what()+" (written file, independent decoder): "+clip(s, 600))
		}
		pub := "public-path-full-length"
		if m < n {
			pub = "public-path-shortened-to-64KB-charstring"
		}
		out := mc.Pass(class+"/"+pub+shimNote(), true)
		if c.Render() {
			out.Render = what() + fmt.Sprintf(" (charstring %d bytes, public path %d segments, max error %g)", len(code), m, maxErr)
		}
		return out
	}
}

// ---------------------------------------------------------------------------

// ---------------------------------------------------------------------------
// curve forms: the three ways a curve is written (hvcurveto, vhcurveto,
// rrcurveto) with every combination of adversarial fractional parts on every
// free delta.  The fractional parts are chosen so that the best quotient p/q
// (q <= 107) is off by almost the full 1/214 in a known direction: errors of
// the same sign add up unless the encoder measures each delta from the
// position the decoder will reconstruct.

var curveFracs = []*big.Rat{
	numref.R(0, 1),
	numref.R(1, 250),    // 0.0040 -> 0, error -0.0040
	numref.R(23, 5000),  // 0.0046 -> 0, error -0.0046
	numref.R(-1, 250),   // error +0.0040
	numref.R(-23, 5000), // error +0.0046
}

var curveFormNames = []string{"rrcurveto", "hvcurveto", "vhcurveto"}

// curveDeltas returns the three delta pairs of a curve of the given form whose
// free deltas carry the fractional parts fr[0..].
func curveDeltas(form int, fr []*big.Rat) [3][2]*big.Rat {
	add := func(base int64, f *big.Rat) *big.Rat { return new(big.Rat).Add(big.NewRat(base, 1), f) }
	zero := func() *big.Rat { return new(big.Rat) }
	switch form {
	case 0:
		return [3][2]*big.Rat{{add(10, fr[0]), add(20, fr[1])}, {add(20, fr[2]), add(20, fr[3])}, {add(20, fr[4]), add(10, fr[5])}}
	case 1: // horizontal start, vertical end
		return [3][2]*big.Rat{{add(10, fr[0]), zero()}, {add(20, fr[1]), add(20, fr[2])}, {zero(), add(10, fr[3])}}
	default: // vertical start, horizontal end
		return [3][2]*big.Rat{{zero(), add(10, fr[0])}, {add(20, fr[1]), add(20, fr[2])}, {add(10, fr[3]), zero()}}
	}
}

func curveFormsFamily(budget time.Duration) mc.Family {
	n := len(curveFracs)
	free := []int{6, 4, 4}
	// item = (form, fractional parts of the first two free deltas)
	return mc.Family{
		Name: "curve-forms-x-fraction-grid", Items: 3 * n * n, Budget: budget,
		Rule: fmt.Sprintf("item = (curve form in %v, fractional parts of the first two free deltas); choices = the fractional parts of the remaining free deltas (6 free deltas for rrcurveto, 4 for hv/vhcurveto), of the start point (3) and of a following line (%d), each from %d adversarial values {0, +-0.0040, +-0.0046} whose best quotient p/q is off by almost 1/214 in a known direction; path = moveto, curve, lineto, curve again, closepath; encoder -> exact reconstruction and library decoder: every absolute coordinate (control points included) within 1/214 of the requested one; non-trivial = at least one non-zero fractional part", curveFormNames, n, n),
		Body: func(c *mc.Ctx, item int) mc.Verdict {
			form := item / (n * n)
			fr := []*big.Rat{curveFracs[item%n], curveFracs[(item/n)%n]}
			nz := item%(n*n) != 0
			for len(fr) < free[form] {
				k := c.Choose(n)
				nz = nz || k != 0
				fr = append(fr, curveFracs[k])
			}
			start := curveFracs[c.Choose(3)]
			line := curveFracs[c.Choose(n)]
			p := newPath()
			x, y := p.advance(new(big.Rat).Add(big.NewRat(100, 1), start), new(big.Rat).Add(big.NewRat(50, 1), start))
			p.g.MoveTo(x, y)
			curve := func() {
				d := curveDeltas(form, fr)
				x1, y1 := p.advance(d[0][0], d[0][1])
				x2, y2 := p.advance(d[1][0], d[1][1])
				x3, y3 := p.advance(d[2][0], d[2][1])
				p.g.CurveTo(x1, y1, x2, y2, x3, y3)
			}
			curve()
			lx, ly := p.advance(new(big.Rat).Add(big.NewRat(7, 1), line), new(big.Rat).Add(big.NewRat(-3, 1), line))
			p.g.LineTo(lx, ly)
			curve()
			p.g.ClosePath()
			what := func() string {
				var parts []string
				for _, f := range fr {
					parts = append(parts, f.RatString())
				}
				return fmt.Sprintf("%s with fractional parts [%s], start +%s, line +%s: %s", curveFormNames[form], strings.Join(parts, " "), start.RatString(), line.RatString(), t1fontsDump(p.g))
			}
			res, v := checkPath(p, what)
			c.Step()
			if v != nil {
				v.Key += ":" + curveFormNames[form]
				v.Render = what()
				return *v
			}
			out := mc.Pass(curveFormNames[form]+"/"+errClass(res.maxErr)+shimNote(), nz)
			if c.Render() {
				out.Render = what() + fmt.Sprintf(" max error %g", res.maxErr)
			}
			return out
		},
	}
}

// nearAxisFamily: segments that are almost, but not quite, horizontal or
// vertical, and curves whose start and end tangents are (almost) parallel to
// the SAME axis (S-shapes, which no short curve operator can express) or to
// different ones.  The small component d runs over values below, around and
// above every tolerance an encoder might use (1e-6, 1/214, 0.005, 1/107, 0.01).
var nearAxisDeltas = func() []*big.Rat {
	out := []*big.Rat{new(big.Rat)}
	for _, s := range []string{"1/10000000", "1/500000", "1/1000", "1/250", "23/5000", "6/1250", "51/10000", "3/500", "3/400", "9/1000", "47/5000", "1/100", "3/100"} {
		r, _ := new(big.Rat).SetString(s)
		out = append(out, r, new(big.Rat).Neg(r))
	}
	return out
}()

var tangentNames = []string{"h", "v"}

func nearAxisFamily(budget time.Duration) mc.Family {
	nd := len(nearAxisDeltas)
	return mc.Family{
		Name: "near-axis-segments-and-tangents", Items: 4 * nd, Budget: budget,
		Rule: fmt.Sprintf("item = (start tangent of the curve nearly horizontal|vertical, end tangent nearly horizontal|vertical, small component da of the start tangent); choices = small component db of the end tangent, fractional part of the second control point from {0, +-0.0046, +-0.004}; da, db from %d values {0, +-1e-7, +-2e-6, +-0.001, +-0.004, +-0.0046, +-0.0048, +-0.0051, +-0.006, +-0.0075, +-0.009, +-0.0094, +-0.01, +-0.03}; path = moveto, nearly horizontal line (dy = da), the curve, nearly vertical line (dx = db), a second contour reached by a nearly vertical moveto (dx = da), nearly horizontal line (dy = db), closepath; encoder -> exact reconstruction and library decoder: every absolute coordinate within 1/214 of the requested one; non-trivial = da or db non-zero", nd),
		Body: func(c *mc.Ctx, item int) mc.Verdict {
			da := nearAxisDeltas[item%nd]
			st, en := (item/nd)%2, item/nd/2
			db := nearAxisDeltas[c.Choose(nd)]
			R := func(n int64) *big.Rat { return big.NewRat(n, 1) }
			p := newPath()
			x, y := p.advance(R(100), R(50))
			p.g.MoveTo(x, y)
			x, y = p.advance(R(20), da)
			p.g.LineTo(x, y)
			tangent := func(kind int, small *big.Rat, long int64) (*big.Rat, *big.Rat) {
				if kind == 0 { // nearly horizontal: dy small
					return R(long), small
				}
				return small, R(long)
			}
			d1x, d1y := tangent(st, da, 10)
			d3x, d3y := tangent(en, db, 12)
			x1, y1 := p.advance(d1x, d1y)
			// the second control point may need rounding itself: the error of the end
			// point is measured from where the decoder puts it, not from the request
			f2 := []*big.Rat{R(0), big.NewRat(23, 5000), big.NewRat(-23, 5000), big.NewRat(1, 250), big.NewRat(-1, 250)}[c.Choose(5)]
			x2, y2 := p.advance(new(big.Rat).Add(R(20), f2), new(big.Rat).Add(R(25), f2))
			x3, y3 := p.advance(d3x, d3y)
			p.g.CurveTo(x1, y1, x2, y2, x3, y3)
			x, y = p.advance(db, R(-15))
			p.g.LineTo(x, y)
			p.g.ClosePath()
			x, y = p.advance(da, R(30))
			p.g.MoveTo(x, y)
			x, y = p.advance(R(-9), db)
			p.g.LineTo(x, y)
			x, y = p.advance(R(5), R(5))
			p.g.LineTo(x, y)
			p.g.ClosePath()
			what := func() string {
				return fmt.Sprintf("curve with start tangent nearly %s (small component %s) and end tangent nearly %s (small component %s): %s", tangentNames[st], da.RatString(), tangentNames[en], db.RatString(), t1fontsDump(p.g))
			}
			res, v := checkPath(p, what)
			c.Step()
			if v != nil {
				v.Key += ":near-axis:" + tangentNames[st] + tangentNames[en]
				v.Render = what()
				return *v
			}
			out := mc.Pass("near-axis/"+tangentNames[st]+tangentNames[en]+"/"+errClass(res.maxErr)+shimNote(), da.Sign() != 0 || db.Sign() != 0)
			if c.Render() {
				out.Render = what() + fmt.Sprintf(" max error %g", res.maxErr)
			}
			return out
		},
	}
}

// creepFamily: long runs of (almost) horizontal or vertical segments whose
// perpendicular coordinate creeps by less than any per-segment tolerance at
// every step: what counts is the distance from the position the decoder
// reconstructs, which grows with the run.
func creepFamily(budget time.Duration) mc.Family {
	lengths := []int{200, 2000, 10000}
	var creeps, starts []*big.Rat
	for _, sx := range []string{"9/10000000", "1/2000000", "1/10000000", "3/1000000", "1/100000", "1/1000000"} {
		r, _ := new(big.Rat).SetString(sx)
		creeps = append(creeps, r, new(big.Rat).Neg(r))
	}
	for _, sx := range []string{"0", "23/5000", "-23/5000", "1/250", "1/2"} {
		r, _ := new(big.Rat).SetString(sx)
		starts = append(starts, r)
	}
	kinds := []string{"horizontal lines", "vertical lines", "horizontal moves", "curves with horizontal tangents", "horizontal lines whose own step is an integer plus the creep"}
	n := len(lengths) * len(creeps) * len(starts) * len(kinds)
	return mc.Family{
		Name: "perpendicular-creep", Items: n, Budget: budget,
		Rule: fmt.Sprintf("item = (path of %v segments) x (creep per segment in +-{9e-7, 5e-7, 1e-7, 3e-6, 1e-5, 1e-6}) x (fractional part of the start coordinate in {0, +-0.0046, 0.004, 0.5}) x %q: every segment advances by 1 along its axis and by the creep across it (last kind: by 1 + creep along it); encoder -> exact reconstruction and library decoder: every absolute coordinate within 1/214; non-trivial = all", lengths, kinds),
		Body: func(c *mc.Ctx, item int) mc.Verdict {
			ln := lengths[item%len(lengths)]
			cr := creeps[(item/len(lengths))%len(creeps)]
			st := starts[(item/len(lengths)/len(creeps))%len(starts)]
			kind := item / len(lengths) / len(creeps) / len(starts)
			one, zero := big.NewRat(1, 1), new(big.Rat)
			p := newPath()
			var x, y float64
			if kind == 1 {
				x, y = p.advance(st, zero)
			} else {
				x, y = p.advance(zero, st)
			}
			p.g.MoveTo(x, y)
			for i := 0; i < ln; i++ {
				switch kind {
				case 0:
					x, y = p.advance(one, cr)
					p.g.LineTo(x, y)
				case 1:
					x, y = p.advance(cr, one)
					p.g.LineTo(x, y)
				case 2:
					if i%50 == 49 {
						p.g.ClosePath()
						x, y = p.advance(one, cr)
						p.g.MoveTo(x, y)
					} else {
						x, y = p.advance(one, cr)
						p.g.LineTo(x, y)
					}
				case 4:
					x, y = p.advance(new(big.Rat).Add(one, cr), zero)
					p.g.LineTo(x, y)
				default:
					x1, y1 := p.advance(one, zero)
					x2, y2 := p.advance(one, cr)
					x3, y3 := p.advance(one, zero)
					p.g.CurveTo(x1, y1, x2, y2, x3, y3)
				}
			}
			p.g.ClosePath()
			what := func() string {
				return fmt.Sprintf("%d %s, creep %s per segment, start offset %s", ln, kinds[kind], cr.RatString(), st.RatString())
			}
			res, v := checkPath(p, what)
			c.Step()
			if v != nil {
				v.Key += ":creep"
				v.Render = what()
				return *v
			}
			out := mc.Pass("creep/"+errClass(res.maxErr)+shimNote(), true)
			if c.Render() {
				out.Render = what() + fmt.Sprintf(" max error %g", res.maxErr)
			}
			return out
		},
	}
}

// contoursFamily: many contours, each returning (exactly, or to within less than
// any tolerance) to its starting point before the explicit closepath; closepath
// does not move the current point of a Type 1 charstring, so the next moveto is
// relative to where the last segment ended.  With a horizontal advance (hsbw)
// and with a vertical one (sbw), outlines away from x = 0.
func contoursFamily(budget time.Duration) mc.Family {
	counts := []int{2, 3, 10, 100, 600}
	var gaps, fracs []*big.Rat
	for _, sx := range []string{"0", "9/1000", "-9/1000", "1/250", "1/100000"} {
		r, _ := new(big.Rat).SetString(sx)
		gaps = append(gaps, r)
	}
	for _, sx := range []string{"0", "23/5000", "-23/5000", "1/3", "1/250"} {
		r, _ := new(big.Rat).SetString(sx)
		fracs = append(fracs, r)
	}
	n := len(counts) * len(gaps) * len(fracs) * 2
	return mc.Family{
		Name: "closed-contours", Items: n, Budget: budget,
		Rule: fmt.Sprintf("item = (number of contours in %v) x (distance between the last point of a contour and its start in {0, +-0.009, 0.004, 1e-5}) x (fractional part of every delta in {0, +-0.0046, 1/3, 0.004}) x {horizontal advance (hsbw), vertical advance (sbw)}; every contour is moveto, three lines, a line back to (almost) the start, closepath, and starts 50 units right of x = 0; encoder -> exact reconstruction and library decoder: every absolute coordinate within 1/214; non-trivial = all", counts),
		Body: func(c *mc.Ctx, item int) mc.Verdict {
			cnt := counts[item%len(counts)]
			gap := gaps[(item/len(counts))%len(gaps)]
			fr := fracs[(item/len(counts)/len(gaps))%len(fracs)]
			vertical := item/len(counts)/len(gaps)/len(fracs) == 1
			R := func(v int64) *big.Rat { return new(big.Rat).Add(big.NewRat(v, 1), fr) }
			neg := func(r *big.Rat) *big.Rat { return new(big.Rat).Neg(r) }
			p := newPath()
			if vertical {
				p.g.WidthX, p.g.WidthY = 0, -1000
			}
			x, y := p.advance(R(50), R(20))
			p.g.MoveTo(x, y)
			for i := 0; i < cnt; i++ {
				dx1, dy1, dx2, dy2, dx3, dy3 := R(30), R(0), R(0), R(40), R(-20), R(5)
				x, y = p.advance(dx1, dy1)
				p.g.LineTo(x, y)
				x, y = p.advance(dx2, dy2)
				p.g.LineTo(x, y)
				x, y = p.advance(dx3, dy3)
				p.g.LineTo(x, y)
				// back to the start, up to the gap
				bx := new(big.Rat).Add(neg(new(big.Rat).Add(new(big.Rat).Add(dx1, dx2), dx3)), gap)
				by := neg(new(big.Rat).Add(new(big.Rat).Add(dy1, dy2), dy3))
				x, y = p.advance(bx, by)
				p.g.LineTo(x, y)
				p.g.ClosePath()
				if i < cnt-1 {
					x, y = p.advance(R(3), R(-2))
					p.g.MoveTo(x, y)
				}
			}
			what := func() string {
				return fmt.Sprintf("%d closed contours, gap %s, fractional part %s, vertical advance %v", cnt, gap.RatString(), fr.RatString(), vertical)
			}
			res, v := checkPath(p, what)
			c.Step()
			if v != nil {
				v.Key += ":contours"
				v.Render = what()
				return *v
			}
			out := mc.Pass("contours/"+errClass(res.maxErr)+shimNote(), true)
			if c.Render() {
				out.Render = what() + fmt.Sprintf(" max error %g", res.maxErr)
			}
			return out
		},
	}
}

// afterFailureFamily: the library's charstring decoder gives the same result for
// a charstring whatever it decoded (or failed to decode) before: every bad
// charstring (operands pending when it fails) followed by every good one.
// editFamily: the numbers written are those of the glyph as it is when Write is
// called.  A glyph is written, then edited in place without changing anything
// a summary of it could notice (number of commands and stems, advance width,
// end points of the segments: only control points and stem values move), and
// written again.
func editFamily(budget time.Duration) mc.Family {
	edits := []string{"control points of the curves", "second edge of the first stem", "both", "first control point by 1/3"}
	return mc.Family{
		Name: "rewrite-after-edit", Items: len(edits) * len(formats), Budget: budget,
		Rule: fmt.Sprintf("a glyph with two curves, two lines and stems is written, edited in place (%v; counts, width and segment end points unchanged), and written again in each of the %d formats (the first write in another format, too): Write -> Read and -> independent decoder give the edited numbers; non-trivial = all", edits, len(formats)),
		Body: func(c *mc.Ctx, item int) mc.Verdict {
			ei, fi := item/len(formats), item%len(formats)
			g := &type1.Glyph{WidthX: 600}
			g.MoveTo(100, 100)
			g.CurveTo(100, 300, 250, 400, 400, 400)
			g.LineTo(400, 100)
			g.CurveTo(300, 50, 200, 50, 100, 100)
			g.ClosePath()
			g.HStem = []funit.Int16{0, 20, 380, 400}
			g.VStem = []funit.Int16{100, 130}
			f := fontWith(g)
			for _, first := range []int{fi, (fi + 1) % len(formats)} {
				var buf bytes.Buffer
				if err := f.Write(&buf, &type1.WriterOptions{Format: formats[first]}); err != nil {
					return mc.Fail("C20:public:write-error", "first write: "+err.Error())
				}
			}
			c.Step()
			gg := f.Glyphs["sweep"]
			if ei == 0 || ei == 2 {
				for i := range gg.Cmds {
					if gg.Cmds[i].Op == type1.OpCurveTo {
						gg.Cmds[i].Args[1] += 50
						gg.Cmds[i].Args[2] -= 20
					}
				}
			}
			if ei == 1 || ei == 2 {
				gg.HStem[1] = 25
				gg.VStem[1] = 140
			}
			if ei == 3 {
				gg.Cmds[1].Args[0] += 1.0 / 3
			}
			what := "glyph written, edited in place (" + edits[ei] + "), written again"
			if vd := publicRoundTrip(c, f, fi, what); vd != nil {
				vd.Key = strings.Replace(vd.Key, "C20:public:", "C20:rewrite-after-edit:", 1)
				return *vd
			}
			return mc.Pass("edited-numbers-written/"+formatNames[fi], true)
		},
	}
}

// stemsFamily: every hint value is written, however many there are.
func stemsFamily(budget time.Duration) mc.Family {
	counts := []int{1, 12, 47, 48, 49, 60, 96, 97, 100, 128, 200, 500}
	return mc.Family{
		Name: "many-stems", Items: 2 * len(counts) * len(formats), Budget: budget,
		Rule: fmt.Sprintf("a glyph with n in %v horizontal and n vertical stem pairs x {distinct edges; every third pair written twice in a row and the first pair once more at the end} x format: Write -> Read and -> independent decoder return all of them, repetitions included; non-trivial = all", counts),
		Body: func(c *mc.Ctx, item int) mc.Verdict {
			repeat := item >= len(counts)*len(formats)
			item %= len(counts) * len(formats)
			n, fi := counts[item/len(formats)], item%len(formats)
			g := &type1.Glyph{WidthX: 600}
			g.MoveTo(0, 0)
			g.LineTo(100, 0)
			g.LineTo(100, 100)
			g.ClosePath()
			for i := 0; i < n; i++ {
				g.HStem = append(g.HStem, funit.Int16(-12000+40*i), funit.Int16(-12000+40*i+15))
				g.VStem = append(g.VStem, funit.Int16(9000-30*i), funit.Int16(9000-30*i+7))
				if repeat && i%3 == 0 {
					g.HStem = append(g.HStem, funit.Int16(-12000+40*i), funit.Int16(-12000+40*i+15))
					g.VStem = append(g.VStem, funit.Int16(9000-30*i), funit.Int16(9000-30*i+7))
				}
			}
			if repeat {
				g.HStem = append(g.HStem, g.HStem[0], g.HStem[1])
				g.VStem = append(g.VStem, g.VStem[0], g.VStem[1])
			}
			what := fmt.Sprintf("glyph with %d horizontal and %d vertical stems (repetitions: %v)", n, n, repeat)
			if vd := publicRoundTrip(c, fontWith(g), fi, what); vd != nil {
				return *vd
			}
			return mc.Pass("all-stems/"+formatNames[fi], true)
		},
	}
}

func afterFailureFamily(budget time.Duration) mc.Family {
	num := func(v int32) []byte {
		return []byte{255, byte(v >> 24), byte(v >> 16), byte(v >> 8), byte(v)}
	}
	cat := func(parts ...[]byte) []byte {
		var b []byte
		for _, p := range parts {
			b = append(b, p...)
		}
		return b
	}
	small := func(v int) []byte { return []byte{byte(v + 139)} }
	hsbw := cat(small(10), small(100), []byte{13})
	bad := [][]byte{
		cat(hsbw, small(7), num(100000)[:3]),                                    // cut inside a five-byte number
		cat(hsbw, small(1), small(2), small(3), []byte{12, 99}),                 // unknown escape with operands pending
		cat(hsbw, small(1), small(2), small(3), small(4), small(5), []byte{10}), // callsubr into nowhere
		cat(small(1), small(2), small(3), small(4), small(5)),                   // ends without endchar, operands pending
		cat(hsbw, bytes.Repeat(small(9), 30)),                                   // operand stack overflow
		cat(hsbw, small(5), []byte{12, 12}),                                     // div with one operand
		cat(small(17), small(27)),                                               // two numbers, nothing else
		{255, 1},                                                                // cut number at the very start
	}
	good := [][]byte{
		cat(hsbw, small(10), small(20), []byte{21}, small(30), []byte{6}, small(40), []byte{7}, []byte{9, 14}),
		cat(small(0), small(50), []byte{13}, []byte{14}),
		cat(num(17), num(600), []byte{13}, num(100000), num(-100000), []byte{21}, small(1), small(2), []byte{5}, []byte{9, 14}),
	}
	return mc.Family{
		Name: "decode-after-failed-decode", Items: len(bad) * len(good), Budget: budget,
		Rule: fmt.Sprintf("library charstring decoder (export shim): %d charstrings that fail with operands pending (cut inside a five-byte number, unknown escape, callsubr into nowhere, missing endchar, operand stack overflow, div with one operand) x %d good charstrings: the good one decoded after the bad one gives exactly what it gives when decoded first; non-trivial = shim available", len(bad), len(good)),
		Body: func(c *mc.Ctx, item int) mc.Verdict {
			if !shimAvailable {
				return mc.Pass("shim_unavailable", false)
			}
			b, g := bad[item%len(bad)], good[item/len(bad)]
			ref, err := shimDecode(g)
			if err != nil {
				return mc.Fail("C20:HARNESS:good-charstring-rejected", fmt.Sprintf("%x: %v", g, err))
			}
			want := fmt.Sprintf("%v %v %v", ref.WidthX, ref.WidthY, t1fontsDump(ref))
			if _, err := shimDecode(b); err == nil {
				// accepted after all: then it is not a failure case, nothing to check
				return mc.Pass("bad-charstring-accepted", false)
			}
			got, err := shimDecode(g)
			c.Steps(3)
			if err != nil {
				return mc.Fail("C20:decode-after-failure:rejected", fmt.Sprintf("charstring %x is rejected (%v) after %x had failed to decode", g, err, b))
			}
			if s := fmt.Sprintf("%v %v %v", got.WidthX, got.WidthY, t1fontsDump(got)); s != want {
				return mc.Fail("C20:decode-after-failure:differs", fmt.Sprintf("charstring %x decodes to %s after %x had failed to decode, and to %s before", g, s, b, want))
			}
			return mc.Pass("same-after-failure"+shimNote(), true)
		},
	}
}

func t1fontsDump(g *type1.Glyph) string {
	var sb strings.Builder
	for _, cmd := range g.Cmds {
		fmt.Fprintf(&sb, "%v%v ", cmd.Op, cmd.Args)
	}
	return sb.String()
}

func main() {
	mc.Main(mc.Program{
		Property: "C20",
		Assumptions: []string{
			"fractional values |x| < 10^6; deltas, widths and hint values inside the 32-bit (hints: 16-bit) range",
			"float64 representation allowance of 4 ulp(x) on the 1/214 bound (the encoder works in float64; see the comment at the top of cmd/c20/main.go)",
			"drift state space: the error state is quantised to 2^-40 for duplicate detection",
		},
		TrustedBase: []string{"verif/model/numref (Type 1 book 6.2 number encodings)", "verif/model/t1dec charstring interpreter", "math/big"},
		Explanation: "Integer families count one transition per encoded and per decoded value (c.Steps); a family item that sweeps 2^20 integers is one execution.",
		Families: func(tier string) []mc.Family {
			budget := 50 * time.Second
			if tier == "thorough" {
				budget = 10 * time.Minute
			}
			qi := quickInts()
			sp := specialInts()
			const chunk = 1000
			nChunks := (len(qi) + chunk - 1) / chunk
			var fams []mc.Family

			// (a) shim
			if tier == "quick" {
				fams = append(fams, mc.Family{
					Name: "int-formats", Items: nChunks, Budget: budget,
					Rule: fmt.Sprintf("item = %d consecutive members of the quick integer set (%d values: -70000..70000, format boundaries +-3, +-2^e +-3 for e = 0..31, int32 limits): appendInt -> numref decoder (format by range, value) and -> library decoder (64 values per charstring as rmoveto pairs); non-trivial = at least one value checked", chunk, len(qi)),
					Body: func(c *mc.Ctx, item int) mc.Verdict {
						lo := item * chunk
						hi := min(lo+chunk, len(qi))
						return checkInts(c, hi-lo, func(i int) int32 { return qi[lo+i] }, "quick set")
					},
				})
			} else {
				fams = append(fams, mc.Family{
					Name: "int-formats-all-2^32", Items: 4096, Budget: budget,
					Rule: "item = 2^20 consecutive int32 values (4096 items cover all 2^32): appendInt -> numref decoder (format by range, value) and -> library decoder (64 values per charstring as rmoveto pairs); non-trivial = all",
					Body: func(c *mc.Ctx, item int) mc.Verdict {
						base := int64(math.MinInt32) + int64(item)<<20
						return checkInts(c, 1<<20, func(i int) int32 { return int32(base + int64(i)) }, fmt.Sprintf("block %d", item))
					},
				})
			}

			// (a) public path
			const pchunk = 500
			nP := (len(qi) + pchunk - 1) / pchunk
			fams = append(fams, mc.Family{
				Name: "int-public-path-deltas", Items: nP, Budget: budget,
				Rule: fmt.Sprintf("item = %d consecutive members of the quick integer set as coordinate deltas of one glyph (per value: hmoveto v, vlineto v, rlineto v v, rrcurveto v x6, closepath); choice = file format; Write -> Read exact, -> independent decoder exact and every number in its proper format; non-trivial = all", pchunk),
				Body: func(c *mc.Ctx, item int) mc.Verdict {
					lo := item * pchunk
					hi := min(lo+pchunk, len(qi))
					fi := c.Choose(len(formats))
					vals := qi[lo:hi]
					what := fmt.Sprintf("deltas %d..%d", qi[lo], qi[hi-1])
					if v := publicRoundTrip(c, fontWith(sweepGlyph(vals)), fi, what); v != nil {
						return *v
					}
					out := mc.Pass("ok/"+formatNames[fi], len(vals) > 0)
					if c.Render() {
						out.Render = what + " format " + formatNames[fi]
					}
					return out
				},
			})
			fams = append(fams, mc.Family{
				Name: "int-public-path-widths-hints", Items: len(sp), Budget: budget,
				Rule: fmt.Sprintf("item = one of the %d special integers v (boundaries, powers of two +-3) as advance width (hsbw), as vertical advance with width -v-1 (sbw), as single large delta (moveto/lineto/curveto), and - inside 16 bits - as stem hint edges (for |v| > 16000 as stems from -|v| to |v|, whose width needs the five-byte form); choice = file format; Write -> Read exact, -> independent decoder exact with proper formats; non-trivial = all", len(sp)),
				Body: func(c *mc.Ctx, item int) mc.Verdict {
					v := sp[item]
					fi := c.Choose(len(formats))
					variant := c.Choose(2)
					g := &type1.Glyph{WidthX: float64(v)}
					if variant == 1 {
						g.WidthX = float64(-int64(v) - 1)
						g.WidthY = float64(v)
						if v == 0 {
							g.WidthY = 5 // sbw needs a non-zero vertical advance
						}
					}
					// every delta of this contour is v or 0
					fv := float64(v)
					g.MoveTo(fv, 0)
					g.LineTo(fv, fv)
					g.LineTo(2*fv, 2*fv)
					g.CurveTo(3*fv, 2*fv, 3*fv, 3*fv, 4*fv, 3*fv)
					g.ClosePath()
					if v >= -16000 && v <= 16000 {
						g.HStem = []funit.Int16{funit.Int16(v), funit.Int16(2 * v)}
						g.VStem = []funit.Int16{funit.Int16(-v), funit.Int16(v)}
					} else if v >= -32767 && v <= 32767 {
						// stems whose two edges are up to 65534 apart: the width needs the five-byte form
						a := v
						if a < 0 {
							a = -a
						}
						g.HStem = []funit.Int16{funit.Int16(-a), funit.Int16(a)}
						g.VStem = []funit.Int16{funit.Int16(-a - 1), funit.Int16(a - 1), funit.Int16(-a), funit.Int16(0)}
					}
					what := fmt.Sprintf("value %d (variant %d)", v, variant)
					if vd := publicRoundTrip(c, fontWith(g), fi, what); vd != nil {
						return *vd
					}
					out := mc.Pass(fmt.Sprintf("ok/%s/%s", []string{"hsbw", "sbw"}[variant], formatNames[fi]), true)
					if c.Render() {
						out.Render = what + " format " + formatNames[fi]
					}
					return out
				},
			})

			// (b) fractions
			qMax := 400
			if !shimAvailable {
				qMax = 60
			}
			fams = append(fams, mc.Family{
				Name: "fractions", Items: qMax * len(fracKs), Budget: budget,
				Rule: fmt.Sprintf("item = (q in 1..%d, k in %v): k = 0: every x = p/q with |x| < 4; k > 0: every x = +-(k + p/q), 0 < p < q; appendNumber(x) -> numref exact value: an integer or `p q div`, |value - x| <= 1/214 (+4 ulp(x) float64 allowance), every number in its proper format; library decoder agrees with numref; non-trivial = at least one value", qMax, fracKs),
				Body: fractionBody(qMax),
			})

			// (c) drift
			exLen := 3
			stDepth := 4
			period := 1000
			if tier == "thorough" {
				exLen = 4
				stDepth = 6
				period = 4000
			}
			fams = append(fams, mc.Family{
				Name: "drift-exhaustive", Items: numLetters * numLetters, Budget: budget,
				Rule: fmt.Sprintf("all paths of exactly %d segments (every prefix is checked on the way) over 12 deltas {(1/3,0) (0,1/3) (1/7,-1/7) (1/200,0) (0,1/200) (1/200,1/200) (1,0) (0,-1) (-2/3,1/7) (3,1/200) (-1/7,1) (-1/200,-1/3)} x {move, line, curve}: item = first two segments, choices = the rest; encodeCharString -> exact reconstruction: every absolute coordinate within 1/214 of the requested float64; library decoder likewise; non-trivial = all", exLen),
				Body: exhaustiveBody(exLen),
			})
			fams = append(fams, mc.Family{
				Name: "drift-error-states", Items: numLetters, Budget: budget,
				Rule: fmt.Sprintf("explicit-state search: item = first segment, then free choice of the next segment up to depth %d; state = (requested - reconstructed) position after the last segment, exact rationals quantised to 2^-40; a state already expanded with at least as much remaining depth is pruned (c.Visit); outcomes tell whether the depth bound was reached (no closure) or every branch ended in a known state; non-trivial = executions that reached the depth bound", stDepth),
				Body: stateBody(stDepth),
			})
			fams = append(fams, mc.Family{
				Name: "drift-periodic-paths", Items: numLetters * numLetters, Budget: budget,
				Rule: fmt.Sprintf("item = ordered pair of (delta, kind) letters (a, b): the path a b a b ... of %d segments (mixing moves, lines and curves); encoder -> exact reconstruction and library decoder: every absolute coordinate within 1/214 of the requested one; non-trivial = all", period),
				Body: func(c *mc.Ctx, item int) mc.Verdict {
					a, b := item%numLetters, item/numLetters
					p := newPath()
					for i := 0; i < period; i += 2 {
						p.add(a)
						p.add(b)
					}
					what := func() string { return fmt.Sprintf("(%s %s) x %d", letterName(a), letterName(b), period/2) }
					res, v := checkPath(p, what)
					if v != nil {
						v.Render = what()
						return *v
					}
					c.Steps(period)
					out := mc.Pass(errClass(res.maxErr)+shimNote(), true)
					if c.Render() {
						out.Render = what() + fmt.Sprintf(" max error %g", res.maxErr)
					}
					return out
				},
			})
			fams = append(fams, curveFormsFamily(budget))
			fams = append(fams, nearAxisFamily(budget))
			fams = append(fams, creepFamily(budget))
			fams = append(fams, contoursFamily(budget))
			fams = append(fams, afterFailureFamily(budget))
			fams = append(fams, editFamily(budget))
			fams = append(fams, stemsFamily(budget))
			fams = append(fams, mc.Family{
				Name: "drift-far-from-origin", Items: len(farStarts) * len(farCurves), Budget: budget, Body: farBody,
				Rule: fmt.Sprintf("item = start point %v x curve deltas %v: a moveto to the start point followed by 10,000 such curves (all three curve operators), encoded by the library and decoded by the library's decoder (export shim): every coordinate within 1/214 of the requested one; non-trivial = all", farStarts, farCurves),
			})
			fams = append(fams, mc.Family{
				Name: "drift-long-paths", Items: numLetters * len(formats), Budget: budget,
				Rule: "item = one (delta, kind) x file format: a path of 10,000 such segments; encoder -> exact reconstruction and library decoder on the full path (format index 0), and Font.Write -> Read and -> independent decoder in each format (on the longest prefix whose charstring fits the 65535-byte PostScript string limit): every absolute coordinate within 1/214 of the requested one; non-trivial = all",
				Body: longBody(10000),
			})
			return fams
		},
	})
}
