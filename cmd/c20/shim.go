package main

import "seehuhn.de/go/postscript/type1"

// This file is the variant compiled when the export shim is NOT available
// (an internal name of package type1 changed, or the check is built without
// its overlay).  overlay.sh replaces it by shim_on.go.txt when the shim
// compiles.

const shimAvailable = false

func shimAppendInt(buf []byte, x int32) []byte { panic("export shim not available") }

func shimAppendNumber(buf []byte, x float64) ([]byte, float64) { panic("export shim not available") }

func shimEncode(g *type1.Glyph, wx, wy int32) []byte { panic("export shim not available") }

func shimDecode(code []byte) (*type1.Glyph, error) { panic("export shim not available") }
