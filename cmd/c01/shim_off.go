//go:build noshim

package main

const shimAvailable = false

func decodeCharString(code []byte, subrs [][]byte) error {
	return readFontWith(code, subrs, 4)
}
