//go:build !noshim

package main

import "seehuhn.de/go/postscript/type1"

const shimAvailable = true

func decodeCharString(code []byte, subrs [][]byte) error {
	_, err := type1.VerifDecodeCharString(code, subrs)
	return err
}
