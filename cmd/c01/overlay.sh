#!/bin/bash
# writes the overlay that adds the export shim to package type1
here="$(cd "$(dirname "$0")" && pwd)"
cat > "$1" <<JSON
{"Replace": {"/repo/type1/zz_verif_export_c01.go": "$here/export_type1.go.txt"}}
JSON
